"""Per-property build units and runs for /verif/check.

unit:  name, dir (package directory relative to /repo), src (directory under
       /verif/harness whose *.go files are overlaid into the package as
       zz_verif_<ID>_<file>_test.go), runs.
run:   name, run (-test.run regex), quick/thorough (rapid checks per run; 0 =
       not a rapid test), shards_quick/shards_thorough (processes with distinct
       seeds; checks are divided between them), race, timeout, solo.
"""

D = "internal/dnsserver/"

# commits in /repo that add build-tag-guarded hooks (none: the overlay gives in-package access)
HOOK_COMMITS = []

CHECKS = {
    "C04": dict(
        level="exploration",
        level_text="Generated-input search: a bounded-exhaustive (shape, ttl, age) grid and rapid-drawn ages through fromCacheItem, and rapid stateful histories (queries interleaved with clock advances) compared with a fresh-instance twin, a TTL inequality and an upstream-call counter. Held on N cases is evidence, not proof; exhaustive only for the listed ttl values on a 100 ms grid.",
        level_note="Trusts miekg/dns, gcache/agdcache expiry, and that rewinding stored timestamps is equivalent to the passage of time; upstream is assumed EDNS-conforming (echoes OPT and DO).",
        technique="property-based testing (rapid): bounded-exhaustive age grid + stateful histories vs fresh-twin differential and TTL inequality",
        assumptions=[
            "miekg/dns codec, gcache expiry and agdcache LRU are trusted",
            "time is owned by rewinding the stored items' timestamps and by a harness-clocked store behind the middleware's cache field; the wall clock only adds microseconds, which the one-sided TTL bound tolerates",
        ],
        units=[
            dict(name="cache", dir=D + "cache", src="C04/cache", runs=[
                dict(name="agegrid", run="^TestVerifC04AgeGrid$", quick=0, thorough=0),
                dict(name="agerapid", run="^TestVerifC04AgeRapid$", quick=20000, thorough=400000, shards_thorough=4),
                dict(name="history", run="^TestVerifC04History$", quick=3000, thorough=120000, shards_thorough=8),
            ]),
        ],
    ),
}
