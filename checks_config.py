"""Per-property build units and runs for /verif/check.

Each property has /verif/config/<ID>.py defining CHECK = dict(...):

  level, level_text, level_note, technique, assumptions, units

unit:  name, dir (package directory relative to /repo), src (directory, or list
       of directories, under /verif/harness whose *.go files are overlaid into
       the package as zz_verif_<ID>_<file>_test.go), optional testdata=True
       (copy the package's testdata/ next to the test binary's work dir), runs.
run:   name, run (-test.run regex), quick/thorough (rapid checks per run; 0 =
       not a rapid test), shards_quick/shards_thorough (processes with distinct
       seeds; checks are divided between them), race (build and run with
       -race), timeout / timeout_quick / timeout_thorough (seconds), solo (run
       alone after the parallel batch: timing-sensitive), tier_only, env,
       fuzz + fuzztime (thorough only: native go fuzzing of that target).
"""

import importlib.util
import glob
import os

_here = os.path.dirname(os.path.abspath(__file__))

# commits in /repo that add build-tag-guarded hooks (none: the overlay gives in-package access)
HOOK_COMMITS = []

CHECKS = {}
for _f in sorted(glob.glob(os.path.join(_here, "config", "C*.py"))):
    _spec = importlib.util.spec_from_file_location("vcfg_" + os.path.basename(_f)[:-3], _f)
    _m = importlib.util.module_from_spec(_spec)
    _spec.loader.exec_module(_m)
    CHECKS[os.path.basename(_f)[:-3]] = _m.CHECK
