CHECK = dict(
    level="exploration",
    level_text="Generated-input search over histories of clients: rapid draws sequences of (client address, ECS option variant, question) through the real access/rate-limit middleware composed with the real ECS cache in front of a recording upstream that tags scoped answers with the subnet it received. Oracles: membership of every upstream subnet in the GeoIP model's set for that client (never overlapping the client's address or option), /0 for declined clients, warm-vs-fresh differential, exact response-ECS echo, FORMERR for malformed options.",
    level_note="Model GeoIP (agdtest.GeoIP) plus geoip.File on the test MMDBs; upstream is EDNS-conforming and scopes answers only for names of the scoped class; FakeECSFQDNs (documented exception) are outside the generated names; miekg/dns codec trusted.",
    technique="property-based testing (rapid): stateful client histories vs GeoIP-model membership oracle, fresh-twin differential and response-ECS predicate",
    assumptions=[
        "the main run uses a model GeoIP database; a second run uses geoip.File on the repository's test MMDB files (few networks), where only membership in the database's own answers is judged",
        "clock not advanced: TTL 300 answers never expire within a case (expiry is C04's subject)",
        "cmd unit: cache capacities and paths of the built geoip.File and the period of its refresh worker are read from unexported fields (verif.local/harness/vpeek; the ticker period at an offset validated at run time); a changed layout is inconclusive, not a verdict",
    ],
    units=[
        dict(name="dnssvc", dir="internal/dnssvc", src="C05/dnssvc", runs=[
            dict(name="history", run="^TestVerifC05History$", quick=2500, thorough=400000, shards_thorough=12),
            dict(name="realgeoip", run="^TestVerifC05RealGeoIP$", quick=1000, thorough=100000, shards_thorough=6),
        ]),
        dict(name="cmd", dir="internal/cmd", src="C05/cmd", runs=[
            dict(name="geoip-config", run="^TestVerifC05CmdGeoIP$", quick=200, thorough=4000, shards_quick=1, shards_thorough=2),
        ]),
    ],
)
