CHECK = dict(
    level="fault_enumeration",
    level_text="Fault-sequence enumeration and generated-history search against the real billstat.RuntimeRecorder with a scripted uploader: every success/failure pattern of up to six consecutive upload attempts is enumerated with a fixed set of record placements (before the upload and re-entrantly while it is in flight); rapid draws longer patterns, more devices, random and near-miss metadata (one field changed, unknown location, device IDs differing in case only), Record and Refresh calls with cancelled / expired / cancelled-in-flight contexts, and rare overlapping refreshes. After every real call the per-device equation delivered + pending (+ in flight) = recorded and the last-writer metadata of every pending/uploaded record are compared with an explicit model. A -race variant samples real goroutine schedules and checks the same at quiescence. A second unit drives the real backendpb.BillStat uploader over a scripted gRPC client stream (open/send/close faults incl. Send reporting io.EOF with the status deferred to CloseAndRecv, done and cancelled-mid-stream contexts). A further part runs the same recorder and uploader with the real grpc-go client against an in-process gRPC server on loopback whose treatment of each upload is drawn (ack with Empty, OK without a response message, status error before/in the middle of/after reading, partial read then OK, silence until the client deadline, commit then answer too late, caller cancels mid-stream, connection dropped before/mid/after commit); in the wire and gRPC parts the batch size is a generator dimension (1..40 devices mostly; rarely 4095/4096/4097/5000/8200/12300 devices in one upload) and the scripted fault applies to a chosen stream of an upload (1st/2nd/3rd, or the 2nd if the uploader opens one and else the only one), with what the backend accepted counted per stream answered OK; there the server's own commit record (RPC finished with OK from the server's side) is the oracle's 'delivered'. Held on N histories is evidence, not proof; exhaustive only for the stated placement sets.",
    level_note="The in-flight race is modelled by records made from inside Uploader.Upload (deterministic) and sampled with real goroutines; 'delivered' means the uploader returned nil (a failed stream is assumed to be discarded by the backend as a whole). Start times are not monotone in recording order; 'most recent query' is read as the most recently recorded one.",
    technique="property-based testing (rapid): bounded-exhaustive S/F fault patterns + stateful histories with a re-entrant scripted uploader vs a counting/last-writer model; concurrent variant under -race",
    assumptions=[
        "an upload counts as delivered exactly when Uploader.Upload returns nil; partial delivery by a stream that later fails is the backend's to discard",
        "Refresh calls do not overlap for the metadata clause (one refresh worker); overlapping refreshes are exercised for conservation and for untorn metadata only",
        "'most recent query' is the most recently RECORDED query (Record is called at the end of processing with the query's start time): start times are drawn independently of the recording order (earlier, equal, later) and the reference follows recording order, as the unchanged Record and remergeRecords do",
        "counts stay far below the int32 range of Record.Queries",
        "grpc part: an upload is delivered iff the server finished the RPC with OK from its side; when the server commits but the client cannot learn it (deadline passed, connection dropped, partial read answered OK and the client noticed) only 'nothing lost' is judged for that batch, a repeated delivery of exactly that batch is not judged",
        "cmd unit: as the C14 cmd unit; a refresh 'as the worker runs it' is rec.Refresh with a context from the registered worker's own constructor; the worker's period is read out of the runtime timer behind its time.Ticker at an offset validated on tickers of known periods (inconclusive if that fails)",
    ],
    units=[
        dict(name="billstat", dir="internal/billstat", src="C16/billstat", runs=[
            dict(name="patterns", run="^TestVerifC16Patterns$", quick=0, thorough=0, shards_thorough=8, timeout_thorough=1200),
            dict(name="history", run="^TestVerifC16History$", quick=30000, thorough=1200000, shards_thorough=8),
            dict(name="concurrent", run="^TestVerifC16Concurrent$", quick=600, thorough=24000, shards_thorough=4, race=True),
        ]),
        dict(name="backendpb", dir="internal/backendpb", src="C16/backendpb", runs=[
            dict(name="wire", run="^TestVerifC16Wire$", quick=20000, thorough=800000, shards_thorough=4),
            dict(name="grpc", run="^TestVerifC16GRPC$", quick=1500, thorough=40000, shards_thorough=4),
        ]),
        dict(name="cmd", dir="internal/cmd", src="C16/cmd", runs=[
            dict(name="billstat-config", run="^TestVerifC16CmdBackend$", quick=300, thorough=12000, shards_quick=2, shards_thorough=6),
        ]),
    ],
)
