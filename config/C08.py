CHECK = dict(
    level="exploration",
    level_text="Generated-input search. rapid draws (transport in {UDP, TCP, DoT, DoH POST/GET, DoQ, DNSCrypt-UDP, DNSCrypt-TCP}) x configured UDP maximum x request EDNS settings (OPT absent / any UDP size / DO / version / padding / keep-alive / NSID / EXPIRE / cookie / ECS / local option) x handler response (0..~72 KiB, any mix of sections, with or without its own OPT, pre-set TC, pre-existing padding), with the response size steered to within a few octets of the applicable limit in 40% of the cases; each query is packed and run through the real per-transport serving function of an unstarted server into a recording connection, and the oracle (size inequality, TC/empty-answer, OPT echo, padding and keep-alive predicates) is evaluated on the bytes written. A second, bounded-exhaustive run enumerates (advertised size or none) x configured maximum over 22 edge values with responses of exactly limit-1..limit+2 octets on both UDP paths. Handler behaviour is drawn too: passes the request on / a deep copy of it / a foreign request (judged against the client's query where the transport reads it itself: DoQ, DNSCrypt; request-dependent clauses undecided on UDP/TCP/DoT/DoH, whose writers only know the request the handler passes) / fails without writing with one of eleven error classes (generic, cancelled, timeout-like context/os/net errors, wrapped and joined forms; half of these cases with the query padded to within a few octets of 512 or up to ~1100 octets) the error wrapped in 0..7 realistic annotations (0..~450 octets of text), with long names (243..255 octets) and small advertised sizes favoured, so that the server's own SERVFAIL, with or without its extended error, is judged / stays silent; queries the server answers itself (NOTIMP, FORMERR, ignored non-query) are included. Where the doc comments decide (padAnswer: pad 1..31 octets on DoT/DoH/DoQ when asked; addTCPKeepAlive: one keep-alive with the idle timeout in 100 ms units on TCP/DoT when asked) presence and value are checked as well. A sequence part runs histories of 2-6 queries (with near-miss steps: one component changed) against servers that dispose of responses into one production dnsmsg.Cloner and answer from stored messages through it; a concurrent part puts 2-4 such queries in flight on one TCP/DoT connection, UDP socket, or as parallel DoH/DoQ/DNSCrypt requests, matched by message ID, also under the race detector (schedules sampled). A stack unit puts real UDP, TCP and DoT servers on loopback in front of ratelimitmw + ecscache + a large-answer upstream and judges the datagram or frame a socket client receives (size limit, TC, OPT echo, keep-alive and padding only when asked / on DoT), first ask and cache hit. A stack part (unit stack, run options) puts ratelimitmw + the ECS cache, shared by a plain and a DoT server on loopback, in front of a scripted upstream whose answer OPT holds a drawn sequence of EDE / keep-alive / padding / NSID / cookie / subnet / local options (or which fails with a long timeout error), and lets 2-3 clients with different EDNS settings ask the same fresh name in turn (later ones from the cache); each response is judged against the asking client's own query. Held on N cases is evidence, not proof.",
    level_note="Observed at the connection handed to the server (net.PacketConn / net.Conn / quic.Stream / http.ResponseWriter / dnscrypt.ResponseWriter), not on a socket: kernel, TLS, QUIC and DNSCrypt framing are outside. For DNSCrypt the size is that of the message given to the DNSCrypt library (which packs it as is and may only shrink it further).",
    technique="property-based testing (rapid): generated (transport, cap, request, response) tuples through the real write paths vs a size inequality and EDNS predicates; bounded-exhaustive limit grid",
    assumptions=[
        "miekg/dns Pack/Unpack are trusted to be inverse on the messages generated; sizes are measured on the bytes the server wrote, never recomputed",
        "a plain-UDP query is at most 512 octets (the production read buffer, ConfigDNS.UDPSize is never set by dnssvc); a DNSCrypt-UDP query at most ~1100",
        "the handler returns the TCP keep-alive option only to a query that carried it (conforming upstream); handler responses carry no TSIG and at most one OPT",
        "math/rand's global source is seeded per case from a rapid draw so that the padding length is a function of the case (rand.Seed; GODEBUG=randseednop=0 is set for newer toolchains)",
        "cmd unit: the configuration every listener was constructed with is read from the unexported conf field of the dnsserver servers inside the service built by builder.initDNS (vpeek); listeners are constructed, never started",
    ],
    units=[
        dict(name="dnsserver", dir="internal/dnsserver", src="C08/dnsserver", runs=[
            dict(name="udpgrid", run="^TestVerifC08UDPGrid$", quick=0, thorough=0),
            dict(name="transports", run="^TestVerifC08Transports$", quick=40000, thorough=2400000,
                 shards_quick=2, shards_thorough=8, env={"GODEBUG": "randseednop=0"}),
            dict(name="recycle", run="^TestVerifC08Recycle$", quick=6000, thorough=400000,
                 shards_thorough=4, env={"GODEBUG": "randseednop=0"}),
            dict(name="concurrent", run="^TestVerifC08Concurrent$", quick=1500, thorough=60000,
                 shards_thorough=4, race=True, env={"GODEBUG": "randseednop=0"}),
        ]),
        dict(name="stack", dir="internal/dnssvc", src="C08/stack", runs=[
            dict(name="udp-limit", run="^TestVerifC08Stack$", quick=400, thorough=20000, shards_thorough=4),
            dict(name="stream", run="^TestVerifC08StackStream$", quick=300, thorough=12000, shards_thorough=4),
            dict(name="options", run="^TestVerifC08StackOptions$", quick=600, thorough=24000, shards_thorough=4),
        ]),
        dict(name="cmd", dir="internal/cmd", src="C08/cmd", runs=[
            dict(name="dns-config", run="^TestVerifC08CmdDNS$", quick=300, thorough=12000, shards_quick=2, shards_thorough=6),
        ]),
    ],
)
