CHECK = dict(
    level="exploration",
    level_text="Generated-input search. (a) Full handler stack (dnssvc.NewHandlers, shared fixture with C10) with recording query log and billing; every entry handed to the query log is also written by the real querylog.FileSystem and the JSON line is parsed. rapid draws requests x {anonymous, profile by SNI / CPE-ID / linked / dedicated address} x QueryLogEnabled x IPLogEnabled x profile/device filtering flags x scripted filtering outcome (none, request/response blocked, request/response allowed, rewritten, CNAME-rewritten) x dropped (global or profile rate limit, access-blocked, unknown dedicated address) x debug class. Oracle: entry <=> profile and QueryLogEnabled and answered; billing <=> profile and answered (for the CHAOS debug class only the necessary conditions); the client address appears in the entry and in the line iff IPLogEnabled; profile, device, name, type, rcode (of the response the client was sent), protocol, request id, time, client country/ASN, result code, list and rule of the entry and of the line are the request's own, result codes and protocol numbers as documented in doc/querylog.md. Both-stage results (request blocked/allowed/rewritten plus a response-stage block/allow with its own rule) are generated and the request-stage verdict must be the logged one. A third of the requests are near misses of their predecessor (other device/profile, identification dropped, neighbouring client, ...), half of the cases end with a batch served concurrently on the same stack and file log (also under -race), lines being matched to requests by their request ID. (b) 16 goroutines write generated entries (texts needing JSON escaping, embedded line feeds, long rules) through one querylog.FileSystem after a start barrier, also under -race; the file must split into exactly as many lines as writes, each exactly one JSON object of the documented shape, and the multiset of (u, n, q, r, l, m, f, ip, b, i) must equal what was written. Held on N cases / sampled schedules is evidence, not proof.",
    level_note="Goroutine schedules of (b) are sampled, not owned: atomicity of one write(2) with O_APPEND on a local file system is the kernel's; overlap of writers is measured and required. Device identification, access verdicts and rate-limit decisions in (a) are by construction of the fixture (C03/C10/C09 decide them). The response-country field (d), DNSSEC flag (s), elapsed time (e) and random number (rn) are not compared.",
    technique="property-based testing (rapid): request x profile-flag x outcome product on the full stack vs recording query log/billing and the documented JSONL format; concurrent writers vs line parser and multiset equality, also under -race",
    assumptions=[
        "model GeoIP, map-based profile DB, scripted filter results and rate-limit decisions",
        "whether a debug-class (CHAOS) query of a profile is logged/billed is left open by the statement: only the necessary conditions are checked for it",
        "local file system with atomic O_APPEND writes; schedules are sampled (start barrier, measured overlap)",
        "cmd unit: builder.queryLog is called directly; that builder.initDNS hands its result to the handlers is not judged",
    ],
    units=[
        dict(name="dnssvc", dir="internal/dnssvc", src=["C10/fixture", "C15/dnssvc"], runs=[
            dict(name="log", run="^TestVerifC15Log$", quick=12000, thorough=400000, shards_quick=2, shards_thorough=8),
            dict(name="lograce", run="^TestVerifC15Log$", quick=1200, thorough=30000, shards_thorough=4, race=True),
            dict(name="hashprefix", run="^TestVerifC15HashPrefix$", quick=3000, thorough=80000, shards_thorough=4),
            dict(name="realgeoip", run="^TestVerifC15RealGeoIP$", quick=600, thorough=20000, shards_thorough=4),
            dict(name="realgeoiprace", run="^TestVerifC15RealGeoIP$", quick=300, thorough=6000, shards_thorough=2, race=True),
        ]),
        dict(name="querylog", dir="internal/querylog", src="C15/querylog", runs=[
            dict(name="concurrent", run="^TestVerifC15FSConcurrent$", quick=300, thorough=12000, shards_thorough=4),
            dict(name="race", run="^TestVerifC15FSConcurrentRace$", quick=400, thorough=8000, shards_thorough=2, race=True),
        ]),
        dict(name="cmd", dir="internal/cmd", src="C15/cmd", runs=[
            dict(name="querylog-config", run="^TestVerifC15CmdQueryLog$", quick=400, thorough=8000, shards_quick=1, shards_thorough=2),
        ]),
    ],
)
