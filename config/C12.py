import os

F = "internal/filter/"
_ENV = {"VERIF_KNOWN": os.environ["VERIF_C12_KNOWN"]} if os.environ.get("VERIF_C12_KNOWN") else {}

CHECK = dict(
    level="exploration",
    level_text="placeholder",
    level_note="placeholder",
    technique="property-based testing (rapid)",
    assumptions=[],
    units=[
        dict(name="filterstorage", dir=F + "filterstorage", src="C12/filterstorage", runs=[
            dict(name="histories", run="^TestVerifC12Histories$", quick=600, thorough=30000, shards_quick=2, shards_thorough=10, env=_ENV),
        ]),
        # A unit of its own: the driver writes one overlay file per unit name, and the plain and the -race build of one
        # unit would write it concurrently.
        dict(name="filterstorage_race", dir=F + "filterstorage", src="C12/filterstorage", runs=[
            dict(name="concurrent", run="^TestVerifC12Concurrent$", quick=60, thorough=2400, shards_thorough=4, race=True, env=_ENV),
        ]),
        dict(name="hashprefix", dir=F + "hashprefix", src="C12/hashprefix", runs=[
            dict(name="refreshrace", run="^TestVerifC12RefreshRace$", quick=250, thorough=6000, shards_thorough=3, env=_ENV),
        ]),
    ],
)
