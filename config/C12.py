F = "internal/filter/"

CHECK = dict(
    level="exploration",
    level_text="Generated-input search (rapid). (a, b) Stateful histories of requests and upstream responses from three profiles and the anonymous group (own blocking mode, filtered TTL, EDE, rule lists, blocked services, safe search, hash-prefix filters, custom rules), over six overlapping hosts and six question types with varying header flags, EDNS and 0x20 case, interleaved with storage refreshes after rule-list / index / service-index / safe-search changes, hash-list refreshes and custom-rule updates (newer update time, same or changed rules), run against a real filterstorage.Default with every result cache on and against a twin whose rule-list and service caches are configured off and whose remaining caches (hash-prefix, safe-search, custom) are purged through the cache manager before every query; both download from one HTTP server whose per-path content the harness versions (staleness 0, download counts checked). Verdict kind, list, rule and the complete message must be equal at every step, and every verdict must follow from the current list versions (membership model: matching of a single rule by urlfilter is trusted, composition, versions and refreshes are not). (c) Refreshes concurrent with queries under -race with sampled schedules: only the post-quiescence clause is asserted. (c') One owned schedule for the hash-prefix filter: an in-flight FilterRequest is parked between computing its verdict and storing it (the filter's result cache is wrapped in-package), the refresh runs, the query completes, the key is asked again. Held on N generated cases is evidence, not proof.",
    level_note="Rule lists are drawn from a restricted grammar without client-specific modifiers (the statement's precondition): ||h^, @@||h^, |h^, $dnstype=A / ~A, $important, hosts-style, $dnsrewrite A / AAAA / CNAME / REFUSED, answer-address rules; no $badfilter, no $dnsrewrite exceptions, no rewrite of a name to itself. urlfilter v0.20.0 ignores DNSRequest.Answer, so a cache key without isAnswer cannot be observed through any interface; a hash-prefix cache key without the class cannot either. Goroutine schedules in (c) are sampled, not enumerated; in (c') a 40 ms grace period only selects which of two valid schedules is explored when the refresh does not reach the result cache (an implementation that makes the refresh wait for in-flight queries), it is never a verdict.",
    technique="property-based testing (rapid): stateful histories vs a cache-disabled / purged twin storage (differential) plus a list-version membership model; sampled concurrent refreshes under the race detector; one harness-owned schedule of a query in flight across a refresh",
    assumptions=[
        "miekg/dns, the agdcache LRU, and urlfilter's matching of one rule of the restricted grammar are trusted; the harness model composes single-rule matches, it does not re-implement pattern matching",
        "requests reach the filter as mainmw builds them: Host lowercased without the trailing dot, one question, ForConfig called per request; a profile's custom UpdateTime moves forward whenever its rules change (backendpb sets it to the synchronisation time)",
        "a list refresh that is not given a fault succeeds; an error report to the error collector, a failed refresh or a list that is not downloaded again with staleness 0 makes the run inconclusive, not a violation",
        "cache files are kept on /dev/shm when it exists (every download ends in an fsync); their content is not part of this property (C13)",
        "random urlfilter list IDs (31 bits) of the lists of one composite filter do not collide",
    ],
    units=[
        dict(name="filterstorage", dir=F + "filterstorage", src="C12/filterstorage", runs=[
            dict(name="histories", run="^TestVerifC12Histories$", quick=600, thorough=30000, shards_quick=2, shards_thorough=10),
        ]),
        # A unit of its own: the driver writes one overlay file per unit name, and the plain and the -race build of one
        # unit would write it concurrently.
        dict(name="filterstorage_race", dir=F + "filterstorage", src="C12/filterstorage", runs=[
            dict(name="concurrent", run="^TestVerifC12Concurrent$", quick=60, thorough=2400, shards_thorough=4, race=True),
        ]),
        dict(name="hashprefix", dir=F + "hashprefix", src="C12/hashprefix", runs=[
            dict(name="refreshrace", run="^TestVerifC12RefreshRace$", quick=250, thorough=6000, shards_thorough=3),
        ]),
    ],
)
