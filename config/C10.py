CHECK = dict(
    level="exploration",
    level_text="Generated-input search over access configurations x clients x questions on the full handler stack (dnssvc.NewHandlers) with the real access.Global and access.DefaultProfile: rapid draws global blocked subnets and name rules, 1-3 profiles with allowed/blocked subnets (nested prefixes of shared pools) and ASNs and name rules (plain domain, ||d^, $dnstype, ~type, @@ exceptions), and histories of 3-10 requests per stack (DoT by TLS server name, plain DNS by CPE-ID / linked address / dedicated address, anonymous; v4, v4-in-16-byte form, v6; IN and CH class; optional well-formed ECS naming another network; ECS cache on/off). Oracle: the reference predicate of the statement (global subnet, global name, profile: blocked-by-net-or-ASN and not allowed-by-net-or-ASN, or name rule); blocked => nil handler error (the server answers SERVFAIL on an error), zero writes and zero events on every recorder behind the access check (global and profile rate limiter, DNS check, hash matcher, filter storage and filter, upstream, DNSDB, rule statistics, billing, query log); not blocked => exactly one response that belongs to the request, filtered once, at most one upstream call, billed iff attributed to a profile. Held on N cases is evidence, not proof.",
    level_note="Model GeoIP and a map-based profile database; urlfilter's matching of the restricted rule grammar is trusted (the reference matcher re-implements only: plain domain = exact host, ||d^ = d and subdomains, $dnstype, exception beats block). The simple (non-ECS) cache type is not exercised: its metrics use promauto on the default registry, so it can be constructed only once per process. Requests that fail before the access check (malformed ECS -> FORMERR, device-data errors -> handler error) are outside the generated domain; see the report.",
    technique="property-based testing (rapid): access configurations x request histories on the full middleware stack vs reference access predicate and zero-event recorders",
    assumptions=[
        "model GeoIP (agdtest.GeoIP) and map-based profile DB; device identification is by construction (DoT SNI device ID, EDNS CPE-ID, linked IP, dedicated local address) and not the subject here (C03)",
        "rule grammar restricted to plain domains, ||d^, $dnstype=[~]T and @@||d^ exceptions over letter/digit labels; urlfilter's pattern matching is trusted",
        "rate limiters are scripted to pass (drops are C09/C15's subject); prometheus metrics and debug logs are not counted as trace",
    ],
    units=[
        dict(name="dnssvc", dir="internal/dnssvc", src=["C10/fixture", "C10/dnssvc"], runs=[
            dict(name="access", run="^TestVerifC10Access$", quick=12000, thorough=400000, shards_quick=2, shards_thorough=8),
        ]),
    ],
)
