CHECK = dict(
    level="exploration",
    level_text="Generated-input search over access configurations x clients x questions on the full handler stack (dnssvc.NewHandlers) with the real access.Global and access.DefaultProfile: rapid draws global blocked subnets and name rules, 1-3 profiles with allowed/blocked subnets (nested prefixes of shared pools) and ASNs and name rules (plain domain, ||d^, $dnstype, ~type, @@ exceptions, the root rule ||.^ and the catch-all *$dnstype=[~]T), and histories of 3-10 requests per stack (DoT by TLS server name, plain DNS by CPE-ID / linked address / dedicated address, anonymous; v4, v4-in-16-byte form, v6; IN and CH class; the root name '.' with NS/ANY/DNSKEY/A/SOA; a malformed ECS option on the wire; an invalid device ID in the DoT server name; optional well-formed ECS naming another network; ECS cache on/off). Oracle: the reference predicate of the statement (global subnet, global name, profile: blocked-by-net-or-ASN and not allowed-by-net-or-ASN, or name rule); blocked => nil handler error (the server answers SERVFAIL on an error), zero writes and zero events on every recorder behind the access check (global and profile rate limiter, DNS check, hash matcher, filter storage and filter, upstream, DNSDB, rule statistics, billing, query log); not blocked => exactly one response that belongs to the request, filtered once, at most one upstream call, billed iff attributed to a profile. A third of the requests of a history are near misses of their predecessor (exactly one of client address, qtype, letter case, one label, identification, device, class, ECS changed); half of the cases end with a batch of 2-6 requests served concurrently on the same stack (also under -race), every fake attributing its events to the request ID in the context it was called with (events without a live request ID fail the case); a caller-cancelled context is generated too (blocked => still silent). Held on N cases / sampled schedules is evidence, not proof.",
    level_note="Model GeoIP and a map-based profile database; urlfilter's matching of the restricted rule grammar is trusted (the reference matcher re-implements only: plain domain = exact host, ||d^ = d and subdomains, $dnstype, exception beats block). The simple (non-ECS) cache type is not exercised: its metrics use promauto on the default registry, so it can be constructed only once per process. Requests that are rejected for their form (malformed ECS -> FORMERR, invalid DoT device ID -> handler error) are generated: access-blocked ones must still be silent; for the others only 'exactly one FORMERR' / 'at most one response' is judged.",
    technique="property-based testing (rapid): access configurations x request histories on the full middleware stack vs reference access predicate and zero-event recorders",
    assumptions=[
        "model GeoIP (agdtest.GeoIP) and map-based profile DB; device identification is by construction (DoT SNI device ID, EDNS CPE-ID, linked IP, dedicated local address) and not the subject here (C03)",
        "rule grammar restricted to plain domains, ||d^, ||.^, *$dnstype=[~]T, $dnstype=[~]T and @@ exceptions of these over letter/digit labels (the model was compared with the real access.Global / DefaultProfile engines on these forms); urlfilter's pattern matching is trusted",
        "concurrent batches sample real goroutine schedules (start barrier); the interleaving is not owned",
        "rate limiters are scripted to pass (drops are C09/C15's subject); prometheus metrics and debug logs are not counted as trace",
        "cmd unit: a plain domain in blocked_question_domains is only judged on the name itself and on names that do not contain it (the documentation does not say whether it covers subdomains)",
    ],
    units=[
        dict(name="dnssvc", dir="internal/dnssvc", src=["C10/fixture", "C10/dnssvc"], runs=[
            dict(name="access", run="^TestVerifC10Access$", quick=12000, thorough=400000, shards_quick=2, shards_thorough=8),
            dict(name="race", run="^TestVerifC10Access$", quick=1500, thorough=40000, shards_thorough=4, race=True),
            dict(name="realgeoip", run="^TestVerifC10RealGeoIP$", quick=1000, thorough=30000, shards_thorough=4),
            dict(name="realgeoiprace", run="^TestVerifC10RealGeoIP$", quick=400, thorough=6000, shards_thorough=2, race=True),
            dict(name="realgeoiprefresh", run="^TestVerifC10RealGeoIPRefresh$", quick=800, thorough=16000, shards_thorough=4),
        ]),
        dict(name="cmd", dir="internal/cmd", src="C10/cmd", runs=[
            dict(name="access-config", run="^TestVerifC10CmdAccess$", quick=3000, thorough=120000, shards_quick=2, shards_thorough=6),
        ]),
        dict(name="geoip", dir="internal/geoip", src="C10/geoip", runs=[
            dict(name="country-scan", run="^TestVerifC10CountryScan$", quick=1500, thorough=60000, shards_thorough=4),
        ]),
        dict(name="profiledb", dir="internal/profiledb", src="C10/profiledb", runs=[
            dict(name="access-after-restart", run="^TestVerifC10AccessAfterRestart$", quick=800, thorough=30000, shards_thorough=4),
        ]),
    ],
)
