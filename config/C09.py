D = "internal/dnsserver/"

CHECK = dict(
    level="exploration",
    level_text="Generated-input search against explicit reference models. Bounded-exhaustive only for ratelimit.RequestCounter: every gap sequence of length 7 (quick) / 8 (thorough) over {0, 1 ns, ivl/2, ivl-1 ns, ivl, ivl+1 ns} for limits 0..3, three first-timestamp bases, ivl = 1 s (shorter sequences for 1 ns, 1 ms, 10 s), every prefix judged against a sliding-window log. Everything else is rapid-generated: Backoff histories with time frozen (exact per-subnet counter model + replay of one subnet's projection on a fresh limiter), Backoff histories with the harness owning the clock (all stored instants rewound between events; thorough also with real sleeps) judged by the set of per-subnet states the statement allows, evaluated with interval arithmetic over measured call instants, a configuration-plumbing part (a generated `ratelimit:` YAML section with every setting different from its neighbours, parsed and validated by package cmd's own code and built by the real builder.initRateLimiter with the allowlist source (consul or backend) on loopback stand-ins, followed by a second successful and/or a failing refresh, judged in real time by the same reference parameterised by the YAML values; shadow references with one pair of settings swapped measure that the history told them apart), and decision tables / histories through ratelimit.Middleware and dnssvc's ratelimitmw with scripted and real limiters (global Backoff, agd.DefaultRatelimiter profiles). Held on N cases is evidence, not proof.",
    level_note="Backoff and agd.DefaultRatelimiter read the wall clock themselves; sliding of the window inside Backoff is reached by rewinding ring timestamps and go-cache expirations (trusted to be equivalent to the passage of time; the thorough real-sleep variant samples the same histories without that assumption). Exact interval boundaries (diff == ivl) are decided only at RequestCounter level, where the time is an argument. Where the statement does not fix an instant the reference accepts both outcomes: (1) over-limit hits are counted together only within backoff_period (documentation and statement) - the code counts them for backoff_duration after the first hit, which is recorded as finding backoff-hits-counted-over-duration and recognised precisely by a second reference with that reading; whether all hits are forgotten at once when the first is older than min(period, duration) or slide out one by one, and whether backoff ends backoff_duration after the first hit or after the count was reached, are left open; queries dropped by backoff are not countable events; (2) once a subnet's window object is older than backoff_period the code forgets the window, so up to `limit` queries pass although the limit was reached within the interval - accepted, but measured as class window-forgotten-after-period; (3) a profile's own limit replaces the whole global limiter including ANY refusal and allowlist - accepted, measured as class any-served-under-profile-own-limit.",
    technique="property-based testing (rapid) + bounded-exhaustive enumeration: event sequences vs a sliding-window log, per-subnet reference models of Backoff (exact in frozen time, allowed-state sets with interval arithmetic when time moves), decision tables for the two middlewares",
    assumptions=[
        "miekg/dns Msg.Len, net/netip prefix containment, golibs RingBuffer/netutil and patrickmn/go-cache expiry are trusted",
        "rewinding every stored instant of a Backoff (ring timestamps, cache expirations) by d is equivalent to d of time passing; the bookkeeping error of the rewind is measured and added as slack to every comparison",
        "callers respect the configuration preconditions: counts, key lengths, intervals, backoff count and size estimate are positive; the limiter gets unmapped, valid client addresses (netutil.NetAddrToAddrPort)",
        "the slow-handler part runs in real time (interval 1 s, handler delays 0.3-0.8 s): the instants of the two limiter calls are only bounded (query: between the start of ServeDNS and the start of the handler; response: between the end of the handler and the return of ServeDNS) and the reference keeps every state those bounds allow; the required class is counted only when all probes fell at least 60 ms inside the zone where the response events alone decide",
        "schedules of the two concurrent parts (run under the race detector) are sampled, not owned; only per-client verdicts of clients that own their subnet/profile are judged exactly, the shared subnet only by a lower bound",
        "the plumbing part calls the real builder.initRateLimiter on a builder that holds only what that method reads (configuration section, environment URLs of the loopback stand-ins, loggers, a fresh prometheus registry); the refresh worker it starts ticks once an hour and stays idle; the ANY switch is written with the documented key `refuseany`",
        "a client address in IPv4-mapped form given to Backoff directly (the middlewares unmap it first) may be treated as the IPv6 address it is or as the IPv4 client it stands for, consistently; through the middlewares it is the IPv4 client",
        "a ratelimitmw case with real agd.DefaultRatelimiter profiles (fixed 1 s window) is judged only if it finished within 0.8 s of real time, otherwise discarded unjudged",
    ],
    units=[
        dict(name="ratelimit", dir=D + "ratelimit", src="C09/ratelimit", runs=[
            dict(name="counter-exh", run="^TestVerifC09CounterExhaustive$", quick=0, thorough=0),
            dict(name="counter-rapid", run="^TestVerifC09CounterRapid$", quick=50000, thorough=1200000, shards_thorough=4),
            dict(name="backoff-frozen", run="^TestVerifC09BackoffFrozen$", quick=8000, thorough=300000, shards_thorough=6),
            dict(name="backoff-sliding", run="^TestVerifC09BackoffSliding$", quick=6000, thorough=240000, shards_thorough=8),
            dict(name="mw-scripted", run="^TestVerifC09MiddlewareScripted$", quick=5000, thorough=100000, shards_thorough=2),
            dict(name="mw-backoff", run="^TestVerifC09MiddlewareBackoff$", quick=4000, thorough=100000, shards_thorough=4),
            dict(name="backoff-concurrent", run="^TestVerifC09BackoffConcurrent$", quick=1500, thorough=40000, shards_thorough=4, race=True),
            dict(name="slow-handler", run="^TestVerifC09SlowHandler$", quick=8, thorough=160, shards_quick=4, shards_thorough=8, timeout=900),
            dict(name="backoff-realtime", run="^TestVerifC09BackoffRealtime$", quick=0, thorough=480, shards_thorough=8, tier_only="thorough", timeout=1200),
        ]),
        dict(name="cmd", dir="internal/cmd", src="C09/cmd", runs=[
            dict(name="plumbing", run="^TestVerifC09ConfigPlumbing$", quick=160, thorough=2400, shards_quick=4, shards_thorough=8, timeout=1200),
        ]),
        dict(name="ratelimitmw", dir="internal/dnssvc/internal/ratelimitmw", src="C09/ratelimitmw", runs=[
            dict(name="scripted", run="^TestVerifC09MwScripted$", quick=5000, thorough=100000, shards_thorough=2),
            dict(name="real", run="^TestVerifC09MwReal$", quick=5000, thorough=120000, shards_thorough=4),
            dict(name="concurrent", run="^TestVerifC09MwConcurrent$", quick=1000, thorough=30000, shards_thorough=4, race=True),
        ]),
    ],
)
