CHECK = dict(
    level="exploration",
    level_text="TEMPORARY private config of the C14 roundtrip unit (restart, store/load round-trip, kill points); to be merged into C14.py by the lead.",
    level_note="temporary",
    technique="property-based testing (rapid): store/load round-trip, restart differential, SIGKILL at generated instants",
    assumptions=["temporary copy; see harness/C14/roundtrip/UNIT.txt"],
    units=[
        dict(name="roundtrip", dir="internal/profiledb", src="C14/roundtrip", runs=[
            dict(env={"VERIF_KNOWN": "/tmp/c14rt-known.json"}, name="roundtrip", run="^TestVerifC14rtRoundTrip$", quick=3000, thorough=120000, shards_thorough=6),
            dict(env={"VERIF_KNOWN": "/tmp/c14rt-known.json"}, name="restart", run="^TestVerifC14rtRestart$", quick=1000, thorough=48000, shards_thorough=8),
            dict(env={"VERIF_KNOWN": "/tmp/c14rt-known.json"}, name="kill", run="^TestVerifC14rtKill$", quick=80, thorough=3000, shards_thorough=4),
        ]),
    ],
)
