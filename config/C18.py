CHECK = dict(
    level="exploration",
    level_text="Generated-schedule search. (a) rapid operation sequences (start-accept, deliver-conn, close-conn once/again/concurrently, close-listener once/again, add-listener, accept on a closed listener) over 1-4 fake listeners sharing one real Limiter, stop 1..6, resume 0..stop; after every operation the harness waits for quiescence decided from state (one stop-the-world goroutine dump shows every accept goroutine finished, blocked in the fake listener, or parked; the harness' own counters did not move around the dump) and compares which accepts were admitted, which returned and how many connections are open with a hysteresis reference that carries the set of possible values of the accepting flag (the limiter's counter.current / isAccepting are compared too when they can still be read reflectively; nothing unexported is needed to build), checks open+pending <= stop at every entry of the underlying Accept, that no accept on an open listener stays parked while the counter accepts, that a closed listener has no waiters, and that every connection releases exactly one slot. Operations also include a failing pending underlying Accept (transient error, ECONNABORTED), underlying Close calls that report errors, listeners of mixed transports, and batches of 2-4 accepts/closes in flight at once (conn close racing listener close). Waiting-accepts-proceed is judged at that quiescence: no operation pending, every waiter parked, reference must accept => the waiter can never proceed => violation (state, not time-out). (c) the limiter in the real stack: a ServerDNS(TCP) and a ServerTLS share one Limiter through NewListenConfig with pipeline limiting and optionally a 30 ms idle timeout; real loopback clients open, get answered or not (server-side double close), close, reset or idle; a counting listener under the limiter gives open+pending independently: never above stop on entry of Accept, no connection closed twice under the limiter, and after shutdown (decided when the goroutine dump shows no server goroutine left) the counter equals the connections really still open; a connection the server itself never closes is recorded as left-open-by-server-at-shutdown, not judged. (b) bursts of 1..20 pipelined queries on one connection to real ServerDNS(TCP)/ServerTLS instances with MaxPipelineCount 1..4 and a handler parked on a harness channel: concurrent handler invocations <= limit at all times, every query answered exactly once after release; the same bound (and nothing answered twice) with a request-context deadline of 30-80 ms, queries arriving in two waves and a context-ignoring handler that keeps the pipeline full for 1.3-2.5 deadlines. Held on N generated cases is evidence, not proof.",
    level_note="The harness owns the order of accept/close operations; which waiter a wake-up reaches, and the interleaving of goroutines woken by one operation, are sampled from the Go scheduler (the oracle accepts every legal order). Over-admission in (b) is observed through a 2-4 ms window after each predicted arrival, so a late over-admitted query can be missed; a stalled connection is a violation only when a goroutine dump proves the reader can never get a slot, otherwise inconclusive.",
    technique="property-based testing (rapid): stateful operation sequences over fake listeners vs a hysteresis reference model with state-decided quiescence; generated bursts against real loopback TCP/DoT servers with a blocking handler",
    assumptions=[
        "Go runtime is trusted; parked goroutines are recognised in runtime.Stack dumps by their wait reason (sync.Cond.Wait, channel operations, select); a limiter waiting in another way makes the run inconclusive, not wrong",
        "fake listeners/connections stand in for the kernel: Accept blocks until the harness delivers or closes, Close never fails",
        "loopback TCP, crypto/tls, miekg/dns and the ants worker pool are trusted in the pipeline part",
        "wall-clock time-outs (30 s) are inconclusive, never a violation",
        "(d) a real dnssvc.Service built by dnssvc.New + dnssvc.NewListener with address-bound and own-listen-config (bind_interfaces-like, counting fake) DNS and DoT servers on one limiter: served connections on address-bound servers + exact open and pending under the own listen configs <= stop",
        "in the stack part resume is kept above the number of listeners, as doc/configuration.md requires (pending accepts count as connections)",
        "cmd unit: the three lines of builder.initRateLimiter that create the limiters are repeated (the method needs a Consul/backend refresh); 'an accept is parked' is read from a goroutine dump (state sync.Cond.Wait), time only bounds the wait for an inconclusive result; listeners are constructed, never started",
    ],
    units=[
        dict(name="limiter", dir="internal/connlimiter", src="C18/limiter", runs=[
            dict(name="sequences", run="^TestVerifC18Limiter$", quick=4000, thorough=120000, shards_quick=2, shards_thorough=8),
            dict(name="stack", run="^TestVerifC18Stack$", quick=150, thorough=3000, shards_thorough=4),
        ]),
        dict(name="wiring", dir="internal/dnssvc", src="C18/wiring", runs=[
            dict(name="service", run="^TestVerifC18Wiring$", quick=150, thorough=3000, shards_thorough=4),
        ]),
        dict(name="pipeline", dir="internal/dnsserver", src="C18/pipeline", runs=[
            dict(name="bursts", run="^TestVerifC18Pipeline$", quick=600, thorough=16000, shards_thorough=4),
            dict(name="deadline", run="^TestVerifC18PipelineDeadline$", quick=300, thorough=4800, shards_quick=2, shards_thorough=6),
        ]),
        dict(name="cmd", dir="internal/cmd", src="C18/cmd", runs=[
            dict(name="limits-config", run="^TestVerifC18CmdLimits$", quick=400, thorough=20000, shards_quick=2, shards_thorough=6),
        ]),
    ],
)
