D = "internal/dnsserver/"

CHECK = dict(
    level="exploration",
    level_text="Generated-input search: a bounded-exhaustive (shape, ttl, age) grid and rapid-drawn ages through fromCacheItem, and rapid stateful histories (queries interleaved with clock advances) compared with a fresh-instance twin, a TTL inequality and an upstream-call counter (answer kinds include truncated NXDOMAIN / NODATA / SERVFAIL, upstream errors and silence; near-miss repeats; concurrent clients under the race detector). A wired part runs histories of clients with different locations and ECS settings through ratelimitmw (whose pooled RequestInfo the ECS cache reads) + ecscache and compares every answer with a fresh stack's. Held on N cases is evidence, not proof; exhaustive only for the listed ttl values on a 100 ms grid.",
    level_note="Trusts miekg/dns, gcache/agdcache expiry, and that rewinding stored timestamps is equivalent to the passage of time; upstream is assumed EDNS-conforming (echoes OPT and DO).",
    technique="property-based testing (rapid): bounded-exhaustive age grid + stateful histories vs fresh-twin differential and TTL inequality",
    assumptions=[
        "miekg/dns codec, gcache expiry and agdcache LRU are trusted",
        "time is owned by rewinding the stored items' timestamps and by a harness-clocked store behind the middleware's cache field; the wall clock only adds microseconds, which the one-sided TTL bound tolerates",
        "cmd unit: dnssvc.NewHandlers is called as builder.initDNS calls it, with a two-location model GeoIP and pass-through stand-ins for every other collaborator; 'n items fit, n+1 do not' is read off upstream call counts (no eviction order assumed)",
    ],
    units=[
        dict(name="cache", dir=D + "cache", src="C04/cache", runs=[
            dict(name="agegrid", run="^TestVerifC04AgeGrid$", quick=0, thorough=0),
            dict(name="agerapid", run="^TestVerifC04AgeRapid$", quick=20000, thorough=400000, shards_thorough=4),
            dict(name="history", run="^TestVerifC04History$", quick=3000, thorough=240000, shards_thorough=12),
            dict(name="realtime", run="^TestVerifC04RealTime$", quick=4, thorough=240, shards_thorough=12),
            dict(name="concurrent", run="^TestVerifC04Concurrent$", quick=300, thorough=20000, shards_thorough=4),
            dict(name="concurrent-race", run="^TestVerifC04Concurrent$", quick=60, thorough=2000, shards_thorough=2, race=True),
        ]),
        dict(name="ecscache", dir="internal/ecscache", src="C04/ecscache", runs=[
            dict(name="agegrid", run="^TestVerifC04EcsAgeGrid$", quick=0, thorough=0),
            dict(name="agerapid", run="^TestVerifC04EcsAgeRapid$", quick=20000, thorough=400000, shards_thorough=4),
            dict(name="history", run="^TestVerifC04EcsHistory$", quick=3000, thorough=240000, shards_thorough=12),
            dict(name="realtime", run="^TestVerifC04EcsRealTime$", quick=4, thorough=240, shards_thorough=12),
        ]),
        dict(name="wired", dir="internal/dnssvc", src=["C05/dnssvc", "C04/wired"], runs=[
            dict(name="behind-ratelimitmw", run="^TestVerifC04Wired$", quick=1500, thorough=120000, shards_thorough=6),
        ]),
        dict(name="cmd", dir="internal/cmd", src="C04/cmd", runs=[
            dict(name="cache-config", run="^TestVerifC04CmdCache$", quick=1200, thorough=60000, shards_quick=2, shards_thorough=6),
        ]),
    ],
)
