import os

# Development aid: C07_KNOWN=<file> makes the test processes read that file
# instead of /verif/known_findings.json, to run the search behind findings that
# are not (yet) listed.  Unset, the committed list is used as for every check.
_env = {"VERIF_KNOWN": os.environ["C07_KNOWN"]} if os.environ.get("C07_KNOWN") else {}

CHECK = dict(
    level="exploration",
    level_text="Generated-history and sampled-schedule search. (a) rapid programs of 5..60 operations on one production dnsmsg.Cloner and five dnsmsg.Constructors that allocate from its pools: decode a drawn wire image (every RR type the cloner special-cases, HTTPS/SVCB with all value kinds and 1..8 hints, OPT with cookie/EDE/subnet/NSID/padding/DAU/local options and arbitrary EDNS flag bits, plus types left to dns.Copy), clone a live or a shared never-written message, write to a message at a reflect-enumerated place (every scalar, every slice element, append inside capacity, truncate) or the way the middlewares do (set TTLs, set ECS, insert CNAME, filter records in place, edit hints/text, set reply), Dispose (clones, constructed responses and decoded messages, as the server does), build a response with a constructor. After every step every live message must equal its holder's snapshot; a clone must equal its source structurally and on the wire and reach no writable storage the source reaches; a response built on the used pools must equal the one built on unused pools. The same machine is run by 8 goroutines on one cloner under the race detector. (b) 2..8 streams of requests from 13 clients (anonymous; devices recognised by DoT server name, EDNS CPE-ID option or linked address; 4 profiles + default group with pairwise different policies, blocking modes, TTLs, logging flags) over 1..4 shared names go through the handlers of dnssvc.NewHandlers (cache type drawn per case: ECS cache, simple cache with a registry of its own, or none; real ratelimit, initial, preservice, main, preupstream and ECS-cache middlewares, real device finder, production cloner shared with the constructors and a real hashprefix filter; deterministic per-profile filter, wire-round-trip reference upstream; in one case out of three the filters come from a real filterstorage.Default - three rule lists with result caches, one shared by all profiles and matching the generated names with 3 or 5 rules of different kinds, two more that only some profiles have, per-profile custom rules with $client / $dnstype / $important / exception rules - and the profiles from a real profiledb.Default, with bursts of 4..8 streams repeating one request on one such name) and the written message is released as ServerBase does; interleaved in a drawn order by one goroutine, and one goroutine per stream (two repetitions, under -race). A DoT part runs a real ServerTLS on loopback, with the production cloner as its Disposer and as the cloner of the ECS cache behind the real ratelimit middleware, against 2..4 clients whose queries carry padding options filled with a marker octet of their own (interleaved or at once, 3..8 rounds): every response must be the client's own and its padding zero octets only. Every response (modulo TTLs of cached records, which may only be lower), and every query-log / billing / rule-statistics / DNSDB / error record, is compared with what the same request gets alone on a fresh stack, and with the client's own identity (debug TXT records, request info seen by every fake). Held on N cases is evidence, not proof.",
    level_note="Goroutine schedules and sync.Pool hand-outs are sampled, not owned: a failure is a real execution (printed with the full request set / program) but may not replay, silence is weak evidence. With the simple cache the OPT record of upstream-derived answers is not compared (a hit carries none; the socket server's normalisation adds it) and the upstream ignores client subnets. ServerBase's release of the written message is emulated at handler level (Dispose after the handler returns, message re-packed first); the socket servers themselves are not in the loop.",
    technique="property-based testing (rapid): stateful clone/write/release histories with snapshot, aliasing and fresh-pool differential oracles; concurrent and sequential full-stack runs vs per-request fresh-stack reference; Go race detector",
    assumptions=[
        "miekg/dns codec, Msg.Copy and the Go runtime (sync.Pool, race detector) are trusted; dns.Copy is not assumed deep (its shallow cases are what one finding is about)",
        "messages enter as in production: decoded from wire, cloned, or built by a constructor; only holders write to a message; Dispose is applied to clones, constructed responses and decoded upstream responses, which is what mainmw and ServerBase do",
        "the upstream is a pure function of (question, DO, forwarded subnet) and answers through a wire round trip; no rate limit or access rule fires; nothing expires within a case except by the one-sided TTL rule",
        "owner names compare case-insensitively (RFC 4343); the question section, ID, flags, OPT record and record data are compared exactly",
    ],
    units=[
        dict(name="cloner", dir="internal/dnsmsg", src="C07/cloner", runs=[
            dict(name="sequential", run="^TestVerifC07Cloner$", quick=2500, thorough=78000, shards_quick=2, shards_thorough=6, env=_env),
            dict(name="concurrent", run="^TestVerifC07ClonerConcurrent$", quick=50, thorough=1200, shards_thorough=4, race=True, env=_env),
        ]),
        dict(name="stack", dir="internal/dnssvc", src="C07/stack", runs=[
            dict(name="sequential", run="^TestVerifC07StackSequential$", quick=3000, thorough=96000, shards_thorough=6, env=_env),
            dict(name="concurrent", run="^TestVerifC07StackConcurrent$", quick=2000, thorough=48000, shards_quick=2, shards_thorough=6, env=_env),
            dict(name="concurrent-race", run="^TestVerifC07StackConcurrent$", quick=250, thorough=8000, shards_thorough=4, race=True, env=_env),
            dict(name="dot-padding", run="^TestVerifC07DoTPadding$", quick=150, thorough=6000, shards_thorough=4, env=_env),
            dict(name="dot-padding-race", run="^TestVerifC07DoTPadding$", quick=30, thorough=800, shards_thorough=2, race=True, env=_env),
        ]),
        dict(name="sockets", dir="internal/dnsserver", src="C07/sockets", runs=[
            dict(name="clients", run="^TestVerifC07Sockets$", quick=40, thorough=2000, shards_thorough=4),
            dict(name="clients-race", run="^TestVerifC07Sockets$", quick=10, thorough=200, shards_thorough=2, race=True),
        ]),
    ],
)
