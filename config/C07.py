CHECK = dict(
    level="exploration",
    level_text="TODO",
    level_note="TODO",
    technique="TODO",
    assumptions=[],
    units=[
        dict(name="cloner", dir="internal/dnsmsg", src="C07/cloner", runs=[
            dict(name="sequential", run="^TestVerifC07Cloner$", quick=3000, thorough=200000, shards_thorough=6),
            dict(name="concurrent", run="^TestVerifC07ClonerConcurrent$", quick=150, thorough=6000, shards_thorough=3, race=True),
        ]),
    ],
)
