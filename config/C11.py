F = "internal/filter/"

CHECK = dict(
    level="exploration",
    level_text="Generated-input search (rapid): histories of list versions, host lookups and refreshes through hashprefix.Filter.FilterRequest/Refresh with the result cache on; histories of list versions, prefix queries and resets through hashprefix.Matcher/Storage; and TXT questions through the preservice middleware over the real matcher. Every verdict is compared with an independent model: a Go set of the listed names (SHA-256 computed by the harness) and a harness-owned public-suffix table. Held on N generated cases is evidence, not proof.",
    level_note="Trusts crypto/sha256, miekg/dns and that the harness suffix table (com, co.uk, pvt.k12.ma.us, github.io private, test unlisted) agrees with the public-suffix data the repository is built with (self-checked at start and per lookup; a disagreement is inconclusive). 'Up to four labels' is read as in DESIGN.md: tails of the host's last four labels that are longer than the public suffix. Names between the ICANN suffix and the complete (private/default-rule) suffix are accepted either way.",
    technique="property-based testing (rapid): stateful histories vs an independent SHA-256 set model and an own public-suffix table; sampled concurrent resets vs a one-version-only oracle (also under -race)",
    assumptions=[
        "crypto/sha256 and the miekg/dns data structures are trusted; no SHA-256 collisions among generated names",
        "hosts reach the filter lowercased and without a trailing dot, list entries are lowercased names one per line ('#' in column one is a comment), as the callers and the Reset contract state",
        "the suffixes given to the Matcher are not suffixes of one another (as in cmd: .sb.dns.adguard.com and .pc.dns.adguard.com)",
        "the concurrent part samples real goroutine schedules: generation is seeded, the interleavings are not; it is bounded by iteration counts and no timing decides a verdict",
        "a legacy eight-character label whose ignored tail is not hexadecimal may be refused or served (the statement does not say)",
        "cmd unit: nothing can be downloaded (closed loopback port), so builder.initHashPrefixFilters / initFilterStorage end right after their constructors and the refresh workers are never created; list contents are put into the builder's hash storages directly",
    ],
    units=[
        dict(name="hashprefix", dir=F + "hashprefix", src="C11/hashprefix", runs=[
            dict(name="filter", run="^TestVerifC11Filter$", quick=8000, thorough=480000, shards_thorough=8),
            dict(name="matcher", run="^TestVerifC11Matcher$", quick=6000, thorough=400000, shards_thorough=4),
            dict(name="concurrent", run="^TestVerifC11Concurrent$", quick=80, thorough=1500, shards_thorough=3),
            dict(name="concurrent-filter", run="^TestVerifC11ConcurrentFilter$", quick=60, thorough=900, shards_thorough=3),
            dict(name="concurrent-race", run="^TestVerifC11Concurrent(Filter)?$", quick=15, thorough=90, race=True),
        ]),
        dict(name="preservice", dir="internal/dnssvc/internal/preservice", src="C11/preservice", runs=[
            dict(name="txt", run="^TestVerifC11Preservice$", quick=6000, thorough=300000, shards_thorough=4),
        ]),
        dict(name="cmd", dir="internal/cmd", src="C11/cmd", runs=[
            dict(name="hashprefix-config", run="^TestVerifC11CmdFilters$", quick=300, thorough=12000, shards_quick=2, shards_thorough=6),
        ]),
    ],
)
