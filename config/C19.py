CHECK = dict(
    level="exploration",
    level_text="Generated-input search: rapid-drawn raw request lines and header sets sent by a raw keep-alive TCP client (IPv4 and IPv6 loopback peers; sequences of 1-3 requests per connection in which a follow-up is the previous request with exactly one component changed) to the http.Server that websvc.New builds for a linked_ip bind, with a recording backend, judged by an allow-list predicate on what the backend received (method, documented shape, dot-segment normalisation under RFC 3986 and path.Clean, exact client-IP header, detector for forged forwarding headers: documentation-range markers and echoed empty / zero-address / other-peer values); the same generator drives shouldProxy directly for a wider path search; a concurrent part releases K=2..8 forwardable requests from pairwise distinct peers into one handler at the same moment (barrier at the handler entry, backend holds each until all K are inside) and checks each request's own client-IP header, method and path, also once under the race detector. Held on N cases is evidence, not proof.",
    level_note="Trusts net/http request parsing, net/url, httputil.ReverseProxy's transport and the kernel loopback. A path counts as leaving the prefix only if it does so under every reading the oracle knows (decoded / unreserved-only decoded x RFC 3986 remove_dot_segments / path.Clean); reading-dependent cases (%2F-dependent, slash-merging-dependent) are counted, not judged. Empty placeholder segments are not judged.",
    technique="property-based testing (rapid): raw request lines and forged header sets over real loopback HTTP against a recording backend with an allow-list oracle",
    assumptions=[
        "net/http, net/url, httputil.ReverseProxy internals and the loopback network are trusted",
        "the backend resolves dot segments by RFC 3986 remove_dot_segments or path.Clean, on the decoded path or with only unreserved escapes decoded",
        "concurrent part: goroutine schedules are sampled, not owned; the barrier only aligns the requests at the handler entry",
        "the TLS bind is driven with HTTP/1.1 only (served like mustStartServer: Serve on a TLS listener made from the server's TLS configuration); HTTP/2 is not driven",
        "the recording backend's answer is scripted per request (200, other final statuses, redirects 301/302/303/307/308 to targets outside/inside the API, on the backend or on another harness listener); every request any harness listener receives must be the client's own; whether a redirect reaches the client unchanged is only counted (the statement limits what reaches the backend)",
        "IPv4 peers are 127.0.0.1-127.0.0.8, the IPv6 peer is ::1 (the only loopback IPv6 address)",
        "cmd unit: builder.initWeb's two lines (webConfig.toInternal, websvc.New + Refresh) are repeated without starting the servers; requests are handed to the built http.Server.Handler of each linked-IP server (read via vpeek) with a forged RemoteAddr",
    ],
    units=[
        dict(name="websvc", dir="internal/websvc", src="C19/websvc", runs=[
            dict(name="wire", run="^TestVerifC19Wire$", quick=20000, thorough=800000, shards_quick=2, shards_thorough=4),
            dict(name="concurrent", run="^TestVerifC19Concurrent$", quick=3000, thorough=80000, shards_thorough=2),
            dict(name="concurrent-race", run="^TestVerifC19Concurrent$", quick=300, thorough=6000, race=True),
            dict(name="decide", run="^TestVerifC19Decide$", quick=300000, thorough=6000000, shards_thorough=2),
        ]),
        dict(name="cmd", dir="internal/cmd", src="C19/cmd", runs=[
            dict(name="web-config", run="^TestVerifC19CmdWeb$", quick=400, thorough=16000, shards_quick=2, shards_thorough=6),
        ]),
    ],
)
