CHECK = dict(
    level="exploration",
    level_text="Generated-input search over histories: a rapid state machine drives a simulated backend (devices appear, disappear, move, change or swap linked/dedicated IPs and human IDs; profiles are deleted), full / partial / failed synchronisations and lookups by all four keys against profiledb.Default, compared after every step with a reference copy of the data as of the last successful sync. The order of each background clean-up versus the next sync is owned by the harness (GOMAXPROCS(1), clean-up goroutines stay parked until the harness yields). Restart: after every generated full sync a second Default is opened on the written *.pb file and all four lookups are compared with the running database and the synchronised snapshot, setting by setting. Round-trip: generated profiles/devices with every field varied go through filecachepb.Storage Store -> file -> Load and are compared through accessors and behaviour probes (IsBlocked, Check/CountResponses/Config, Contains, Authenticate). Kill points: the test binary re-executed as a child stores alternating versions in a loop and is SIGKILLed at a generated delay; the file must load as one complete version between the last finished and the last started one.",
    level_note="Backend behaviour is the input domain (a partial sync sends every profile changed since the last sync token with all its devices; keys are unique among live devices at any instant). Preemption inside a step is not controlled; the oracle is order-independent, so that only costs sensitivity.",
    technique="property-based testing (rapid): model-based state machine vs map reference, harness-owned goroutine schedule, store/load round-trip",
    assumptions=[
        "restart/round-trip input domain is what backendpb produces: valid UTF-8 strings, auth disabled = allow-all authenticator, enabled = allow-all or bcrypt hash, full syncs carry no deleted profiles and at least one profile and one device (an all-empty cache is deliberately ignored by loadFileCache)",
        "kill points are sampled (wall-clock delay); a SIGKILL does not lose page cache, so missing fsync / power-loss atomicity is not decided",
        "the simulated backend sends consistent snapshots (keys unique among live devices, both sides of a move in the same response)",
        "Go scheduler: with GOMAXPROCS(1) a spawned goroutine does not run before the spawning goroutine yields or blocks (async preemption after ~10 ms only reorders, it cannot invalidate the oracle)",
        "cmd unit: builder.profilesEnabled and bindSet are set as initServerGroups leaves them; the builder gets a real signal handler with a notifier stand-in, whose registered refresh workers are read back (vpeek) and shut down; deadlines seen by the loopback gRPC stand-in are compared with interval arithmetic over two clock readings and 100 ms slack for gRPC's timeout encoding",
    ],
    units=[
        dict(name="profiledb", dir="internal/profiledb", src="C14/profiledb", runs=[
            dict(name="statemachine", run="^TestVerifC14StateMachine$", quick=3000, thorough=3000000, shards_thorough=12),
            dict(name="concurrent", run="^TestVerifC14Concurrent$", quick=60, thorough=4000, shards_thorough=4),
            dict(name="concurrent-race", run="^TestVerifC14Concurrent$", quick=30, thorough=1000, shards_thorough=2, race=True),
            dict(name="overlapping-refresh", run="^TestVerifC14OverlappingRefresh$", quick=150, thorough=6000, shards_thorough=6),
        ]),
        dict(name="roundtrip", dir="internal/profiledb", src="C14/roundtrip", runs=[
            dict(name="roundtrip", run="^TestVerifC14rtRoundTrip$", quick=2000, thorough=90000, shards_thorough=6),
            dict(name="restart", run="^TestVerifC14rtRestart$", quick=700, thorough=40000, shards_thorough=8),
            dict(name="kill", run="^TestVerifC14rtKill$", quick=80, thorough=2400, shards_thorough=4),
            dict(name="rt-concurrent", run="^TestVerifC14rtConcurrent$", quick=60, thorough=2000, shards_thorough=4),
            dict(name="rt-concurrent-race", run="^TestVerifC14rtConcurrent$", quick=30, thorough=600, shards_thorough=2, race=True),
        ]),
        dict(name="backendpb", dir="internal/backendpb", src="C14/backendpb", runs=[
            dict(name="conversion", run="^TestVerifC14bpConversion$", quick=2500, thorough=600000, shards_thorough=8),
            dict(name="storage", run="^TestVerifC14bpStorage$", quick=600, thorough=80000, shards_thorough=8),
            dict(name="db", run="^TestVerifC14bpDB$", quick=300, thorough=60000, shards_thorough=8),
            dict(name="db-race", run="^TestVerifC14bpDB$", quick=40, thorough=2000, shards_thorough=2, race=True),
            dict(name="fixed", run="^TestVerifC14bp(Pools|BigProfile)$", quick=0, thorough=0),
        ]),
        dict(name="cmd", dir="internal/cmd", src="C14/cmd", runs=[
            dict(name="profiledb-config", run="^TestVerifC14CmdBackend$", quick=300, thorough=12000, shards_quick=2, shards_thorough=6),
        ]),
    ],
)
