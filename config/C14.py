CHECK = dict(
    level="exploration",
    level_text="Generated-input search over histories: a rapid state machine drives a simulated backend (devices appear, disappear, move, change or swap linked/dedicated IPs and human IDs; profiles are deleted), full / partial / failed synchronisations and lookups by all four keys against profiledb.Default, compared after every step with a reference copy of the data as of the last successful sync. The order of each background clean-up versus the next sync is owned by the harness (GOMAXPROCS(1), clean-up goroutines stay parked until the harness yields). Restart and store/load round-trips are separate generated checks.",
    level_note="Backend behaviour is the input domain (a partial sync sends every profile changed since the last sync token with all its devices; keys are unique among live devices at any instant). Preemption inside a step is not controlled; the oracle is order-independent, so that only costs sensitivity.",
    technique="property-based testing (rapid): model-based state machine vs map reference, harness-owned goroutine schedule, store/load round-trip",
    assumptions=[
        "the simulated backend sends consistent snapshots (keys unique among live devices, both sides of a move in the same response)",
        "Go scheduler: with GOMAXPROCS(1) a spawned goroutine does not run before the spawning goroutine yields or blocks (async preemption after ~10 ms only reorders, it cannot invalidate the oracle)",
    ],
    units=[
        dict(name="profiledb", dir="internal/profiledb", src="C14/profiledb", runs=[
            dict(name="statemachine", run="^TestVerifC14StateMachine$", quick=3000, thorough=3000000, shards_thorough=12),
        ]),
    ],
)
