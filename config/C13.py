D = "internal/filter/filterstorage"

CHECK = dict(
    level="fault_enumeration",
    level_text="Fault enumeration plus generated search: (grid) every fault kind (connection closed, hang before headers, hang mid-body, 404, 500, empty body, body over the size limit by 1, 7 and limit octets in three forms (announced Content-Length, chunked without Content-Length, close-delimited without Content-Length), short body with larger Content-Length, truncated chunked body) at every URL (rule-list index, three rule lists, service index, two safe-search lists, three hash lists) after a successful round and before a recovery round, at a rule list without a previous version, every kind of invalid/duplicate/nil index entry at every position, and every content defect of both indexes, is run against one real filterstorage.Default + three hashprefix.Filter fed by one scripted HTTP server; (rapid) random sequences of 1+1..6 rounds mixing those faults, lists entering/leaving the index, republished versions and production-like tight contexts. After every round the version each list serves (from verdicts on self-identifying first/last markers) and the bytes of every cache file are compared with the set the statement allows, and a fresh storage over the cache directory must serve what the files hold. (crash) the test binary re-executes itself as a child that refreshes against a dribbling server and is SIGKILLed at a generated instant; every cache file must equal the previous or the new complete version and a fresh storage must serve it.",
    level_note="Kill instants are sampled (server event + microseconds, or a delay), not enumerated; durability against power loss (fsync ordering) is not observable. A 200 response carrying a complete but invalid index (not JSON, entry of the wrong JSON type, service entry with an invalid id) is treated as a complete download for the byte clause; for verdicts only 'previous or valid-part-of-new' is demanded.",
    technique="property-based testing (rapid) + bounded-exhaustive fault grid: scripted fault sequences against a version-membership oracle on verdicts and cache-file bytes; SIGKILL of a self-re-executed child at generated instants",
    assumptions=[
        "Go net/http client and server, renameio and the kernel's rename(2) are trusted to behave as on this machine's file system",
        "staleness is 1 ns so that every refresh downloads again; HTTP timeout 150 ms; a deadline error that the harness did not script (machine stall) only excuses the progress clauses, never the 'keeps the previous version' clauses",
        "the index is trusted not to name a list after another cache file (a filterKey such as 'filters.json' is outside the domain)",
        "cmd unit: source URL, cache file, staleness, HTTP timeout and maximum size are read from the unexported refreshable parts of the built objects (vpeek); the refresh workers' own interval and context timeout are created only after a successful initial refresh and are not covered",
    ],
    units=[
        dict(name="filterstorage", dir=D, src="C13/filterstorage", runs=[
            dict(name="grid", run="^TestVerifC13FaultGrid$", quick=0, thorough=0, shards_quick=5, shards_thorough=5, timeout=600),
            dict(name="faults", run="^TestVerifC13FaultSequences$", quick=300, thorough=6000,
                 shards_quick=3, shards_thorough=8, timeout_quick=300, timeout_thorough=1500),
            dict(name="crash", run="^TestVerifC13CrashPoints$", quick=40, thorough=600,
                 shards_quick=1, shards_thorough=4, timeout_quick=300, timeout_thorough=1500),
        ]),
        dict(name="cmd", dir="internal/cmd", src="C13/cmd", runs=[
            dict(name="filters-refresh-config", run="^TestVerifC13CmdFilters$", quick=300, thorough=12000, shards_quick=2, shards_thorough=6),
        ]),
    ],
)
