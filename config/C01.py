D = "internal/dnsserver"

CHECK = dict(
    level="exploration",
    level_text="Generated-input search: rapid draws structured queries (names incl. mixed case and 255-octet names, qtype/qclass alphabets and uniform values, header flags, NOTIFY, EDNS sizes and options), structured unacceptable messages (QR=1, opcodes 1-15, 0/2/3 questions, 2 answers, 2 NS) and byte-level corruptions of both (truncation, bit flips, section counts, compression pointers, garbage). Layer 1 feeds them to ServerBase.serveDNS with a WriteMsg-counting recorder and to the real receive/frame/respond code of every transport over in-memory connections; layer 2 sends them over real loopback sockets to all servers started through dnsservertest (UDP, TCP, DoT, DoH h2 GET/POST/JSON/JSON-wire, plain-HTTP DoH, h3, DoQ, DNSCrypt UDP/TCP). Oracle: a pure reference handler plus a reference accept-classifier, per-transport documented treatment of non-answers, and pairwise agreement of all complete answers. Held on N cases is evidence, not proof.",
    level_note="Trusts miekg/dns Pack/Unpack (used by both sides), the Go TLS/HTTP stacks, quic-go and ameshkov/dnscrypt as transports. Time-outs on sockets are inconclusive, never violations; expected silences are observed up to a sentinel answer plus a short grace. UDP queries longer than the 512-octet receive buffer are outside the must-answer domain (only 'no foreign answer' is required). The JSON API has no field for the authority section; that omission is counted, not judged.",
    technique="property-based testing (rapid): structured + byte-mutated DNS messages against a reference handler and accept-classifier; in-memory transports and 6 real loopback servers; cross-transport differential",
    assumptions=[
        "miekg/dns wire codec is trusted (reference classifier uses dns.Msg.Unpack of the input's own bytes)",
        "the deterministic reference handler stands for the resolver pipeline; it never writes and returns an error at once",
        "packet loss on loopback does not occur; a missing answer within the generous time-out is reported as inconclusive",
    ],
    units=[
        dict(name="inpkg", dir=D, src="C01/inpkg", runs=[
            dict(name="accept", run="^TestVerifC01Accept$", quick=10000, thorough=400000, shards_thorough=4),
            dict(name="framing", run="^TestVerifC01Framing$", quick=4000, thorough=150000, shards_thorough=6),
            dict(name="shared-deadline", run="^TestVerifC01UDPSharedDeadline$", quick=300, thorough=3000),
            dict(name="fuzz", run="^FuzzVerifC01Accept$", quick=0, thorough=0, tier_only="thorough",
                 fuzz="^FuzzVerifC01Accept$", fuzztime="150s", timeout_thorough=600, env={"GOMAXPROCS": "4"}),
        ]),
        dict(name="sockets", dir=D, src="C01/sockets", runs=[
            dict(name="sockets", run="^TestVerifC01Sockets$", quick=400, thorough=12000, shards_quick=2, shards_thorough=6,
                 timeout_quick=300, timeout_thorough=1500),
            dict(name="stream-idle", run="^TestVerifC01StreamIdle$", quick=12, thorough=150, shards_thorough=3),
            dict(name="pipeline-slow-reader", run="^TestVerifC01PipelineSlowReader$", quick=3, thorough=40, shards_thorough=2),
            dict(name="btd-read-buffer", run="^TestVerifC01BTDReadBuffer$", quick=0, thorough=0),
        ]),
        dict(name="preupstream", dir="internal/dnssvc/internal/preupstream", src="C01/preupstream", runs=[
            dict(name="metric-domains", run="^TestVerifC01PreUpstream$", quick=1500, thorough=30000, shards_thorough=3),
        ]),
    ],
)
