CHECK = dict(
    level="exploration",
    level_text="Generated-input search: rule lists rendered from a rule AST with a known meaning (block, allow, $dnstype, $dnsrewrite to IP/CNAME/rcode, hosts-style, bare host) are assigned to the custom / shared (ordered) / blocked-service / dangerous / adult / safe-search / newly-registered slots; the real composite filter (and, in the second unit, the real filter storage behind the real rate-limit + main middleware with a scripted marker-carrying upstream) is compared with a reference evaluator of the documented precedence and with a shape table of the five blocked-answer shapes. Requests on one stack form near-miss chains (only the requester / qtype / one label changed, or nothing) and a sampled round of 2-4 requests in flight at once (also under -race). Held on N generated cases is evidence, not proof.",
    level_note="Trusts urlfilter's matching of the restricted grammar (cross-checked by three metamorphic relations that do not use the reference matcher), miekg/dns, and the hash-prefix matcher (C11). Rule syntax outside the grammar ($important, $client, $denyallow, $badfilter, regex), parental pause schedules and the debug (CHAOS) path are not generated.",
    technique="property-based testing (rapid): rule-AST grammar x slot assignment x blocking mode x requester kind vs reference evaluator (set-valued where the statement leaves freedom), shape table, upstream-marker leak detector, metamorphic relations",
    assumptions=[
        "urlfilter's matching of ||D^, @@||D^, |D^, $dnstype, hosts-style and bare-host rules is trusted; the composition on top of it is what is decided",
        "the filtering request carries the lower-cased host without the trailing dot, as ratelimitmw.newRequestInfo produces it",
        "where several equally ranked rules match (several network block rules, or several hosts rules when no network block rule matches; a custom and a shared allow rule; a CNAME and an rcode rewrite of one list; verdicts on several records of one answer) every one of them is accepted as the deciding one; pinned from the doc comments: network rules before hosts rules, CNAME/rcode rewrites before address rewrites of the same list",
        "a bare IPv4 address line is a network (substring) rule for urlfilter, not a hosts rule; the reference treats it so",
        "cmd unit: filteringGroups.toInternal is called directly with a storage stand-in that knows the list IDs (builder.initFilteringGroups passes the real *filterstorage.Default, which needs a downloaded index)",
    ],
    units=[
        dict(name="composite", dir="internal/filter/internal/composite", src="C02/composite", runs=[
            dict(name="verdict", run="^TestVerifC02Verdict$", quick=6000, thorough=96000, shards_quick=2, shards_thorough=8),
        ]),
        dict(name="mainmw", dir="internal/dnssvc/internal/mainmw", src="C02/mainmw", runs=[
            dict(name="shape", run="^TestVerifC02Shape$", quick=4000, thorough=80000, shards_quick=2, shards_thorough=8),
            dict(name="shape-race", run="^TestVerifC02Shape$", quick=300, thorough=8000, shards_thorough=4, race=True),
        ]),
        dict(name="cmd", dir="internal/cmd", src="C02/cmd", runs=[
            dict(name="filtering-groups-config", run="^TestVerifC02CmdFilteringGroups$", quick=3000, thorough=120000, shards_quick=2, shards_thorough=4),
        ]),
    ],
)
