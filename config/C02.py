CHECK = dict(
    level="exploration",
    level_text="Generated-input search: rule lists rendered from a rule AST with a known meaning (block, allow, $dnstype, $dnsrewrite to IP/CNAME/rcode, hosts-style, bare host) are assigned to the custom / shared (ordered) / blocked-service / dangerous / adult / safe-search / newly-registered slots; the real composite filter (and, in the second unit, the real filter storage behind the real rate-limit + main middleware with a scripted marker-carrying upstream) is compared with a reference evaluator of the documented precedence and with a shape table of the five blocked-answer shapes. Held on N generated cases is evidence, not proof.",
    level_note="Trusts urlfilter's matching of the restricted grammar (cross-checked by three metamorphic relations that do not use the reference matcher), miekg/dns, and the hash-prefix matcher (C11). Rule syntax outside the grammar ($important, $client, $denyallow, $badfilter, regex), parental pause schedules and the debug (CHAOS) path are not generated.",
    technique="property-based testing (rapid): rule-AST grammar x slot assignment x blocking mode x requester kind vs reference evaluator (set-valued where the statement leaves freedom), shape table, upstream-marker leak detector, metamorphic relations",
    assumptions=[
        "urlfilter's matching of ||D^, @@||D^, |D^, $dnstype, hosts-style and bare-host rules is trusted; the composition on top of it is what is decided",
        "the filtering request carries the lower-cased host without the trailing dot, as ratelimitmw.newRequestInfo produces it",
        "where several equally ranked rules match (several block rules; a custom and a shared allow rule; several rewrite rules of one list; verdicts on several records of one answer) every one of them is accepted as the deciding one",
    ],
    units=[
        dict(name="composite", dir="internal/filter/internal/composite", src="C02/composite", runs=[
            dict(name="verdict", run="^TestVerifC02Verdict$", quick=10000, thorough=300000, shards_quick=2, shards_thorough=8),
        ]),
        dict(name="mainmw", dir="internal/dnssvc/internal/mainmw", src="C02/mainmw", runs=[
            dict(name="shape", run="^TestVerifC02Shape$", quick=8000, thorough=240000, shards_quick=2, shards_thorough=8),
        ]),
    ],
)
