D = "internal/dnssvc/internal/devicefinder"

CHECK = dict(
    level="exploration",
    level_text="Generated-input search over the product transport x server settings (linked IP, bind data, device domains) x model profile database (auth off / on / DoH-only, deleted and missing profiles, detached devices, linked and dedicated addresses, human ids, automatic devices) x request channels (URL path variants, userinfo absent / user only / empty / wrong / right password, TLS server name with case variants, nested labels and suffix tricks, EDNS CPE-ID valid / invalid / duplicated / near-miss codes, local and remote addresses). The real devicefinder.Default.Find is compared in both directions with an independent decision table and, separately, with six one-directional security invariants; the same cases are sent through the real ratelimitmw.Middleware.Wrap and the agd.RequestInfo shown to the next handler is checked (profile visible only for DeviceResultOK; authentication failures served once, as anonymous, with the global message constructor). Held on N cases is evidence, not proof.",
    level_note="The profile database is a model behind agdtest.ProfileDB that honours the documented contract of profiledb.Default (returns only devices listed in the returned profile, returns deleted profiles with Deleted set, wraps not-found errors one to three levels); the real profiledb is C14's subject. Passwords are checked by the real agdpasswd authenticators: real bcrypt hashes at minimal cost (random salt; no outcome depends on it), the allow-all authenticator for devices with authentication enabled but no configured password (every supplied password is accepted, an absent one is not: pinned from the unchanged code), and stored hashes that nothing can match (empty, truncated, truncated by one byte, foreign first byte, another scheme, newer version, cost 3, cost 32) for which no password is right and the result is an authentication failure served as anonymous. agd.HumanIDParser normalisation and path.Clean are trusted. Where the statement leaves a corner open (letter case of the basic-auth user and of the CPE-ID, which of several different CPE-ID options counts, first path segment that is only a suffix of a DNS path) every reading is accepted.",
    technique="property-based testing (rapid): generated worlds and requests vs an independent decision table (both directions) plus one-directional security invariants, directly and through the access/rate-limit middleware",
    assumptions=[
        "model profile database honouring the contract of profiledb.Default; passwords checked by the real agdpasswd authenticators (bcrypt at minimal cost, allow-all, unusable hashes)",
        "requests are built as the dnsserver package builds them: URL only on DoH, userinfo only on DoH, TLS server name only on DoH/DoT/DoQ, EDNS options on every transport",
        "device domains are lower-case, as produced from device_id_wildcards",
        "httpserver run: a real dnsserver.ServerHTTPS (TLS, HTTP/1.1 client, one connection per request) on loopback in front of the real finder; an Authorization header of the Basic scheme (any letter case) with a decodable user:password value is credentials also when the user name is empty, every other header form is absence of credentials; the 60 s client time-out only guards against a dead fixture (inconclusive, never a verdict)",
        "cmd unit: rate-limit and dns sections are filled in by hand next to the parsed server_groups section; the handlers are made with dnssvc.NewHandlers as builder.initDNS makes them, over a recording profile database; interface listeners use the loopback interface lo (127.0.0.0/8), a case is discarded if it is not usable",
    ],
    units=[
        dict(name="devicefinder", dir=D, src="C03/devicefinder", runs=[
            dict(name="find", run="^TestVerifC03Find$", quick=80000, thorough=1000000, shards_quick=2, shards_thorough=8),
            dict(name="middleware", run="^TestVerifC03Middleware$", quick=20000, thorough=300000, shards_quick=1, shards_thorough=4),
            dict(name="concurrent", run="^TestVerifC03Concurrent$", quick=400, thorough=8000, shards_thorough=4, race=True),
            dict(name="httpserver", run="^TestVerifC03HTTPServer$", quick=2000, thorough=24000, shards_thorough=4),
        ]),
        dict(name="cmd", dir="internal/cmd", src="C03/cmd", runs=[
            dict(name="server-groups-config", run="^TestVerifC03CmdServerGroups$", quick=500, thorough=24000, shards_quick=2, shards_thorough=6),
        ]),
    ],
)
