D = "internal/"

CHECK = dict(
    level="exploration",
    level_text="Generated-input search over mutations of config.dist.yaml, loaded by the package's own parseConfig and validate. Bounded-exhaustive parts: every single-field mutation of an automatically extracted catalogue (349 places x boundary/zero/negative/huge/missing/wrong-enum/dangling-reference values), every (switch or enum, sibling) pair with all values, every pair of sibling integers over boundary values in both orders, every switch with every nested invalid value, every pair of valid alternatives of different sections (flags both ways, other enum values, other forms of sections) with the listeners really started, every server group made of one or two server variants (each protocol, bound to addresses or interfaces, with fitting and unfitting sections) x the states of its tls section. Rapid part: subsets of 1-4 fields (biased to one), properties of one object together, threshold pairs. An accepted configuration is checked against a hand-listed table of documented requirements, built with the builder's own methods and conversions (rate limiter, connection limiter, caches, filters, GeoIP, TLS, server groups, handlers, unstarted listeners), checked for faithful conversion, and asked to serve an IPv4 and an IPv6 query on every server through the real handler chain and forwarder to a loopback upstream; a rejected one must name a mutated property. Held on N cases is evidence, not proof; the three enumerations are exhaustive only for the listed value sets.",
    level_note="Start-up steps that need the outside world (backend gRPC, Consul, Redis, filter downloads, listening sockets, web service start) are cut at their first network access; the first address-bound listener of every protocol and (as root) all listeners of the first interface-bound plain-DNS server behind the real bind-to-device manager on lo (plain DNS, DoT, DoH, DoQ, DNSCrypt) is really started on an ephemeral loopback port and queried with a client of its protocol whenever the listener-related sections differ from the distributed file; the other listeners are constructed but not started. A real-listener failure counts only if it repeats with fresh listeners. Sizes above 2^22 entries are not built (memory), no verdict is drawn from elapsed time.",
    technique="property-based testing (rapid) + bounded-exhaustive mutation of the distributed configuration, with a requirement table, builder/handler exercise, conversion-fidelity and error-naming oracles",
    assumptions=[
        "yaml.v2, miekg/dns, prometheus client, the kernel's loopback networking and the interface name 'lo' are trusted",
        "the distributed configuration is rebound to local files, a loopback upstream, the interface 'lo' and single-address bind subnets; nothing else of it is changed",
        "the requirement table is hand-listed from doc/configuration.md, config.dist.yaml and the documented requirements of the constructors the values are handed to",
        "constructors are deterministic: a start-up step whose whole input equals that of the distributed configuration (exercised completely once per process) is not repeated",
    ],
    units=[
        dict(name="cmd", dir=D + "cmd", src="C20/cmd", runs=[
            dict(name="singles", run="^TestVerifC20Singles$", quick=0, thorough=0, shards_quick=3, shards_thorough=3),
            dict(name="switches", run="^TestVerifC20Switches$", quick=0, thorough=0, shards_quick=2, shards_thorough=2),
            dict(name="thresholds", run="^TestVerifC20Thresholds$", quick=0, thorough=0, shards_quick=2, shards_thorough=2),
            dict(name="disabled", run="^TestVerifC20DisabledSections$", quick=0, thorough=0, shards_quick=3, shards_thorough=3),
            dict(name="validpairs", run="^TestVerifC20ValidPairs$", quick=0, thorough=0, shards_quick=6, shards_thorough=6),
            dict(name="backendusage", run="^TestVerifC20BackendUsage$", quick=0, thorough=0),
            dict(name="refreshintervals", run="^TestVerifC20RefreshIntervals$", quick=0, thorough=0),
            dict(name="protocolsets", run="^TestVerifC20ProtocolSets$", quick=0, thorough=0),
            dict(name="mutate", run="^TestVerifC20Mutate$", quick=4000, thorough=200000, shards_quick=2, shards_thorough=8),
        ]),
    ],
)
