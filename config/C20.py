D = "internal/"

CHECK = dict(
    level="exploration",
    level_text="Generated-input search over mutations of config.dist.yaml: every single-field mutation of an automatically extracted catalogue (bounded-exhaustive) plus rapid-drawn subsets of 1-4 fields and sibling threshold pairs, loaded by the package's own parseConfig and validate. Accepted configurations are checked against a hand-listed table of documented requirements, built with the builder's own methods and conversions and asked to serve IPv4 and IPv6 queries on every server; rejected ones must name a mutated property. Held on N cases is evidence, not proof.",
    level_note="Start-up steps that need the outside world (backend gRPC, Consul, Redis, filter downloads, listening sockets) are cut at their first network access; the upstream is a loopback server.",
    technique="property-based testing (rapid) + bounded-exhaustive single-field mutation of the distributed configuration, with a requirement table, constructor/handler exercise and an error-naming oracle",
    assumptions=[
        "yaml.v2, miekg/dns, prometheus client, the kernel's loopback networking and the interface name 'lo' are trusted",
        "the distributed configuration is rebound to local files, a loopback upstream and single-address bind subnets; nothing else of it is changed",
        "the requirement table is hand-listed from doc/configuration.md, config.dist.yaml and the documented requirements of the constructors",
    ],
    units=[
        dict(name="cmd", dir=D + "cmd", src="C20/cmd", runs=[
            dict(name="singles", run="^TestVerifC20Singles$", quick=0, thorough=0),
            dict(name="switches", run="^TestVerifC20Switches$", quick=0, thorough=0),
            dict(name="thresholds", run="^TestVerifC20Thresholds$", quick=0, thorough=0),
            dict(name="mutate", run="^TestVerifC20Mutate$", quick=4000, thorough=320000, shards_quick=2, shards_thorough=8),
        ]),
    ],
)
