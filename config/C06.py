D = "internal/dnsserver"

CHECK = dict(
    level="exploration",
    level_text="Generated-input search over (history, next message) pairs on every pooled receive path: rapid draws histories of valid marker messages and a next message that is valid, truncated, declares more records than it carries or points beyond its own end; a real plain-DNS server on loopback (UDP, TCP with queries of up to 60 KiB beyond the initial pooled buffer size, frames split in two segments) and one behind a bindtodevice.Manager bound to lo (the receive path of interface listeners, with its own pooled body buffers) echo a digest of the decoded request; the decoding result of the warmed real code must equal the decoding of the next message's own bytes in a buffer of exactly its length (reference decode), and must not contain any marker. Truncation offsets are also enumerated exhaustively for fixed messages.",
    level_note="Trusts miekg/dns Unpack as the reference decoder of a message's own bytes. Buffer reuse relies on sync.Pool handing back the same buffer on the same goroutine (a pool miss only costs sensitivity). DoH request bodies (POST over HTTP/2 and HTTP/1.1, GET) are exercised over real loopback servers after bodies that were cut short; HTTP/3 bodies are not. The bind-to-device part needs CAP_NET_RAW (SO_BINDTODEVICE on lo); without it that part is skipped and says so in the evidence.",
    technique="property-based testing (rapid) + bounded-exhaustive cut points + native coverage-guided fuzzing of the two in-memory read paths (thorough tier): warmed real read path vs reference decode of the message's own bytes, marker-leak detector",
    assumptions=[
        "miekg/dns Unpack of a byte slice of exactly the message's length is the reference semantics of 'its own bytes'",
        "sync.Pool reuse on one goroutine is likely but not guaranteed; misses reduce sensitivity, never soundness",
    ],
    units=[
        dict(name="dnsserver", dir=D, src="C06/dnsserver", runs=[
            dict(name="quic", run="^TestVerifC06QUIC$", quick=4000, thorough=200000, shards_thorough=6),
            dict(name="quic-cuts", run="^TestVerifC06QUICCuts$", quick=0, thorough=0),
            dict(name="sockets", run="^TestVerifC06Sockets$", quick=400, thorough=4000, shards_thorough=4),
            # one P: sync.Pool then hands a buffer that one goroutine put straight to the next taker
            dict(name="sockets-1p", run="^TestVerifC06Sockets$", quick=250, thorough=1800, shards_thorough=3, env={"GOMAXPROCS": "1"}),
            # pools after error paths: concurrent clients after aborted bodies and over-full pipelines
            dict(name="pools", run="^TestVerifC06Pools$", quick=60, thorough=1200, shards_thorough=4),
            dict(name="pools-1p", run="^TestVerifC06Pools$", quick=60, thorough=900, shards_thorough=3, env={"GOMAXPROCS": "1"}),
            dict(name="quic-fuzz", run="^FuzzVerifC06QUIC$", quick=0, thorough=0, tier_only="thorough",
                 fuzz="^FuzzVerifC06QUIC$", fuzztime="90s", timeout_thorough=600, env={"GOMAXPROCS": "4"}),
        ]),
        # DoQ streams of one connection read concurrently, from an external test
        # package (independent of unexported names of the package)
        dict(name="dnsserver-ext", dir=D, src="C06/dnsserver_ext", runs=[
            dict(name="doq-streams", run="^TestVerifC06DoQStreams$", quick=150, thorough=3000, shards_thorough=3),
            dict(name="doq-streams-1p", run="^TestVerifC06DoQStreams$", quick=100, thorough=1500, shards_thorough=2, env={"GOMAXPROCS": "1"}),
            # DoH bodies: judged requests after POST bodies that were cut short
            dict(name="doh-bodies", run="^TestVerifC06DoHBodies$", quick=200, thorough=4000, shards_thorough=3),
            dict(name="doh-bodies-1p", run="^TestVerifC06DoHBodies$", quick=150, thorough=2000, shards_thorough=2, env={"GOMAXPROCS": "1"}),
        ]),
        dict(name="bindtodevice", dir="internal/bindtodevice", src="C06/bindtodevice", runs=[
            dict(name="btd-udp", run="^TestVerifC06BindToDevice$", quick=300, thorough=3000, shards_thorough=2),
            dict(name="btd-udp-1p", run="^TestVerifC06BindToDevice$", quick=200, thorough=1500, shards_thorough=2, env={"GOMAXPROCS": "1"}),
        ]),
        dict(name="forward", dir=D + "/forward", src="C06/forward", runs=[
            dict(name="readmsg", run="^TestVerifC06UpstreamRead$", quick=4000, thorough=200000, shards_thorough=6),
            dict(name="exchange", run="^TestVerifC06UpstreamExchange$", quick=600, thorough=20000, shards_thorough=4),
            dict(name="handler", run="^TestVerifC06HandlerForward$", quick=400, thorough=12000, shards_thorough=4),
            dict(name="readmsg-fuzz", run="^FuzzVerifC06Upstream$", quick=0, thorough=0, tier_only="thorough",
                 fuzz="^FuzzVerifC06Upstream$", fuzztime="90s", timeout_thorough=600, env={"GOMAXPROCS": "4"}),
        ]),
    ],
)
