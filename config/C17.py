D = "internal/dnsserver/"

CHECK = dict(
    level="fault_enumeration",
    level_text="Generated fault sequences: rapid-drawn histories of queries, health-check rounds, per-upstream behaviour switches (reply / non-NOERROR reply / four kinds of network error / three kinds of non-network error / no reply) and clock steps biased to the backoff boundary, for 1-3 main and 0-2 fallback upstreams, compared step by step with a reference fail-over state machine; the same reference is run against real UpstreamPlain clients and loopback UDP/TCP servers that are closed, reopened and made to answer wrongly; reply acceptance is checked on generated wrong-ID / wrong-name / case-only / wrong-type / question-count / TC / garbage replies. Held on N histories is evidence, not proof; the space of fault sequences is sampled, not enumerated completely.",
    level_note="Time is owned by rewinding upstreamStatus.lastFailedHealthcheck (and the wall clock in between is bounded from both sides; a history in which it could have crossed a backoff boundary is discarded). Sequential histories only: concurrent Refresh/ServeDNS schedules are not explored. Handler.rand is replaced by a generator seeded from a rapid draw.",
    technique="property-based testing (rapid): stateful fault-sequence histories vs a reference state machine; scripted upstream fakes and real loopback UDP/TCP servers",
    assumptions=[
        "miekg/dns codec and the kernel's loopback networking (ICMP port-unreachable for closed UDP ports, RST for closed TCP ports) are trusted",
        "rewinding lastFailedHealthcheck by d is equivalent to d of elapsed time",
        "a 'network error' is an error chain containing a net.Error (what the sockets produce for refused/timed-out exchanges); io.EOF and context errors are not generated",
        "a health-check probe sent to an upstream that is in backoff is not a violation (doc/configuration.md says the healthcheck is still performed); only a return to rotation before the backoff has elapsed is",
    ],
    units=[
        dict(name="forward", dir=D + "forward", src="C17/forward", runs=[
            dict(name="history", run="^TestVerifC17History$", quick=40000, thorough=2000000, shards_quick=2, shards_thorough=8),
            dict(name="accept", run="^TestVerifC17Accept$", quick=5000, thorough=200000, shards_quick=1, shards_thorough=2),
            dict(name="sockets", run="^TestVerifC17Sockets$", quick=2000, thorough=80000, shards_quick=2, shards_thorough=4),
        ]),
    ],
)
