D = "internal/dnsserver/"

CHECK = dict(
    level="fault_enumeration",
    level_text="Generated fault sequences: rapid-drawn histories of queries, health-check rounds, per-upstream behaviour switches (reply / non-NOERROR reply / four kinds of network error / three kinds of non-network error / no reply) and clock steps biased to the backoff boundary, for 1-3 main and 0-2 fallback upstreams, compared step by step with a reference fail-over state machine; the same reference is run against real UpstreamPlain clients and loopback UDP/TCP servers that are closed, reopened and made to answer wrongly; reply acceptance is checked on generated wrong-ID / wrong-name / case-only / wrong-type / question-count / TC / garbage replies, on replies of minimal size and at the UDP (4096) and TCP (65535) limits, on stale replies to a near-miss previous query over reused pooled connections, TCP replies in two pieces and extra datagrams. Handler construction with the initial health check, bursts of simultaneous queries, health checks with queries in flight (also under -race), servers that drop established connections, stall until the deadline, or truncate with the TCP port closed, and dead caller contexts are part of the socket-level histories. A last part builds the handler the way the service does, from a generated `upstream:` configuration section through parseConfig / validate / toInternal / forward.NewHandler, and checks conversion fidelity and fail-over by the identity of the configured loopback server that answered. Held on N histories is evidence, not proof; the space of fault sequences is sampled, not enumerated completely.",
    level_note="Time is owned by rewinding upstreamStatus.lastFailedHealthcheck (and the wall clock in between is bounded from both sides; a history in which it could have crossed a backoff boundary is discarded). Concurrent Refresh/ServeDNS schedules are sampled (queries in flight during a round, judged against the eligible set before or after it), not enumerated. Handler.rand is replaced by a generator seeded from a rapid draw.",
    technique="property-based testing (rapid): stateful fault-sequence histories vs a reference state machine; scripted upstream fakes and real loopback UDP/TCP servers",
    assumptions=[
        "miekg/dns codec and the kernel's loopback networking (ICMP port-unreachable for closed UDP ports, RST for closed TCP ports) are trusted",
        "rewinding lastFailedHealthcheck by d is equivalent to d of elapsed time",
        "a 'network error' is an error chain containing a net.Error (what the sockets produce for refused/timed-out exchanges); io.EOF and context errors are not generated",
        "the reference uses its own limits (17-octet minimal message, 4096-octet UDP replies, 65535-octet TCP replies), not the package's constants",
        "undecided by the statement and therefore accepted both ways: EOF from a main (fail-over or not), no reply without an error, a truncated UDP reply whose TCP retry is refused (truncated reply relayed or fail-over), what a query with a cancelled/expired context returns",
        "a health-check probe sent to an upstream that is in backoff is not a violation (doc/configuration.md says the healthcheck is still performed); only a return to rotation before the backoff has elapsed is",
    ],
    units=[
        dict(name="forward", dir=D + "forward", src="C17/forward", runs=[
            dict(name="history", run="^TestVerifC17History$", quick=40000, thorough=2000000, shards_quick=2, shards_thorough=8),
            dict(name="accept", run="^TestVerifC17Accept$", quick=5000, thorough=200000, shards_quick=1, shards_thorough=2),
            dict(name="acceptseq", run="^TestVerifC17AcceptSeq$", quick=3000, thorough=120000, shards_quick=1, shards_thorough=2),
            dict(name="sockets", run="^TestVerifC17Sockets$", quick=2000, thorough=80000, shards_quick=3, shards_thorough=6, timeout_quick=900, timeout_thorough=3000),
            dict(name="slowprobe", run="^TestVerifC17SlowProbe$", quick=180, thorough=4800, shards_quick=3, shards_thorough=6, timeout_quick=900, timeout_thorough=3000),
            dict(name="history-race", run="^TestVerifC17History$", quick=2000, thorough=40000, shards_quick=1, shards_thorough=1, race=True),
            dict(name="sockets-race", run="^TestVerifC17Sockets$", quick=200, thorough=4000, shards_quick=1, shards_thorough=1, race=True, timeout_quick=900, timeout_thorough=3000),
        ]),
        dict(name="cmd", dir="internal/cmd", src="C17/cmd", runs=[
            dict(name="config", run="^TestVerifC17Config$", quick=1500, thorough=60000, shards_quick=1, shards_thorough=4),
        ]),
    ],
)
