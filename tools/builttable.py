#!/usr/bin/env python3
"""Regenerates DESIGN.md section 7.5 (what each check consists of, as built) from config/C*.py."""
import os, sys
sys.path.insert(0, '/verif')
from checks_config import CHECKS
out = ['### 7.4 The checks as built (generated from `config/C*.py`)\n',
       'Counts are rapid cases per run, `quick / thorough`; `x` = not a rapid test (bounded-exhaustive loop or',
       'fixed enumeration); `race` = built and run with the race detector.  Evidence parts in `evidence/<ID>.json`',
       'carry the measured evaluations, distinct non-trivial cases, class histograms and samples per run.\n',
       '| id | level | unit: runs | deciding method |', '|---|---|---|---|']
for pid in sorted(CHECKS):
    c = CHECKS[pid]
    us = []
    for u in c['units']:
        rs = []
        for r in u['runs']:
            q, t = r.get('quick', 0), r.get('thorough', 0)
            cnt = 'x' if not q and not t else '%s/%s' % (q, t)
            tag = ' race' if r.get('race') else ''
            if r.get('tier_only'):
                tag += ' %s-only' % r['tier_only']
            if r.get('fuzz'):
                tag += ' +native fuzz'
            rs.append('%s %s%s' % (r['name'], cnt, tag))
        us.append('**%s** (`%s`): %s' % (u['name'], u['dir'], '; '.join(rs)))
    out.append('| %s | %s | %s | %s |' % (pid, c['level'], '<br>'.join(us), c['technique']))
text = '\n'.join(out) + '\n'
p = '/verif/DESIGN.md'
s = open(p).read()
mark = '### 7.4 The checks as built'
if mark in s:
    a = s.index(mark)
    b = s.find('\n### ', a + 5)
    s = s[:a] + text + (s[b:] if b > 0 else '')
else:
    a = s.index('### 7.5 Independently seeded changes')
    s = s[:a] + text + '\n' + s[a:]
open(p, 'w').write(s)
print('ok')
