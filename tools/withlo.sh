#!/bin/sh
ip link set lo up
exec "$@"
