#!/usr/bin/env python3
"""usage: saveseed.py <name> <srcdir> <property> <demo pkg> <demo run> <caught_by|MISSED> <needs...>"""
import json, os, shutil, sys
name, src, prop, pkg, run, caught = sys.argv[1:7]
needs = " ".join(sys.argv[7:])
d = os.path.join("/verif/seeded", name)
os.makedirs(d, exist_ok=True)
for f in ("patch.diff", "demo_test.go", "NOTES.md"):
    if os.path.exists(os.path.join(src, f)):
        shutil.copy(os.path.join(src, f), os.path.join(d, f))
json.dump(dict(
    property=prop,
    origin="independent sub-agent given only the property text and its own scratch worktree",
    needs_to_manifest=needs,
    demonstration=dict(copy_to=pkg, run="go test -vet=off -count=1 -run %s" % run),
    confirmed=["patch applies to /repo HEAD and builds (both modules)",
               "demonstration passes on the unchanged tree and fails with the patch",
               "existing tests of the touched packages pass with the patch (run in a private network namespace)"],
    ran="tools/seedcheck.sh %s <dir> %s %s" % (prop, pkg, run),
    check_result=caught,
), open(os.path.join(d, "meta.json"), "w"), indent=1)
print("saved", d)
