#!/usr/bin/env python3
"""Regenerates the seeded-change table of DESIGN.md (section 7.4) from seeded/*/meta.json."""
import glob, json, os, re
rows = []
for d in sorted(glob.glob('/verif/seeded/*/')):
    m = json.load(open(os.path.join(d, 'meta.json')))
    name = os.path.basename(d.rstrip('/'))
    res = m['check_result']
    first = 'missed at first' if 'missed' in res.lower() else 'caught'
    rows.append('| %s | %s | %s | %s |' % (name, m['needs_to_manifest'].replace('|', '/'), first, res.replace('|', '/')))
table = '| seeded change | needs | verdict | detail |\n|---|---|---|---|\n' + '\n'.join(rows) + '\n'
p = '/verif/DESIGN.md'
s = open(p).read()
a = s.index('| seeded change | needs |')
b = s.index('\n\n', a) if '\n\n' in s[a:] else len(s)
s = s[:a] + table + s[b:]
open(p, 'w').write(s)
print(len(rows), 'rows;', sum('missed at first' in r for r in rows), 'missed at first')
