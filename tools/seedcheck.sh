#!/bin/bash
# usage: tools/seedcheck.sh <ID> <dir with patch.diff, demo_test.go, NOTES.md> <demo pkg dir rel. to repo> <demo -run regex> [check args]
# Confirms a seeded change in a scratch worktree: builds, demo passes without /
# fails with the change, the touched packages' own tests pass with it, and then
# runs ./check <ID> against the changed tree.  Removes the worktree afterwards.
set -u
ID=$1; DIR=$2; PKG=$3; RUN=$4; shift 4
WT=/tmp/sc-$ID-$$
TAG=$(python3 -c "import hashlib,sys;print(hashlib.sha1(sys.argv[1].encode()).hexdigest()[:8])" $WT)
export GOFLAGS= GOPROXY=off GOSUMDB=off GOTOOLCHAIN=local
git -C /repo worktree add -q --detach $WT HEAD || exit 3
trap 'git -C /repo worktree remove --force $WT >/dev/null 2>&1; git -C /repo worktree prune; rm -rf /verif/.build/alt-$TAG /verif/.work/alt-$TAG' EXIT
cp $DIR/demo_test.go $WT/$PKG/zz_seed_demo_test.go
# run tests in a private network namespace: loopback ports are contended on a busy machine
NS="unshare -n /verif/tools/withlo.sh"
gotest() { # pkg dir relative to the repo root, extra args
  local rel=$1; shift
  case "$rel" in
    internal/dnsserver) (cd $WT/internal/dnsserver && $NS go test -vet=off -count=1 "$@" .) ;;
    internal/dnsserver/*) (cd $WT/internal/dnsserver && $NS go test -vet=off -count=1 "$@" ./${rel#internal/dnsserver/}) ;;
    *) (cd $WT && $NS go test -vet=off -count=1 "$@" ./$rel) ;;
  esac
}
echo "== demo on unchanged tree (must pass)"
gotest $PKG -run "$RUN" > /tmp/sc-$$.a 2>&1; A=$?; tail -3 /tmp/sc-$$.a
git -C $WT apply $DIR/patch.diff || { echo "PATCH DOES NOT APPLY"; exit 3; }
(cd $WT && go build ./... && cd internal/dnsserver && go build ./...) || { echo "DOES NOT COMPILE"; exit 3; }
echo "== demo with change (must fail)"
gotest $PKG -run "$RUN" > /tmp/sc-$$.b 2>&1; B=$?; tail -5 /tmp/sc-$$.b
rm -f $WT/$PKG/zz_seed_demo_test.go
echo "== existing tests of touched packages with change (must pass)"
T=0
for f in $(git -C $WT diff --name-only | xargs -n1 dirname | sort -u); do
  gotest $f > /tmp/sc-$$.c 2>&1 || { if grep -q "address already in use" /tmp/sc-$$.c; then gotest $f > /tmp/sc-$$.c 2>&1 || T=1; else T=1; fi; }
  tail -1 /tmp/sc-$$.c
done
echo "demo_without=$A demo_with=$B touched_tests=$T"
[ -n "${SKIP_CHECK:-}" ] && exit 0
echo "== ./check $ID against the change"
cd /verif && VERIF_REPO=$WT ./check $ID "$@" > /tmp/sc-$$.d 2>&1; RC=$?
grep -E "VIOLATION|INCONCLUSIVE|^OK|violation rc" /tmp/sc-$$.d | head -8
echo "check_rc=$RC"
rm -f /tmp/sc-$$.?
