#!/usr/bin/env python3
"""(Kept for maintenance: the generated files under /verif/harness/<ID>/cmd are self-contained; run, then gofmt -w them.)

Generates /verif/harness/{C11,C12,C13}/cmd/*.go from one fixture text.

The three files are self-contained (each property's identifiers carry its own
prefix) so that they can be overlaid into internal/cmd separately or together.
"""
import os

FIXTURE = r'''
// @P@Settings are the values written into the YAML text and the environment.
// Every duration differs from every other duration, every count from every
// other count.
type @P@Settings struct {
	// filters
	RespTTL, RefreshIvl, RefreshTimeout, IndexTimeout, RuleListTimeout time.Duration
	CustomCache, SafeSearchCache, RuleListCache                      int
	RuleListCacheEnabled, EDE, SDE                                  bool
	MaxSize                                                          string
	maxSizeBytes                                                     uint64

	// safe_browsing and adult_blocking
	SB, AB @P@HashPrefix

	// environment
	CacheDir                                                     string
	AdultURL, SBURL, NewRegURL, IndexURL, ServicesURL, GenURL, YTURL string
	AdultOn, SBOn, NewRegOn, ServicesOn, GenOn, YTOn              bool
}

// @P@HashPrefix is one of the two hash-prefix sections.
type @P@HashPrefix struct {
	BlockHost                            string
	CacheSize                            int
	CacheTTL, RefreshIvl, RefreshTimeout time.Duration
}

func (h *@P@HashPrefix) yaml(name string) string {
	return fmt.Sprintf(`%s:
    block_host: '%s'
    cache_size: %d
    cache_ttl: %s
    refresh_interval: %s
    refresh_timeout: %s
`, name, h.BlockHost, h.CacheSize, h.CacheTTL, h.RefreshIvl, h.RefreshTimeout)
}

func (s *@P@Settings) yaml() string {
	return s.SB.yaml("safe_browsing") + s.AB.yaml("adult_blocking") + fmt.Sprintf(`filters:
    response_ttl: %s
    custom_filter_cache_size: %d
    safe_search_cache_size: %d
    refresh_interval: %s
    refresh_timeout: %s
    index_refresh_timeout: %s
    rule_list_refresh_timeout: %s
    max_size: %s
    rule_list_cache:
        enabled: %t
        size: %d
    ede_enabled: %t
    sde_enabled: %t
`, s.RespTTL, s.CustomCache, s.SafeSearchCache, s.RefreshIvl, s.RefreshTimeout, s.IndexTimeout, s.RuleListTimeout, s.MaxSize,
		s.RuleListCacheEnabled, s.RuleListCache, s.EDE, s.SDE)
}

func @P@Flag(v bool) string {
	if v {
		return "1"
	}

	return "0"
}

// env is the environment as doc/environment.md names it.
func (s *@P@Settings) env() map[string]string {
	return map[string]string{
		"ADULT_BLOCKING_URL":          s.AdultURL,
		"SAFE_BROWSING_URL":           s.SBURL,
		"NEW_REG_DOMAINS_URL":         s.NewRegURL,
		"FILTER_INDEX_URL":            s.IndexURL,
		"BLOCKED_SERVICE_INDEX_URL":   s.ServicesURL,
		"GENERAL_SAFE_SEARCH_URL":     s.GenURL,
		"YOUTUBE_SAFE_SEARCH_URL":     s.YTURL,
		"FILTER_CACHE_PATH":           s.CacheDir,
		"ADULT_BLOCKING_ENABLED":      @P@Flag(s.AdultOn),
		"SAFE_BROWSING_ENABLED":       @P@Flag(s.SBOn),
		"NEW_REG_DOMAINS_ENABLED":     @P@Flag(s.NewRegOn),
		"BLOCKED_SERVICE_ENABLED":     @P@Flag(s.ServicesOn),
		"GENERAL_SAFE_SEARCH_ENABLED": @P@Flag(s.GenOn),
		"YOUTUBE_SAFE_SEARCH_ENABLED": @P@Flag(s.YTOn),
	}
}

// @P@EnvNames are all variables the package reads; those not set by a case are
// removed for its duration so that the surroundings of the test process do not
// leak in.
var @P@EnvNames = []string{
	"ADULT_BLOCKING_URL", "BACKEND_RATELIMIT_URL", "BILLSTAT_URL", "BLOCKED_SERVICE_INDEX_URL", "CONSUL_ALLOWLIST_URL", "CONSUL_DNSCHECK_KV_URL",
	"CONSUL_DNSCHECK_SESSION_URL", "DNSCHECK_REMOTEKV_URL", "FILTER_INDEX_URL", "GENERAL_SAFE_SEARCH_URL", "LINKED_IP_TARGET_URL", "NEW_REG_DOMAINS_URL",
	"PROFILES_URL", "RULESTAT_URL", "SAFE_BROWSING_URL", "YOUTUBE_SAFE_SEARCH_URL", "BACKEND_RATELIMIT_API_KEY", "BILLSTAT_API_KEY", "CONFIG_PATH",
	"DNSCHECK_REMOTEKV_API_KEY", "FILTER_CACHE_PATH", "GEOIP_ASN_PATH", "GEOIP_COUNTRY_PATH", "PROFILES_API_KEY", "PROFILES_CACHE_PATH", "REDIS_ADDR",
	"REDIS_KEY_PREFIX", "QUERYLOG_PATH", "SSL_KEY_LOG_FILE", "SENTRY_DSN", "WEB_STATIC_DIR", "LISTEN_ADDR", "PROFILES_MAX_RESP_SIZE", "REDIS_IDLE_TIMEOUT",
	"DNSCHECK_CACHE_KV_SIZE", "REDIS_MAX_ACTIVE", "REDIS_MAX_IDLE", "LISTEN_PORT", "REDIS_PORT", "VERBOSE", "ADULT_BLOCKING_ENABLED", "LOG_TIMESTAMP",
	"NEW_REG_DOMAINS_ENABLED", "SAFE_BROWSING_ENABLED", "BLOCKED_SERVICE_ENABLED", "GENERAL_SAFE_SEARCH_ENABLED", "YOUTUBE_SAFE_SEARCH_ENABLED",
	"WEB_STATIC_DIR_ENABLED",
}

// @P@WithEnv runs f with exactly the variables of set in the process
// environment and restores the environment afterwards.
func @P@WithEnv(set map[string]string, f func()) {
	old := map[string]*string{}
	for _, n := range @P@EnvNames {
		if v, ok := os.LookupEnv(n); ok {
			old[n] = &v
		} else {
			old[n] = nil
		}

		if v, ok := set[n]; ok {
			_ = os.Setenv(n, v)
		} else {
			_ = os.Unsetenv(n)
		}
	}

	defer func() {
		for n, v := range old {
			if v == nil {
				_ = os.Unsetenv(n)
			} else {
				_ = os.Setenv(n, *v)
			}
		}
	}()

	f()
}

var (
	@P@Durations = []time.Duration{
		61 * time.Second, 2*time.Minute + 3*time.Second, 3*time.Minute + 7*time.Second, 4 * time.Minute, 5*time.Minute + 11*time.Second, 7 * time.Minute,
		11 * time.Minute, 13 * time.Minute, 17 * time.Minute, 19 * time.Minute, 23 * time.Minute, 29 * time.Minute, 31 * time.Minute, 37 * time.Second, 3 * time.Minute,
	}
	@P@Counts = []int{101, 203, 307, 409, 503, 601, 11, 1024}
	@P@Sizes  = map[string]uint64{"256KB": 256 << 10, "1MB": 1 << 20, "3MB": 3 << 20, "77MB": 77 << 20, "4097B": 4097}
)

// @P@Draw draws the settings of one case.  closed is a loopback address
// nothing listens on.
func @P@Draw(rt *rapid.T, closed, cacheDir string) (s *@P@Settings) {
	d := rapid.Permutation(@P@Durations).Draw(rt, "durations")
	c := rapid.Permutation(@P@Counts).Draw(rt, "counts")
	sizes := []string{"256KB", "1MB", "3MB", "77MB", "4097B"}
	s = &@P@Settings{
		RespTTL: d[0], RefreshIvl: d[1], RefreshTimeout: d[2], IndexTimeout: d[3], RuleListTimeout: d[4],
		CustomCache: c[0], SafeSearchCache: c[1], RuleListCache: c[2],
		RuleListCacheEnabled: rapid.Bool().Draw(rt, "ruleListCacheEnabled"),
		MaxSize:              rapid.SampledFrom(sizes).Draw(rt, "maxSize"),
		SB:                   @P@HashPrefix{CacheSize: c[3], CacheTTL: d[5], RefreshIvl: d[6], RefreshTimeout: d[7]},
		AB:                   @P@HashPrefix{CacheSize: c[4], CacheTTL: d[8], RefreshIvl: d[9], RefreshTimeout: d[10]},
		CacheDir:             cacheDir,
	}
	s.maxSizeBytes = @P@Sizes[s.MaxSize]
	switch rapid.IntRange(0, 3).Draw(rt, "ede") {
	case 0:
	case 1:
		s.EDE = true
	default:
		s.EDE, s.SDE = true, true
	}

	hosts := rapid.Permutation([]string{"standard-block.dns.example.com", "family-block.dns.example.com", "192.0.2.10", "192.0.2.20", "block.example.net"}).Draw(rt, "blockHosts")
	s.SB.BlockHost, s.AB.BlockHost = hosts[0], hosts[1]

	u := func(name string) string { return "http://" + closed + "/" + name }
	s.AdultURL, s.SBURL, s.NewRegURL = u("adult.txt"), u("dangerous.txt"), u("newreg.txt")
	s.IndexURL, s.ServicesURL, s.GenURL, s.YTURL = u("filters.json"), u("services.json"), u("general_ss.txt"), u("youtube_ss.txt")

	// The switches: the hash-prefix ones, and the general / YouTube / services
	// ones, are never all equal.
	on := func(label string) bool { return rapid.IntRange(0, 3).Draw(rt, label) != 0 }
	s.AdultOn, s.SBOn, s.NewRegOn = on("adultOn"), on("sbOn"), on("newRegOn")
	s.ServicesOn, s.GenOn, s.YTOn = on("servicesOn"), on("genOn"), on("ytOn")

	return s
}

// @P@Built is what the builder's own steps made of one case.
type @P@Built struct {
	conf *configuration
	envs *environment
	b    *builder
}

// @P@Peek reads unexported fields; the first failure is kept.
type @P@Peek struct{ err error }

func (p *@P@Peek) get(root any, path ...string) (v reflect.Value, ok bool) {
	v, err := vpeek.Get(root, path...)
	if err != nil {
		if p.err == nil {
			p.err = err
		}

		return v, false
	}

	return v, true
}

func (p *@P@Peek) dur(root any, path ...string) time.Duration {
	if v, ok := p.get(root, path...); ok && v.CanInt() {
		return time.Duration(v.Int())
	}

	return -1
}

func (p *@P@Peek) num(root any, path ...string) int64 {
	v, ok := p.get(root, path...)
	switch {
	case !ok:
		return -1
	case v.CanInt():
		return v.Int()
	case v.CanUint():
		return int64(v.Uint())
	}

	if p.err == nil {
		p.err = fmt.Errorf("vpeek: %v is not a number", path)
	}

	return -1
}

func (p *@P@Peek) str(root any, path ...string) string {
	if v, ok := p.get(root, path...); ok && v.Kind() == reflect.String {
		return v.String()
	}

	return "<unreadable>"
}

func (p *@P@Peek) flag(root any, path ...string) bool {
	if v, ok := p.get(root, path...); ok && v.Kind() == reflect.Bool {
		return v.Bool()
	}

	if p.err == nil {
		p.err = fmt.Errorf("vpeek: %v is not a bool", path)
	}

	return false
}

func (p *@P@Peek) url(root any, path ...string) string {
	v, ok := p.get(root, path...)
	if !ok {
		return "<unreadable>"
	}

	if u, isURL := v.Interface().(*url.URL); isURL && u != nil {
		return u.String()
	}

	return "<nil>"
}

// lruSize is the capacity of an agdcache.LRU behind an interface field.
func (p *@P@Peek) lruSize(root any, path ...string) int64 {
	return p.num(root, append(path, "cache", "size")...)
}

// @P@Refr describes a refreshable as it was constructed.
type @P@Refr struct {
	URL, CachePath, ID string
	Staleness, Timeout time.Duration
	MaxSize            uint64
}

func (p *@P@Peek) refr(root any, path ...string) (r @P@Refr) {
	at := func(more ...string) []string { return append(append([]string{}, path...), more...) }

	return @P@Refr{
		URL:       p.url(root, at("url")...),
		CachePath: p.str(root, at("cachePath")...),
		ID:        p.str(root, at("id")...),
		Staleness: p.dur(root, at("staleness")...),
		Timeout:   p.dur(root, at("http", "http", "Timeout")...),
		MaxSize:   uint64(p.num(root, at("maxSize")...)),
	}
}

// @P@Build parses the environment and the configuration with the package's own
// code and runs the builder's own filter steps.  The downloads all fail (the
// URLs point at a closed loopback port, the cache directory is empty), so every
// step stops after its constructor has run with the converted values.
func @P@Build(rt *rapid.T, s *@P@Settings, path string) (bt *@P@Built, text string) {
	text = s.yaml()
	if err := os.WriteFile(path, []byte(text), 0o600); err != nil {
		rt.Fatalf("harness: %v", err)
	}

	conf, err := parseConfig(path)
	if err != nil {
		rt.Fatalf("the generated configuration was not parsed: %v\n%s", err, text)
	}

	for name, v := range map[string]validator{"safe_browsing": conf.SafeBrowsing, "adult_blocking": conf.AdultBlocking, "filters": conf.Filters} {
		if verr := v.validate(); verr != nil {
			rt.Fatalf("a valid %s section was rejected: %v\n%s", name, verr, text)
		}
	}

	var envs *environment
	@P@WithEnv(s.env(), func() { envs, err = parseEnvironment() })
	if err != nil {
		rt.Fatalf("a valid environment was rejected: %v\n%v", err, s.env())
	}

	if err = envs.validate(); err != nil {
		rt.Fatalf("a valid environment was rejected: %v\n%v", err, s.env())
	}

	logger := slogutil.NewDiscardLogger()
	errColl := agdtest.NewErrorCollector()
	errColl.OnCollect = func(context.Context, error) {}
	b := &builder{
		baseLogger:     logger,
		cacheManager:   agdcache.NewDefaultManager(),
		cloner:         dnsmsg.NewCloner(metrics.ClonerStat{}),
		conf:           conf,
		env:            envs,
		errColl:        errColl,
		logger:         logger,
		mtrcNamespace:  metrics.Namespace(),
		promRegisterer: prometheus.NewRegistry(),
		debugRefrs:     debugsvc.Refreshers{},
	}

	ctx := context.Background()
	step := func(name string, wantErr bool, f func() error) {
		defer func() {
			if v := recover(); v != nil {
				rt.Fatalf("%s panicked on a valid configuration: %v\n%s%v", name, v, text, s.env())
			}
		}()

		serr := f()
		if wantErr && serr == nil {
			rt.Fatalf("harness: %s succeeded although nothing can be downloaded\n%s", name, text)
		} else if !wantErr && serr != nil {
			rt.Fatalf("%s failed on a valid configuration: %v\n%s%v", name, serr, text, s.env())
		}
	}

	// One hash-prefix filter at a time, as the first failing download ends
	// builder.initHashPrefixFilters.
	for _, which := range []string{"adult", "newreg", "dangerous"} {
		e := *envs
		e.AdultBlockingEnabled = envs.AdultBlockingEnabled && which == "adult"
		e.NewRegDomainsEnabled = envs.NewRegDomainsEnabled && which == "newreg"
		e.SafeBrowsingEnabled = envs.SafeBrowsingEnabled && which == "dangerous"
		b.env = &e
		b.promRegisterer = prometheus.NewRegistry()
		enabled := bool(e.AdultBlockingEnabled || e.NewRegDomainsEnabled || e.SafeBrowsingEnabled)
		step("builder.initHashPrefixFilters("+which+")", enabled, func() error { return b.initHashPrefixFilters(ctx) })
	}

	b.env = envs
	b.promRegisterer = prometheus.NewRegistry()
	step("builder.initFilterStorage", true, func() error { return b.initFilterStorage(ctx) })
	if b.filterStorage == nil {
		rt.Fatalf("builder.initFilterStorage left no storage behind\n%s", text)
	}

	step("builder.initMsgConstructor", false, func() error { return b.initMsgConstructor(ctx) })

	return &@P@Built{conf: conf, envs: envs, b: b}, text
}

// @P@Closed returns a loopback address nothing listens on.
func @P@Closed(tb testing.TB) string {
	l, err := net.Listen("tcp", "127.0.0.1:0")
	if err != nil {
		tb.Fatalf("fixture: %v", err)
	}

	addr := l.Addr().String()
	_ = l.Close()

	return addr
}

func @P@Inconclusive(t *testing.T, format string, args ...any) {
	msg := fmt.Sprintf(format, args...)
	fmt.Printf("VERIF-INCONCLUSIVE: %s\n", msg)
	t.Logf("VERIF-INCONCLUSIVE: %s", msg)
	t.FailNow()
}
'''

HEADER = '''//go:build verif

package cmd

%(doc)s

import (
%(imports)s
)
'''

COMMON_IMPORTS = [
    '"context"', '"fmt"', '"net"', '"net/url"', '"os"', '"path/filepath"', '"reflect"', '"sort"', '"strings"', '"testing"', '"time"',
    '"github.com/AdguardTeam/AdGuardDNS/internal/agdcache"',
    '"github.com/AdguardTeam/AdGuardDNS/internal/agdtest"',
    '"github.com/AdguardTeam/AdGuardDNS/internal/debugsvc"',
    '"github.com/AdguardTeam/AdGuardDNS/internal/dnsmsg"',
    '"github.com/AdguardTeam/AdGuardDNS/internal/metrics"',
    '"github.com/AdguardTeam/golibs/logutil/slogutil"',
    '"github.com/prometheus/client_golang/prometheus"',
    '"pgregory.net/rapid"',
    '"verif.local/harness/vpeek"',
    '"verif.local/harness/vstat"',
]


def emit(pid, doc, extra_imports, test):
    p = 'v' + pid.lower() + 'cmd'
    imports = sorted(set(COMMON_IMPORTS + extra_imports), key=lambda s: (('.' in s.split('/')[0]), s))
    std = [i for i in imports if '.' not in i.split('/')[0].strip('"')]
    oth = [i for i in imports if i not in std]
    imp = '\n'.join('\t' + i for i in std) + '\n\n' + '\n'.join('\t' + i for i in oth)
    text = HEADER % dict(doc=doc, imports=imp) + FIXTURE + test
    text = text.replace('@P@', p).replace('@ID@', pid)
    d = '/verif/harness/%s/cmd' % pid
    os.makedirs(d, exist_ok=True)
    with open(os.path.join(d, '%s_cmd_filters.go' % pid.lower()), 'w') as fh:
        fh.write(text)


# --- per-property tests ---

# ---------------------------------------------------------------------------
# C13

C13_DOC = '''// C13, configuration plumbing: generated `filters:`, `safe_browsing:` and
// `adult_blocking:` sections and the filter-related environment variables --
// every duration, count and URL different from every other -- are parsed and
// validated by the package's own code (parseConfig, parseEnvironment) and
// taken through the builder's own steps (initHashPrefixFilters,
// initFilterStorage).  Nothing can be downloaded, so every step ends right
// after its constructor ran; what each refreshable part (three hash-prefix
// lists, the rule-list index, the rule lists, the blocked-service index, the
// two safe-search lists) was constructed with -- source URL, cache file,
// staleness, HTTP timeout, maximum size -- is read back and judged by the
// documentation of the keys and variables, never by the conversion.  The one
// exception is the per-list download timeout (rule lists, safe-search lists):
// it is only recorded whether it is the documented rule_list_refresh_timeout.'''

C13_TEST = r'''
// filters.rule_list_refresh_timeout is documented as "the timeout for the filter
// update operation of each rule-list, including the safe-search ones"; which
// timeout the lists are really given does not bear on the property (a wrong
// timeout weakens no filtering), so it is recorded, not judged.
const @P@ObsRuleListTimeout = "observation:rule-list-refresh-timeout-not-used"

func TestVerif@ID@CmdFilters(t *testing.T) {
	st := vstat.New("@ID@", "cmd.filters-refresh-config",
		"rapid: `filters:`, `safe_browsing:`, `adult_blocking:` YAML sections and the filter environment (URLs, cache directory, seven on/off switches) with 11 pairwise different durations, a max_size and distinct URLs -> parseConfig, parseEnvironment, validate, builder.initHashPrefixFilters (one list at a time), builder.initFilterStorage; the source URL, cache file, staleness, HTTP timeout and maximum size every refreshable part was constructed with (read back from the built objects) against the documented meaning of the keys; a part whose switch is off must not exist; non-trivial = every case (all values differ from their neighbours), distinct by settings",
		"adult-list-built", "dangerous-list-built", "newly-registered-list-built", "some-hashprefix-list-switched-off", "blocked-services-on", "blocked-services-off",
		"general-safe-search-on-youtube-off", "youtube-safe-search-on-general-off", "both-safe-search-lists-on", "rule-list-timeout-differs-from-total-timeout")
	st.Finish(t)

	closed := @P@Closed(t)
	dir := t.TempDir()
	caseNo := 0

	rapid.Check(t, func(rt *rapid.T) {
		caseNo++
		cacheDir := filepath.Join(dir, fmt.Sprintf("filters%d", caseNo))
		if err := os.MkdirAll(cacheDir, 0o700); err != nil {
			rt.Fatalf("harness: %v", err)
		}
		defer func() { _ = os.RemoveAll(cacheDir) }()

		s := @P@Draw(rt, closed, cacheDir)
		path := filepath.Join(dir, fmt.Sprintf("c%d.yaml", caseNo))
		defer func() { _ = os.Remove(path) }()

		bt, text := @P@Build(rt, s, path)
		b := bt.b
		pk := &@P@Peek{}
		classes := map[string]bool{"rule-list-timeout-differs-from-total-timeout": s.RuleListTimeout != s.RefreshTimeout}
		var bad []string
		expect := func(what string, got, want any) {
			if got != want {
				bad = append(bad, fmt.Sprintf("%s: the configuration says %v, constructed with %v", what, want, got))
			}
		}
		// Recorded only; see @P@ObsRuleListTimeout.
		perListTimeout := func(_ string, got time.Duration) {
			if got != s.RuleListTimeout {
				classes[@P@ObsRuleListTimeout] = true
			}
		}
		isNil := func(root any, path ...string) bool {
			v, ok := pk.get(root, path...)

			return ok && v.IsNil()
		}

		// The hash-prefix lists.
		for _, h := range []struct {
			name, section, url, id string
			f                      *hashprefix.Filter
			on                     bool
			sec                    *@P@HashPrefix
		}{
			{"adult-blocking list", "adult_blocking", s.AdultURL, "adult_blocking", b.adultBlocking, s.AdultOn, &s.AB},
			{"dangerous-domains list", "safe_browsing", s.SBURL, "safe_browsing", b.safeBrowsing, s.SBOn, &s.SB},
			// "Reuse the general safe-browsing filter configuration with a new
			// URL and ID."
			{"newly-registered-domains list", "safe_browsing", s.NewRegURL, "newly_registered_domains", b.newRegDomains, s.NewRegOn, &s.SB},
		} {
			if !h.on {
				classes["some-hashprefix-list-switched-off"] = true
				if h.f != nil {
					bad = append(bad, h.name+": built although its *_ENABLED variable is 0")
				}

				continue
			} else if h.f == nil {
				bad = append(bad, h.name+": not built although its *_ENABLED variable is 1")

				continue
			}

			classes[map[string]string{"adult_blocking": "adult-list-built", "safe_browsing": "dangerous-list-built", "newly_registered_domains": "newly-registered-list-built"}[h.id]] = true
			r := pk.refr(h.f, "refr")
			expect(h.name+": source URL (its *_URL variable)", r.URL, h.url)
			expect(h.name+": cache file (FILTER_CACHE_PATH/<id>)", r.CachePath, filepath.Join(s.CacheDir, h.id))
			expect(h.name+": id", r.ID, h.id)
			expect(h.name+": staleness ("+h.section+".refresh_interval)", r.Staleness, h.sec.RefreshIvl)
			expect(h.name+": HTTP timeout ("+h.section+".refresh_timeout)", r.Timeout, h.sec.RefreshTimeout)
			expect(h.name+": maximum size (filters.max_size)", r.MaxSize, s.maxSizeBytes)
		}

		// The storage.
		fs := b.filterStorage
		expect("storage: cache directory (FILTER_CACHE_PATH)", pk.str(fs, "cacheDir"), s.CacheDir)
		expect("rule lists: staleness (filters.refresh_interval)", pk.dur(fs, "ruleListStaleness"), s.RefreshIvl)
		expect("rule lists: maximum size (filters.max_size)", uint64(pk.num(fs, "ruleListMaxSize")), s.maxSizeBytes)
		perListTimeout("rule lists", pk.dur(fs, "ruleListRefreshTimeout"))

		idx := pk.refr(fs, "ruleListIdxRefr")
		expect("rule-list index: source URL (FILTER_INDEX_URL)", idx.URL, s.IndexURL)
		expect("rule-list index: staleness (filters.refresh_interval)", idx.Staleness, s.RefreshIvl)
		expect("rule-list index: HTTP timeout (filters.index_refresh_timeout)", idx.Timeout, s.IndexTimeout)
		expect("rule-list index: maximum size (filters.max_size)", idx.MaxSize, s.maxSizeBytes)
		expect("rule-list index: cache file directory (FILTER_CACHE_PATH)", filepath.Dir(idx.CachePath), s.CacheDir)

		if s.ServicesOn {
			classes["blocked-services-on"] = true
			if isNil(fs, "services") {
				bad = append(bad, "blocked-service index: not built although BLOCKED_SERVICE_ENABLED is 1")
			} else {
				sv := pk.refr(fs, "services", "refr")
				expect("blocked-service index: source URL (BLOCKED_SERVICE_INDEX_URL)", sv.URL, s.ServicesURL)
				expect("blocked-service index: staleness (filters.refresh_interval)", sv.Staleness, s.RefreshIvl)
				// "It is currently hardcoded to 3 minutes."
				expect("blocked-service index: HTTP timeout (documented as hardcoded)", sv.Timeout, 3*time.Minute)
				expect("blocked-service index: maximum size (filters.max_size)", sv.MaxSize, s.maxSizeBytes)
				expect("blocked-service index: cache file directory (FILTER_CACHE_PATH)", filepath.Dir(sv.CachePath), s.CacheDir)
			}
		} else {
			classes["blocked-services-off"] = true
			if !isNil(fs, "services") {
				bad = append(bad, "blocked-service index: built although BLOCKED_SERVICE_ENABLED is 0")
			}
		}

		for _, ss := range []struct {
			name, field, url, id string
			on                   bool
		}{
			{"general safe-search list", "safeSearchGeneral", s.GenURL, "general_safe_search", s.GenOn},
			{"YouTube safe-search list", "safeSearchYouTube", s.YTURL, "youtube_safe_search", s.YTOn},
		} {
			if !ss.on {
				if !isNil(fs, ss.field) {
					bad = append(bad, ss.name+": built although its *_ENABLED variable is 0")
				}

				continue
			} else if isNil(fs, ss.field) {
				bad = append(bad, ss.name+": not built although its *_ENABLED variable is 1")

				continue
			}

			r := pk.refr(fs, ss.field, "flt", "refr")
			expect(ss.name+": source URL (its *_URL variable)", r.URL, ss.url)
			expect(ss.name+": id", r.ID, ss.id)
			expect(ss.name+": cache file (FILTER_CACHE_PATH/<id>)", r.CachePath, filepath.Join(s.CacheDir, ss.id))
			expect(ss.name+": staleness (filters.refresh_interval)", r.Staleness, s.RefreshIvl)
			expect(ss.name+": maximum size (filters.max_size)", r.MaxSize, s.maxSizeBytes)
			perListTimeout(ss.name, r.Timeout)
		}

		switch {
		case s.GenOn && s.YTOn:
			classes["both-safe-search-lists-on"] = true
		case s.GenOn:
			classes["general-safe-search-on-youtube-off"] = true
		case s.YTOn:
			classes["youtube-safe-search-on-general-off"] = true
		}

		if pk.err != nil {
			@P@Inconclusive(t, "the built filter objects cannot be read: %v", pk.err)
		}

		if len(bad) > 0 {
			rt.Fatalf("conversion of the filter settings:\n  %s\n%s%v", strings.Join(bad, "\n  "), text, s.env())
		}

		var cl []string
		for c, ok := range classes {
			if ok {
				cl = append(cl, c)
			}
		}

		sort.Strings(cl)
		st.Case(text+fmt.Sprint(s.env()), cl...)
		if st.WantSample() {
			st.Sample(map[string]any{"yaml": strings.Split(text, "\n"), "env": s.env(), "classes": cl})
		}
	})
}
'''

emit('C13', C13_DOC, ['"github.com/AdguardTeam/AdGuardDNS/internal/filter/hashprefix"'], C13_TEST)

# ---------------------------------------------------------------------------
# C12

C12_DOC = '''// C12, configuration plumbing: which result caches exist and how large they
// are.  Generated `filters:`, `safe_browsing:` and `adult_blocking:` sections
// -- every count different from every other, rule_list_cache.enabled drawn --
// are parsed and validated by the package's own code and taken through the
// builder's own steps (initHashPrefixFilters, initFilterStorage); the capacity
// of every result cache that was constructed (custom-filter engines, the two
// safe-search lists, the three hash-prefix lists) and the rule-list /
// blocked-service cache settings kept for lists that are created on refresh
// are read back and judged by the documentation of the keys.'''

C12_TEST = r'''
func TestVerif@ID@CmdFilters(t *testing.T) {
	st := vstat.New("@ID@", "cmd.filters-cache-config",
		"rapid: `filters:`, `safe_browsing:`, `adult_blocking:` YAML sections with five pairwise different cache sizes and rule_list_cache.enabled on/off (and the filter environment with its switches) -> parseConfig, parseEnvironment, validate, builder.initHashPrefixFilters, builder.initFilterStorage; capacities of the constructed LRU caches (custom_filter_cache_size, safe_search_cache_size for both safe-search lists, <section>.cache_size of the three hash-prefix lists) and the rule-list / blocked-service result-cache size and switch, read back from the built objects, against the documented meaning of the keys; non-trivial = every case, distinct by settings",
		"rule-list-cache-enabled", "rule-list-cache-disabled", "adult-cache-built", "dangerous-cache-built", "newly-registered-cache-built", "general-safe-search-cache-built", "youtube-safe-search-cache-built")
	st.Finish(t)

	closed := @P@Closed(t)
	dir := t.TempDir()
	caseNo := 0

	rapid.Check(t, func(rt *rapid.T) {
		caseNo++
		cacheDir := filepath.Join(dir, fmt.Sprintf("filters%d", caseNo))
		if err := os.MkdirAll(cacheDir, 0o700); err != nil {
			rt.Fatalf("harness: %v", err)
		}
		defer func() { _ = os.RemoveAll(cacheDir) }()

		s := @P@Draw(rt, closed, cacheDir)
		path := filepath.Join(dir, fmt.Sprintf("c%d.yaml", caseNo))
		defer func() { _ = os.Remove(path) }()

		bt, text := @P@Build(rt, s, path)
		b := bt.b
		pk := &@P@Peek{}
		classes := map[string]bool{}
		var bad []string
		expect := func(what string, got, want any) {
			if got != want {
				bad = append(bad, fmt.Sprintf("%s: the configuration says %v, constructed with %v", what, want, got))
			}
		}

		fs := b.filterStorage
		// "The size of the LRU cache of compiled filtering rule engines for
		// profiles with custom filtering rules"
		expect("custom-filter cache (filters.custom_filter_cache_size)", pk.lruSize(fs, "custom", "cache"), int64(s.CustomCache))
		// "The size of the LRU cache of the rule-list filtering results."
		expect("rule-list result cache size (filters.rule_list_cache.size)", pk.num(fs, "ruleListResCacheCount"), int64(s.RuleListCache))
		// "If true, use the rule-list filtering result cache."
		expect("rule-list result cache switch (filters.rule_list_cache.enabled)", pk.flag(fs, "ruleListCacheEnabled"), s.RuleListCacheEnabled)
		// The blocked-service lists are rule lists.
		expect("blocked-service result cache size (filters.rule_list_cache.size)", pk.num(fs, "serviceResCacheCount"), int64(s.RuleListCache))
		expect("blocked-service result cache switch (filters.rule_list_cache.enabled)", pk.flag(fs, "serviceResCacheEnabled"), s.RuleListCacheEnabled)
		if s.RuleListCacheEnabled {
			classes["rule-list-cache-enabled"] = true
		} else {
			classes["rule-list-cache-disabled"] = true
		}

		// "This value applies to both general and YouTube safe-search."
		for _, ss := range []struct {
			name, field, class string
			on                 bool
		}{
			{"general safe-search", "safeSearchGeneral", "general-safe-search-cache-built", s.GenOn},
			{"YouTube safe-search", "safeSearchYouTube", "youtube-safe-search-cache-built", s.YTOn},
		} {
			if !ss.on {
				continue
			}

			classes[ss.class] = true
			expect(ss.name+" result cache (filters.safe_search_cache_size)", pk.lruSize(fs, ss.field, "flt", "filter", "cache"), int64(s.SafeSearchCache))
		}

		for _, h := range []struct {
			name, section, class string
			f                    *hashprefix.Filter
			on                   bool
			sec                  *@P@HashPrefix
		}{
			{"adult-blocking", "adult_blocking", "adult-cache-built", b.adultBlocking, s.AdultOn, &s.AB},
			{"dangerous-domains", "safe_browsing", "dangerous-cache-built", b.safeBrowsing, s.SBOn, &s.SB},
			{"newly-registered-domains", "safe_browsing", "newly-registered-cache-built", b.newRegDomains, s.NewRegOn, &s.SB},
		} {
			if !h.on || h.f == nil {
				continue
			}

			classes[h.class] = true
			// "The size of the response cache, in entries."
			expect(h.name+" result cache ("+h.section+".cache_size)", pk.lruSize(h.f, "resCache"), int64(h.sec.CacheSize))
		}

		if pk.err != nil {
			@P@Inconclusive(t, "the built filter objects cannot be read: %v", pk.err)
		}

		if len(bad) > 0 {
			rt.Fatalf("conversion of the filter cache settings:\n  %s\n%s%v", strings.Join(bad, "\n  "), text, s.env())
		}

		var cl []string
		for c := range classes {
			cl = append(cl, c)
		}

		sort.Strings(cl)
		st.Case(text+fmt.Sprint(s.env()), cl...)
		if st.WantSample() {
			st.Sample(map[string]any{"yaml": strings.Split(text, "\n"), "classes": cl})
		}
	})
}
'''

emit('C12', C12_DOC, ['"github.com/AdguardTeam/AdGuardDNS/internal/filter/hashprefix"'], C12_TEST)

# ---------------------------------------------------------------------------
# C11

C11_DOC = '''// C11, configuration plumbing: which hash-prefix list answers for which
// category and with what.  Generated `safe_browsing:`, `adult_blocking:` and
// `filters:` sections and the filter environment -- block hosts (domain names
// and addresses), URLs and switches all different -- are parsed and validated
// by the package's own code and taken through the builder's own steps
// (initHashPrefixFilters, initFilterStorage, initMsgConstructor).
//
// (a) Fidelity: each of the three lists exists exactly when its variable says
// so, was constructed with its own URL and with the block host of its section
// (the newly-registered list shares the safe_browsing section), and the storage
// holds each list in the slot of its category.
//
// (b) Behaviour: each list is given one listed name of its own; the filters
// the storage composes for a group with exactly one category switched on
// answer that category's name -- and only that one -- with the block host of
// the right section (a rewritten question for a domain name, an address record
// with filters.response_ttl for an address), and a blocked response of the
// built message constructor carries filters.response_ttl and the EDE / SDE
// options exactly when ede_enabled / sde_enabled say so.'''

C11_TEST = r'''
func TestVerif@ID@CmdFilters(t *testing.T) {
	st := vstat.New("@ID@", "cmd.hashprefix-config",
		"rapid: `safe_browsing:`, `adult_blocking:`, `filters:` YAML sections (two different block hosts drawn from domain names and IPv4 addresses, response_ttl different from every other duration, ede/sde switches) and the filter environment (three different list URLs, three switches) -> parseConfig, parseEnvironment, validate, builder.initHashPrefixFilters, initFilterStorage, initMsgConstructor; fidelity of existence, URL, id and block host of each list and of the storage's three slots; behaviour: one listed name per list, group filters with exactly one category on, A queries for the three names; blocked response of the constructor vs response_ttl / ede_enabled / sde_enabled; non-trivial = a listed name answered with its section's block host, distinct by settings and category",
		"adult-name-answered-with-adult-block-host", "dangerous-name-answered-with-safe-browsing-block-host", "newly-registered-name-answered-with-safe-browsing-block-host",
		"block-host-is-domain-name", "block-host-is-address", "category-off-name-not-filtered", "list-switched-off-name-not-filtered", "ede-on-sde-off", "ede-and-sde-on", "ede-off")
	st.Finish(t)

	closed := @P@Closed(t)
	dir := t.TempDir()
	caseNo := 0
	ctx := context.Background()

	rapid.Check(t, func(rt *rapid.T) {
		caseNo++
		cacheDir := filepath.Join(dir, fmt.Sprintf("filters%d", caseNo))
		if err := os.MkdirAll(cacheDir, 0o700); err != nil {
			rt.Fatalf("harness: %v", err)
		}
		defer func() { _ = os.RemoveAll(cacheDir) }()

		s := @P@Draw(rt, closed, cacheDir)
		path := filepath.Join(dir, fmt.Sprintf("c%d.yaml", caseNo))
		defer func() { _ = os.Remove(path) }()

		bt, text := @P@Build(rt, s, path)
		b := bt.b
		pk := &@P@Peek{}
		classes := map[string]bool{}
		var bad []string
		expect := func(what string, got, want any) {
			if got != want {
				bad = append(bad, fmt.Sprintf("%s: the configuration says %v, built with %v", what, want, got))
			}
		}

		type list struct {
			name, section, url, id, slot, listed, class string
			f                                           *hashprefix.Filter
			hashes                                      *hashprefix.Storage
			on                                          bool
			sec                                         *@P@HashPrefix
		}
		lists := []*list{
			{"adult-blocking list", "adult_blocking", s.AdultURL, "adult_blocking", "adult", "adult-listed.example", "adult-name-answered-with-adult-block-host", b.adultBlocking, b.adultBlockingHashes, s.AdultOn, &s.AB},
			{"dangerous-domains list", "safe_browsing", s.SBURL, "safe_browsing", "dangerous", "dangerous-listed.example", "dangerous-name-answered-with-safe-browsing-block-host", b.safeBrowsing, b.safeBrowsingHashes, s.SBOn, &s.SB},
			{"newly-registered-domains list", "safe_browsing", s.NewRegURL, "newly_registered_domains", "newlyRegistered", "newreg-listed.example", "newly-registered-name-answered-with-safe-browsing-block-host", b.newRegDomains, b.newRegDomainsHashes, s.NewRegOn, &s.SB},
		}

		fs := b.filterStorage
		for _, l := range lists {
			slot, ok := pk.get(fs, l.slot)
			if !ok {
				break
			}

			inSlot, _ := slot.Interface().(*hashprefix.Filter)
			if inSlot != l.f {
				bad = append(bad, fmt.Sprintf("%s: the storage's %q slot holds another list", l.name, l.slot))
			}

			if !l.on {
				if l.f != nil {
					bad = append(bad, l.name+": built although its *_ENABLED variable is 0")
				}

				continue
			} else if l.f == nil || l.hashes == nil {
				bad = append(bad, l.name+": not built although its *_ENABLED variable is 1")

				continue
			}

			expect(l.name+": source URL (its *_URL variable)", pk.url(l.f, "refr", "url"), l.url)
			expect(l.name+": id", pk.str(l.f, "id"), l.id)
			host := pk.str(l.f, "repFQDN")
			if ipv, ipOK := pk.get(l.f, "repIP"); ipOK {
				if ip, isIP := ipv.Interface().(netip.Addr); isIP && ip.IsValid() {
					host = ip.String()
				}
			}

			expect(l.name+": replacement host ("+l.section+".block_host)", strings.TrimSuffix(host, "."), l.sec.BlockHost)

			if _, err := l.hashes.Reset(l.listed + "\n"); err != nil {
				rt.Fatalf("harness: %v", err)
			}
		}

		if pk.err != nil {
			@P@Inconclusive(t, "the built filter objects cannot be read: %v", pk.err)
		}

		if len(bad) > 0 {
			rt.Fatalf("conversion of the hash-prefix settings:\n  %s\n%s%v", strings.Join(bad, "\n  "), text, s.env())
		}

		// (b) Behaviour through the storage.
		msgs := b.messages
		respTTL := uint32(s.RespTTL / time.Second)
		var ntKeys []string
		for ci, cat := range lists {
			conf := &filter.ConfigGroup{
				Parental:     &filter.ConfigParental{Enabled: ci == 0, AdultBlockingEnabled: ci == 0},
				RuleList:     &filter.ConfigRuleList{},
				SafeBrowsing: &filter.ConfigSafeBrowsing{Enabled: ci > 0, DangerousDomainsEnabled: ci == 1, NewlyRegisteredDomainsEnabled: ci == 2},
			}
			flt := fs.ForConfig(ctx, conf)
			for _, l := range lists {
				req := (&dns.Msg{}).SetQuestion(l.listed+".", dns.TypeA)
				req.Id = 0xC11
				res, err := flt.FilterRequest(ctx, &filter.Request{
					DNS:      req,
					Messages: msgs,
					RemoteIP: netip.MustParseAddr("192.0.2.7"),
					Host:     l.listed,
					QType:    dns.TypeA,
					QClass:   dns.ClassINET,
				})
				if err != nil {
					rt.Fatalf("filtering %s with only the %s category on: %v\n%s", l.listed, cat.slot, err, text)
				}

				describe := func() string {
					return fmt.Sprintf("group filter with only the %s category on, A %s (listed in the %s): result %#v", cat.slot, l.listed, l.name, res)
				}

				if l != cat || !l.on {
					if res != nil {
						rt.Fatalf("%s; nothing may filter this name\n%s%v", describe(), text, s.env())
					}

					if l == cat {
						classes["list-switched-off-name-not-filtered"] = true
					} else {
						classes["category-off-name-not-filtered"] = true
					}

					continue
				}

				want := l.sec.BlockHost
				if ip, perr := netip.ParseAddr(want); perr == nil {
					classes["block-host-is-address"] = true
					mr, ok := res.(*filter.ResultModifiedResponse)
					if !ok || mr.Msg == nil || len(mr.Msg.Answer) != 1 {
						rt.Fatalf("%s; want one address record %s (%s.block_host)\n%s%v", describe(), want, l.section, text, s.env())
					}

					a, isA := mr.Msg.Answer[0].(*dns.A)
					if !isA || a.A.String() != ip.String() || string(mr.List) != l.id {
						rt.Fatalf("%s answers %v from list %q; want %s (%s.block_host) from %q\n%s%v", describe(), mr.Msg.Answer[0], mr.List, want, l.section, l.id, text, s.env())
					}

					// "The default TTL to set for responses to queries for
					// blocked or modified domains"
					if a.Hdr.Ttl != respTTL {
						rt.Fatalf("%s has TTL %d; filters.response_ttl is %s\n%s", describe(), a.Hdr.Ttl, s.RespTTL, text)
					}
				} else {
					classes["block-host-is-domain-name"] = true
					mq, ok := res.(*filter.ResultModifiedRequest)
					if !ok || mq.Msg == nil || len(mq.Msg.Question) != 1 {
						rt.Fatalf("%s; want the question rewritten to %s (%s.block_host)\n%s%v", describe(), want, l.section, text, s.env())
					}

					if got := strings.TrimSuffix(mq.Msg.Question[0].Name, "."); got != want || string(mq.List) != l.id {
						rt.Fatalf("%s rewrites the question to %q from list %q; want %s (%s.block_host) from %q\n%s%v", describe(), got, mq.List, want, l.section, l.id, text, s.env())
					}
				}

				classes[l.class] = true
				ntKeys = append(ntKeys, l.slot+"="+want)
			}
		}

		// The message constructor.
		if msgs == nil {
			rt.Fatalf("builder.initMsgConstructor left no constructor behind\n%s", text)
		}

		req := (&dns.Msg{}).SetQuestion("blocked.example.", dns.TypeA)
		req.SetEdns0(1232, false)
		opt := req.IsEdns0()
		// An empty EDE option asks for structured errors.
		opt.Option = append(opt.Option, &dns.EDNS0_EDE{})
		resp, err := msgs.NewBlockedResp(req)
		if err != nil || resp == nil || len(resp.Answer) != 1 {
			rt.Fatalf("blocked response of the built constructor: %v, %v\n%s", resp, err, text)
		}

		if ttl := resp.Answer[0].Header().Ttl; ttl != respTTL {
			rt.Fatalf("a blocked response has TTL %d; filters.response_ttl is %s\n%s", ttl, s.RespTTL, text)
		}

		var ede *dns.EDNS0_EDE
		if ro := resp.IsEdns0(); ro != nil {
			for _, o := range ro.Option {
				if e, ok := o.(*dns.EDNS0_EDE); ok {
					ede = e
				}
			}
		}

		switch {
		case !s.EDE:
			classes["ede-off"] = true
			if ede != nil {
				rt.Fatalf("filters.ede_enabled is false but a blocked response carries an EDE option %v\n%s", ede, text)
			}
		case ede == nil:
			rt.Fatalf("filters.ede_enabled is true but a blocked response to an EDNS query carries no EDE option\n%s", text)
		case s.SDE:
			classes["ede-and-sde-on"] = true
			if ede.ExtraText == "" {
				rt.Fatalf("filters.sde_enabled is true but the EDE option of a blocked response has no structured text\n%s", text)
			}
		default:
			classes["ede-on-sde-off"] = true
			if ede.ExtraText != "" {
				rt.Fatalf("filters.sde_enabled is false but the EDE option of a blocked response has the text %q\n%s", ede.ExtraText, text)
			}
		}

		var cl []string
		for c := range classes {
			cl = append(cl, c)
		}

		sort.Strings(cl)
		nt := ""
		if len(ntKeys) > 0 {
			nt = text + fmt.Sprint(s.env()) + strings.Join(ntKeys, ",")
		}

		st.Case(nt, cl...)
		if nt != "" && st.WantSample() {
			st.Sample(map[string]any{"yaml": strings.Split(text, "\n"), "answered": ntKeys, "classes": cl})
		}
	})
}
'''

emit('C11', C11_DOC, [
    '"net/netip"',
    '"github.com/AdguardTeam/AdGuardDNS/internal/filter"',
    '"github.com/AdguardTeam/AdGuardDNS/internal/filter/hashprefix"',
    '"github.com/miekg/dns"',
], C11_TEST)

