#!/bin/bash
# usage: tools/mutate.sh <ID> <file-relative-to-repo> <python-regex-or-literal old> <new> [check args...]
# Applies one textual mutation in a scratch worktree, runs the check against it,
# prints CAUGHT / MISSED / INCONCLUSIVE, removes the worktree.
set -u
ID=$1; FILE=$2; OLD=$3; NEW=$4; shift 4
WT=/tmp/mut-$ID-$$
TAG=$(python3 -c "import hashlib,sys;print(hashlib.sha1(sys.argv[1].encode()).hexdigest()[:8])" $WT)
git -C /repo worktree add -q --detach $WT HEAD || exit 3
trap 'git -C /repo worktree remove --force $WT >/dev/null 2>&1; git -C /repo worktree prune; rm -rf /verif/.build/alt-$TAG /verif/.work/alt-$TAG 2>/dev/null' EXIT
python3 - "$WT/$FILE" "$OLD" "$NEW" <<'P' || { echo "MUTATION-NOT-APPLIED"; exit 3; }
import sys
p,old,new=sys.argv[1:4]
s=open(p).read()
if old not in s:
    sys.exit(1)
open(p,'w').write(s.replace(old,new,1))
P
(cd $WT && go build ./... >/dev/null 2>&1 && cd internal/dnsserver && go build ./... > /dev/null 2>&1) || { echo "MUTANT-DOES-NOT-COMPILE"; exit 3; }
cd /verif
VERIF_REPO=$WT ./check $ID "$@" > /tmp/mut-$ID-$$.log 2>&1
rc=$?
case $rc in
 1) echo "CAUGHT  $(grep -m1 -E 'VIOLATION' /tmp/mut-$ID-$$.log)";;
 0) echo "MISSED";;
 *) echo "INCONCLUSIVE rc=$rc"; tail -5 /tmp/mut-$ID-$$.log;;
esac
grep -E "^\s+.*(violation|inconclusive) rc" /tmp/mut-$ID-$$.log | head -5
rm -f /tmp/mut-$ID-$$.log
exit 0
