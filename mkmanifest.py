#!/usr/bin/env python3
"""Regenerates MANIFEST.json from checks_config.py (kept valid at all times)."""
import json, os, sys
sys.path.insert(0, os.path.dirname(os.path.abspath(__file__)))
from checks_config import CHECKS, HOOK_COMMITS

ALL = ["C%02d" % i for i in range(1, 21)]
NOT_BUILT = "check not built yet in this round; see DESIGN.md for the planned generated check"

m = dict(
    version=1,
    setup_cmd="./setup.sh",
    hooks=dict(
        guard="verif",
        enable="go test -c -tags verif -vet=off -overlay <json mapping /verif/harness/<ID>/... into the package> with GOWORK=/verif/harness/go.work (adds pgregory.net/rapid); harness files carry //go:build verif",
        baseline_off_cmd="cd /repo && go test -vet=off -count=1 -timeout 25m ./... && cd internal/dnsserver && go test -vet=off -count=1 -timeout 25m ./...",
        source_commits=HOOK_COMMITS,
        add_only=True,
    ),
    engines=[dict(name="rapid-overlay", path="/verif/check", serves_properties=sorted(CHECKS),
                  kind_free_text="pgregory.net/rapid v1.3.0 property-based and stateful tests (plus bounded-exhaustive grids and native go fuzz in the thorough tier), compiled into the repository's own packages through go test -overlay; Python driver shards seeds, merges coverage statistics, saves replays")],
    checks=[],
    not_applicable=[],
    notes="All checks: exit 0 held / exit 1 + VIOLATION line / exit 2 inconclusive (harness build failure, time-out, empty required class). Known findings: /verif/known_findings.json.",
)
# Only properties listed in config/ENABLED are claimed (harnesses under
# construction are loadable by ./check but not registered).
ENABLED = set(open(os.path.join(os.path.dirname(os.path.abspath(__file__)), "config", "ENABLED")).read().split())
for pid in ALL:
    c = CHECKS.get(pid)
    if not c or pid not in ENABLED:
        m["not_applicable"].append(dict(property_id=pid, reason=NOT_BUILT))
        continue
    m["checks"].append(dict(
        property_id=pid,
        quick_cmd="./check %s --tier quick" % pid,
        thorough_cmd="./check %s --tier thorough" % pid,
        evidence_file="/verif/evidence/%s.json" % pid,
        replay_cmd_template="./check %s --replay {path}" % pid,
        engine="rapid-overlay",
        level_claimed=dict(category=c["level"], text=c["level_text"], design_ref="DESIGN.md section 3, " + pid),
        level_note=c["level_note"],
        technique=c["technique"],
    ))
with open(os.path.join(os.path.dirname(os.path.abspath(__file__)), "MANIFEST.json"), "w") as fh:
    json.dump(m, fh, indent=1)
    fh.write("\n")
