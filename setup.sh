#!/bin/sh
# Offline setup: compile every harness test binary once so that the Go build
# cache is warm.  Nothing is fetched.
set -e
cd "$(dirname "$0")"
export GOFLAGS= GOPROXY=off GOSUMDB=off GOTOOLCHAIN=local
mkdir -p .build .work evidence
./check --build-all
