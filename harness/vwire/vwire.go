// Package vwire generates DNS wire images for the byte-level checks (C06, and
// reused by C01): valid messages with marker names, and inconsistent ones —
// truncations, inflated counts, compression pointers beyond the end.
package vwire

import (
	"encoding/binary"
	"fmt"
	"strings"

	"github.com/miekg/dns"
	"pgregory.net/rapid"
)

// Marker is the label prefix that identifies history messages; nothing derived
// from a later message may contain it.
const Marker = "victim"

// HistoryMsg returns a valid, long message whose names carry the marker.
func HistoryMsg(t *rapid.T, i int) (wire []byte, m *dns.Msg) {
	m = &dns.Msg{}
	nLabels := rapid.IntRange(1, 6).Draw(t, "histLabels")
	labels := make([]string, 0, nLabels+2)
	for j := 0; j < nLabels; j++ {
		labels = append(labels, fmt.Sprintf("%s-%d-%d-%s", Marker, i, j, strings.Repeat("x", rapid.IntRange(0, 30).Draw(t, "histPad"))))
	}

	name := strings.Join(labels, ".") + ".secret.test."
	m.SetQuestion(name, rapid.SampledFrom([]uint16{dns.TypeA, dns.TypeAAAA, dns.TypeTXT}).Draw(t, "histType"))
	m.Id = uint16(rapid.IntRange(0, 65535).Draw(t, "histID"))
	m.Response = rapid.Bool().Draw(t, "histResp")
	nAns := rapid.IntRange(0, 6).Draw(t, "histAns")
	for j := 0; j < nAns; j++ {
		m.Answer = append(m.Answer, &dns.TXT{
			Hdr: dns.RR_Header{Name: name, Rrtype: dns.TypeTXT, Class: dns.ClassINET, Ttl: 300},
			Txt: []string{fmt.Sprintf("%s-rdata-%d-%s", Marker, j, strings.Repeat("y", rapid.IntRange(0, 60).Draw(t, "histRdata")))},
		})
	}

	if rapid.Bool().Draw(t, "histEdns") {
		m.SetEdns0(4096, true)
	}

	wire, err := m.Pack()
	if err != nil {
		panic(fmt.Errorf("vwire: packing history message: %w", err))
	}

	return wire, m
}

// Next describes the message under test.
type Next struct {
	Wire []byte
	Kind string
	// Inconsistent is true if the message declares more than it carries or
	// points beyond its own end.
	Inconsistent bool
}

// BaseMsg returns a small valid query or reply.
func BaseMsg(t *rapid.T) (m *dns.Msg) {
	m = &dns.Msg{}
	name := rapid.SampledFrom([]string{"a.test.", "next.example.", "Www.Next.Example.", "x.y.z.next.example."}).Draw(t, "nextName")
	m.SetQuestion(name, rapid.SampledFrom([]uint16{dns.TypeA, dns.TypeAAAA, dns.TypeTXT, dns.TypeHTTPS}).Draw(t, "nextType"))
	m.Id = uint16(rapid.IntRange(0, 65535).Draw(t, "nextID"))
	if rapid.Bool().Draw(t, "nextEdns") {
		m.SetEdns0(1232, rapid.Bool().Draw(t, "nextDO"))
	}

	for j := rapid.IntRange(0, 2).Draw(t, "nextAns"); j > 0; j-- {
		m.Answer = append(m.Answer, &dns.A{Hdr: dns.RR_Header{Name: name, Rrtype: dns.TypeA, Class: dns.ClassINET, Ttl: 60}, A: []byte{192, 0, 2, byte(j)}})
	}

	return m
}

// DrawNext derives the message under test from base.
func DrawNext(t *rapid.T, base *dns.Msg) (n Next) {
	wire, err := base.Pack()
	if err != nil {
		panic(fmt.Errorf("vwire: packing base message: %w", err))
	}

	kind := rapid.SampledFrom([]string{"valid", "truncated", "truncated", "counts", "counts", "pointer", "pointer", "garbage-tail", "header-only"}).Draw(t, "nextKind")
	n.Kind = kind
	switch kind {
	case "valid":
		n.Wire = wire
	case "truncated":
		cut := rapid.IntRange(12, len(wire)-1).Draw(t, "cut")
		n.Wire = append([]byte(nil), wire[:cut]...)
		n.Inconsistent = true
	case "counts":
		w := append([]byte(nil), wire...)
		sec := rapid.IntRange(0, 3).Draw(t, "section")
		off := 4 + 2*sec
		cur := binary.BigEndian.Uint16(w[off:])
		binary.BigEndian.PutUint16(w[off:], cur+uint16(rapid.SampledFrom([]int{1, 2, 5, 50, 65000}).Draw(t, "extra")))
		n.Wire = w
		n.Inconsistent = true
	case "pointer":
		// Replace the question name with a compression pointer to an offset at
		// or beyond the end of the message (into whatever follows in a reused
		// buffer), keeping type and class.
		w := append([]byte(nil), wire[:12]...)
		binary.BigEndian.PutUint16(w[4:], 1)
		binary.BigEndian.PutUint16(w[6:], 0)
		binary.BigEndian.PutUint16(w[8:], 0)
		binary.BigEndian.PutUint16(w[10:], 0)
		target := 18 + rapid.SampledFrom([]int{0, 1, 2, 12, 20, 40, 100}).Draw(t, "ptrBeyond")
		w = append(w, 0xc0|byte(target>>8), byte(target))
		w = binary.BigEndian.AppendUint16(w, base.Question[0].Qtype)
		w = binary.BigEndian.AppendUint16(w, dns.ClassINET)
		n.Wire = w
		n.Inconsistent = true
	case "garbage-tail":
		w := append([]byte(nil), wire...)
		for i := rapid.IntRange(1, 20).Draw(t, "tail"); i > 0; i-- {
			w = append(w, byte(rapid.IntRange(0, 255).Draw(t, "tailByte")))
		}

		n.Wire = w
	case "header-only":
		w := append([]byte(nil), wire[:12]...)
		n.Wire = w
		n.Inconsistent = true
	}

	return n
}

// Describe renders a decoded message (or the decoding error) for comparison.
// Only the fact of an error is compared, not its text.
func Describe(m *dns.Msg, err error) string {
	if err != nil {
		return "error"
	}

	var b strings.Builder
	fmt.Fprintf(&b, "id=%d qr=%t op=%d aa=%t tc=%t rd=%t ra=%t z=%t ad=%t cd=%t rcode=%d", m.Id, m.Response, m.Opcode, m.Authoritative,
		m.Truncated, m.RecursionDesired, m.RecursionAvailable, m.Zero, m.AuthenticatedData, m.CheckingDisabled, m.Rcode)
	for _, q := range m.Question {
		fmt.Fprintf(&b, " q{%q %d %d}", q.Name, q.Qtype, q.Qclass)
	}

	for i, sec := range [][]dns.RR{m.Answer, m.Ns, m.Extra} {
		for _, rr := range sec {
			fmt.Fprintf(&b, " rr%d{%s}", i, rr.String())
		}
	}

	return b.String()
}

// RefDecode decodes wire on its own, in a buffer of exactly its length.
func RefDecode(wire []byte) (m *dns.Msg, err error) {
	own := append([]byte(nil), wire...)
	m = &dns.Msg{}
	err = m.Unpack(own)
	if err != nil {
		return nil, err
	}

	return m, nil
}
