//go:build verif

package cmd

// C02 (and C07: which group's settings a request is filtered with),
// configuration plumbing: a generated `filtering_groups:` section with two
// or three groups is parsed and validated by the package's own code and
// converted by filteringGroups.toInternal, as builder.initFilteringGroups does.
// The second group carries the complement of every flag of the first, so every
// flag is both on and off in every case and a value taken from a neighbouring
// flag or from the other group shows; the rule-list IDs of the groups are
// different selections in different orders.  Every flag and the list of IDs
// (order included: doc/configuration.md, "the array of rule-list IDs used in
// this filtering group") must arrive in the field of agd.FilteringGroup /
// filter.ConfigGroup that the documentation of the key names.

import (
	"context"
	"fmt"
	"os"
	"path/filepath"
	"slices"
	"sort"
	"strings"
	"testing"

	"github.com/AdguardTeam/AdGuardDNS/internal/agd"
	"github.com/AdguardTeam/AdGuardDNS/internal/agdtest"
	"github.com/AdguardTeam/AdGuardDNS/internal/filter"
	"pgregory.net/rapid"
	"verif.local/harness/vstat"
)

// vc02cmdFlagNames are the switches of one group, in the order of
// doc/configuration.md.
var vc02cmdFlagNames = []string{
	"rule_lists.enabled",
	"parental.enabled",
	"parental.block_adult",
	"parental.general_safe_search",
	"parental.youtube_safe_search",
	"safe_browsing.enabled",
	"safe_browsing.block_dangerous_domains",
	"safe_browsing.block_newly_registered_domains",
	"block_chrome_prefetch",
	"block_firefox_canary",
	"block_private_relay",
}

// vc02cmdGroup is one generated group.
type vc02cmdGroup struct {
	ID    string
	Flags []bool
	IDs   []string
}

func (g *vc02cmdGroup) yaml() string {
	ids := " []"
	if len(g.IDs) > 0 {
		ids = ""
		for _, id := range g.IDs {
			ids += "\n          - '" + id + "'"
		}
	}

	f := g.Flags

	return fmt.Sprintf(`  - id: '%s'
    rule_lists:
        enabled: %t
        ids:%s
    parental:
        enabled: %t
        block_adult: %t
        general_safe_search: %t
        youtube_safe_search: %t
    safe_browsing:
        enabled: %t
        block_dangerous_domains: %t
        block_newly_registered_domains: %t
    block_chrome_prefetch: %t
    block_firefox_canary: %t
    block_private_relay: %t
`, g.ID, f[0], ids, f[1], f[2], f[3], f[4], f[5], f[6], f[7], f[8], f[9], f[10])
}

// vc02cmdGot reads the switches of a converted group in the order of
// vc02cmdFlagNames; the mapping is written by hand from the documentation of
// the keys and of the fields.
func vc02cmdGot(g *agd.FilteringGroup) (flags []bool, ok bool) {
	fc := g.FilterConfig
	if fc == nil || fc.RuleList == nil || fc.Parental == nil || fc.SafeBrowsing == nil {
		return nil, false
	}

	return []bool{
		fc.RuleList.Enabled,
		fc.Parental.Enabled,
		fc.Parental.AdultBlockingEnabled,
		fc.Parental.SafeSearchGeneralEnabled,
		fc.Parental.SafeSearchYouTubeEnabled,
		fc.SafeBrowsing.Enabled,
		fc.SafeBrowsing.DangerousDomainsEnabled,
		fc.SafeBrowsing.NewlyRegisteredDomainsEnabled,
		g.BlockChromePrefetch,
		g.BlockFirefoxCanary,
		g.BlockPrivateRelay,
	}, true
}

var vc02cmdListIDs = []string{"adguard_dns_filter", "list_b", "list_c", "list_d", "zz_last"}

func TestVerifC02CmdFilteringGroups(t *testing.T) {
	required := []string{"two-groups", "three-groups", "rule-list-ids-in-different-orders", "group-with-no-rule-lists", "every-flag-on-and-off-in-the-case", "all-neighbouring-flags-differ-somewhere"}
	st := vstat.New("C02", "cmd.filtering-groups-config",
		"rapid: a `filtering_groups:` YAML section with 2-3 groups; group 1 has 11 independently drawn switches (not all equal), group 2 their complement, group 3 random; rule_lists.ids are different selections of 0-4 IDs in different orders -> parseConfig, validate, filteringGroups.toInternal with a storage that knows the lists (as builder.initFilteringGroups); oracle: the map has exactly the configured IDs, every switch and the ID list (order included) of every group arrives in the field the documentation names; non-trivial = every case (each flag differs between the first two groups), distinct by the flag vectors and ID lists",
		required...)
	st.Finish(t)

	dir := t.TempDir()
	caseNo := 0
	strg := &agdtest.FilterStorage{
		OnForConfig: func(context.Context, filter.Config) filter.Interface { return filter.Empty{} },
		OnHasListID: func(id filter.ID) bool { return slices.Contains(vc02cmdListIDs, string(id)) },
	}

	rapid.Check(t, func(rt *rapid.T) {
		caseNo++
		n := rapid.IntRange(2, 3).Draw(rt, "groups")
		names := rapid.Permutation([]string{"default", "family", "non_filtering"}).Draw(rt, "names")
		groups := make([]*vc02cmdGroup, n)
		for i := range groups {
			g := &vc02cmdGroup{ID: names[i], Flags: make([]bool, len(vc02cmdFlagNames))}
			switch i {
			case 1:
				for j, f := range groups[0].Flags {
					g.Flags[j] = !f
				}
			default:
				for {
					all := true
					for j := range g.Flags {
						g.Flags[j] = rapid.Bool().Draw(rt, fmt.Sprintf("g%d.%s", i, vc02cmdFlagNames[j]))
						all = all && g.Flags[j] == g.Flags[0]
					}

					if !all {
						break
					}
				}
			}

			ids := rapid.Permutation(vc02cmdListIDs).Draw(rt, fmt.Sprintf("g%d.ids", i))
			g.IDs = ids[:rapid.IntRange(0, 4).Draw(rt, fmt.Sprintf("g%d.nIDs", i))]
			groups[i] = g
		}

		var y strings.Builder
		y.WriteString("filtering_groups:\n")
		for _, g := range groups {
			y.WriteString(g.yaml())
		}

		text := y.String()
		path := filepath.Join(dir, fmt.Sprintf("c%d.yaml", caseNo))
		if err := os.WriteFile(path, []byte(text), 0o600); err != nil {
			rt.Fatalf("harness: %v", err)
		}
		defer func() { _ = os.Remove(path) }()

		conf, err := parseConfig(path)
		if err != nil {
			rt.Fatalf("the generated filtering_groups section was not parsed: %v\n%s", err, text)
		}

		if err = conf.FilteringGroups.validate(); err != nil {
			rt.Fatalf("a valid filtering_groups section was rejected: %v\n%s", err, text)
		}

		got, err := conf.FilteringGroups.toInternal(strg)
		if err != nil {
			rt.Fatalf("filteringGroups.toInternal failed on a valid section whose lists are all in the index: %v\n%s", err, text)
		}

		if len(got) != len(groups) {
			rt.Fatalf("conversion: %d groups configured, %d converted\n%s", len(groups), len(got), text)
		}

		classes := map[string]bool{"every-flag-on-and-off-in-the-case": true}
		if n == 2 {
			classes["two-groups"] = true
		} else {
			classes["three-groups"] = true
		}

		// Adjacent flags that differ in group 1 differ (the other way round)
		// in group 2: all neighbouring pairs are told apart in the case iff
		// group 1 alternates somewhere for each pair; count the pairs.
		pairs := 0
		for j := 1; j < len(vc02cmdFlagNames); j++ {
			for _, g := range groups {
				if g.Flags[j] != g.Flags[j-1] {
					pairs++

					break
				}
			}
		}

		if pairs == len(vc02cmdFlagNames)-1 {
			classes["all-neighbouring-flags-differ-somewhere"] = true
		}

		for i, g := range groups {
			cg := got[agd.FilteringGroupID(g.ID)]
			if cg == nil {
				rt.Fatalf("conversion: no group %q in the result\n%s", g.ID, text)
			}

			if string(cg.ID) != g.ID {
				rt.Fatalf("conversion: group %q carries the ID %q\n%s", g.ID, cg.ID, text)
			}

			flags, ok := vc02cmdGot(cg)
			if !ok {
				rt.Fatalf("conversion: group %q has an incomplete filter configuration %+v\n%s", g.ID, cg.FilterConfig, text)
			}

			for j, want := range g.Flags {
				if flags[j] != want {
					rt.Fatalf("conversion: group %q: %s is configured as %t but converted to %t (all switches, in the order of the documentation: configured %v, converted %v)\n%s",
						g.ID, vc02cmdFlagNames[j], want, flags[j], g.Flags, flags, text)
				}
			}

			if p := cg.FilterConfig.Parental; p.PauseSchedule != nil || len(p.BlockedServices) != 0 {
				rt.Fatalf("conversion: group %q got a pause schedule or blocked services nobody configured: %+v\n%s", g.ID, p, text)
			}

			var gotIDs []string
			for _, id := range cg.FilterConfig.RuleList.IDs {
				gotIDs = append(gotIDs, string(id))
			}

			if !slices.Equal(gotIDs, g.IDs) {
				rt.Fatalf("conversion: group %q: rule_lists.ids configured as %q, converted to %q\n%s", g.ID, g.IDs, gotIDs, text)
			}

			if len(g.IDs) == 0 {
				classes["group-with-no-rule-lists"] = true
			}

			if i > 0 && len(g.IDs) > 1 {
				prev := groups[i-1].IDs
				a, b := slices.Index(prev, g.IDs[0]), slices.Index(prev, g.IDs[1])
				if a >= 0 && b >= 0 && a > b {
					classes["rule-list-ids-in-different-orders"] = true
				}
			}
		}

		var cl []string
		for c := range classes {
			cl = append(cl, c)
		}

		sort.Strings(cl)
		st.Case(text, cl...)
		if st.WantSample() {
			st.Sample(map[string]any{"yaml": strings.Split(text, "\n"), "classes": cl})
		}
	})
}
