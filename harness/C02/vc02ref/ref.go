//go:build verif

// Package vc02ref is the reference side of the C02 checks: a rule AST with a
// known meaning, its rendering to rule-list text, generators, and a reference
// evaluator of the documented verdict order.  It does not import anything of
// the code under test.
//
// The evaluator returns a SET of acceptable outcomes: where the property
// statement leaves freedom (which of several matching block rules is reported;
// which of several matching allow rules is "the deciding" one; which of
// several rewrite rules of one list is applied) every permitted outcome is a
// member.
package vc02ref

import (
	"fmt"
	"net/netip"
	"sort"
	"strings"

	"github.com/miekg/dns"
)

// Well-known list identifiers (they are part of the observable verdict).
const (
	IDCustom    = "custom"
	IDSvc       = "blocked_service"
	IDDangerous = "safe_browsing"
	IDAdult     = "adult_blocking"
	IDNewReg    = "newly_registered_domains"
	IDGenSS     = "general_safe_search"
	IDYTSS      = "youtube_safe_search"
)

// Hosts is the pool of queried host names.  xa.test is there to expose naive
// suffix matching of a.test.
var Hosts = []string{"a.test", "b.test", "x.a.test", "y.a.test", "x.b.test", "w.x.a.test", "xa.test"}

// EdgeHosts are minimal names no rule of the grammar matches: the root and a
// bare top-level label.  They are asked now and then; the verdict must be none.
var EdgeHosts = []string{"", "test"}

// Targets is the pool of CNAME-rewrite targets and block-page hosts; it is
// disjoint from Hosts, so a rewrite of a host to itself is never generated.
var Targets = []string{"t1.cn.test", "t2.cn.test", "page.cn.test"}

// Marker data: everything the scripted upstream puts into an answer.
const MarkerTTL = 7777

var (
	MarkerV4      = []netip.Addr{netip.MustParseAddr("198.51.100.11"), netip.MustParseAddr("198.51.100.22"), netip.MustParseAddr("198.51.100.33")}
	MarkerV6      = []netip.Addr{netip.MustParseAddr("2001:db8:ffff::a1"), netip.MustParseAddr("2001:db8:ffff::b2"), netip.MustParseAddr("2001:db8:ffff::c3")}
	MarkerTargets = []string{"m1.mark.test", "m2.mark.test"}
)

// RuleKind is the kind of a rule of the grammar.
type RuleKind int

// Rule kinds.
const (
	KBlock   RuleKind = iota // ||D^            (optionally $dnstype)
	KAllow                   // @@||D^          (optionally $dnstype)
	KHosts                   // ip D
	KBare                    // D
	KRwIP                    // ||D^$dnsrewrite=ip  or NOERROR;A|AAAA;ip
	KRwCNAME                 // ||D^$dnsrewrite=target or NOERROR;CNAME;target
	KRwRcode                 // ||D^$dnsrewrite=REFUSED|NXDOMAIN|SERVFAIL
)

// Rule is one rule of the grammar.
type Rule struct {
	Kind RuleKind
	// D is the lower-case domain (or, for response-directed rules, an IP
	// address string).
	D string
	// Upper renders D of a network rule in upper case.
	Upper bool
	// TypeMod is the $dnstype modifier (0: none); TypeNeg is "~".
	TypeMod uint16
	TypeNeg bool
	// IP is the address of a hosts rule or of an IP rewrite.
	IP netip.Addr
	// Long selects the NOERROR;TYPE;value form of a rewrite.
	Long bool
	// Target is the CNAME target.
	Target string
	// Rcode is the rcode of an rcode rewrite.
	Rcode int
	// Exact selects the |D^ (exact host) form of a rewrite rule.
	Exact bool
	// TargetCaps spells the CNAME target with capitals in the rule text.
	TargetCaps bool
}

// TargetText is the CNAME target as spelled in the rule.
func (r Rule) TargetText() string {
	if !r.TargetCaps {
		return r.Target
	}

	b := []byte(r.Target)
	for i := 0; i < len(b); i += 2 {
		if b[i] >= 'a' && b[i] <= 'z' {
			b[i] -= 'a' - 'A'
		}
	}

	return string(b)
}

func (r Rule) dtext() string {
	if r.Upper {
		return strings.ToUpper(r.D)
	}

	return r.D
}

func (r Rule) mod() string {
	if r.TypeMod == 0 {
		return ""
	}

	neg := ""
	if r.TypeNeg {
		neg = "~"
	}

	return "$dnstype=" + neg + dns.TypeToString[r.TypeMod]
}

func (r Rule) pat() string {
	if r.Exact {
		return "|" + r.dtext() + "^"
	}

	return "||" + r.dtext() + "^"
}

// Text renders the rule.
func (r Rule) Text() string {
	switch r.Kind {
	case KBlock:
		return r.pat() + r.mod()
	case KAllow:
		return "@@" + r.pat() + r.mod()
	case KHosts:
		return r.IP.String() + " " + r.D
	case KBare:
		return r.D
	case KRwIP:
		if r.Long {
			typ := "A"
			if r.IP.Is6() {
				typ = "AAAA"
			}

			return r.pat() + "$dnsrewrite=NOERROR;" + typ + ";" + r.IP.String()
		}

		return r.pat() + "$dnsrewrite=" + r.IP.String()
	case KRwCNAME:
		if r.Long {
			return r.pat() + "$dnsrewrite=NOERROR;CNAME;" + r.TargetText()
		}

		return r.pat() + "$dnsrewrite=" + r.TargetText()
	case KRwRcode:
		return r.pat() + "$dnsrewrite=" + dns.RcodeToString[r.Rcode]
	default:
		panic(fmt.Sprintf("bad rule kind %d", r.Kind))
	}
}

// IsRewrite reports whether r is a $dnsrewrite rule.
func (r Rule) IsRewrite() bool {
	return r.Kind == KRwIP || r.Kind == KRwCNAME || r.Kind == KRwRcode
}

// bareAddr reports whether r is a bare IP address.  urlfilter does not take such
// a line for a host rule (it is not a domain name) but for a network rule
// without anchors, that is, a substring pattern.
func (r Rule) bareAddr() bool {
	if r.Kind != KBare {
		return false
	}

	_, err := netip.ParseAddr(r.D)

	return err == nil
}

// isNetBlock reports whether r is a blocking network rule (as opposed to a
// hosts-style rule).
func (r Rule) isNetBlock() bool {
	return r.Kind == KBlock || r.bareAddr()
}

// hostMatch is the meaning of the pattern part.
func (r Rule) hostMatch(host string) bool {
	switch r.Kind {
	case KHosts, KBare:
		if r.bareAddr() {
			return strings.Contains(host, r.D)
		}

		return host == r.D
	default:
		if r.Exact {
			return host == r.D
		}

		return host == r.D || strings.HasSuffix(host, "."+r.D)
	}
}

// Matches is the meaning of the rule for a (lower-case host, type) pair.
func (r Rule) Matches(host string, qt uint16) bool {
	if !r.hostMatch(host) {
		return false
	}

	if r.TypeMod != 0 {
		if r.TypeNeg {
			return qt != r.TypeMod
		}

		return qt == r.TypeMod
	}

	return true
}

// List is a rule list in a slot.
type List struct {
	// ID is the list identifier; SvcID is the blocked-service identifier of a
	// service list.
	ID    string
	SvcID string
	Rules []Rule
}

// Text renders the list.  The first line is a comment, so that the text is
// never empty.
func (l *List) Text() string {
	b := &strings.Builder{}
	b.WriteString("! " + l.ID + l.SvcID + "\n")
	for _, r := range l.Rules {
		b.WriteString(r.Text())
		b.WriteString("\n")
	}

	return b.String()
}

// RuleTexts renders the rules one by one.
func (l *List) RuleTexts() (res []string) {
	for _, r := range l.Rules {
		res = append(res, r.Text())
	}

	return res
}

// reported is the rule text that a verdict by rule r of l carries.
func (l *List) reported(r Rule) string {
	if l.ID == IDSvc {
		return l.SvcID
	}

	return r.Text()
}

// Hash is a hash-prefix (dangerous / adult / newly-registered) filter.
type Hash struct {
	ID    string
	Hosts []string
	// Exactly one of RepIP / RepHost is set.
	RepIP   netip.Addr
	RepHost string
}

// Replacement is the replacement host as configured.
func (h *Hash) Replacement() string {
	if h.RepHost != "" {
		return h.RepHost
	}

	return h.RepIP.String()
}

// match returns the entries matching host, most specific first.
func (h *Hash) match(host string) (m []string) {
	for _, e := range h.Hosts {
		if host == e || strings.HasSuffix(host, "."+e) {
			m = append(m, e)
		}
	}

	sort.Slice(m, func(i, j int) bool { return len(m[i]) > len(m[j]) })

	return m
}

// Config is the content of every slot that is in effect for a requester.  A nil
// slot is absent (not configured or switched off).
type Config struct {
	Custom *List
	Shared []*List
	Svc    []*List

	Dangerous *Hash
	Adult     *Hash
	GenSS     *List
	YTSS      *List
	NewReg    *Hash
}

// ruleSources lists custom, shared and service lists.
func (c *Config) ruleSources() (ls []*List) {
	if c.Custom != nil {
		ls = append(ls, c.Custom)
	}

	ls = append(ls, c.Shared...)
	ls = append(ls, c.Svc...)

	return ls
}

// OKind is the kind of an outcome.
type OKind int

// Outcome kinds.
const (
	ONone      OKind = iota
	OAllowed         // allowed by a rule
	OBlocked         // blocked by a rule: answer in the requester's blocking mode
	ORwIP            // answered with the rewrite addresses (possibly none)
	ORwRcode         // answered with the rewrite rcode
	ORwCNAME         // resolved as another name
	OSafeBlock       // hash-prefix filter with an IP block page, HTTPS question: blocking-mode answer
	OSafeEmpty       // hash-prefix filter with an IP block page of the other family: empty NOERROR
)

var okindNames = [...]string{"none", "allowed", "blocked", "rewrite-ip", "rewrite-rcode", "rewrite-cname", "safe-block", "safe-empty"}

func (k OKind) String() string { return okindNames[k] }

// Outcome is one acceptable verdict.
type Outcome struct {
	Kind OKind
	// List is the deciding list; Rules are the acceptable reported rule texts
	// (nil: not compared).
	List  string
	Rules []string

	IPs    []netip.Addr
	Target string
	Rcode  int
}

func (o Outcome) String() string {
	switch o.Kind {
	case ONone:
		return "none"
	case ORwIP:
		return fmt.Sprintf("%s[%s %v]", o.Kind, o.List, o.IPs)
	case ORwRcode:
		return fmt.Sprintf("%s[%s %s]", o.Kind, o.List, dns.RcodeToString[o.Rcode])
	case ORwCNAME:
		return fmt.Sprintf("%s[%s %s]", o.Kind, o.List, o.Target)
	default:
		return fmt.Sprintf("%s[%s %q]", o.Kind, o.List, o.Rules)
	}
}

// Observed is a verdict of the code under test in the terms of the model.
type Observed struct {
	Kind   OKind // ONone, OAllowed, OBlocked, ORwCNAME, or ORwIP for any modified response
	List   string
	Rule   string
	Target string
	// Msg is the message of a modified response.
	Msg *dns.Msg
}

func (o Observed) String() string {
	s := fmt.Sprintf("%s[%s %q", o.Kind, o.List, o.Rule)
	if o.Target != "" {
		s += " -> " + o.Target
	}

	if o.Msg != nil {
		s += fmt.Sprintf(" rcode=%s ans=%d", dns.RcodeToString[o.Msg.Rcode], len(o.Msg.Answer))
		for _, rr := range o.Msg.Answer {
			s += " {" + strings.ReplaceAll(rr.String(), "\t", " ") + "}"
		}
	}

	return s + "]"
}

// rewriteOutcomes returns the acceptable outcomes of the rewrite rules of l for
// the question, nil if none matches.  byHost makes the reported rule the host
// (safe-search lists).
//
// self reports that a matching CNAME rule points at the queried name itself
// (compared without regard to letter case): that is "a rewrite of a host to
// itself", not a rewrite, so if that rule is the one taken, the list yields
// nothing and the evaluation goes on.  Since a CNAME rule has priority over
// address values, the addresses of such a list are not applied either.
func rewriteOutcomes(l *List, host string, qt uint16, byHost bool) (outs []Outcome, self bool) {
	var ipRules, other []Rule
	for _, r := range l.Rules {
		if !r.IsRewrite() || !r.Matches(host, qt) {
			continue
		}

		if r.Kind == KRwIP {
			ipRules = append(ipRules, r)
		} else {
			other = append(other, r)
		}
	}

	rules := func(r Rule) []string {
		if byHost {
			return []string{host}
		}

		return []string{r.Text()}
	}

	for _, r := range other {
		if r.Kind == KRwCNAME && strings.EqualFold(r.Target, host) {
			self = true

			continue
		}

		if r.Kind == KRwCNAME {
			outs = append(outs, Outcome{Kind: ORwCNAME, List: l.ID, Target: r.TargetText(), Rules: rules(r)})
		} else {
			outs = append(outs, Outcome{Kind: ORwRcode, List: l.ID, Rcode: r.Rcode, Rules: rules(r)})
		}
	}

	// processDNSRewriteRules documents that a new-CNAME rule and a non-NOERROR
	// rcode rule both have priority over address values, so addresses are an
	// acceptable outcome only when no such rule matches.
	if len(ipRules) > 0 && len(other) == 0 {
		o := Outcome{Kind: ORwIP, List: l.ID}
		if byHost {
			o.Rules = []string{host}
		}

		for _, r := range ipRules {
			if (qt == dns.TypeA && r.IP.Is4()) || (qt == dns.TypeAAAA && r.IP.Is6()) {
				o.IPs = append(o.IPs, r.IP)
			}
		}

		outs = append(outs, o)
	}

	return outs, self
}

// rewritePhase evaluates the rewrite rules of lists in order.  through reports
// that the evaluation may go on past all of them (no list has a rewrite, or
// those that have may count as rewrites of the host to itself).
func rewritePhase(lists []*List, host string, qt uint16, byHost bool) (outs []Outcome, through bool) {
	for _, l := range lists {
		if l == nil {
			continue
		}

		cands, self := rewriteOutcomes(l, host, qt, byHost)
		outs = append(outs, cands...)
		if len(cands) > 0 && !self {
			return outs, false
		}
	}

	return outs, true
}

// basic evaluates allow / block / hosts rules of the sources for one name.
// allowBy / blockBy map a list index in srcs to the reported texts.
type basicRes struct {
	allow, block map[*List][]string

	// allowPrio is, per list, the highest priority among its matching allow
	// rules, in urlfilter's documented terms ("more specific rules, i.e. with
	// more modifiers, have higher priority"): within the grammar, 1 with a
	// $dnstype modifier and 0 without.
	allowPrio map[*List]int
}

// allowPriority is the priority of an allow rule among allow rules.
func (r Rule) allowPriority() int {
	if r.TypeMod != 0 {
		return 1
	}

	return 0
}

// basic implements "network rules always have higher priority" (urlfilter's
// DNSEngine and URLFilterResult.ToInternal): hosts-style and bare-host rules
// are candidates for the reported block only when no network block rule
// matches anywhere.
func basic(srcs []*List, host string, qt uint16) (b basicRes) {
	b = basicRes{allow: map[*List][]string{}, block: map[*List][]string{}, allowPrio: map[*List]int{}}
	hosts := map[*List][]string{}
	for _, l := range srcs {
		for _, r := range l.Rules {
			if r.IsRewrite() || !r.Matches(host, qt) {
				continue
			}

			switch {
			case r.Kind == KAllow:
				b.allow[l] = append(b.allow[l], l.reported(r))
				b.allowPrio[l] = max(b.allowPrio[l], r.allowPriority())
			case r.isNetBlock():
				b.block[l] = append(b.block[l], l.reported(r))
			default:
				hosts[l] = append(hosts[l], l.reported(r))
			}
		}
	}

	if len(b.block) == 0 {
		b.block = hosts
	}

	return b
}

func outcomesOf(kind OKind, srcs []*List, m map[*List][]string) (outs []Outcome) {
	for _, l := range srcs {
		if texts, ok := m[l]; ok {
			outs = append(outs, Outcome{Kind: kind, List: l.ID, Rules: texts})
		}
	}

	return outs
}

// safeSearchable tells whether the safety filters look at the type at all.
func safeSearchable(qt uint16) bool {
	return qt == dns.TypeA || qt == dns.TypeAAAA || qt == dns.TypeHTTPS
}

// safety evaluates the request filters in the documented order.
func (c *Config) safety(host string, qt uint16) (outs []Outcome, none bool) {
	if !safeSearchable(qt) {
		return nil, true
	}

	hash := func(h *Hash) (outs []Outcome, through bool) {
		if h == nil {
			return nil, true
		}

		m := h.match(host)
		if len(m) == 0 {
			return nil, true
		}

		o := Outcome{List: h.ID, Rules: m}
		switch {
		case h.RepHost != "":
			o.Kind, o.Target = ORwCNAME, h.RepHost
		case qt == dns.TypeHTTPS:
			o.Kind = OSafeBlock
		case (qt == dns.TypeA && h.RepIP.Is4()) || (qt == dns.TypeAAAA && h.RepIP.Is6()):
			o.Kind, o.IPs = ORwIP, []netip.Addr{h.RepIP}
		default:
			o.Kind = OSafeEmpty
		}

		return []Outcome{o}, false
	}

	ss := func(l *List) (outs []Outcome, through bool) {
		return rewritePhase([]*List{l}, host, qt, true)
	}

	for _, f := range []func() ([]Outcome, bool){
		func() ([]Outcome, bool) { return hash(c.Dangerous) },
		func() ([]Outcome, bool) { return hash(c.Adult) },
		func() ([]Outcome, bool) { return ss(c.GenSS) },
		func() ([]Outcome, bool) { return ss(c.YTSS) },
		func() ([]Outcome, bool) { return hash(c.NewReg) },
	} {
		fo, through := f()
		outs = append(outs, fo...)
		if !through {
			return outs, false
		}
	}

	return outs, true
}

// EvalRequest returns the acceptable verdicts on a question.  host is lower
// case without the trailing dot.  A nil c means that nothing is filtered.
func (c *Config) EvalRequest(host string, qt uint16) (outs []Outcome) {
	none := []Outcome{{Kind: ONone}}
	if c == nil {
		return none
	}

	// 1. A DNS-rewrite rule wins outright: custom first, then the shared lists
	// in their configured order.  Service lists are not a source of rewrites.
	rw := append([]*List{c.Custom}, c.Shared...)
	outs, through := rewritePhase(rw, host, qt, false)
	if !through {
		return outs
	}

	return append(outs, c.evalBasic(host, qt)...)
}

// evalBasic is the evaluation after the rewrites: allow, block, safety filters.
func (c *Config) evalBasic(host string, qt uint16) (outs []Outcome) {
	// 2. Allow beats block across all rule sources.
	srcs := c.ruleSources()
	b := basic(srcs, host, qt)
	safe, safeNone := c.safety(host, qt)

	if len(b.allow) > 0 {
		_, customAllows := b.allow[c.Custom]
		customAllows = customAllows && c.Custom != nil
		if customAllows {
			outs = append(outs, Outcome{Kind: OAllowed, List: IDCustom, Rules: b.allow[c.Custom]})

			// The custom filter is consulted first (documented order of
			// composite.Filter.FilterRequest; "the profile's custom rules
			// first"), so among allow rules of equal priority the profile's own
			// is the deciding one: the safety filters must not apply.  Only an
			// allow rule of strictly higher priority in another list can be
			// taken for the deciding one instead.
			otherBest := -1
			for l, p := range b.allowPrio {
				if l != c.Custom {
					otherBest = max(otherBest, p)
				}
			}

			if b.allowPrio[c.Custom] >= otherBest {
				return outs
			}
		}

		// Some other list's allow rule is (or may be) the deciding one: the
		// safety filters apply, and if none of them has a verdict the
		// question is allowed.
		outs = append(outs, safe...)
		if safeNone {
			for _, o := range outcomesOf(OAllowed, srcs, b.allow) {
				if o.List != IDCustom || !customAllows {
					outs = append(outs, o)
				}
			}
		}

		return outs
	}

	if len(b.block) > 0 {
		return outcomesOf(OBlocked, srcs, b.block)
	}

	// 3. Safety filters.
	outs = append(outs, safe...)
	if safeNone {
		outs = append(outs, Outcome{Kind: ONone})
	}

	return outs
}

// AnswerName is one name derived from an answer record, as the response side
// of the filter sees it.
type AnswerName struct {
	Host string
	Type uint16
	// Group numbers the records and, within an HTTPS record, its hint
	// parameters, in the order they are looked at.
	Group int
}

// AnswerNames lists what is looked up for an upstream answer, in order.
func AnswerNames(resp *dns.Msg) (names []AnswerName) {
	g := 0
	for _, rr := range resp.Answer {
		switch rr := rr.(type) {
		case *dns.A:
			names = append(names, AnswerName{Host: rr.A.String(), Type: dns.TypeA, Group: g})
		case *dns.AAAA:
			names = append(names, AnswerName{Host: rr.AAAA.String(), Type: dns.TypeAAAA, Group: g})
		case *dns.CNAME:
			names = append(names, AnswerName{Host: strings.TrimSuffix(rr.Target, "."), Type: dns.TypeCNAME, Group: g})
		case *dns.HTTPS:
			for _, kv := range rr.Value {
				switch kv.Key() {
				case dns.SVCB_IPV4HINT, dns.SVCB_IPV6HINT:
					if kv.String() == "" {
						continue
					}

					for _, s := range strings.Split(kv.String(), ",") {
						names = append(names, AnswerName{Host: s, Type: dns.TypeHTTPS, Group: g})
					}

					g++
				}
			}
		}

		g++
	}

	return names
}

// HasVerdict reports whether the rule sources of c have a verdict on the name
// of an answer.
func (c *Config) HasVerdict(n AnswerName) bool {
	if c == nil {
		return false
	}

	b := basic(c.ruleSources(), n.Host, n.Type)

	return len(b.allow) > 0 || len(b.block) > 0
}

// LaterHintDecides reports whether resp has an HTTPS record whose first hint
// parameter with addresses has no verdict while a later hint parameter of the
// same record has one, and nothing before that record has a verdict.
func (c *Config) LaterHintDecides(resp *dns.Msg) bool {
	if c == nil || resp == nil {
		return false
	}

	for _, rr := range resp.Answer {
		one := &dns.Msg{Answer: []dns.RR{rr}}
		names := AnswerNames(one)
		if _, ok := rr.(*dns.HTTPS); !ok {
			for _, n := range names {
				if c.HasVerdict(n) {
					return false
				}
			}

			continue
		}

		first, later := false, false
		for _, n := range names {
			if !c.HasVerdict(n) {
				continue
			}

			if n.Group == 0 {
				first = true
			} else {
				later = true
			}
		}

		if first {
			return false
		}

		if later {
			return true
		}
	}

	return false
}

// EvalResponse returns the acceptable verdicts on an upstream answer.  Rewrite
// rules do not apply to answers.  The statement does not say how verdicts on
// different records of one answer combine, so if the records disagree every one
// of their verdicts is acceptable; if they agree (or only one record has a
// verdict) that verdict is required.
func (c *Config) EvalResponse(resp *dns.Msg) (outs []Outcome) {
	none := []Outcome{{Kind: ONone}}
	if c == nil || resp == nil {
		return none
	}

	srcs := c.ruleSources()
	for _, n := range AnswerNames(resp) {
		b := basic(srcs, n.Host, n.Type)
		switch {
		case len(b.allow) > 0:
			outs = append(outs, outcomesOf(OAllowed, srcs, b.allow)...)
		case len(b.block) > 0:
			outs = append(outs, outcomesOf(OBlocked, srcs, b.block)...)
		}
	}

	if len(outs) == 0 {
		return none
	}

	return outs
}

// Accept reports whether the observed verdict is one of the acceptable ones and
// returns the matching outcome.
func Accept(obs Observed, outs []Outcome) (o Outcome, ok bool) {
	for _, o = range outs {
		if acceptOne(obs, o) {
			return o, true
		}
	}

	return Outcome{}, false
}

func inStrs(s string, ss []string) bool {
	for _, x := range ss {
		if x == s {
			return true
		}
	}

	return false
}

func acceptOne(obs Observed, o Outcome) bool {
	switch o.Kind {
	case ONone:
		return obs.Kind == ONone
	case OAllowed, OBlocked:
		return obs.Kind == o.Kind && obs.List == o.List && (o.Rules == nil || inStrs(obs.Rule, o.Rules))
	case ORwCNAME:
		return obs.Kind == ORwCNAME && obs.List == o.List && strings.EqualFold(obs.Target, o.Target) &&
			(o.Rules == nil || inStrs(obs.Rule, o.Rules))
	case ORwRcode:
		return obs.Kind == ORwIP && obs.List == o.List && obs.Msg != nil && obs.Msg.Rcode == o.Rcode &&
			len(obs.Msg.Answer) == 0 && (o.Rules == nil || inStrs(obs.Rule, o.Rules))
	case ORwIP:
		if obs.Kind != ORwIP || obs.List != o.List || obs.Msg == nil || obs.Msg.Rcode != dns.RcodeSuccess {
			return false
		}

		if o.Rules != nil && !inStrs(obs.Rule, o.Rules) {
			return false
		}

		return sameAddrs(AnswerAddrs(obs.Msg), o.IPs) && len(AnswerAddrs(obs.Msg)) == len(obs.Msg.Answer)
	case OSafeBlock, OSafeEmpty:
		// The message is checked by the caller against the blocking mode.
		return obs.Kind == ORwIP && obs.List == o.List && obs.Msg != nil &&
			(o.Rules == nil || inStrs(obs.Rule, o.Rules))
	}

	return false
}

// AnswerAddrs returns the addresses of the A/AAAA records of the answer
// section.
func AnswerAddrs(m *dns.Msg) (ips []netip.Addr) {
	for _, rr := range m.Answer {
		switch rr := rr.(type) {
		case *dns.A:
			if ip, ok := netip.AddrFromSlice(rr.A.To4()); ok {
				ips = append(ips, ip)
			}
		case *dns.AAAA:
			if ip, ok := netip.AddrFromSlice(rr.AAAA.To16()); ok {
				ips = append(ips, ip)
			}
		}
	}

	return ips
}

// sameAddrs compares as sets.
func sameAddrs(a, b []netip.Addr) bool {
	am, bm := map[netip.Addr]bool{}, map[netip.Addr]bool{}
	for _, x := range a {
		am[x] = true
	}

	for _, x := range b {
		bm[x] = true
	}

	if len(am) != len(bm) {
		return false
	}

	for x := range am {
		if !bm[x] {
			return false
		}
	}

	return true
}

// OutcomesString renders a set of outcomes.
func OutcomesString(outs []Outcome) string {
	ss := make([]string, 0, len(outs))
	for _, o := range outs {
		ss = append(ss, o.String())
	}

	return "{" + strings.Join(ss, " | ") + "}"
}

// KindSet renders the set of kinds in outs.
func KindSet(outs []Outcome) string {
	m := map[string]bool{}
	for _, o := range outs {
		m[o.Kind.String()] = true
	}

	ks := make([]string, 0, len(m))
	for k := range m {
		ks = append(ks, k)
	}

	sort.Strings(ks)

	return strings.Join(ks, "+")
}

// OwnAllowEqualsShared reports whether the question has the shape: no rewrite
// decides; the profile's own rules contain a matching allow rule; a shared list
// in effect contains a textually equal allow rule; and a safety filter in
// effect matches the host.
func (c *Config) OwnAllowEqualsShared(host string, qt uint16) bool {
	if c == nil || c.Custom == nil {
		return false
	}

	if safe, _ := c.safety(host, qt); len(safe) == 0 {
		return false
	}

	if outs, _ := rewritePhase(append([]*List{c.Custom}, c.Shared...), host, qt, false); len(outs) > 0 {
		return false
	}

	own := map[string]bool{}
	for _, r := range c.Custom.Rules {
		if r.Kind == KAllow && r.Matches(host, qt) {
			own[r.Text()] = true
		}
	}

	for _, l := range c.Shared {
		for _, r := range l.Rules {
			if r.Kind == KAllow && r.Matches(host, qt) && own[r.Text()] {
				return true
			}
		}
	}

	return false
}

// SelfRewriteSpellings returns the spellings, as in the rule texts, of the
// targets of the CNAME rewrite rules in effect that match the question and
// point at the queried name itself.
func (c *Config) SelfRewriteSpellings(host string, qt uint16) (ss []string) {
	if c == nil {
		return nil
	}

	lists := append([]*List{c.Custom}, c.Shared...)
	if safeSearchable(qt) {
		lists = append(lists, c.GenSS, c.YTSS)
	}

	for _, l := range lists {
		if l == nil {
			continue
		}

		for _, r := range l.Rules {
			if r.Kind == KRwCNAME && r.Matches(host, qt) && strings.EqualFold(r.Target, host) {
				ss = append(ss, r.TargetText())
			}
		}
	}

	return ss
}
