//go:build verif

package vc02ref

import (
	"fmt"
	"net/netip"
	"strings"

	"github.com/miekg/dns"
	"pgregory.net/rapid"
)

// Blocking-mode kinds.
const (
	MNull = iota
	MCustom
	MNXDomain
	MRefused
)

var modeNames = [...]string{"null-ip", "custom-ip", "nxdomain", "refused"}

// Mode is a blocking mode in the terms of the model.
type Mode struct {
	Kind   int
	V4, V6 []netip.Addr
}

func (m Mode) String() string {
	if m.Kind == MCustom {
		return fmt.Sprintf("custom-ip%v%v", m.V4, m.V6)
	}

	return modeNames[m.Kind]
}

// Class is the histogram label of the mode.
func (m Mode) Class() string {
	if m.Kind != MCustom {
		return "mode-" + modeNames[m.Kind]
	}

	switch {
	case len(m.V4) > 0 && len(m.V6) > 0:
		return "mode-custom-ip-both"
	case len(m.V4) > 0:
		return "mode-custom-ip-v4only"
	case len(m.V6) > 0:
		return "mode-custom-ip-v6only"
	default:
		return "mode-custom-ip-neither"
	}
}

// block-page style addresses of custom-IP modes; disjoint from the rewrite
// addresses and from the markers.
var (
	modeV4 = []netip.Addr{netip.MustParseAddr("192.0.2.201"), netip.MustParseAddr("192.0.2.202")}
	// IPv6 addresses come in every form a profile can carry: native, IPv4-mapped
	// (what 16 raw bytes of an IPv4 sinkhole decode to), unspecified, loopback.
	modeV6 = []netip.Addr{
		netip.MustParseAddr("2001:db8:b::1"), netip.MustParseAddr("::ffff:192.0.2.55"), netip.MustParseAddr("2001:db8:b::2"),
		netip.IPv6Unspecified(), netip.IPv6Loopback(),
	}
)

// DrawMode draws a blocking mode.
func DrawMode(t *rapid.T, label string) (m Mode) {
	m.Kind = rapid.SampledFrom([]int{MNull, MCustom, MCustom, MNXDomain, MRefused}).Draw(t, label+"Kind")
	if m.Kind == MCustom {
		m.V4 = modeV4[:rapid.IntRange(0, 2).Draw(t, label+"N4")]
		v6 := rapid.Permutation(modeV6).Draw(t, label+"V6Order")
		m.V6 = v6[:rapid.IntRange(0, 2).Draw(t, label+"N6")]
		if rapid.IntRange(0, 3).Draw(t, label+"Mapped") == 0 && !HasMapped(m.V6) {
			m.V6 = append([]netip.Addr{modeV6[1]}, m.V6...)
		}
	}

	return m
}

// CheckHeader checks what every answer owes to its question.
func CheckHeader(req, resp *dns.Msg) error {
	switch {
	case resp == nil:
		return fmt.Errorf("no response")
	case !resp.Response:
		return fmt.Errorf("QR bit not set")
	case resp.Id != req.Id:
		return fmt.Errorf("id %d, want %d", resp.Id, req.Id)
	case len(resp.Question) != 1 || resp.Question[0] != req.Question[0]:
		return fmt.Errorf("question %v, want %v", resp.Question, req.Question)
	}

	return nil
}

// Marker returns a description of the first piece of upstream data in resp, ""
// if there is none.
func Marker(resp *dns.Msg) string {
	for _, sec := range [][]dns.RR{resp.Answer, resp.Ns, resp.Extra} {
		for _, rr := range sec {
			if _, ok := rr.(*dns.OPT); ok {
				continue
			}

			s := strings.ToLower(rr.String())
			if rr.Header().Ttl == MarkerTTL || strings.Contains(s, "198.51.100.") || strings.Contains(s, "2001:db8:ffff:") ||
				strings.Contains(s, "mark.test") {
				return strings.ReplaceAll(rr.String(), "\t", " ")
			}
		}
	}

	return ""
}

// CheckGenerated checks that every record of resp (except OPT) has the given
// TTL, that the authority section holds nothing but an SOA for the question
// name and the additional section nothing but OPT, and that no upstream data is
// present.
func CheckGenerated(req, resp *dns.Msg, ttl uint32) error {
	if m := Marker(resp); m != "" {
		return fmt.Errorf("record obtained from upstream: %s", m)
	}

	for _, rr := range resp.Answer {
		if rr.Header().Ttl != ttl {
			return fmt.Errorf("answer TTL %d, want the requester's %d: %s", rr.Header().Ttl, ttl, rr)
		}
	}

	for _, rr := range resp.Ns {
		soa, ok := rr.(*dns.SOA)
		if !ok {
			return fmt.Errorf("authority record is not an SOA: %s", rr)
		}

		if !strings.EqualFold(soa.Hdr.Name, req.Question[0].Name) {
			return fmt.Errorf("SOA owner %q, want %q", soa.Hdr.Name, req.Question[0].Name)
		}

		if soa.Hdr.Ttl != ttl {
			return fmt.Errorf("SOA TTL %d, want the requester's %d", soa.Hdr.Ttl, ttl)
		}
	}

	for _, rr := range resp.Extra {
		if _, ok := rr.(*dns.OPT); !ok {
			return fmt.Errorf("additional record: %s", rr)
		}
	}

	return nil
}

// checkAddrs checks that the answer section is exactly the addresses ips, in
// records of type qt owned by the question name.
func checkAddrs(req, resp *dns.Msg, ips []netip.Addr) error {
	q := req.Question[0]
	if len(resp.Answer) != len(ips) {
		return fmt.Errorf("%d answer records, want %d (%v)", len(resp.Answer), len(ips), ips)
	}

	for _, rr := range resp.Answer {
		h := rr.Header()
		if h.Rrtype != q.Qtype || h.Class != dns.ClassINET || !strings.EqualFold(h.Name, q.Name) {
			return fmt.Errorf("answer record %s does not answer %s %s", rr, q.Name, dns.TypeToString[q.Qtype])
		}
	}

	if got := AnswerAddrs(resp); !sameAddrs(got, ips) || len(got) != len(ips) {
		return fmt.Errorf("answer addresses %v, want %v", got, ips)
	}

	return nil
}

// CheckBlocked checks that resp is a blocked answer to req in the shape of mode
// m with TTL ttl.
func CheckBlocked(req, resp *dns.Msg, m Mode, ttl uint32) error {
	if err := CheckHeader(req, resp); err != nil {
		return err
	}

	if err := CheckGenerated(req, resp, ttl); err != nil {
		return err
	}

	qt := req.Question[0].Qtype
	wantRcode, nodata := dns.RcodeSuccess, true
	var ips []netip.Addr
	switch m.Kind {
	case MNull:
		switch qt {
		case dns.TypeA:
			ips, nodata = []netip.Addr{netip.IPv4Unspecified()}, false
		case dns.TypeAAAA:
			ips, nodata = []netip.Addr{netip.IPv6Unspecified()}, false
		}
	case MCustom:
		switch {
		case qt == dns.TypeA && len(m.V4) > 0:
			ips, nodata = m.V4, false
		case qt == dns.TypeAAAA && len(m.V6) > 0:
			ips, nodata = m.V6, false
		}
	case MNXDomain:
		wantRcode = dns.RcodeNameError
	case MRefused:
		wantRcode = dns.RcodeRefused
	}

	if resp.Rcode != wantRcode {
		return fmt.Errorf("rcode %s, want %s for mode %s", dns.RcodeToString[resp.Rcode], dns.RcodeToString[wantRcode], m)
	}

	if nodata {
		if len(resp.Answer) != 0 {
			return fmt.Errorf("mode %s type %s: %d answer records, want none", m, dns.TypeToString[qt], len(resp.Answer))
		}

		return nil
	}

	if err := checkAddrs(req, resp, ips); err != nil {
		return fmt.Errorf("mode %s: %w", m, err)
	}

	return nil
}

// CheckRewriteIP checks an answer made of rewrite addresses.
func CheckRewriteIP(req, resp *dns.Msg, ips []netip.Addr, ttl uint32) error {
	if err := CheckHeader(req, resp); err != nil {
		return err
	}

	if err := CheckGenerated(req, resp, ttl); err != nil {
		return err
	}

	if resp.Rcode != dns.RcodeSuccess {
		return fmt.Errorf("rcode %s, want NOERROR", dns.RcodeToString[resp.Rcode])
	}

	seen := map[netip.Addr]bool{}
	var uniq []netip.Addr
	for _, ip := range ips {
		if !seen[ip] {
			seen[ip] = true
			uniq = append(uniq, ip)
		}
	}

	q := req.Question[0]
	for _, rr := range resp.Answer {
		h := rr.Header()
		if h.Rrtype != q.Qtype || h.Class != dns.ClassINET || !strings.EqualFold(h.Name, q.Name) {
			return fmt.Errorf("answer record %s does not answer %s %s", rr, q.Name, dns.TypeToString[q.Qtype])
		}
	}

	if got := AnswerAddrs(resp); !sameAddrs(got, uniq) || len(got) != len(resp.Answer) {
		return fmt.Errorf("answer addresses %v, want %v", got, uniq)
	}

	return nil
}

// CheckRcode checks an rcode-rewrite answer.
func CheckRcode(req, resp *dns.Msg, rcode int, ttl uint32) error {
	if err := CheckHeader(req, resp); err != nil {
		return err
	}

	if err := CheckGenerated(req, resp, ttl); err != nil {
		return err
	}

	if resp.Rcode != rcode || len(resp.Answer) != 0 {
		return fmt.Errorf("rcode %s with %d answers, want %s with none", dns.RcodeToString[resp.Rcode], len(resp.Answer), dns.RcodeToString[rcode])
	}

	return nil
}

// CheckEmpty checks an empty NOERROR answer.
func CheckEmpty(req, resp *dns.Msg, ttl uint32) error {
	return CheckRcode(req, resp, dns.RcodeSuccess, ttl)
}

// MsgString renders a message on one line.
func MsgString(m *dns.Msg) string {
	if m == nil {
		return "<nil>"
	}

	b := &strings.Builder{}
	fmt.Fprintf(b, "id=%d %s q=%v", m.Id, dns.RcodeToString[m.Rcode], m.Question)
	for i, sec := range [][]dns.RR{m.Answer, m.Ns, m.Extra} {
		for _, rr := range sec {
			fmt.Fprintf(b, " %s{%s}", [...]string{"an", "ns", "ex"}[i], strings.ReplaceAll(rr.String(), "\t", " "))
		}
	}

	return b.String()
}

// CaseVariant returns name with the letter case of at least one letter
// changed; ok is false if name has no letter.
func CaseVariant(t *rapid.T, name string) (v string, ok bool) {
	b := []byte(name)
	var letters []int
	for i, c := range b {
		if (c >= 'a' && c <= 'z') || (c >= 'A' && c <= 'Z') {
			letters = append(letters, i)
		}
	}

	if len(letters) == 0 {
		return name, false
	}

	must := letters[rapid.IntRange(0, len(letters)-1).Draw(t, "caseMust")]
	all := rapid.IntRange(0, 3).Draw(t, "caseAll") == 0
	for _, i := range letters {
		if i == must || all || rapid.Bool().Draw(t, "caseFlip") {
			b[i] ^= 0x20
		}
	}

	return string(b), true
}

// FoldMsg renders a message without regard to the letter case of names and to
// the message ID, for comparing the answers to two spellings of one question.
func FoldMsg(m *dns.Msg) string {
	if m == nil {
		return "<nil>"
	}

	c := m.Copy()
	c.Id = 0

	return strings.ToLower(c.String())
}

// HasMapped reports whether one of ips is in the IPv4-mapped form.
func HasMapped(ips []netip.Addr) bool {
	for _, ip := range ips {
		if ip.Is4In6() {
			return true
		}
	}

	return false
}
