//go:build verif

package vc02ref

import (
	"fmt"
	"net/netip"
	"strings"

	"github.com/miekg/dns"
	"pgregory.net/rapid"
)

// QTypes is the pool of question types.
var QTypes = []uint16{dns.TypeA, dns.TypeA, dns.TypeAAAA, dns.TypeAAAA, dns.TypeHTTPS, dns.TypeTXT, dns.TypeMX, dns.TypeCNAME}

var modTypes = []uint16{dns.TypeA, dns.TypeAAAA, dns.TypeHTTPS, dns.TypeTXT, dns.TypeCNAME}

// rewrite / hosts / block-page addresses (documentation ranges, never markers).
var (
	rwV4 = []netip.Addr{netip.MustParseAddr("192.0.2.1"), netip.MustParseAddr("192.0.2.2"), netip.MustParseAddr("203.0.113.9")}
	rwV6 = []netip.Addr{netip.MustParseAddr("2001:db8::1"), netip.MustParseAddr("2001:db8::2"), netip.MustParseAddr("::ffff:192.0.2.66"), netip.IPv6Loopback()}
	// zero-valued rewrite addresses: they coincide with the null-IP answer.
	rwZero4, rwZero6 = netip.IPv4Unspecified(), netip.IPv6Unspecified()
	hsIP             = []netip.Addr{netip.MustParseAddr("0.0.0.0"), netip.MustParseAddr("127.0.0.1"), netip.MustParseAddr("::1"), netip.MustParseAddr("192.0.2.7"), netip.MustParseAddr("::")}
)

// ancestors returns host and its parents with at least two labels.
func ancestors(host string) (as []string) {
	for {
		if strings.Count(host, ".") < 1 {
			return as
		}

		as = append(as, host)
		host = host[strings.IndexByte(host, '.')+1:]
	}
}

// drawDomain draws the domain of a request-directed rule: mostly the focus host
// or one of its parents, so that several slots match the same question.
func drawDomain(t *rapid.T, focus string) string {
	if rapid.IntRange(0, 9).Draw(t, "dFocus") < 7 {
		return rapid.SampledFrom(ancestors(focus)).Draw(t, "dAnc")
	}

	pool := append(append([]string{}, Hosts...), "cn.test", "t1.cn.test")

	return rapid.SampledFrom(pool).Draw(t, "dPool")
}

func drawAddr(t *rapid.T, label string) netip.Addr {
	if rapid.IntRange(0, 2).Draw(t, label+"Fam") == 0 {
		return rapid.SampledFrom(rwV6).Draw(t, label+"V6")
	}

	return rapid.SampledFrom(rwV4).Draw(t, label+"V4")
}

func drawTypeMod(t *rapid.T, r *Rule) {
	if rapid.IntRange(0, 3).Draw(t, "hasTypeMod") == 0 {
		r.TypeMod = rapid.SampledFrom(modTypes).Draw(t, "typeMod")
		r.TypeNeg = rapid.IntRange(0, 2).Draw(t, "typeNeg") == 0
	}
}

// drawRewrite draws a $dnsrewrite rule for domain d.
func drawRewrite(t *rapid.T, d string) (r Rule) {
	r = Rule{D: d, Long: rapid.Bool().Draw(t, "rwLong")}
	switch rapid.IntRange(0, 9).Draw(t, "rwKind") {
	case 0, 1, 2, 3, 4:
		r.Kind, r.IP = KRwIP, drawAddr(t, "rwIP")
		if rapid.IntRange(0, 7).Draw(t, "rwZero") == 0 {
			r.IP = rwZero4
			if rapid.Bool().Draw(t, "rwZero6") {
				r.IP = rwZero6
			}
		}
	case 5, 6, 7:
		r.Kind, r.Target = KRwCNAME, rapid.SampledFrom(Targets).Draw(t, "rwTarget")

		// "Send the whole zone to one of its hosts": the pattern covers the
		// target, so a question for the target is a rewrite to itself.
		var under []string
		for _, h := range Hosts {
			if h == d || strings.HasSuffix(h, "."+d) {
				under = append(under, h)
			}
		}

		if len(under) > 0 && rapid.IntRange(0, 9).Draw(t, "rwSelf") < 4 {
			r.Target = rapid.SampledFrom(under).Draw(t, "rwSelfTarget")
		}

		r.TargetCaps = rapid.IntRange(0, 3).Draw(t, "rwTargetCaps") == 0
	default:
		r.Kind, r.Rcode = KRwRcode, rapid.SampledFrom([]int{dns.RcodeRefused, dns.RcodeNameError, dns.RcodeServerFailure}).Draw(t, "rwRcode")
	}

	return r
}

// respDomains are the names an upstream answer can be looked up under.
func respDomains() (ds []string) {
	for _, ip := range MarkerV4 {
		ds = append(ds, ip.String())
	}

	for _, ip := range MarkerV6 {
		ds = append(ds, ip.String())
	}

	ds = append(ds, MarkerTargets...)
	ds = append(ds, "mark.test")

	return ds
}

// drawRespRule draws a rule aimed at upstream answers.
func drawRespRule(t *rapid.T) (r Rule) {
	switch k := rapid.IntRange(0, 9).Draw(t, "respKind"); {
	case k < 4:
		r = Rule{Kind: KBlock, D: rapid.SampledFrom(respDomains()).Draw(t, "respD")}
		drawTypeMod(t, &r)
	case k < 7:
		r = Rule{Kind: KAllow, D: rapid.SampledFrom(respDomains()).Draw(t, "respD")}
		drawTypeMod(t, &r)
	case k < 9:
		// A bare address or name: an exact-host rule.
		ds := append([]string{}, MarkerTargets...)
		for _, ip := range append(append([]netip.Addr{}, MarkerV4...), MarkerV6...) {
			ds = append(ds, ip.String())
		}

		r = Rule{Kind: KBare, D: rapid.SampledFrom(ds).Draw(t, "respBare")}
	default:
		// A rewrite aimed at an answer: never applied.
		r = drawRewrite(t, rapid.SampledFrom(respDomains()).Draw(t, "respD"))
	}

	return r
}

// drawRule draws a rule for a rule list (custom or shared).
func drawRule(t *rapid.T, focus string) (r Rule) {
	k := rapid.IntRange(0, 19).Draw(t, "ruleKind")
	switch {
	case k < 6:
		r = Rule{Kind: KBlock, D: drawDomain(t, focus)}
		drawTypeMod(t, &r)
	case k < 10:
		r = Rule{Kind: KAllow, D: drawDomain(t, focus)}
		drawTypeMod(t, &r)
	case k < 12:
		r = Rule{Kind: KHosts, D: drawDomain(t, focus), IP: rapid.SampledFrom(hsIP).Draw(t, "hostsIP")}
	case k < 13:
		r = Rule{Kind: KBare, D: drawDomain(t, focus)}
	case k < 17:
		r = drawRewrite(t, drawDomain(t, focus))
	default:
		return drawRespRule(t)
	}

	if r.Kind != KHosts && r.Kind != KBare && rapid.IntRange(0, 9).Draw(t, "upper") == 0 {
		r.Upper = true
	}

	return r
}

// drawSvcRule draws a rule of a blocked-service list: mostly blocks.
func drawSvcRule(t *rapid.T, focus string) (r Rule) {
	k := rapid.IntRange(0, 9).Draw(t, "svcKind")
	switch {
	case k < 5:
		r = Rule{Kind: KBlock, D: drawDomain(t, focus)}
		drawTypeMod(t, &r)
	case k < 7:
		r = Rule{Kind: KHosts, D: drawDomain(t, focus), IP: rapid.SampledFrom(hsIP).Draw(t, "hostsIP")}
	case k < 8:
		r = Rule{Kind: KAllow, D: drawDomain(t, focus)}
	case k < 9:
		// Service lists are not a source of rewrites.
		r = drawRewrite(t, drawDomain(t, focus))
	default:
		r = drawRespRule(t)
	}

	return r
}

func dedupe(rs []Rule) (out []Rule) {
	seen := map[string]bool{}
	for _, r := range rs {
		if txt := r.Text(); !seen[txt] {
			seen[txt] = true
			out = append(out, r)
		}
	}

	return out
}

// DrawList draws a rule list with between lo and hi rules.
func DrawList(t *rapid.T, id, focus string, lo, hi int) (l *List) {
	l = &List{ID: id}
	n := rapid.IntRange(lo, hi).Draw(t, "nRules")
	for i := 0; i < n; i++ {
		l.Rules = append(l.Rules, drawRule(t, focus))
	}

	l.Rules = dedupe(l.Rules)

	return l
}

// DrawSvc draws a blocked-service list.
func DrawSvc(t *rapid.T, svcID, focus string) (l *List) {
	l = &List{ID: IDSvc, SvcID: svcID}
	n := rapid.IntRange(1, 3).Draw(t, "nSvcRules")
	for i := 0; i < n; i++ {
		l.Rules = append(l.Rules, drawSvcRule(t, focus))
	}

	l.Rules = dedupe(l.Rules)

	return l
}

// DrawHash draws a hash-prefix filter.
func DrawHash(t *rapid.T, id, focus string) (h *Hash) {
	h = &Hash{ID: id}
	n := rapid.IntRange(1, 2).Draw(t, "nHashHosts")
	seen := map[string]bool{}
	for i := 0; i < n; i++ {
		d := drawDomain(t, focus)
		if !seen[d] {
			seen[d] = true
			h.Hosts = append(h.Hosts, d)
		}
	}

	if rapid.Bool().Draw(t, "repIsHost") {
		h.RepHost = rapid.SampledFrom(Targets).Draw(t, "repHost")
	} else {
		h.RepIP = drawAddr(t, "repIP")
	}

	return h
}

// DrawSafeSearch draws a safe-search list: exact-host rewrites to a CNAME or to
// addresses, in the form documented in doc/externalhttp.md.
func DrawSafeSearch(t *rapid.T, id, focus string) (l *List) {
	l = &List{ID: id}
	n := rapid.IntRange(1, 2).Draw(t, "nSSRules")
	for i := 0; i < n; i++ {
		r := Rule{Long: true, Exact: rapid.IntRange(0, 3).Draw(t, "ssExact") != 0}
		if rapid.IntRange(0, 3).Draw(t, "ssFocus") != 0 {
			r.D = focus
		} else {
			r.D = drawDomain(t, focus)
		}

		if rapid.Bool().Draw(t, "ssCNAME") {
			r.Kind, r.Target = KRwCNAME, rapid.SampledFrom(Targets).Draw(t, "ssTarget")
		} else {
			r.Kind, r.IP = KRwIP, drawAddr(t, "ssIP")
		}

		l.Rules = append(l.Rules, r)
	}

	l.Rules = dedupe(l.Rules)

	return l
}

// World is everything a filter storage holds plus the custom rules of the
// profile.
type World struct {
	Custom *List
	Shared []*List
	Svc    []*List

	Dangerous *Hash
	Adult     *Hash
	GenSS     *List
	YTSS      *List
	NewReg    *Hash
}

// SharedIDs are the identifiers of the shared lists; they sort in this order.
var SharedIDs = []string{"l1", "l2", "l3"}

// SvcIDs are the identifiers of the blocked services.
var SvcIDs = []string{"s1", "s2"}

// DrawWorld draws the content of every slot.  pSafe is the probability, in
// percent, of each safety filter being present.
func DrawWorld(t *rapid.T, focus string, pSafe int) (w *World) {
	w = &World{}
	if rapid.IntRange(0, 9).Draw(t, "hasCustom") < 7 {
		w.Custom = DrawList(t, IDCustom, focus, 1, 3)
	}

	nShared := rapid.IntRange(0, 3).Draw(t, "nShared")
	for i := 0; i < nShared; i++ {
		w.Shared = append(w.Shared, DrawList(t, SharedIDs[i], focus, 0, 4))
	}

	nSvc := rapid.SampledFrom([]int{0, 0, 1, 1, 2}).Draw(t, "nSvc")
	for i := 0; i < nSvc; i++ {
		w.Svc = append(w.Svc, DrawSvc(t, SvcIDs[i], focus))
	}

	// The shape "the profile's own allow rule equals an allow rule of a shared
	// list, and a safety filter matches the host" needs three things at once;
	// it is constructed, not waited for.
	ownAllow := rapid.IntRange(0, 6).Draw(t, "ownAllowShape") == 0
	if ownAllow {
		r := Rule{Kind: KAllow, D: rapid.SampledFrom(ancestors(focus)).Draw(t, "ownAllowD")}
		if rapid.IntRange(0, 3).Draw(t, "ownAllowTyped") == 0 {
			r.TypeMod = rapid.SampledFrom([]uint16{dns.TypeA, dns.TypeAAAA, dns.TypeHTTPS}).Draw(t, "ownAllowType")
			r.TypeNeg = rapid.Bool().Draw(t, "ownAllowNeg")
		}

		if w.Custom == nil {
			w.Custom = &List{ID: IDCustom}
		}

		// Rewrites of the rule lists would decide before any allow rule.
		keep := func(l *List) {
			var rs []Rule
			for _, x := range l.Rules {
				if !x.IsRewrite() {
					rs = append(rs, x)
				}
			}

			l.Rules = rs
		}

		keep(w.Custom)
		w.Custom.Rules = dedupe(append(w.Custom.Rules, r))
		for len(w.Shared) < 1 {
			w.Shared = append(w.Shared, &List{ID: SharedIDs[len(w.Shared)]})
		}

		n := rapid.IntRange(1, min(2, len(w.Shared))).Draw(t, "ownAllowCopies")
		first := rapid.IntRange(0, len(w.Shared)-n).Draw(t, "ownAllowFirst")
		for _, l := range w.Shared {
			keep(l)
		}

		for _, l := range w.Shared[first : first+n] {
			// The equal rule goes first or last in the shared list.
			if rapid.Bool().Draw(t, "ownAllowFront") {
				l.Rules = dedupe(append([]Rule{r}, l.Rules...))
			} else {
				l.Rules = dedupe(append(l.Rules, r))
			}
		}
	}

	has := func(label string) bool { return rapid.IntRange(0, 99).Draw(t, label) < pSafe }

	// The shape "a CNAME rewrite whose pattern covers its own target, and the
	// target is the host in focus" is constructed as well; the other rules of
	// the lists stay, so that the rest of the precedence chain has something to
	// say about the same name.
	selfRw := rapid.IntRange(0, 6).Draw(t, "selfRewriteShape") == 0
	selfRule := Rule{Kind: KRwCNAME, Target: focus}
	selfWhere := 0
	if selfRw {
		selfRule.D = rapid.SampledFrom(ancestors(focus)).Draw(t, "selfRwZone")
		selfRule.Exact = selfRule.D == focus && rapid.Bool().Draw(t, "selfRwExact")
		selfRule.Long = rapid.Bool().Draw(t, "selfRwLong")
		selfRule.TargetCaps = rapid.IntRange(0, 2).Draw(t, "selfRwCaps") == 0
		selfWhere = rapid.IntRange(0, 3).Draw(t, "selfRwWhere")
		switch {
		case selfWhere == 0 || (selfWhere == 1 && len(w.Shared) == 0):
			selfWhere = 0
			if w.Custom == nil {
				w.Custom = &List{ID: IDCustom}
			}

			w.Custom.Rules = dedupe(append([]Rule{selfRule}, w.Custom.Rules...))
		case selfWhere == 1:
			l := w.Shared[rapid.IntRange(0, len(w.Shared)-1).Draw(t, "selfRwList")]
			l.Rules = dedupe(append([]Rule{selfRule}, l.Rules...))
		}
	}
	if has("hasDangerous") {
		w.Dangerous = DrawHash(t, IDDangerous, focus)
	}

	if has("hasAdult") {
		w.Adult = DrawHash(t, IDAdult, focus)
	}

	if has("hasGenSS") {
		w.GenSS = DrawSafeSearch(t, IDGenSS, focus)
	}

	if has("hasYTSS") {
		w.YTSS = DrawSafeSearch(t, IDYTSS, focus)
	}

	if has("hasNewReg") {
		w.NewReg = DrawHash(t, IDNewReg, focus)
	}

	if selfRw && selfWhere >= 2 {
		// In a safe-search list, in the documented long form.
		selfRule.Long = true
		l := &w.GenSS
		if selfWhere == 3 {
			l = &w.YTSS
		}

		if *l == nil {
			id := IDGenSS
			if selfWhere == 3 {
				id = IDYTSS
			}

			*l = &List{ID: id}
		}

		(*l).Rules = dedupe(append([]Rule{selfRule}, (*l).Rules...))
	}

	if ownAllow {
		// Make sure that one safety filter matches the focus host.
		h := func(id string) *Hash {
			x := DrawHash(t, id, focus)
			x.Hosts = []string{rapid.SampledFrom(ancestors(focus)).Draw(t, "ownAllowSafeHost")}

			return x
		}

		ss := func(id string) *List {
			l := DrawSafeSearch(t, id, focus)
			l.Rules[0].D = focus

			return l
		}

		switch rapid.IntRange(0, 4).Draw(t, "ownAllowSafety") {
		case 0:
			w.Dangerous = h(IDDangerous)
		case 1:
			w.Adult = h(IDAdult)
		case 2:
			w.GenSS = ss(IDGenSS)
		case 3:
			w.YTSS = ss(IDYTSS)
		default:
			w.NewReg = h(IDNewReg)
		}
	}

	return w
}

// All returns the configuration in which every slot of w is in effect, with the
// shared lists in the given order.
func (w *World) All() (c *Config) {
	return &Config{
		Custom: w.Custom, Shared: w.Shared, Svc: w.Svc,
		Dangerous: w.Dangerous, Adult: w.Adult, GenSS: w.GenSS, YTSS: w.YTSS, NewReg: w.NewReg,
	}
}

// Describe renders a configuration for failure messages and samples.
func (c *Config) Describe() (m map[string]any) {
	if c == nil {
		return map[string]any{"filtering": "off"}
	}

	m = map[string]any{}
	if c.Custom != nil {
		m["custom"] = c.Custom.RuleTexts()
	}

	for i, l := range c.Shared {
		m[fmt.Sprintf("shared%d:%s", i, l.ID)] = l.RuleTexts()
	}

	for _, l := range c.Svc {
		m["svc:"+l.SvcID] = l.RuleTexts()
	}

	for _, h := range []*Hash{c.Dangerous, c.Adult, c.NewReg} {
		if h != nil {
			m[h.ID] = fmt.Sprintf("%v -> %s", h.Hosts, h.Replacement())
		}
	}

	for _, l := range []*List{c.GenSS, c.YTSS} {
		if l != nil {
			m[l.ID] = l.RuleTexts()
		}
	}

	return m
}

// Slots counts the slots of c that produce a verdict of their own for the
// question: rule sources with a matching rule of any kind and safety filters
// that match.
func (c *Config) Slots(host string, qt uint16) (n int) {
	if c == nil {
		return 0
	}

	for _, l := range c.ruleSources() {
		for _, r := range l.Rules {
			if r.Matches(host, qt) {
				n++

				break
			}
		}
	}

	if safeSearchable(qt) {
		for _, h := range []*Hash{c.Dangerous, c.Adult, c.NewReg} {
			if h != nil && len(h.match(host)) > 0 {
				n++
			}
		}

		for _, l := range []*List{c.GenSS, c.YTSS} {
			if l == nil {
				continue
			}

			if outs, self := rewriteOutcomes(l, host, qt, true); len(outs) > 0 || self {
				n++
			}
		}
	}

	return n
}

// Upstream answer shapes.
const (
	UpAddr     = iota // address records of the asked family (A for other types)
	UpCNAME           // CNAME to a marker target, then addresses
	UpHTTPS           // HTTPS record with address hints
	UpNoData          // NOERROR, SOA in the authority section
	UpNXDomain        // NXDOMAIN, SOA in the authority section
	UpShapes
)

// UpShapeNames are printable names of the shapes.
var UpShapeNames = [...]string{"addr", "cname+addr", "https-hints", "nodata", "nxdomain"}

// UpAnswer is the script of the upstream for one question.
type UpAnswer struct {
	Shape  int
	V4     []netip.Addr
	V6     []netip.Addr
	Target string
	// HTTPS are the HTTPS records of the UpHTTPS shape.
	HTTPS []HTTPSRec
}

// HTTPSRec is one HTTPS record of an upstream answer: address hints of either
// or both families, several addresses per hint, in either order.
type HTTPSRec struct {
	V4, V6  []netip.Addr
	V6First bool
}

func drawAddrs(t *rapid.T, pool []netip.Addr, label string) (as []netip.Addr) {
	p := rapid.Permutation(pool).Draw(t, label+"Order")

	return p[:rapid.IntRange(1, 2).Draw(t, label+"N")]
}

func drawHTTPSRec(t *rapid.T) (r HTTPSRec) {
	switch rapid.IntRange(0, 4).Draw(t, "hintKind") {
	case 0:
		r.V4 = drawAddrs(t, MarkerV4, "hint4")
	case 1:
		r.V6 = drawAddrs(t, MarkerV6, "hint6")
	case 2, 3:
		r.V4, r.V6 = drawAddrs(t, MarkerV4, "hint4"), drawAddrs(t, MarkerV6, "hint6")
	default:
		r.V4, r.V6, r.V6First = drawAddrs(t, MarkerV4, "hint4"), drawAddrs(t, MarkerV6, "hint6"), true
	}

	return r
}

// BiasHints turns u, now and then, into an HTTPS answer in which the first hint
// parameter of a record is clean under c and a later one (or a later record)
// carries an address on which the rules of c have a verdict.
func BiasHints(t *rapid.T, u *UpAnswer, c *Config, qt uint16) {
	if c == nil {
		return
	}

	split := func(pool []netip.Addr) (clean, hit []netip.Addr) {
		for _, ip := range pool {
			if c.HasVerdict(AnswerName{Host: ip.String(), Type: dns.TypeHTTPS}) {
				hit = append(hit, ip)
			} else {
				clean = append(clean, ip)
			}
		}

		return clean, hit
	}

	clean4, hit4 := split(MarkerV4)
	clean6, hit6 := split(MarkerV6)
	var recs [][]HTTPSRec
	if len(clean4) > 0 && len(hit6) > 0 {
		recs = append(recs, []HTTPSRec{{V4: clean4, V6: append(append([]netip.Addr{}, clean6...), hit6[0])}})
		recs = append(recs, []HTTPSRec{{V4: clean4[:1]}, {V4: clean4[:1], V6: hit6}})
	}

	if len(clean6) > 0 && len(hit4) > 0 {
		recs = append(recs, []HTTPSRec{{V6: clean6, V4: append(append([]netip.Addr{}, clean4...), hit4[0]), V6First: true}})
	}

	if len(recs) == 0 {
		return
	}

	p := 6
	if qt == dns.TypeHTTPS {
		p = 2
	}

	if rapid.IntRange(0, p-1).Draw(t, "biasHints") != 0 {
		return
	}

	u.Shape = UpHTTPS
	u.HTTPS = recs[rapid.IntRange(0, len(recs)-1).Draw(t, "biasHintsForm")]
}

// DrawUpAnswer draws an upstream answer script for a question of type qt.
func DrawUpAnswer(t *rapid.T, qt uint16) (u UpAnswer) {
	u.Shape = rapid.SampledFrom([]int{UpAddr, UpAddr, UpAddr, UpCNAME, UpCNAME, UpHTTPS, UpNoData, UpNXDomain}).Draw(t, "upShape")
	if qt == dns.TypeHTTPS && rapid.Bool().Draw(t, "upHTTPS") {
		u.Shape = UpHTTPS
	}

	n4 := rapid.IntRange(1, 2).Draw(t, "upN4")
	off := rapid.IntRange(0, len(MarkerV4)-1).Draw(t, "upOff4")
	for i := 0; i < n4; i++ {
		u.V4 = append(u.V4, MarkerV4[(off+i)%len(MarkerV4)])
	}

	u.V6 = []netip.Addr{rapid.SampledFrom(MarkerV6).Draw(t, "upV6")}
	u.Target = rapid.SampledFrom(MarkerTargets).Draw(t, "upTarget")
	if u.Shape == UpHTTPS {
		n := rapid.IntRange(1, 2).Draw(t, "upNHTTPS")
		for i := 0; i < n; i++ {
			u.HTTPS = append(u.HTTPS, drawHTTPSRec(t))
		}
	}

	return u
}

// Build renders the upstream's answer to req.  Every record carries marker
// data: the marker TTL, marker addresses, marker names.
func (u UpAnswer) Build(req *dns.Msg) (resp *dns.Msg) {
	resp = (&dns.Msg{}).SetReply(req)
	resp.RecursionAvailable = true
	q := req.Question[0]
	hdr := func(name string, t uint16) dns.RR_Header {
		return dns.RR_Header{Name: name, Rrtype: t, Class: dns.ClassINET, Ttl: MarkerTTL}
	}

	addrs := func(owner string) (rrs []dns.RR) {
		if q.Qtype == dns.TypeAAAA {
			for _, ip := range u.V6 {
				rrs = append(rrs, &dns.AAAA{Hdr: hdr(owner, dns.TypeAAAA), AAAA: ip.AsSlice()})
			}

			return rrs
		}

		for _, ip := range u.V4 {
			rrs = append(rrs, &dns.A{Hdr: hdr(owner, dns.TypeA), A: ip.AsSlice()})
		}

		return rrs
	}

	soa := &dns.SOA{
		Hdr: hdr("mark.test.", dns.TypeSOA), Ns: "ns.mark.test.", Mbox: "hostmaster.mark.test.",
		Serial: MarkerTTL, Refresh: MarkerTTL, Retry: MarkerTTL, Expire: MarkerTTL, Minttl: MarkerTTL,
	}

	switch u.Shape {
	case UpAddr:
		resp.Answer = addrs(q.Name)
	case UpCNAME:
		resp.Answer = append([]dns.RR{&dns.CNAME{Hdr: hdr(q.Name, dns.TypeCNAME), Target: dns.Fqdn(u.Target)}}, addrs(dns.Fqdn(u.Target))...)
	case UpHTTPS:
		recs := u.HTTPS
		if len(recs) == 0 {
			recs = []HTTPSRec{{V4: u.V4}}
		}

		for i, rec := range recs {
			rr := &dns.HTTPS{SVCB: dns.SVCB{Hdr: hdr(q.Name, dns.TypeHTTPS), Priority: uint16(i + 1), Target: "."}}
			var v4, v6 dns.SVCBKeyValue
			if len(rec.V4) > 0 {
				h := &dns.SVCBIPv4Hint{}
				for _, ip := range rec.V4 {
					h.Hint = append(h.Hint, ip.AsSlice())
				}

				v4 = h
			}

			if len(rec.V6) > 0 {
				h := &dns.SVCBIPv6Hint{}
				for _, ip := range rec.V6 {
					h.Hint = append(h.Hint, ip.AsSlice())
				}

				v6 = h
			}

			for _, kv := range map[bool][]dns.SVCBKeyValue{false: {v4, v6}, true: {v6, v4}}[rec.V6First] {
				if kv != nil {
					rr.Value = append(rr.Value, kv)
				}
			}

			resp.Answer = append(resp.Answer, rr)
		}
	case UpNoData:
		resp.Ns = []dns.RR{soa}
	case UpNXDomain:
		resp.Rcode = dns.RcodeNameError
		resp.Ns = []dns.RR{soa}
	}

	return resp
}

// Flags are the switches of a profile's or a filtering group's configuration.
type Flags struct {
	CustomOn bool

	ParentalOn bool
	AdultOn    bool
	GenSSOn    bool
	YTSSOn     bool
	Services   []string

	RuleListsOn bool
	ListIDs     []string

	SafeBrowsingOn bool
	DangerousOn    bool
	NewRegOn       bool
}

// DrawFlags draws the switches.  Most are on most of the time, so that the
// slots stay populated; list and service identifiers are a drawn order of a
// subset of the known ones plus, sometimes, an unknown one.
func DrawFlags(t *rapid.T, label string) (f Flags) {
	on := func(name string, pct int) bool { return rapid.IntRange(0, 99).Draw(t, label+name) < pct }
	f.CustomOn = on("CustomOn", 85)
	f.ParentalOn = on("ParentalOn", 85)
	f.AdultOn = on("AdultOn", 80)
	f.GenSSOn = on("GenSSOn", 80)
	f.YTSSOn = on("YTSSOn", 80)
	f.RuleListsOn = on("RuleListsOn", 85)
	f.SafeBrowsingOn = on("SafeBrowsingOn", 85)
	f.DangerousOn = on("DangerousOn", 80)
	f.NewRegOn = on("NewRegOn", 80)

	ids := rapid.Permutation(append([]string{"l9"}, SharedIDs...)).Draw(t, label+"ListOrder")
	f.ListIDs = ids[:rapid.IntRange(0, len(ids)).Draw(t, label+"NLists")]
	if rapid.IntRange(0, 2).Draw(t, label+"AllLists") == 0 {
		f.ListIDs = ids
	}

	svcs := rapid.Permutation(append([]string{"s9"}, SvcIDs...)).Draw(t, label+"SvcOrder")
	f.Services = svcs[:rapid.IntRange(0, len(svcs)).Draw(t, label+"NSvcs")]

	return f
}

// Effective returns the configuration that is in effect under the switches f.
// withCustom is false for a filtering group, which has no custom rules.
func (w *World) Effective(f Flags, withCustom bool) (c *Config) {
	c = &Config{}
	if withCustom && f.CustomOn && w.Custom != nil && len(w.Custom.Rules) > 0 {
		c.Custom = w.Custom
	}

	if f.RuleListsOn {
		for _, id := range f.ListIDs {
			for _, l := range w.Shared {
				if l.ID == id {
					c.Shared = append(c.Shared, l)
				}
			}
		}
	}

	if f.ParentalOn {
		if f.AdultOn {
			c.Adult = w.Adult
		}

		if f.GenSSOn {
			c.GenSS = w.GenSS
		}

		if f.YTSSOn {
			c.YTSS = w.YTSS
		}

		for _, id := range f.Services {
			for _, l := range w.Svc {
				if l.SvcID == id {
					c.Svc = append(c.Svc, l)
				}
			}
		}
	}

	if f.SafeBrowsingOn {
		if f.DangerousOn {
			c.Dangerous = w.Dangerous
		}

		if f.NewRegOn {
			c.NewReg = w.NewReg
		}
	}

	return c
}

// AddRespRules adds, with a fair probability, rules aimed at upstream answers
// (and sometimes an allow rule for the focus host, so that an allowed question
// meets a blocked answer) to drawn rule sources of w.  Without it verdicts on
// answers are rare, because most questions already have a verdict.
func (w *World) AddRespRules(t *rapid.T, focus string) {
	n := rapid.SampledFrom([]int{0, 0, 1, 1, 2}).Draw(t, "nRespRules")
	if n == 0 {
		return
	}

	pick := func(label string) *List {
		var srcs []*List
		if w.Custom != nil {
			srcs = append(srcs, w.Custom)
		}

		srcs = append(srcs, w.Shared...)
		if len(srcs) == 0 {
			w.Custom = &List{ID: IDCustom}

			return w.Custom
		}

		return srcs[rapid.IntRange(0, len(srcs)-1).Draw(t, label)]
	}

	for i := 0; i < n; i++ {
		r := drawRespRule(t)
		if rapid.Bool().Draw(t, "respForceBlock") {
			r = Rule{Kind: KBlock, D: rapid.SampledFrom(respDomains()).Draw(t, "respForceD")}
		}

		l := pick("respWhere")
		l.Rules = dedupe(append(l.Rules, r))
	}

	if rapid.IntRange(0, 2).Draw(t, "respAllowReq") == 0 {
		l := pick("respAllowWhere")
		l.Rules = dedupe(append(l.Rules, Rule{Kind: KAllow, D: focus}))
	}
}
