//go:build verif

package mainmw_test

// C02, shape part: the real rate-limit middleware (which derives the
// requester's message constructor from the profile) and the real main
// middleware, over the real filter storage, around a scripted upstream whose
// every record carries marker data.  The written answer is compared with the
// reference evaluator's verdict (verif.local/harness/C02/vc02ref) and with the
// shape table of the statement.  See /verif/DESIGN.md, section 3, C02.

import (
	"context"
	"encoding/json"
	"fmt"
	"net"
	"net/netip"
	"net/url"
	"os"
	"path/filepath"
	"strings"
	"testing"
	"time"

	"github.com/AdguardTeam/AdGuardDNS/internal/access"
	"github.com/AdguardTeam/AdGuardDNS/internal/agd"
	"github.com/AdguardTeam/AdGuardDNS/internal/agdcache"
	"github.com/AdguardTeam/AdGuardDNS/internal/agdtest"
	"github.com/AdguardTeam/AdGuardDNS/internal/agdtime"
	"github.com/AdguardTeam/AdGuardDNS/internal/dnsmsg"
	"github.com/AdguardTeam/AdGuardDNS/internal/dnsserver"
	"github.com/AdguardTeam/AdGuardDNS/internal/dnssvc/internal/mainmw"
	"github.com/AdguardTeam/AdGuardDNS/internal/dnssvc/internal/ratelimitmw"
	"github.com/AdguardTeam/AdGuardDNS/internal/filter"
	"github.com/AdguardTeam/AdGuardDNS/internal/filter/filterstorage"
	"github.com/AdguardTeam/AdGuardDNS/internal/filter/hashprefix"
	"github.com/AdguardTeam/AdGuardDNS/internal/geoip"
	"github.com/AdguardTeam/AdGuardDNS/internal/querylog"
	"github.com/AdguardTeam/golibs/logutil/slogutil"
	"github.com/c2h5oh/datasize"
	"github.com/miekg/dns"
	"pgregory.net/rapid"
	"verif.local/harness/C02/vc02ref"
	"verif.local/harness/vstat"
)

// vc02Errs records what the error collectors receive.
type vc02Errs struct {
	errs []string
}

func (e *vc02Errs) Collect(_ context.Context, err error) {
	e.errs = append(e.errs, err.Error())
}

func vc02DNSMode(m vc02ref.Mode) dnsmsg.BlockingMode {
	switch m.Kind {
	case vc02ref.MNull:
		return &dnsmsg.BlockingModeNullIP{}
	case vc02ref.MCustom:
		return &dnsmsg.BlockingModeCustomIP{IPv4: m.V4, IPv6: m.V6}
	case vc02ref.MNXDomain:
		return &dnsmsg.BlockingModeNXDOMAIN{}
	default:
		return &dnsmsg.BlockingModeREFUSED{}
	}
}

// vc02NeverURL is an HTTP URL that is never contacted: every refreshable finds
// its cache file and stale data is accepted by the initial refresh.
func vc02NeverURL(p string) *url.URL {
	return &url.URL{Scheme: "http", Host: "127.0.0.1:1", Path: "/" + p}
}

func vc02Write(t *rapid.T, dir, name, data string) {
	if err := os.WriteFile(filepath.Join(dir, name), []byte(data), 0o600); err != nil {
		t.Fatalf("harness: writing %s: %v", name, err)
	}
}

func vc02Hash(t *rapid.T, dir string, h *vc02ref.Hash, ec *vc02Errs) (f *hashprefix.Filter) {
	if h == nil {
		return nil
	}

	strg, err := hashprefix.NewStorage(strings.Join(h.Hosts, "\n") + "\n")
	if err != nil {
		t.Fatalf("harness: hash storage: %v", err)
	}

	f, err = hashprefix.NewFilter(&hashprefix.FilterConfig{
		Logger:          slogutil.NewDiscardLogger(),
		Cloner:          agdtest.NewCloner(),
		CacheManager:    agdcache.EmptyManager{},
		Hashes:          strg,
		URL:             vc02NeverURL(h.ID),
		ErrColl:         ec,
		Metrics:         filter.EmptyMetrics{},
		ID:              filter.ID(h.ID),
		CachePath:       filepath.Join(dir, "hash-"+h.ID),
		ReplacementHost: h.Replacement(),
		Staleness:       time.Hour,
		CacheTTL:        time.Hour,
		RefreshTimeout:  time.Second,
		CacheCount:      100,
		MaxSize:         datasize.MB,
	})
	if err != nil {
		t.Fatalf("harness: hash filter %s: %v", h.ID, err)
	}

	return f
}

// vc02Storage builds the real filter storage holding the world's lists.  All
// data comes from pre-populated cache files.
func vc02Storage(t *rapid.T, dir string, w *vc02ref.World, resCache bool, ec *vc02Errs) (s *filterstorage.Default) {
	type idxFilter struct {
		URL string `json:"downloadUrl"`
		Key string `json:"filterKey"`
	}

	idx := struct {
		Filters []idxFilter `json:"filters"`
	}{Filters: []idxFilter{}}
	for _, l := range w.Shared {
		idx.Filters = append(idx.Filters, idxFilter{URL: vc02NeverURL(l.ID).String(), Key: l.ID})
		vc02Write(t, dir, l.ID, l.Text())
	}

	b, _ := json.Marshal(idx)
	vc02Write(t, dir, "filters.json", string(b))

	type idxSvc struct {
		ID    string   `json:"id"`
		Rules []string `json:"rules"`
	}

	svcIdx := struct {
		Svcs []idxSvc `json:"blocked_services"`
	}{Svcs: []idxSvc{}}
	for _, l := range w.Svc {
		svcIdx.Svcs = append(svcIdx.Svcs, idxSvc{ID: l.SvcID, Rules: l.RuleTexts()})
	}

	b, _ = json.Marshal(svcIdx)
	vc02Write(t, dir, "services.json", string(b))

	ss := func(l *vc02ref.List, id filter.ID) *filterstorage.ConfigSafeSearch {
		if l != nil {
			vc02Write(t, dir, string(id), l.Text())
		}

		return &filterstorage.ConfigSafeSearch{
			URL:              vc02NeverURL(string(id)),
			ID:               id,
			MaxSize:          datasize.MB,
			ResultCacheTTL:   time.Hour,
			RefreshTimeout:   time.Second,
			Staleness:        time.Hour,
			ResultCacheCount: 100,
			Enabled:          l != nil,
		}
	}

	s, err := filterstorage.New(&filterstorage.Config{
		BaseLogger: slogutil.NewDiscardLogger(),
		Logger:     slogutil.NewDiscardLogger(),
		BlockedServices: &filterstorage.ConfigBlockedServices{
			IndexURL:            vc02NeverURL("services"),
			IndexMaxSize:        datasize.MB,
			IndexRefreshTimeout: time.Second,
			IndexStaleness:      time.Hour,
			ResultCacheCount:    100,
			ResultCacheEnabled:  resCache,
			Enabled:             true,
		},
		Custom: &filterstorage.ConfigCustom{CacheCount: 10},
		HashPrefix: &filterstorage.ConfigHashPrefix{
			Adult:           vc02Hash(t, dir, w.Adult, ec),
			Dangerous:       vc02Hash(t, dir, w.Dangerous, ec),
			NewlyRegistered: vc02Hash(t, dir, w.NewReg, ec),
		},
		RuleLists: &filterstorage.ConfigRuleLists{
			IndexURL:            vc02NeverURL("filters"),
			IndexMaxSize:        datasize.MB,
			MaxSize:             datasize.MB,
			IndexRefreshTimeout: time.Second,
			IndexStaleness:      time.Hour,
			RefreshTimeout:      time.Second,
			Staleness:           time.Hour,
			ResultCacheCount:    100,
			ResultCacheEnabled:  resCache,
		},
		SafeSearchGeneral: ss(w.GenSS, filter.IDGeneralSafeSearch),
		SafeSearchYouTube: ss(w.YTSS, filter.IDYoutubeSafeSearch),
		CacheManager:      agdcache.EmptyManager{},
		Clock:             agdtime.SystemClock{},
		ErrColl:           ec,
		Metrics:           filter.EmptyMetrics{},
		CacheDir:          dir,
	})
	if err != nil {
		t.Fatalf("harness: filter storage: %v", err)
	}

	if err = s.RefreshInitial(context.Background()); err != nil {
		t.Fatalf("harness: initial refresh: %v", err)
	}

	return s
}

func vc02IDs(ss []string) (ids []filter.ID) {
	for _, s := range ss {
		ids = append(ids, filter.ID(s))
	}

	return ids
}

func vc02SvcIDs(ss []string) (ids []filter.BlockedServiceID) {
	for _, s := range ss {
		ids = append(ids, filter.BlockedServiceID(s))
	}

	return ids
}

func vc02Parental(f vc02ref.Flags) *filter.ConfigParental {
	return &filter.ConfigParental{
		BlockedServices:          vc02SvcIDs(f.Services),
		Enabled:                  f.ParentalOn,
		AdultBlockingEnabled:     f.AdultOn,
		SafeSearchGeneralEnabled: f.GenSSOn,
		SafeSearchYouTubeEnabled: f.YTSSOn,
	}
}

func vc02SafeBrowsing(f vc02ref.Flags) *filter.ConfigSafeBrowsing {
	return &filter.ConfigSafeBrowsing{
		Enabled:                       f.SafeBrowsingOn,
		DangerousDomainsEnabled:       f.DangerousOn,
		NewlyRegisteredDomainsEnabled: f.NewRegOn,
	}
}

// vc02Upstream is the scripted upstream.
type vc02Upstream struct {
	script vc02ref.UpAnswer
	asked  []dns.Question
	sent   []*dns.Msg
}

func (u *vc02Upstream) ServeDNS(ctx context.Context, rw dnsserver.ResponseWriter, req *dns.Msg) (err error) {
	u.asked = append(u.asked, req.Question[0])
	resp := u.script.Build(req)
	u.sent = append(u.sent, resp.Copy())

	return rw.WriteMsg(ctx, req, resp)
}

// vc02Seen is what the recording fakes saw.
type vc02Seen struct {
	statN    int
	statID   string
	statText string
	logged   []*querylog.Entry
}

// vc02Constructor builds a message constructor.
func vc02Constructor(t *rapid.T, cloner *dnsmsg.Cloner, m vc02ref.Mode, ttl uint32, ede bool) (c *dnsmsg.Constructor) {
	c, err := dnsmsg.NewConstructor(&dnsmsg.ConstructorConfig{
		Cloner:              cloner,
		BlockingMode:        vc02DNSMode(m),
		StructuredErrors:    agdtest.NewSDEConfig(ede),
		FilteredResponseTTL: time.Duration(ttl) * time.Second,
		EDEEnabled:          ede,
	})
	if err != nil {
		t.Fatalf("harness: constructor: %v", err)
	}

	return c
}

func vc02ObserveResult(r filter.Result) (o vc02ref.Observed) {
	switch r := r.(type) {
	case nil:
		return vc02ref.Observed{Kind: vc02ref.ONone}
	case *filter.ResultAllowed:
		return vc02ref.Observed{Kind: vc02ref.OAllowed, List: string(r.List), Rule: string(r.Rule)}
	case *filter.ResultBlocked:
		return vc02ref.Observed{Kind: vc02ref.OBlocked, List: string(r.List), Rule: string(r.Rule)}
	case *filter.ResultModifiedRequest:
		o = vc02ref.Observed{Kind: vc02ref.ORwCNAME, List: string(r.List), Rule: string(r.Rule)}
		if r.Msg != nil && len(r.Msg.Question) == 1 {
			o.Target = strings.TrimSuffix(r.Msg.Question[0].Name, ".")
		}

		return o
	case *filter.ResultModifiedResponse:
		return vc02ref.Observed{Kind: vc02ref.ORwIP, List: string(r.List), Rule: string(r.Rule), Msg: r.Msg}
	default:
		panic(fmt.Sprintf("unexpected result %T", r))
	}
}

func vc02MixCase(t *rapid.T, s string) string {
	if rapid.IntRange(0, 2).Draw(t, "mixCase") != 0 {
		return s
	}

	b := []byte(s)
	for i := range b {
		if b[i] >= 'a' && b[i] <= 'z' && rapid.Bool().Draw(t, "up") {
			b[i] -= 'a' - 'A'
		}
	}

	return string(b)
}

// vc02Case is everything that is needed to judge one written answer.
type vc02Case struct {
	req     *dns.Msg
	written *dns.Msg
	up      *vc02Upstream
	seen    *vc02Seen
	mode    vc02ref.Mode
	ttl     uint32
}

func (c *vc02Case) statIs(o vc02ref.Outcome) error {
	if c.seen.statN != 1 {
		return fmt.Errorf("rule statistics collected %d times, want once", c.seen.statN)
	}

	if o.Kind == vc02ref.ONone {
		if c.seen.statID != "" || c.seen.statText != "" {
			return fmt.Errorf("rule statistics got (%q, %q), want no rule", c.seen.statID, c.seen.statText)
		}

		return nil
	}

	if c.seen.statID != o.List {
		return fmt.Errorf("deciding list %q, want %q", c.seen.statID, o.List)
	}

	if o.Rules != nil {
		ok := false
		for _, r := range o.Rules {
			ok = ok || r == c.seen.statText
		}

		if !ok {
			return fmt.Errorf("deciding rule %q, want one of %q", c.seen.statText, o.Rules)
		}
	}

	return nil
}

// askedOnce checks that the upstream was asked exactly once, for name (the
// client's spelling, or a rewrite target) and the client's type.
func (c *vc02Case) askedOnce(name string) error {
	if len(c.up.asked) != 1 {
		return fmt.Errorf("upstream asked %d times, want once", len(c.up.asked))
	}

	q := c.up.asked[0]
	if q.Name != name || q.Qtype != c.req.Question[0].Qtype || q.Qclass != dns.ClassINET {
		return fmt.Errorf("upstream asked %v, want %s %s", q, name, dns.TypeToString[c.req.Question[0].Qtype])
	}

	return nil
}

// verbatim checks that the written answer is the upstream's.
func (c *vc02Case) verbatim() error {
	if err := c.askedOnce(c.req.Question[0].Name); err != nil {
		return err
	}

	if err := vc02ref.CheckHeader(c.req, c.written); err != nil {
		return err
	}

	if got, want := c.written.String(), c.up.sent[0].String(); got != want {
		return fmt.Errorf("written answer differs from the upstream's:\n%s\nupstream:\n%s", vc02ref.MsgString(c.written), vc02ref.MsgString(c.up.sent[0]))
	}

	return nil
}

// explains returns nil if the written answer is what the verdict o on the
// request prescribes.
func (c *vc02Case) explains(o vc02ref.Outcome) error {
	if err := c.statIs(o); err != nil {
		return err
	}

	if o.Kind != vc02ref.ORwCNAME {
		// Whatever the verdict, the upstream sees the client's own question (or
		// is not needed at all); it is never asked anything else.
		if len(c.up.asked) > 1 || (len(c.up.asked) == 1 && c.up.asked[0] != c.req.Question[0]) {
			return fmt.Errorf("upstream asked %v", c.up.asked)
		}
	}

	switch o.Kind {
	case vc02ref.OAllowed:
		return c.verbatim()
	case vc02ref.OBlocked, vc02ref.OSafeBlock:
		return vc02ref.CheckBlocked(c.req, c.written, c.mode, c.ttl)
	case vc02ref.ORwIP:
		return vc02ref.CheckRewriteIP(c.req, c.written, o.IPs, c.ttl)
	case vc02ref.ORwRcode:
		return vc02ref.CheckRcode(c.req, c.written, o.Rcode, c.ttl)
	case vc02ref.OSafeEmpty:
		return vc02ref.CheckEmpty(c.req, c.written, c.ttl)
	case vc02ref.ORwCNAME:
		return c.cname(o)
	}

	return fmt.Errorf("unexpected outcome kind %s", o.Kind)
}

// cname checks the answer to a question that was resolved as another name.
func (c *vc02Case) cname(o vc02ref.Outcome) error {
	if err := c.askedOnce(dns.Fqdn(o.Target)); err != nil {
		return err
	}

	if err := vc02ref.CheckHeader(c.req, c.written); err != nil {
		return err
	}

	sent := c.up.sent[0]
	if len(c.written.Answer) != len(sent.Answer)+1 {
		return fmt.Errorf("%d answer records, want the CNAME and the upstream's %d", len(c.written.Answer), len(sent.Answer))
	}

	cn, ok := c.written.Answer[0].(*dns.CNAME)
	if !ok {
		return fmt.Errorf("first answer record is %s, want a CNAME", c.written.Answer[0])
	}

	q := c.req.Question[0]
	if !strings.EqualFold(cn.Hdr.Name, q.Name) || !strings.EqualFold(cn.Target, dns.Fqdn(o.Target)) || cn.Hdr.Class != dns.ClassINET {
		return fmt.Errorf("CNAME %s, want %s -> %s", cn, q.Name, o.Target)
	}

	if cn.Hdr.Ttl != c.ttl {
		return fmt.Errorf("CNAME TTL %d, want the requester's %d", cn.Hdr.Ttl, c.ttl)
	}

	rest := c.written.Copy()
	rest.Answer = rest.Answer[1:]
	want := sent.Copy()
	want.Id, want.Question = c.req.Id, c.req.Question
	if got, w := rest.String(), want.String(); got != w {
		return fmt.Errorf("rest of the answer differs from the upstream's answer for %s:\n%s\nupstream:\n%s", o.Target, vc02ref.MsgString(rest), vc02ref.MsgString(want))
	}

	return nil
}

// explainsResp returns nil if the written answer is what no verdict on the
// request and the verdict o on the upstream answer prescribe.
func (c *vc02Case) explainsResp(o vc02ref.Outcome) error {
	if err := c.statIs(o); err != nil {
		return err
	}

	if err := c.askedOnce(c.req.Question[0].Name); err != nil {
		return err
	}

	switch o.Kind {
	case vc02ref.ONone, vc02ref.OAllowed:
		return c.verbatim()
	case vc02ref.OBlocked:
		return vc02ref.CheckBlocked(c.req, c.written, c.mode, c.ttl)
	}

	return fmt.Errorf("unexpected response outcome kind %s", o.Kind)
}

func TestVerifC02Shape(t *testing.T) {
	st := vstat.New("C02", "mainmw.shape",
		"rapid: world of lists in a real filterstorage.Default x profile/group switches x requester (anonymous | profile with profile/device filtering switches) x blocking mode and TTL (profile's vs server's) x question x scripted marker-carrying upstream answer, through the real ratelimitmw + mainmw; non-trivial = at least two slots match the question, or a blocked/rewritten answer replaced a non-empty upstream answer, distinct by (effective configuration, requester, mode, question, upstream answer)",
		"blocked-null-ip-addr", "blocked-null-ip-nodata", "blocked-custom-ip-addr", "blocked-custom-ip-nodata", "blocked-nxdomain", "blocked-refused",
		"blocked-by-response", "req-allowed-resp-would-block", "rewrite-cname", "rewrite-ip", "rewrite-rcode",
		"filtering-off-profile", "filtering-off-device", "anonymous-group-config", "profile-config", "blocked-over-nonempty-upstream",
		"flag-off-hides-slot", "safety-verdict", "later-question-on-same-stack")
	st.Finish(t)

	base := t.TempDir()
	caseN := 0

	rapid.Check(t, func(t *rapid.T) {
		caseN++
		dir := filepath.Join(base, fmt.Sprintf("c%d", caseN%8))
		_ = os.RemoveAll(dir)
		if err := os.MkdirAll(dir, 0o700); err != nil {
			t.Fatalf("harness: %v", err)
		}

		focus := rapid.SampledFrom(vc02ref.Hosts).Draw(t, "focus")
		w := vc02ref.DrawWorld(t, focus, 50)
		w.AddRespRules(t, focus)
		for _, l := range w.Svc {
			if len(l.Rules) == 0 {
				t.Fatalf("harness: empty service list")
			}
		}

		ec := &vc02Errs{}
		strg := vc02Storage(t, dir, w, rapid.Bool().Draw(t, "resultCache"), ec)

		profFlags := vc02ref.DrawFlags(t, "prof")
		grpFlags := vc02ref.DrawFlags(t, "grp")

		// Requester.
		const (
			reqAnon = iota
			reqProfile
			reqProfileOff
			reqDeviceOff
		)

		// The requester changes from question to question on the same stack, so
		// that nothing of one request (pooled contexts, constructors) can leak
		// into the next.
		requester := reqAnon

		srvMode, profMode := vc02ref.DrawMode(t, "srvMode"), vc02ref.DrawMode(t, "profMode")
		ttls := []int{0, 1, 10, 60, 300, 3600}
		srvTTL := uint32(rapid.SampledFrom(ttls).Draw(t, "srvTTL"))
		profTTL := uint32(rapid.SampledFrom(ttls).Draw(t, "profTTL"))
		ede := rapid.Bool().Draw(t, "ede")

		cloner := agdtest.NewCloner()
		srvMsgs := vc02Constructor(t, cloner, srvMode, srvTTL, ede)

		var custom *filter.ConfigCustom
		if w.Custom != nil {
			custom = &filter.ConfigCustom{ID: fmt.Sprintf("p%d", caseN), UpdateTime: time.Unix(int64(caseN), 0), Enabled: profFlags.CustomOn}
			for _, r := range w.Custom.RuleTexts() {
				custom.Rules = append(custom.Rules, filter.RuleText(r))
			}
		} else {
			custom = &filter.ConfigCustom{ID: fmt.Sprintf("p%d", caseN), Enabled: profFlags.CustomOn}
		}

		prof := &agd.Profile{
			FilterConfig: &filter.ConfigClient{
				Custom:       custom,
				Parental:     vc02Parental(profFlags),
				RuleList:     &filter.ConfigRuleList{IDs: vc02IDs(profFlags.ListIDs), Enabled: profFlags.RuleListsOn},
				SafeBrowsing: vc02SafeBrowsing(profFlags),
			},
			Access:              access.EmptyProfile{},
			BlockingMode:        vc02DNSMode(profMode),
			Ratelimiter:         agd.GlobalRatelimiter{},
			ID:                  "prof1234",
			FilteredResponseTTL: time.Duration(profTTL) * time.Second,
			FilteringEnabled:    true,
			QueryLogEnabled:     rapid.IntRange(0, 3).Draw(t, "queryLog") != 0,
		}
		dev := &agd.Device{ID: "dev1234", FilteringEnabled: true}
		grp := &agd.FilteringGroup{
			ID: "grp",
			FilterConfig: &filter.ConfigGroup{
				Parental:     vc02Parental(grpFlags),
				RuleList:     &filter.ConfigRuleList{IDs: vc02IDs(grpFlags.ListIDs), Enabled: grpFlags.RuleListsOn},
				SafeBrowsing: vc02SafeBrowsing(grpFlags),
			},
		}

		seen := &vc02Seen{}
		up := &vc02Upstream{}
		geo := agdtest.NewGeoIP()
		geo.OnData = func(string, netip.Addr) (*geoip.Location, error) { return nil, nil }

		mainMw := mainmw.New(&mainmw.Config{
			Cloner:   cloner,
			Logger:   slogutil.NewDiscardLogger(),
			Messages: srvMsgs,
			BillStat: &agdtest.BillStatRecorder{
				OnRecord: func(context.Context, agd.DeviceID, geoip.Country, geoip.ASN, time.Time, agd.Protocol) {},
			},
			ErrColl:       ec,
			FilterStorage: strg,
			GeoIP:         geo,
			Metrics:       mainmw.EmptyMetrics{},
			QueryLog: &agdtest.QueryLog{OnWrite: func(_ context.Context, e *querylog.Entry) error {
				seen.logged = append(seen.logged, e)

				return nil
			}},
			RuleStat: &agdtest.RuleStat{OnCollect: func(_ context.Context, id filter.ID, text filter.RuleText) {
				seen.statN++
				seen.statID, seen.statText = string(id), string(text)
			}},
		})

		rlMw := ratelimitmw.New(&ratelimitmw.Config{
			Logger:           slogutil.NewDiscardLogger(),
			Messages:         srvMsgs,
			FilteringGroup:   grp,
			ServerGroup:      &agd.ServerGroup{},
			Server:           &agd.Server{Protocol: agd.ProtoDoT},
			StructuredErrors: agdtest.NewSDEConfig(ede),
			AccessManager: &agdtest.AccessManager{
				OnIsBlockedHost: func(string, uint16) bool { return false },
				OnIsBlockedIP:   func(netip.Addr) bool { return false },
			},
			DeviceFinder: &agdtest.DeviceFinder{
				OnFind: func(context.Context, *dns.Msg, netip.AddrPort, netip.AddrPort) agd.DeviceResult {
					if requester == reqAnon {
						return nil
					}

					return &agd.DeviceResultOK{Device: dev, Profile: prof}
				},
			},
			ErrColl:    ec,
			GeoIP:      geo,
			Metrics:    ratelimitmw.EmptyMetrics{},
			Limiter:    agdtest.NewRateLimit(),
			Protocols:  []agd.Protocol{agd.ProtoDNS},
			EDEEnabled: ede,
		})

		h := rlMw.Wrap(mainMw.Wrap(up))

		type vq struct {
			host string
			qt   uint16
		}

		asked := map[vq]bool{}
		nQ := rapid.IntRange(1, 3).Draw(t, "nQuestions")
		for qi := 0; qi < nQ; qi++ {
			*seen = vc02Seen{}
			up.asked, up.sent = nil, nil
			nErrs := len(ec.errs)

			requester = rapid.SampledFrom([]int{reqAnon, reqAnon, reqProfile, reqProfile, reqProfile, reqProfile, reqProfileOff, reqDeviceOff}).Draw(t, "requester")
			prof.FilteringEnabled = requester != reqProfileOff
			dev.FilteringEnabled = requester != reqDeviceOff

			// The configuration, mode and TTL the statement prescribes for this
			// requester.
			var eff *vc02ref.Config
			mode, ttl := profMode, profTTL
			switch requester {
			case reqAnon:
				eff, mode, ttl = w.Effective(grpFlags, false), srvMode, srvTTL
			case reqProfile:
				eff = w.Effective(profFlags, true)
			}

			// Question.
			host := focus
			if rapid.IntRange(0, 3).Draw(t, "otherHost") == 0 {
				host = rapid.SampledFrom(vc02ref.Hosts).Draw(t, "host")
			}

			qt := rapid.SampledFrom(vc02ref.QTypes).Draw(t, "qt")
			if asked[vq{host, qt}] {
				// The same question twice on one storage would be answered from the
				// safety filters' result caches; that is C12's subject.
				continue
			}

			asked[vq{host, qt}] = true
			up.script = vc02ref.DrawUpAnswer(t, qt)

			req := &dns.Msg{}
			req.Id = uint16(rapid.IntRange(0, 65535).Draw(t, "id"))
			req.RecursionDesired = true
			req.Question = []dns.Question{{Name: vc02MixCase(t, host) + ".", Qtype: qt, Qclass: dns.ClassINET}}
			if rapid.Bool().Draw(t, "edns") {
				req.SetEdns0(1232, false)
			}

			sentReq := req.Copy()

			raddr := &net.TCPAddr{IP: net.IP{192, 0, 2, 77}, Port: 4242}
			laddr := &net.TCPAddr{IP: net.IP{127, 0, 0, 1}, Port: 853}
			nrw := dnsserver.NewNonWriterResponseWriter(laddr, raddr)
			ctx := dnsserver.ContextWithRequestInfo(context.Background(), &dnsserver.RequestInfo{StartTime: time.Now()})

			desc := map[string]any{
				"config": eff.Describe(), "requester": []string{"anonymous", "profile", "profile-filtering-off", "device-filtering-off"}[requester],
				"mode": mode.String(), "ttl": ttl, "server_mode": srvMode.String(), "server_ttl": srvTTL, "profile_mode": profMode.String(), "profile_ttl": profTTL,
				"question": fmt.Sprintf("%s %s", req.Question[0].Name, dns.TypeToString[qt]),
			}

			if err := h.ServeDNS(ctx, nrw, req); err != nil {
				t.Fatalf("case %v: ServeDNS: %v", desc, err)
			}

			written := nrw.Msg()
			if written == nil {
				t.Fatalf("case %v: nothing written", desc)
			}

			if len(up.sent) > 0 {
				desc["upstream"] = vc02ref.MsgString(up.sent[0])
			}

			c := &vc02Case{req: sentReq, written: written, up: up, seen: seen, mode: mode, ttl: ttl}

			// Judge: the written answer must be explained by an acceptable verdict.
			reqOuts := eff.EvalRequest(host, qt)
			var respOuts []vc02ref.Outcome
			var why []string
			var got, gotResp vc02ref.Outcome
			explained := false
			for _, o := range reqOuts {
				if o.Kind == vc02ref.ONone {
					if len(up.sent) != 1 {
						why = append(why, fmt.Sprintf("no request verdict: upstream asked %d times", len(up.sent)))

						continue
					}

					respOuts = eff.EvalResponse(up.sent[0])
					for _, ro := range respOuts {
						err := c.explainsResp(ro)
						if err == nil {
							got, gotResp, explained = o, ro, true

							break
						}

						why = append(why, fmt.Sprintf("as no request verdict + response %s: %v", ro, err))
					}
				} else if err := c.explains(o); err == nil {
					got, explained = o, true
				} else {
					why = append(why, fmt.Sprintf("as %s: %v", o, err))
				}

				if explained {
					break
				}
			}

			if !explained {
				t.Fatalf("case %v\nwritten %s\nrule statistics (%q, %q)\nnot explained by any acceptable verdict %s:\n  %s",
					desc, vc02ref.MsgString(written), seen.statID, seen.statText, vc02ref.OutcomesString(reqOuts), strings.Join(why, "\n  "))
			}

			// The query log, when written, carries the verdicts themselves.
			wantLog := requester != reqAnon && prof.QueryLogEnabled
			if wantLog != (len(seen.logged) == 1) {
				t.Fatalf("case %v: %d query-log entries, want logged=%t", desc, len(seen.logged), wantLog)
			}

			if wantLog {
				e := seen.logged[0]
				if _, ok := vc02ref.Accept(vc02ObserveResult(e.RequestResult), reqOuts); !ok {
					t.Fatalf("case %v: logged request verdict %s, acceptable %s", desc, vc02ObserveResult(e.RequestResult), vc02ref.OutcomesString(reqOuts))
				}

				if got.Kind == vc02ref.ONone {
					if _, ok := vc02ref.Accept(vc02ObserveResult(e.ResponseResult), respOuts); !ok {
						t.Fatalf("case %v: logged response verdict %s, acceptable %s", desc, vc02ObserveResult(e.ResponseResult), vc02ref.OutcomesString(respOuts))
					}
				}
			}

			// Classes.
			classes := []string{"verdict-" + got.Kind.String(), mode.Class()}
			upNonEmpty := len(up.sent) == 1 && len(up.sent[0].Answer) > 0
			blockedShape := func(prefix string) {
				isAddr := qt == dns.TypeA || qt == dns.TypeAAAA
				switch mode.Kind {
				case vc02ref.MNull:
					if isAddr {
						classes = append(classes, prefix+"-null-ip-addr")
					} else {
						classes = append(classes, prefix+"-null-ip-nodata")
					}
				case vc02ref.MCustom:
					if (qt == dns.TypeA && len(mode.V4) > 0) || (qt == dns.TypeAAAA && len(mode.V6) > 0) {
						classes = append(classes, prefix+"-custom-ip-addr")
					} else {
						classes = append(classes, prefix+"-custom-ip-nodata")
					}
				case vc02ref.MNXDomain:
					classes = append(classes, prefix+"-nxdomain")
				case vc02ref.MRefused:
					classes = append(classes, prefix+"-refused")
				}

				if upNonEmpty {
					classes = append(classes, "blocked-over-nonempty-upstream")
				}
			}

			replaced := false
			switch got.Kind {
			case vc02ref.OBlocked, vc02ref.OSafeBlock:
				blockedShape("blocked")
				replaced = upNonEmpty
			case vc02ref.ONone:
				classes = append(classes, "resp-verdict-"+gotResp.Kind.String())
				if gotResp.Kind == vc02ref.OBlocked {
					blockedShape("blocked")
					classes = append(classes, "blocked-by-response")
					replaced = true
				}
			case vc02ref.OAllowed:
				for _, ro := range eff.EvalResponse(up.sent[0]) {
					if ro.Kind == vc02ref.OBlocked {
						classes = append(classes, "req-allowed-resp-would-block")

						break
					}
				}
			case vc02ref.ORwCNAME:
				classes = append(classes, "rewrite-cname")
			case vc02ref.ORwIP:
				classes = append(classes, "rewrite-ip")
				replaced = upNonEmpty
			case vc02ref.ORwRcode:
				classes = append(classes, "rewrite-rcode")
				replaced = upNonEmpty
			}

			if got.Kind != vc02ref.ONone && got.List != vc02ref.IDCustom && got.List != vc02ref.IDSvc && !strings.HasPrefix(got.List, "l") {
				classes = append(classes, "safety-verdict")
			}

			switch requester {
			case reqAnon:
				classes = append(classes, "anonymous-group-config")
			case reqProfile:
				classes = append(classes, "profile-config")
			case reqProfileOff:
				classes = append(classes, "filtering-off-profile")
			case reqDeviceOff:
				classes = append(classes, "filtering-off-device")
			}

			// Would the verdict differ if every slot of the world were in effect?
			if eff != nil {
				all := w.All()
				if vc02ref.OutcomesString(all.EvalRequest(host, qt)) != vc02ref.OutcomesString(reqOuts) {
					classes = append(classes, "flag-off-hides-slot")
				}
			}

			if len(ec.errs) > nErrs {
				classes = append(classes, "errors-collected")
			}

			if qi > 0 {
				classes = append(classes, "later-question-on-same-stack")
			}

			slots := eff.Slots(host, qt)
			nt := ""
			if slots >= 2 || replaced {
				nt = fmt.Sprintf("%v", desc)
			}

			st.Case(nt, classes...)
			if st.WantSample() && slots >= 2 && got.Kind != vc02ref.ONone {
				desc["written"] = vc02ref.MsgString(written)
				desc["verdict"] = got.String()
				st.Sample(desc)
			}
		}
	})
}
