//go:build verif

package mainmw_test

// C02, shape part: the real rate-limit middleware (which derives the
// requester's message constructor from the profile) and the real main
// middleware, over the real filter storage, around a scripted upstream whose
// every record carries marker data.  The written answer is compared with the
// reference evaluator's verdict (verif.local/harness/C02/vc02ref) and with the
// shape table of the statement.  See /verif/DESIGN.md, section 3, C02.

import (
	"context"
	"encoding/json"
	"fmt"
	"net"
	"net/netip"
	"net/url"
	"os"
	"path/filepath"
	"strings"
	"sync"
	"testing"
	"time"

	"github.com/AdguardTeam/AdGuardDNS/internal/access"
	"github.com/AdguardTeam/AdGuardDNS/internal/agd"
	"github.com/AdguardTeam/AdGuardDNS/internal/agdcache"
	"github.com/AdguardTeam/AdGuardDNS/internal/agdtest"
	"github.com/AdguardTeam/AdGuardDNS/internal/agdtime"
	"github.com/AdguardTeam/AdGuardDNS/internal/dnsmsg"
	"github.com/AdguardTeam/AdGuardDNS/internal/dnsserver"
	"github.com/AdguardTeam/AdGuardDNS/internal/dnssvc/internal/mainmw"
	"github.com/AdguardTeam/AdGuardDNS/internal/dnssvc/internal/ratelimitmw"
	"github.com/AdguardTeam/AdGuardDNS/internal/filter"
	"github.com/AdguardTeam/AdGuardDNS/internal/filter/filterstorage"
	"github.com/AdguardTeam/AdGuardDNS/internal/filter/hashprefix"
	"github.com/AdguardTeam/AdGuardDNS/internal/geoip"
	"github.com/AdguardTeam/AdGuardDNS/internal/querylog"
	"github.com/AdguardTeam/golibs/logutil/slogutil"
	"github.com/c2h5oh/datasize"
	"github.com/miekg/dns"
	"pgregory.net/rapid"
	"verif.local/harness/C02/vc02ref"
	"verif.local/harness/vstat"
)

// vc02Errs records what the error collectors receive.
type vc02Errs struct {
	mu   sync.Mutex
	errs []string
}

func (e *vc02Errs) Collect(_ context.Context, err error) {
	e.mu.Lock()
	defer e.mu.Unlock()

	e.errs = append(e.errs, err.Error())
}

func (e *vc02Errs) count() int {
	e.mu.Lock()
	defer e.mu.Unlock()

	return len(e.errs)
}

func vc02DNSMode(m vc02ref.Mode) dnsmsg.BlockingMode {
	switch m.Kind {
	case vc02ref.MNull:
		return &dnsmsg.BlockingModeNullIP{}
	case vc02ref.MCustom:
		return &dnsmsg.BlockingModeCustomIP{IPv4: m.V4, IPv6: m.V6}
	case vc02ref.MNXDomain:
		return &dnsmsg.BlockingModeNXDOMAIN{}
	default:
		return &dnsmsg.BlockingModeREFUSED{}
	}
}

// vc02NeverURL is an HTTP URL that is never contacted: every refreshable finds
// its cache file and stale data is accepted by the initial refresh.
func vc02NeverURL(p string) *url.URL {
	return &url.URL{Scheme: "http", Host: "127.0.0.1:1", Path: "/" + p}
}

func vc02Write(t *rapid.T, dir, name, data string) {
	if err := os.WriteFile(filepath.Join(dir, name), []byte(data), 0o600); err != nil {
		t.Fatalf("harness: writing %s: %v", name, err)
	}
}

func vc02Hash(t *rapid.T, dir string, h *vc02ref.Hash, ec *vc02Errs) (f *hashprefix.Filter) {
	if h == nil {
		return nil
	}

	strg, err := hashprefix.NewStorage(strings.Join(h.Hosts, "\n") + "\n")
	if err != nil {
		t.Fatalf("harness: hash storage: %v", err)
	}

	f, err = hashprefix.NewFilter(&hashprefix.FilterConfig{
		Logger:          slogutil.NewDiscardLogger(),
		Cloner:          agdtest.NewCloner(),
		CacheManager:    agdcache.EmptyManager{},
		Hashes:          strg,
		URL:             vc02NeverURL(h.ID),
		ErrColl:         ec,
		Metrics:         filter.EmptyMetrics{},
		ID:              filter.ID(h.ID),
		CachePath:       filepath.Join(dir, "hash-"+h.ID),
		ReplacementHost: h.Replacement(),
		Staleness:       time.Hour,
		CacheTTL:        time.Hour,
		RefreshTimeout:  time.Second,
		CacheCount:      100,
		MaxSize:         datasize.MB,
	})
	if err != nil {
		t.Fatalf("harness: hash filter %s: %v", h.ID, err)
	}

	return f
}

// vc02Storage builds the real filter storage holding the world's lists.  All
// data comes from pre-populated cache files.
func vc02Storage(t *rapid.T, dir string, w *vc02ref.World, resCache bool, ec *vc02Errs) (s *filterstorage.Default) {
	type idxFilter struct {
		URL string `json:"downloadUrl"`
		Key string `json:"filterKey"`
	}

	idx := struct {
		Filters []idxFilter `json:"filters"`
	}{Filters: []idxFilter{}}
	for _, l := range w.Shared {
		idx.Filters = append(idx.Filters, idxFilter{URL: vc02NeverURL(l.ID).String(), Key: l.ID})
		vc02Write(t, dir, l.ID, l.Text())
	}

	b, _ := json.Marshal(idx)
	vc02Write(t, dir, "filters.json", string(b))

	type idxSvc struct {
		ID    string   `json:"id"`
		Rules []string `json:"rules"`
	}

	svcIdx := struct {
		Svcs []idxSvc `json:"blocked_services"`
	}{Svcs: []idxSvc{}}
	for _, l := range w.Svc {
		svcIdx.Svcs = append(svcIdx.Svcs, idxSvc{ID: l.SvcID, Rules: l.RuleTexts()})
	}

	b, _ = json.Marshal(svcIdx)
	vc02Write(t, dir, "services.json", string(b))

	ss := func(l *vc02ref.List, id filter.ID) *filterstorage.ConfigSafeSearch {
		if l != nil {
			vc02Write(t, dir, string(id), l.Text())
		}

		return &filterstorage.ConfigSafeSearch{
			URL:              vc02NeverURL(string(id)),
			ID:               id,
			MaxSize:          datasize.MB,
			ResultCacheTTL:   time.Hour,
			RefreshTimeout:   time.Second,
			Staleness:        time.Hour,
			ResultCacheCount: 100,
			Enabled:          l != nil,
		}
	}

	s, err := filterstorage.New(&filterstorage.Config{
		BaseLogger: slogutil.NewDiscardLogger(),
		Logger:     slogutil.NewDiscardLogger(),
		BlockedServices: &filterstorage.ConfigBlockedServices{
			IndexURL:            vc02NeverURL("services"),
			IndexMaxSize:        datasize.MB,
			IndexRefreshTimeout: time.Second,
			IndexStaleness:      time.Hour,
			ResultCacheCount:    100,
			ResultCacheEnabled:  resCache,
			Enabled:             true,
		},
		Custom: &filterstorage.ConfigCustom{CacheCount: 10},
		HashPrefix: &filterstorage.ConfigHashPrefix{
			Adult:           vc02Hash(t, dir, w.Adult, ec),
			Dangerous:       vc02Hash(t, dir, w.Dangerous, ec),
			NewlyRegistered: vc02Hash(t, dir, w.NewReg, ec),
		},
		RuleLists: &filterstorage.ConfigRuleLists{
			IndexURL:            vc02NeverURL("filters"),
			IndexMaxSize:        datasize.MB,
			MaxSize:             datasize.MB,
			IndexRefreshTimeout: time.Second,
			IndexStaleness:      time.Hour,
			RefreshTimeout:      time.Second,
			Staleness:           time.Hour,
			ResultCacheCount:    100,
			ResultCacheEnabled:  resCache,
		},
		SafeSearchGeneral: ss(w.GenSS, filter.IDGeneralSafeSearch),
		SafeSearchYouTube: ss(w.YTSS, filter.IDYoutubeSafeSearch),
		CacheManager:      agdcache.EmptyManager{},
		Clock:             agdtime.SystemClock{},
		ErrColl:           ec,
		Metrics:           filter.EmptyMetrics{},
		CacheDir:          dir,
	})
	if err != nil {
		t.Fatalf("harness: filter storage: %v", err)
	}

	if err = s.RefreshInitial(context.Background()); err != nil {
		t.Fatalf("harness: initial refresh: %v", err)
	}

	return s
}

func vc02IDs(ss []string) (ids []filter.ID) {
	for _, s := range ss {
		ids = append(ids, filter.ID(s))
	}

	return ids
}

func vc02SvcIDs(ss []string) (ids []filter.BlockedServiceID) {
	for _, s := range ss {
		ids = append(ids, filter.BlockedServiceID(s))
	}

	return ids
}

func vc02Parental(f vc02ref.Flags) *filter.ConfigParental {
	return &filter.ConfigParental{
		BlockedServices:          vc02SvcIDs(f.Services),
		Enabled:                  f.ParentalOn,
		AdultBlockingEnabled:     f.AdultOn,
		SafeSearchGeneralEnabled: f.GenSSOn,
		SafeSearchYouTubeEnabled: f.YTSSOn,
	}
}

func vc02SafeBrowsing(f vc02ref.Flags) *filter.ConfigSafeBrowsing {
	return &filter.ConfigSafeBrowsing{
		Enabled:                       f.SafeBrowsingOn,
		DangerousDomainsEnabled:       f.DangerousOn,
		NewlyRegisteredDomainsEnabled: f.NewRegOn,
	}
}

// Requester kinds.
const (
	vc02Anon = iota
	vc02Profile
	vc02ProfileOff
	vc02DeviceOff
)

var vc02KindNames = [...]string{"anonymous", "profile", "profile-filtering-off", "device-filtering-off"}

// vc02Who is one requester of a case.  It is never modified after creation, so
// that several requests may be in flight at once.
type vc02Who struct {
	name string
	kind int
	prof *agd.Profile
	dev  *agd.Device

	// eff, mode and ttl are what the statement prescribes for this requester.
	eff  *vc02ref.Config
	mode vc02ref.Mode
	ttl  uint32
}

// vc02Exch is the state of one request; the fakes find it in the context, so
// concurrent requests do not share any of it.
type vc02Exch struct {
	who    *vc02Who
	host   string
	qt     uint16
	script vc02ref.UpAnswer
	gate   *vc02Gate

	req     *dns.Msg
	sentReq *dns.Msg
	rw      *dnsserver.NonWriterResponseWriter
	err     error

	asked []dns.Question
	sent  []*dns.Msg
	seen  vc02Seen
}

type vc02ExchKey struct{}

func vc02ExchOf(ctx context.Context) *vc02Exch {
	e, _ := ctx.Value(vc02ExchKey{}).(*vc02Exch)
	if e == nil {
		panic("harness: request state lost from the context")
	}

	return e
}

// vc02Gate holds every request of a concurrent round inside the upstream until
// all of them have arrived, so that all are in flight at the same time.
type vc02Gate struct {
	mu      sync.Mutex
	need    int
	arrived int
	open    chan struct{}
	late    bool
}

func vc02NewGate(n int) *vc02Gate { return &vc02Gate{need: n, open: make(chan struct{})} }

func (g *vc02Gate) wait() {
	g.mu.Lock()
	g.arrived++
	if g.arrived == g.need {
		close(g.open)
	}
	g.mu.Unlock()

	select {
	case <-g.open:
	case <-time.After(10 * time.Second):
		// Not a verdict: the round simply was not concurrent.
		g.mu.Lock()
		g.late = true
		g.mu.Unlock()
	}
}

// vc02Upstream is the scripted upstream.
type vc02Upstream struct{}

func (vc02Upstream) ServeDNS(ctx context.Context, rw dnsserver.ResponseWriter, req *dns.Msg) (err error) {
	e := vc02ExchOf(ctx)
	e.asked = append(e.asked, req.Question[0])
	resp := e.script.Build(req)
	e.sent = append(e.sent, resp.Copy())
	if e.gate != nil {
		e.gate.wait()
	}

	return rw.WriteMsg(ctx, req, resp)
}

// vc02Seen is what the recording fakes saw for one request.
type vc02Seen struct {
	statN    int
	statID   string
	statText string
	logged   []*querylog.Entry
	billed   int
}

// vc02Constructor builds a message constructor.
func vc02Constructor(t *rapid.T, cloner *dnsmsg.Cloner, m vc02ref.Mode, ttl uint32, ede bool) (c *dnsmsg.Constructor) {
	c, err := dnsmsg.NewConstructor(&dnsmsg.ConstructorConfig{
		Cloner:              cloner,
		BlockingMode:        vc02DNSMode(m),
		StructuredErrors:    agdtest.NewSDEConfig(ede),
		FilteredResponseTTL: time.Duration(ttl) * time.Second,
		EDEEnabled:          ede,
	})
	if err != nil {
		t.Fatalf("harness: constructor: %v", err)
	}

	return c
}

func vc02ObserveResult(r filter.Result) (o vc02ref.Observed) {
	switch r := r.(type) {
	case nil:
		return vc02ref.Observed{Kind: vc02ref.ONone}
	case *filter.ResultAllowed:
		return vc02ref.Observed{Kind: vc02ref.OAllowed, List: string(r.List), Rule: string(r.Rule)}
	case *filter.ResultBlocked:
		return vc02ref.Observed{Kind: vc02ref.OBlocked, List: string(r.List), Rule: string(r.Rule)}
	case *filter.ResultModifiedRequest:
		o = vc02ref.Observed{Kind: vc02ref.ORwCNAME, List: string(r.List), Rule: string(r.Rule)}
		if r.Msg != nil && len(r.Msg.Question) == 1 {
			o.Target = strings.TrimSuffix(r.Msg.Question[0].Name, ".")
		}

		return o
	case *filter.ResultModifiedResponse:
		return vc02ref.Observed{Kind: vc02ref.ORwIP, List: string(r.List), Rule: string(r.Rule), Msg: r.Msg}
	default:
		panic(fmt.Sprintf("unexpected result %T", r))
	}
}

func vc02MixCase(t *rapid.T, s string) string {
	if rapid.IntRange(0, 1).Draw(t, "mixCase") != 0 {
		return s
	}

	b := []byte(s)
	for i := range b {
		if b[i] >= 'a' && b[i] <= 'z' && rapid.Bool().Draw(t, "up") {
			b[i] -= 'a' - 'A'
		}
	}

	return string(b)
}

// vc02Case is everything that is needed to judge one written answer.
type vc02Case struct {
	req     *dns.Msg
	written *dns.Msg
	up      *vc02Exch
	seen    *vc02Seen
	mode    vc02ref.Mode
	ttl     uint32
}

func (c *vc02Case) statIs(o vc02ref.Outcome) error {
	if c.seen.statN != 1 {
		return fmt.Errorf("rule statistics collected %d times, want once", c.seen.statN)
	}

	if o.Kind == vc02ref.ONone {
		if c.seen.statID != "" || c.seen.statText != "" {
			return fmt.Errorf("rule statistics got (%q, %q), want no rule", c.seen.statID, c.seen.statText)
		}

		return nil
	}

	if c.seen.statID != o.List {
		return fmt.Errorf("deciding list %q, want %q", c.seen.statID, o.List)
	}

	if o.Rules != nil {
		ok := false
		for _, r := range o.Rules {
			ok = ok || r == c.seen.statText
		}

		if !ok {
			return fmt.Errorf("deciding rule %q, want one of %q", c.seen.statText, o.Rules)
		}
	}

	return nil
}

// askedOnce checks that the upstream was asked exactly once, for name (the
// client's spelling, or a rewrite target) and the client's type.
func (c *vc02Case) askedOnce(name string) error {
	if len(c.up.asked) != 1 {
		return fmt.Errorf("upstream asked %d times, want once", len(c.up.asked))
	}

	q := c.up.asked[0]
	if q.Name != name || q.Qtype != c.req.Question[0].Qtype || q.Qclass != dns.ClassINET {
		return fmt.Errorf("upstream asked %v, want %s %s", q, name, dns.TypeToString[c.req.Question[0].Qtype])
	}

	return nil
}

// verbatim checks that the written answer is the upstream's.
func (c *vc02Case) verbatim() error {
	if err := c.askedOnce(c.req.Question[0].Name); err != nil {
		return err
	}

	if err := vc02ref.CheckHeader(c.req, c.written); err != nil {
		return err
	}

	if got, want := c.written.String(), c.up.sent[0].String(); got != want {
		return fmt.Errorf("written answer differs from the upstream's:\n%s\nupstream:\n%s", vc02ref.MsgString(c.written), vc02ref.MsgString(c.up.sent[0]))
	}

	return nil
}

// explains returns nil if the written answer is what the verdict o on the
// request prescribes.
func (c *vc02Case) explains(o vc02ref.Outcome) error {
	if err := c.statIs(o); err != nil {
		return err
	}

	if o.Kind != vc02ref.ORwCNAME {
		// Whatever the verdict, the upstream sees the client's own question (or
		// is not needed at all); it is never asked anything else.
		if len(c.up.asked) > 1 || (len(c.up.asked) == 1 && c.up.asked[0] != c.req.Question[0]) {
			return fmt.Errorf("upstream asked %v", c.up.asked)
		}
	}

	switch o.Kind {
	case vc02ref.OAllowed:
		return c.verbatim()
	case vc02ref.OBlocked, vc02ref.OSafeBlock:
		return vc02ref.CheckBlocked(c.req, c.written, c.mode, c.ttl)
	case vc02ref.ORwIP:
		return vc02ref.CheckRewriteIP(c.req, c.written, o.IPs, c.ttl)
	case vc02ref.ORwRcode:
		return vc02ref.CheckRcode(c.req, c.written, o.Rcode, c.ttl)
	case vc02ref.OSafeEmpty:
		return vc02ref.CheckEmpty(c.req, c.written, c.ttl)
	case vc02ref.ORwCNAME:
		return c.cname(o)
	}

	return fmt.Errorf("unexpected outcome kind %s", o.Kind)
}

// cname checks the answer to a question that was resolved as another name.
func (c *vc02Case) cname(o vc02ref.Outcome) error {
	if err := c.askedOnce(dns.Fqdn(o.Target)); err != nil {
		return err
	}

	if err := vc02ref.CheckHeader(c.req, c.written); err != nil {
		return err
	}

	sent := c.up.sent[0]
	if len(c.written.Answer) != len(sent.Answer)+1 {
		return fmt.Errorf("%d answer records, want the CNAME and the upstream's %d", len(c.written.Answer), len(sent.Answer))
	}

	cn, ok := c.written.Answer[0].(*dns.CNAME)
	if !ok {
		return fmt.Errorf("first answer record is %s, want a CNAME", c.written.Answer[0])
	}

	q := c.req.Question[0]
	if !strings.EqualFold(cn.Hdr.Name, q.Name) || !strings.EqualFold(cn.Target, dns.Fqdn(o.Target)) || cn.Hdr.Class != dns.ClassINET {
		return fmt.Errorf("CNAME %s, want %s -> %s", cn, q.Name, o.Target)
	}

	if cn.Hdr.Ttl != c.ttl {
		return fmt.Errorf("CNAME TTL %d, want the requester's %d", cn.Hdr.Ttl, c.ttl)
	}

	rest := c.written.Copy()
	rest.Answer = rest.Answer[1:]
	want := sent.Copy()
	want.Id, want.Question = c.req.Id, c.req.Question
	if got, w := rest.String(), want.String(); got != w {
		return fmt.Errorf("rest of the answer differs from the upstream's answer for %s:\n%s\nupstream:\n%s", o.Target, vc02ref.MsgString(rest), vc02ref.MsgString(want))
	}

	return nil
}

// explainsResp returns nil if the written answer is what no verdict on the
// request and the verdict o on the upstream answer prescribe.
func (c *vc02Case) explainsResp(o vc02ref.Outcome) error {
	if err := c.statIs(o); err != nil {
		return err
	}

	if err := c.askedOnce(c.req.Question[0].Name); err != nil {
		return err
	}

	switch o.Kind {
	case vc02ref.ONone, vc02ref.OAllowed:
		return c.verbatim()
	case vc02ref.OBlocked:
		return vc02ref.CheckBlocked(c.req, c.written, c.mode, c.ttl)
	}

	return fmt.Errorf("unexpected response outcome kind %s", o.Kind)
}

// vc02Env is what is shared by all requests of one case.
type vc02Env struct {
	w      *vc02ref.World
	h      dnsserver.Handler
	ec     *vc02Errs
	whos   []*vc02Who
	srv    vc02ref.Mode
	srvTTL uint32
}

// vc02NearHosts returns the hosts that differ from host by one label step:
// parent, children and siblings in the pool.
func vc02NearHosts(host string) (near []string) {
	parent := ""
	if i := strings.IndexByte(host, '.'); i >= 0 {
		parent = host[i+1:]
	}

	for _, h := range vc02ref.Hosts {
		hp := ""
		if i := strings.IndexByte(h, '.'); i >= 0 {
			hp = h[i+1:]
		}

		if h != host && (h == parent || hp == host || hp == parent) {
			near = append(near, h)
		}
	}

	if len(near) == 0 {
		near = vc02ref.Hosts
	}

	return near
}

// vc02DrawExch draws the next request.  Mostly it is a near miss of the
// previous one: the same request with exactly one component changed.
func vc02DrawExch(t *rapid.T, env *vc02Env, focus string, prev *vc02Exch) (e *vc02Exch, change string) {
	e = &vc02Exch{}
	change = "fresh"
	if prev != nil && rapid.IntRange(0, 9).Draw(t, "nearMiss") < 7 {
		e.who, e.host, e.qt = prev.who, prev.host, prev.qt
		change = rapid.SampledFrom([]string{"requester", "requester", "requester", "qtype", "host", "nothing", "case", "case"}).Draw(t, "change")
		if change == "case" {
			// Exactly the previous request, upstream script included, with
			// only the spelling of the name changed.
			if vname, has := vc02ref.CaseVariant(t, prev.sentReq.Question[0].Name); has {
				e.script = prev.script
				e.req = prev.sentReq.Copy()
				e.req.Question[0].Name = vname
				e.sentReq = e.req.Copy()

				return e, change
			}

			change = "nothing"
		}

		switch change {
		case "requester":
			others := []*vc02Who{}
			for _, w := range env.whos {
				if w != prev.who {
					others = append(others, w)
				}
			}

			e.who = others[rapid.IntRange(0, len(others)-1).Draw(t, "otherWho")]
		case "qtype":
			e.qt = rapid.SampledFrom(vc02ref.QTypes).Draw(t, "qt")
		case "host":
			e.host = rapid.SampledFrom(vc02NearHosts(prev.host)).Draw(t, "nearHost")
		}
	} else {
		e.who = env.whos[rapid.IntRange(0, len(env.whos)-1).Draw(t, "who")]
		e.host = focus
		switch k := rapid.IntRange(0, 15).Draw(t, "hostKind"); {
		case k == 15:
			e.host = rapid.SampledFrom(vc02ref.EdgeHosts).Draw(t, "edgeHost")
		case k >= 11:
			e.host = rapid.SampledFrom(vc02ref.Hosts).Draw(t, "host")
		}

		e.qt = rapid.SampledFrom(vc02ref.QTypes).Draw(t, "qt")
	}

	e.script = vc02ref.DrawUpAnswer(t, e.qt)
	vc02ref.BiasHints(t, &e.script, e.who.eff, e.qt)

	req := &dns.Msg{}
	req.Id = uint16(rapid.IntRange(0, 65535).Draw(t, "id"))
	req.RecursionDesired = rapid.IntRange(0, 3).Draw(t, "rd") != 0
	req.CheckingDisabled = rapid.IntRange(0, 3).Draw(t, "cd") == 0
	req.Question = []dns.Question{{Name: vc02MixCase(t, e.host) + ".", Qtype: e.qt, Qclass: dns.ClassINET}}
	if rapid.Bool().Draw(t, "edns") {
		req.SetEdns0(uint16(rapid.SampledFrom([]int{512, 1232, 4096}).Draw(t, "udpSize")), rapid.IntRange(0, 3).Draw(t, "do") == 0)
	}

	e.req, e.sentReq = req, req.Copy()

	return e, change
}

// vc02Serve runs one request through the stack.  It may be called from several
// goroutines at once.
func vc02Serve(env *vc02Env, e *vc02Exch, port int) {
	raddr := &net.TCPAddr{IP: net.IP{192, 0, 2, 77}, Port: port}
	laddr := &net.TCPAddr{IP: net.IP{127, 0, 0, 1}, Port: 853}
	e.rw = dnsserver.NewNonWriterResponseWriter(laddr, raddr)
	ctx := context.WithValue(context.Background(), vc02ExchKey{}, e)
	ctx = dnsserver.ContextWithRequestInfo(ctx, &dnsserver.RequestInfo{StartTime: time.Now()})
	e.err = env.h.ServeDNS(ctx, e.rw, e.req)
}

// vc02Judge checks the answer written for e and returns the histogram labels
// and the non-triviality key.
func vc02Judge(t *rapid.T, env *vc02Env, e *vc02Exch) (classes []string, nt string, desc map[string]any, verdict string) {
	who, host, qt := e.who, e.host, e.qt
	eff, mode, ttl := who.eff, who.mode, who.ttl
	desc = map[string]any{
		"config": eff.Describe(), "requester": who.name,
		"mode": mode.String(), "ttl": ttl, "server_mode": env.srv.String(), "server_ttl": env.srvTTL,
		"question": fmt.Sprintf("%s %s", e.sentReq.Question[0].Name, dns.TypeToString[qt]),
	}

	if e.err != nil {
		t.Fatalf("case %v: ServeDNS: %v", desc, e.err)
	}

	written := e.rw.Msg()
	if written == nil {
		t.Fatalf("case %v: nothing written", desc)
	}

	if len(e.sent) > 0 {
		desc["upstream"] = vc02ref.MsgString(e.sent[0])
	}

	c := &vc02Case{req: e.sentReq, written: written, up: e, seen: &e.seen, mode: mode, ttl: ttl}

	// The written answer must be explained by an acceptable verdict.
	reqOuts := eff.EvalRequest(host, qt)
	var respOuts []vc02ref.Outcome
	var why []string
	var got, gotResp vc02ref.Outcome
	explained := false
	for _, o := range reqOuts {
		if o.Kind == vc02ref.ONone {
			if len(e.sent) != 1 {
				why = append(why, fmt.Sprintf("no request verdict: upstream asked %d times", len(e.sent)))

				continue
			}

			respOuts = eff.EvalResponse(e.sent[0])
			for _, ro := range respOuts {
				err := c.explainsResp(ro)
				if err == nil {
					got, gotResp, explained = o, ro, true

					break
				}

				why = append(why, fmt.Sprintf("as no request verdict + response %s: %v", ro, err))
			}
		} else if err := c.explains(o); err == nil {
			got, explained = o, true
		} else {
			why = append(why, fmt.Sprintf("as %s: %v", o, err))
		}

		if explained {
			break
		}
	}

	if !explained {
		t.Fatalf("case %v\nwritten %s\nrule statistics (%q, %q)\nnot explained by any acceptable verdict %s:\n  %s",
			desc, vc02ref.MsgString(written), e.seen.statID, e.seen.statText, vc02ref.OutcomesString(reqOuts), strings.Join(why, "\n  "))
	}

	// The query log, when written, carries the verdicts themselves; it is
	// written exactly for requesters with a profile that has it switched on.
	wantLog := who.prof != nil && who.prof.QueryLogEnabled
	if wantLog != (len(e.seen.logged) == 1) {
		t.Fatalf("case %v: %d query-log entries, want logged=%t", desc, len(e.seen.logged), wantLog)
	}

	if wantLog {
		le := e.seen.logged[0]
		if _, ok := vc02ref.Accept(vc02ObserveResult(le.RequestResult), reqOuts); !ok {
			t.Fatalf("case %v: logged request verdict %s, acceptable %s", desc, vc02ObserveResult(le.RequestResult), vc02ref.OutcomesString(reqOuts))
		}

		if got.Kind == vc02ref.ONone {
			if _, ok := vc02ref.Accept(vc02ObserveResult(le.ResponseResult), respOuts); !ok {
				t.Fatalf("case %v: logged response verdict %s, acceptable %s", desc, vc02ObserveResult(le.ResponseResult), vc02ref.OutcomesString(respOuts))
			}
		}

		if le.ProfileID != who.prof.ID || le.DomainFQDN != e.sentReq.Question[0].Name || le.RequestType != qt {
			t.Fatalf("case %v: query-log entry of another request: profile %q name %q type %d", desc, le.ProfileID, le.DomainFQDN, le.RequestType)
		}

		if wantIP := who.prof.IPLogEnabled; wantIP != (le.RemoteIP != netip.Addr{}) {
			t.Fatalf("case %v: query-log entry has client address %v, IP logging is %t", desc, le.RemoteIP, wantIP)
		}
	}

	// Classes.
	classes = []string{"verdict-" + got.Kind.String(), mode.Class(), "requester-" + vc02KindNames[who.kind]}
	upNonEmpty := len(e.sent) == 1 && len(e.sent[0].Answer) > 0
	blockedShape := func() {
		switch mode.Kind {
		case vc02ref.MNull:
			if qt == dns.TypeA || qt == dns.TypeAAAA {
				classes = append(classes, "blocked-null-ip-addr")
			} else {
				classes = append(classes, "blocked-null-ip-nodata")
			}
		case vc02ref.MCustom:
			if (qt == dns.TypeA && len(mode.V4) > 0) || (qt == dns.TypeAAAA && len(mode.V6) > 0) {
				classes = append(classes, "blocked-custom-ip-addr")
			} else {
				classes = append(classes, "blocked-custom-ip-nodata")
			}
		case vc02ref.MNXDomain:
			classes = append(classes, "blocked-nxdomain")
		case vc02ref.MRefused:
			classes = append(classes, "blocked-refused")
		}

		if upNonEmpty {
			classes = append(classes, "blocked-over-nonempty-upstream")
		}

		if qt == dns.TypeAAAA && mode.Kind == vc02ref.MCustom && vc02ref.HasMapped(mode.V6) {
			classes = append(classes, "blocked-aaaa-with-ipv4-mapped-custom-address")
		}
	}

	respWouldBlock := func() bool {
		if len(e.sent) != 1 {
			return false
		}

		for _, ro := range eff.EvalResponse(e.sent[0]) {
			if ro.Kind == vc02ref.OBlocked {
				return true
			}
		}

		return false
	}

	replaced := false
	switch got.Kind {
	case vc02ref.OBlocked, vc02ref.OSafeBlock:
		blockedShape()
		replaced = upNonEmpty
	case vc02ref.ONone:
		classes = append(classes, "resp-verdict-"+gotResp.Kind.String())
		if eff.LaterHintDecides(e.sent[0]) {
			classes = append(classes, "https-answer-second-hint-decides")
		}

		if gotResp.Kind == vc02ref.OBlocked {
			blockedShape()
			classes = append(classes, "blocked-by-response")
			replaced = true
		}
	case vc02ref.OAllowed:
		if respWouldBlock() {
			classes = append(classes, "req-allowed-resp-would-block")
		}
	case vc02ref.ORwCNAME:
		classes = append(classes, "rewrite-cname")
		if respWouldBlock() {
			classes = append(classes, "cname-rewrite-resp-would-block")
		}
	case vc02ref.ORwIP:
		classes = append(classes, "rewrite-ip")
		if vc02ref.HasMapped(got.IPs) {
			classes = append(classes, "rewrite-aaaa-ipv4-mapped")
		}

		replaced = upNonEmpty
	case vc02ref.ORwRcode:
		classes = append(classes, "rewrite-rcode")
		replaced = upNonEmpty
	}

	if got.Kind != vc02ref.ONone && got.List != vc02ref.IDCustom && got.List != vc02ref.IDSvc && !strings.HasPrefix(got.List, "l") {
		classes = append(classes, "safety-verdict")
	}

	switch who.kind {
	case vc02Anon:
		classes = append(classes, "anonymous-group-config")
	case vc02Profile:
		classes = append(classes, "profile-config")
	case vc02ProfileOff:
		classes = append(classes, "filtering-off-profile")
	case vc02DeviceOff:
		classes = append(classes, "filtering-off-device")
	}

	if host == "" || !strings.Contains(host, ".") {
		classes = append(classes, "edge-host-root-or-tld")
	}

	if eff.OwnAllowEqualsShared(host, qt) {
		classes = append(classes, "own-allow-equals-shared-allow-with-safety-match")
	}

	// Would the verdict differ if every slot of the world were in effect?
	if eff != nil {
		if vc02ref.OutcomesString(env.w.All().EvalRequest(host, qt)) != vc02ref.OutcomesString(reqOuts) {
			classes = append(classes, "flag-off-hides-slot")
		}
	}

	slots := eff.Slots(host, qt)
	if slots >= 2 || replaced {
		nt = fmt.Sprintf("%v", desc)
	}

	return classes, nt, desc, got.String()
}

func TestVerifC02Shape(t *testing.T) {
	st := vstat.New("C02", "mainmw.shape",
		"rapid: world of lists in a real filterstorage.Default x switches of two profiles and the group x requester (anonymous | profile A | profile B | profile/device filtering off) x blocking mode and TTL (each profile's vs the server's) x question x scripted marker-carrying upstream answer, through one real ratelimitmw + mainmw stack per case: a sequence of 1-4 requests, each mostly a near miss of the previous one (only the requester / the qtype / one label changed, or nothing), then a round of 2-4 requests in flight at once; non-trivial = at least two slots match the question, or a blocked/rewritten answer replaced a non-empty upstream answer, distinct by (effective configuration, requester, mode, question, upstream answer)",
		"blocked-null-ip-addr", "blocked-null-ip-nodata", "blocked-custom-ip-addr", "blocked-custom-ip-nodata", "blocked-nxdomain", "blocked-refused",
		"blocked-by-response", "req-allowed-resp-would-block", "cname-rewrite-resp-would-block", "rewrite-cname", "rewrite-ip", "rewrite-rcode",
		"filtering-off-profile", "filtering-off-device", "anonymous-group-config", "profile-config", "blocked-over-nonempty-upstream",
		"flag-off-hides-slot", "safety-verdict", "later-question-on-same-stack", "same-question-other-requester", "same-question-other-requester-blocked",
		"identical-repeat", "near-miss-qtype", "near-miss-host", "concurrent-request", "concurrent-same-question-blocked", "edge-host-root-or-tld",
		"own-allow-equals-shared-allow-with-safety-match", "self-rewrite-target-queried-mixed-case", "case-variant-pair-compared",
		"blocked-aaaa-with-ipv4-mapped-custom-address", "rewrite-aaaa-ipv4-mapped", "https-answer-second-hint-decides")
	st.Finish(t)

	base := t.TempDir()
	caseN := 0

	rapid.Check(t, func(t *rapid.T) {
		caseN++
		dir := filepath.Join(base, fmt.Sprintf("c%d", caseN%8))
		_ = os.RemoveAll(dir)
		if err := os.MkdirAll(dir, 0o700); err != nil {
			t.Fatalf("harness: %v", err)
		}

		focus := rapid.SampledFrom(vc02ref.Hosts).Draw(t, "focus")
		w := vc02ref.DrawWorld(t, focus, 50)
		w.AddRespRules(t, focus)
		for _, l := range w.Svc {
			if len(l.Rules) == 0 {
				t.Fatalf("harness: empty service list")
			}
		}

		ec := &vc02Errs{}
		strg := vc02Storage(t, dir, w, rapid.Bool().Draw(t, "resultCache"), ec)

		flagsA, flagsB, grpFlags := vc02ref.DrawFlags(t, "profA"), vc02ref.DrawFlags(t, "profB"), vc02ref.DrawFlags(t, "grp")
		srvMode, modeA, modeB := vc02ref.DrawMode(t, "srvMode"), vc02ref.DrawMode(t, "modeA"), vc02ref.DrawMode(t, "modeB")
		ttls := []int{0, 1, 10, 60, 300, 3600}
		srvTTL := uint32(rapid.SampledFrom(ttls).Draw(t, "srvTTL"))
		ttlA := uint32(rapid.SampledFrom(ttls).Draw(t, "ttlA"))
		ttlB := uint32(rapid.SampledFrom(ttls).Draw(t, "ttlB"))
		ede := rapid.Bool().Draw(t, "ede")
		logA := rapid.IntRange(0, 3).Draw(t, "queryLogA") != 0

		cloner := agdtest.NewCloner()
		srvMsgs := vc02Constructor(t, cloner, srvMode, srvTTL, ede)

		newProfile := func(id string, f vc02ref.Flags, m vc02ref.Mode, ttl uint32, on, qlog, iplog bool) *agd.Profile {
			custom := &filter.ConfigCustom{ID: fmt.Sprintf("%s-%d", id, caseN), UpdateTime: time.Unix(int64(caseN), 0), Enabled: f.CustomOn}
			if w.Custom != nil {
				for _, r := range w.Custom.RuleTexts() {
					custom.Rules = append(custom.Rules, filter.RuleText(r))
				}
			}

			return &agd.Profile{
				FilterConfig: &filter.ConfigClient{
					Custom:       custom,
					Parental:     vc02Parental(f),
					RuleList:     &filter.ConfigRuleList{IDs: vc02IDs(f.ListIDs), Enabled: f.RuleListsOn},
					SafeBrowsing: vc02SafeBrowsing(f),
				},
				Access:              access.EmptyProfile{},
				BlockingMode:        vc02DNSMode(m),
				Ratelimiter:         agd.GlobalRatelimiter{},
				ID:                  agd.ProfileID(id),
				FilteredResponseTTL: time.Duration(ttl) * time.Second,
				FilteringEnabled:    on,
				QueryLogEnabled:     qlog,
				IPLogEnabled:        iplog,
			}
		}

		// Profile A logs (mostly) with the client address, profile B is its
		// opposite; the switched-off variants share A's settings.
		profA := newProfile("profA", flagsA, modeA, ttlA, true, logA, true)
		profB := newProfile("profB", flagsB, modeB, ttlB, true, !logA, false)
		profAOff := newProfile("profAoff", flagsA, modeA, ttlA, false, logA, true)
		devOn := &agd.Device{ID: "devon", FilteringEnabled: true}
		devOff := &agd.Device{ID: "devoff", FilteringEnabled: false}
		grp := &agd.FilteringGroup{
			ID: "grp",
			FilterConfig: &filter.ConfigGroup{
				Parental:     vc02Parental(grpFlags),
				RuleList:     &filter.ConfigRuleList{IDs: vc02IDs(grpFlags.ListIDs), Enabled: grpFlags.RuleListsOn},
				SafeBrowsing: vc02SafeBrowsing(grpFlags),
			},
		}

		env := &vc02Env{w: w, ec: ec, srv: srvMode, srvTTL: srvTTL}
		env.whos = []*vc02Who{
			{name: "anonymous", kind: vc02Anon, eff: w.Effective(grpFlags, false), mode: srvMode, ttl: srvTTL},
			{name: "profile-A", kind: vc02Profile, prof: profA, dev: devOn, eff: w.Effective(flagsA, true), mode: modeA, ttl: ttlA},
			{name: "profile-B", kind: vc02Profile, prof: profB, dev: devOn, eff: w.Effective(flagsB, true), mode: modeB, ttl: ttlB},
			{name: "profile-A-filtering-off", kind: vc02ProfileOff, prof: profAOff, dev: devOn, mode: modeA, ttl: ttlA},
			{name: "profile-A-device-filtering-off", kind: vc02DeviceOff, prof: profA, dev: devOff, mode: modeA, ttl: ttlA},
		}

		geo := agdtest.NewGeoIP()
		geo.OnData = func(string, netip.Addr) (*geoip.Location, error) { return nil, nil }

		mainMw := mainmw.New(&mainmw.Config{
			Cloner:   cloner,
			Logger:   slogutil.NewDiscardLogger(),
			Messages: srvMsgs,
			BillStat: &agdtest.BillStatRecorder{
				OnRecord: func(ctx context.Context, _ agd.DeviceID, _ geoip.Country, _ geoip.ASN, _ time.Time, _ agd.Protocol) {
					vc02ExchOf(ctx).seen.billed++
				},
			},
			ErrColl:       ec,
			FilterStorage: strg,
			GeoIP:         geo,
			Metrics:       mainmw.EmptyMetrics{},
			QueryLog: &agdtest.QueryLog{OnWrite: func(ctx context.Context, e *querylog.Entry) error {
				x := vc02ExchOf(ctx)
				x.seen.logged = append(x.seen.logged, e)

				return nil
			}},
			RuleStat: &agdtest.RuleStat{OnCollect: func(ctx context.Context, id filter.ID, text filter.RuleText) {
				x := vc02ExchOf(ctx)
				x.seen.statN++
				x.seen.statID, x.seen.statText = string(id), string(text)
			}},
		})

		rlMw := ratelimitmw.New(&ratelimitmw.Config{
			Logger:           slogutil.NewDiscardLogger(),
			Messages:         srvMsgs,
			FilteringGroup:   grp,
			ServerGroup:      &agd.ServerGroup{},
			Server:           &agd.Server{Protocol: agd.ProtoDoT},
			StructuredErrors: agdtest.NewSDEConfig(ede),
			AccessManager: &agdtest.AccessManager{
				OnIsBlockedHost: func(string, uint16) bool { return false },
				OnIsBlockedIP:   func(netip.Addr) bool { return false },
			},
			DeviceFinder: &agdtest.DeviceFinder{
				OnFind: func(ctx context.Context, _ *dns.Msg, _, _ netip.AddrPort) agd.DeviceResult {
					who := vc02ExchOf(ctx).who
					if who.prof == nil {
						return nil
					}

					return &agd.DeviceResultOK{Device: who.dev, Profile: who.prof}
				},
			},
			ErrColl:    ec,
			GeoIP:      geo,
			Metrics:    ratelimitmw.EmptyMetrics{},
			Limiter:    agdtest.NewRateLimit(),
			Protocols:  []agd.Protocol{agd.ProtoDNS},
			EDEEnabled: ede,
		})

		env.h = rlMw.Wrap(mainMw.Wrap(vc02Upstream{}))

		record := func(e *vc02Exch, extra ...string) {
			nErr := ec.count()
			classes, nt, desc, verdict := vc02Judge(t, env, e)
			classes = append(classes, extra...)
			if nErr > 0 {
				classes = append(classes, "errors-collected")
			}

			st.Case(nt, classes...)
			if st.WantSample() && nt != "" && !strings.HasPrefix(verdict, "none") {
				desc["written"] = vc02ref.MsgString(e.rw.Msg())
				desc["verdict"] = verdict
				desc["how"] = extra
				st.Sample(desc)
			}
		}

		isBlocked := func(e *vc02Exch) bool {
			for _, o := range e.who.eff.EvalRequest(e.host, e.qt) {
				if o.Kind != vc02ref.OBlocked && o.Kind != vc02ref.OSafeBlock {
					return false
				}
			}

			return true
		}

		// Sequential part.
		var prev *vc02Exch
		nQ := rapid.IntRange(1, 4).Draw(t, "nQuestions")
		for qi := 0; qi < nQ; qi++ {
			e, change := vc02DrawExch(t, env, focus, prev)
			vc02Serve(env, e, 4242+qi)

			var extra []string
			if qi > 0 {
				extra = append(extra, "later-question-on-same-stack")
			}

			switch change {
			case "requester":
				extra = append(extra, "same-question-other-requester")
				if isBlocked(e) && isBlocked(prev) && (e.who.mode.String() != prev.who.mode.String() || e.who.ttl != prev.who.ttl) {
					extra = append(extra, "same-question-other-requester-blocked")
				}
			case "qtype":
				extra = append(extra, "near-miss-qtype")
			case "host":
				extra = append(extra, "near-miss-host")
			case "nothing":
				extra = append(extra, "identical-repeat")
			case "case":
				extra = append(extra, "case-variant-pair-compared")
			}

			if sp := e.who.eff.SelfRewriteSpellings(e.host, e.qt); len(sp) > 0 && strings.TrimSuffix(e.sentReq.Question[0].Name, ".") != sp[0] {
				extra = append(extra, "self-rewrite-target-queried-mixed-case")
			}

			record(e, extra...)
			if change == "case" {
				// DNS names are case-insensitive: the answer and the deciding rule
				// do not depend on the spelling of the name.
				a, b := vc02ref.FoldMsg(prev.rw.Msg()), vc02ref.FoldMsg(e.rw.Msg())
				if a != b || prev.seen.statID != e.seen.statID || prev.seen.statText != e.seen.statText {
					t.Fatalf("the answer depends on the letter case of the name (requester %s):\nquestion %v -> %s rule (%q, %q)\nquestion %v -> %s rule (%q, %q)",
						e.who.name, prev.sentReq.Question, vc02ref.MsgString(prev.rw.Msg()), prev.seen.statID, prev.seen.statText,
						e.sentReq.Question, vc02ref.MsgString(e.rw.Msg()), e.seen.statID, e.seen.statText)
				}
			}

			prev = e
		}

		// Concurrent part: several requests are inside the upstream at the same
		// time, so every piece of per-request state of the middlewares is live
		// at once.  Mostly the requesters differ and the question is the same.
		if rapid.IntRange(0, 2).Draw(t, "concurrent") != 0 {
			k := rapid.IntRange(2, 4).Draw(t, "inFlight")
			gate := vc02NewGate(k)
			var es []*vc02Exch
			var p *vc02Exch
			for i := 0; i < k; i++ {
				e, _ := vc02DrawExch(t, env, focus, p)
				e.gate = gate
				es = append(es, e)
				p = e
			}

			var wg sync.WaitGroup
			for i, e := range es {
				wg.Add(1)
				go func() {
					defer wg.Done()
					vc02Serve(env, e, 5000+i)
				}()
			}

			wg.Wait()
			if gate.late {
				t.Logf("VERIF-INCONCLUSIVE: concurrent round did not assemble within 10s")
				fmt.Println("VERIF-INCONCLUSIVE: C02 concurrent round did not assemble within 10s")
				t.FailNow()
			}

			sameBlocked := false
			for i, e := range es {
				for _, o := range es[:i] {
					if o.host == e.host && o.qt == e.qt && o.who != e.who && isBlocked(o) && isBlocked(e) &&
						(o.who.mode.String() != e.who.mode.String() || o.who.ttl != e.who.ttl) {
						sameBlocked = true
					}
				}
			}

			for _, e := range es {
				extra := []string{"concurrent-request"}
				if sameBlocked {
					extra = append(extra, "concurrent-same-question-blocked")
				}

				record(e, extra...)
			}
		}
	})
}
