//go:build verif

package composite_test

// C02, verdict part: the real composite filter, built from real rule-list,
// hash-prefix and safe-search filters whose contents are rendered from a rule
// AST, is compared with the reference evaluator of the documented precedence
// (verif.local/harness/C02/vc02ref).  See /verif/DESIGN.md, section 3, C02.

import (
	"context"
	"fmt"
	"net/netip"
	"net/url"
	"os"
	"path/filepath"
	"strings"
	"testing"
	"time"

	"github.com/AdguardTeam/AdGuardDNS/internal/agdcache"
	"github.com/AdguardTeam/AdGuardDNS/internal/agdtest"
	"github.com/AdguardTeam/AdGuardDNS/internal/dnsmsg"
	"github.com/AdguardTeam/AdGuardDNS/internal/filter/hashprefix"
	"github.com/AdguardTeam/AdGuardDNS/internal/filter/internal"
	"github.com/AdguardTeam/AdGuardDNS/internal/filter/internal/composite"
	"github.com/AdguardTeam/AdGuardDNS/internal/filter/internal/refreshable"
	"github.com/AdguardTeam/AdGuardDNS/internal/filter/internal/rulelist"
	"github.com/AdguardTeam/AdGuardDNS/internal/filter/internal/safesearch"
	"github.com/AdguardTeam/golibs/logutil/slogutil"
	"github.com/c2h5oh/datasize"
	"github.com/miekg/dns"
	"pgregory.net/rapid"
	"verif.local/harness/C02/vc02ref"
	"verif.local/harness/vstat"
)

// vc02T is what the builders need of *rapid.T.
type vc02T interface {
	Fatalf(format string, args ...any)
}

// vc02Builder turns model slots into real filters.
type vc02Builder struct {
	dir    string
	cached bool
	n      int
}

func (b *vc02Builder) cache() rulelist.ResultCache {
	return rulelist.NewResultCache(100, b.cached)
}

func (b *vc02Builder) hash(t vc02T, h *vc02ref.Hash) (f *hashprefix.Filter) {
	if h == nil {
		return nil
	}

	strg, err := hashprefix.NewStorage(strings.Join(h.Hosts, "\n") + "\n")
	if err != nil {
		t.Fatalf("harness: hash storage: %v", err)
	}

	f, err = hashprefix.NewFilter(&hashprefix.FilterConfig{
		Logger:          slogutil.NewDiscardLogger(),
		Cloner:          agdtest.NewCloner(),
		CacheManager:    agdcache.EmptyManager{},
		Hashes:          strg,
		URL:             &url.URL{Scheme: "file", Path: filepath.Join(b.dir, "no-such-file")},
		ErrColl:         agdtest.NewErrorCollector(),
		Metrics:         internal.EmptyMetrics{},
		ID:              internal.ID(h.ID),
		CachePath:       filepath.Join(b.dir, "hash-cache"),
		ReplacementHost: h.Replacement(),
		Staleness:       time.Hour,
		CacheTTL:        time.Hour,
		RefreshTimeout:  time.Second,
		CacheCount:      100,
		MaxSize:         datasize.MB,
	})
	if err != nil {
		t.Fatalf("harness: hash filter %s: %v", h.ID, err)
	}

	return f
}

func (b *vc02Builder) safeSearch(t vc02T, l *vc02ref.List) (f *safesearch.Filter) {
	if l == nil {
		return nil
	}

	b.n++
	p := filepath.Join(b.dir, fmt.Sprintf("ss-%s-%d.txt", l.ID, b.n%4))
	if err := os.WriteFile(p, []byte(l.Text()), 0o600); err != nil {
		t.Fatalf("harness: writing %s: %v", p, err)
	}

	f, err := safesearch.New(&safesearch.Config{
		Refreshable: &refreshable.Config{
			Logger: slogutil.NewDiscardLogger(),
			// Never contacted: the cache file exists and stale data is accepted.
			URL:       &url.URL{Scheme: "http", Host: "127.0.0.1:1", Path: "/" + l.ID},
			ID:        internal.ID(l.ID),
			CachePath: p,
			Staleness: time.Hour,
			Timeout:   time.Second,
			MaxSize:   datasize.MB,
		},
		CacheTTL: time.Minute,
	}, b.cache())
	if err != nil {
		t.Fatalf("harness: safe search %s: %v", l.ID, err)
	}

	if err = f.Refresh(context.Background(), true); err != nil {
		t.Fatalf("harness: refreshing safe search %s: %v", l.ID, err)
	}

	return f
}

// build returns the real composite filter for the model configuration.
func (b *vc02Builder) build(t vc02T, c *vc02ref.Config) (f *composite.Filter) {
	conf := &composite.Config{
		SafeBrowsing:         b.hash(t, c.Dangerous),
		AdultBlocking:        b.hash(t, c.Adult),
		NewRegisteredDomains: b.hash(t, c.NewReg),
		GeneralSafeSearch:    b.safeSearch(t, c.GenSS),
		YouTubeSafeSearch:    b.safeSearch(t, c.YTSS),
	}

	var err error
	if c.Custom != nil {
		conf.Custom, err = rulelist.NewImmutable(c.Custom.Text(), internal.IDCustom, "", rulelist.ResultCacheEmpty{})
		if err != nil {
			t.Fatalf("harness: custom list: %v", err)
		}
	}

	for _, l := range c.Shared {
		var rl *rulelist.Refreshable
		rl, err = rulelist.NewFromString(l.Text(), internal.ID(l.ID), "", b.cache())
		if err != nil {
			t.Fatalf("harness: list %s: %v", l.ID, err)
		}

		conf.RuleLists = append(conf.RuleLists, rl)
	}

	for _, l := range c.Svc {
		var rl *rulelist.Immutable
		rl, err = rulelist.NewImmutable(l.Text(), internal.IDBlockedService, internal.BlockedServiceID(l.SvcID), b.cache())
		if err != nil {
			t.Fatalf("harness: service list %s: %v", l.SvcID, err)
		}

		conf.ServiceLists = append(conf.ServiceLists, rl)
	}

	return composite.New(conf)
}

// vc02Observe converts a result of the real filter.
func vc02Observe(r internal.Result) (o vc02ref.Observed) {
	switch r := r.(type) {
	case nil:
		return vc02ref.Observed{Kind: vc02ref.ONone}
	case *internal.ResultAllowed:
		return vc02ref.Observed{Kind: vc02ref.OAllowed, List: string(r.List), Rule: string(r.Rule)}
	case *internal.ResultBlocked:
		return vc02ref.Observed{Kind: vc02ref.OBlocked, List: string(r.List), Rule: string(r.Rule)}
	case *internal.ResultModifiedRequest:
		o = vc02ref.Observed{Kind: vc02ref.ORwCNAME, List: string(r.List), Rule: string(r.Rule)}
		if r.Msg != nil && len(r.Msg.Question) == 1 {
			o.Target = strings.TrimSuffix(r.Msg.Question[0].Name, ".")
		}

		return o
	case *internal.ResultModifiedResponse:
		return vc02ref.Observed{Kind: vc02ref.ORwIP, List: string(r.List), Rule: string(r.Rule), Msg: r.Msg}
	default:
		panic(fmt.Sprintf("unexpected result %T", r))
	}
}

func vc02DNSMode(m vc02ref.Mode) dnsmsg.BlockingMode {
	switch m.Kind {
	case vc02ref.MNull:
		return &dnsmsg.BlockingModeNullIP{}
	case vc02ref.MCustom:
		return &dnsmsg.BlockingModeCustomIP{IPv4: m.V4, IPv6: m.V6}
	case vc02ref.MNXDomain:
		return &dnsmsg.BlockingModeNXDOMAIN{}
	default:
		return &dnsmsg.BlockingModeREFUSED{}
	}
}

// vc02MixCase upper-cases some letters of a name.
func vc02MixCase(t *rapid.T, s string) string {
	if rapid.IntRange(0, 2).Draw(t, "mixCase") != 0 {
		return s
	}

	b := []byte(s)
	for i := range b {
		if b[i] >= 'a' && b[i] <= 'z' && rapid.Bool().Draw(t, "up") {
			b[i] -= 'a' - 'A'
		}
	}

	return string(b)
}

// vc02Req builds the filtering request the way the main middleware does: Host
// is the lower-cased name without the trailing dot, the message keeps the
// client's spelling.
func vc02Req(t *rapid.T, msgs *dnsmsg.Constructor, host string, qt uint16) (req *internal.Request) {
	m := &dns.Msg{}
	m.Id = uint16(rapid.IntRange(0, 65535).Draw(t, "id"))
	m.RecursionDesired = true
	m.Question = []dns.Question{{Name: vc02MixCase(t, host) + ".", Qtype: qt, Qclass: dns.ClassINET}}
	if rapid.Bool().Draw(t, "edns") {
		m.SetEdns0(1232, false)
	}

	return &internal.Request{
		DNS:      m,
		Messages: msgs,
		RemoteIP: netip.MustParseAddr("192.0.2.77"),
		Host:     host,
		QType:    qt,
		QClass:   dns.ClassINET,
	}
}

// vc02CheckMsg checks the message of a modified response against the matching
// outcome.
func vc02CheckMsg(req *dns.Msg, obs vc02ref.Observed, o vc02ref.Outcome, mode vc02ref.Mode, ttl uint32) error {
	switch o.Kind {
	case vc02ref.ORwIP:
		return vc02ref.CheckRewriteIP(req, obs.Msg, o.IPs, ttl)
	case vc02ref.ORwRcode:
		return vc02ref.CheckRcode(req, obs.Msg, o.Rcode, ttl)
	case vc02ref.OSafeBlock:
		return vc02ref.CheckBlocked(req, obs.Msg, mode, ttl)
	case vc02ref.OSafeEmpty:
		return vc02ref.CheckEmpty(req, obs.Msg, ttl)
	}

	return nil
}

func TestVerifC02Verdict(t *testing.T) {
	st := vstat.New("C02", "composite.verdict",
		"rapid: rule AST -> text for custom / shared(0-3, ordered) / service / dangerous / adult / safe-search x2 / newly-registered slots, real composite.Filter vs reference evaluator on 4 questions (each mostly a near miss of the previous one: only the type / one label / the requester's constructor / nothing changed) and 1 upstream answer per configuration; non-trivial = at least two slots have a rule or entry matching the question (or an answer record matches a rule), distinct by (configuration text, question)",
		"req-rewrite-custom", "req-rewrite-shared", "req-rewrite-beats-allow", "req-allow-custom-stops-safety", "req-allow-shared-then-safety",
		"req-allow-beats-block", "req-blocked", "req-blocked-hosts-only", "req-safety-second-or-later", "req-svc-rewrite-ignored",
		"resp-blocked", "resp-allowed", "slots>=3", "meta-allow-added", "meta-rewrite-moved",
		"repeated-question", "repeated-question-other-requester-modified-response", "change-qtype", "change-host", "edge-host-root-or-tld",
		"own-allow-equals-shared-allow-with-safety-match", "self-rewrite-target-queried-mixed-case", "case-variant-pair-compared", "rewrite-aaaa-ipv4-mapped",
		"https-answer-second-hint-decides")
	st.Finish(t)

	dir := t.TempDir()
	ctx := context.Background()

	rapid.Check(t, func(t *rapid.T) {
		focus := rapid.SampledFrom(vc02ref.Hosts).Draw(t, "focus")
		w := vc02ref.DrawWorld(t, focus, 35)
		c := w.All()
		mode := vc02ref.DrawMode(t, "mode")
		ttl := uint32(rapid.SampledFrom([]int{0, 1, 10, 60, 3600}).Draw(t, "ttl"))
		ede := rapid.Bool().Draw(t, "ede")
		msgs, err := dnsmsg.NewConstructor(&dnsmsg.ConstructorConfig{
			Cloner:              agdtest.NewCloner(),
			BlockingMode:        vc02DNSMode(mode),
			StructuredErrors:    agdtest.NewSDEConfig(ede),
			FilteredResponseTTL: time.Duration(ttl) * time.Second,
			EDEEnabled:          ede,
		})
		if err != nil {
			t.Fatalf("harness: constructor: %v", err)
		}

		b := &vc02Builder{dir: dir, cached: rapid.Bool().Draw(t, "resultCache")}
		f := b.build(t, c)
		desc := c.Describe()

		type vq struct {
			host string
			qt   uint16
		}

		// A second requester's constructor: the same filter serves requesters
		// with different blocking modes and TTLs.
		mode1, ttl1, msgs1 := mode, ttl, msgs
		mode2 := vc02ref.DrawMode(t, "mode2")
		ttl2 := uint32(rapid.SampledFrom([]int{0, 1, 10, 60, 3600}).Draw(t, "ttl2"))
		msgs2, err := dnsmsg.NewConstructor(&dnsmsg.ConstructorConfig{
			Cloner:              agdtest.NewCloner(),
			BlockingMode:        vc02DNSMode(mode2),
			StructuredErrors:    agdtest.NewSDEConfig(ede),
			FilteredResponseTTL: time.Duration(ttl2) * time.Second,
			EDEEnabled:          ede,
		})
		if err != nil {
			t.Fatalf("harness: constructor: %v", err)
		}

		// Every question after the first is mostly a near miss of the previous
		// one: only the type, only one label, only the requester, or nothing
		// changed.
		seen := map[vq]bool{}
		var q vq
		second := false
		for i := 0; i < 4; i++ {
			change := "fresh"
			if i > 0 && rapid.IntRange(0, 9).Draw(t, "nearMiss") < 7 {
				change = rapid.SampledFrom([]string{"qtype", "host", "requester", "requester", "nothing"}).Draw(t, "change")
			}

			switch change {
			case "fresh":
				q = vq{host: focus, qt: rapid.SampledFrom(vc02ref.QTypes).Draw(t, "qt")}
				switch k := rapid.IntRange(0, 15).Draw(t, "hostKind"); {
				case i > 0 && k == 15:
					q.host = rapid.SampledFrom(vc02ref.EdgeHosts).Draw(t, "edgeHost")
				case i > 0 && k >= 11:
					q.host = rapid.SampledFrom(vc02ref.Hosts).Draw(t, "host")
				}
			case "qtype":
				q.qt = rapid.SampledFrom(vc02ref.QTypes).Draw(t, "qt")
			case "host":
				q.host = rapid.SampledFrom(vc02NearHosts(q.host)).Draw(t, "nearHost")
			case "requester":
				second = !second
			}

			mode, ttl, msgs = mode1, ttl1, msgs1
			if second {
				mode, ttl, msgs = mode2, ttl2, msgs2
			}

			repeat := seen[q]
			seen[q] = true

			req := vc02Req(t, msgs, q.host, q.qt)
			want := c.EvalRequest(q.host, q.qt)
			res, ferr := f.FilterRequest(ctx, req)
			if ferr != nil {
				t.Fatalf("config %v\nquestion %s %s: FilterRequest error: %v", desc, q.host, dns.TypeToString[q.qt], ferr)
			}

			obs := vc02Observe(res)
			got, ok := vc02ref.Accept(obs, want)
			if !ok {
				t.Fatalf("config %v\nquestion %s %s\nverdict    %s\nacceptable %s", desc, q.host, dns.TypeToString[q.qt], obs, vc02ref.OutcomesString(want))
			}

			if obs.Msg != nil {
				if err = vc02CheckMsg(req.DNS, obs, got, mode, ttl); err != nil {
					t.Fatalf("config %v\nquestion %s %s mode %s ttl %d\nverdict %s (as %s)\nmessage %s\n%v",
						desc, q.host, dns.TypeToString[q.qt], mode, ttl, obs, got, vc02ref.MsgString(obs.Msg), err)
				}
			}

			if obs.Kind == vc02ref.ORwCNAME {
				if res.(*internal.ResultModifiedRequest).Msg.Question[0].Qtype != q.qt {
					t.Fatalf("config %v\nquestion %s %s: rewritten question changed type: %v", desc, q.host, dns.TypeToString[q.qt], res.(*internal.ResultModifiedRequest).Msg.Question)
				}
			}

			classes := vc02Classes(c, q.host, q.qt, got)
			if got.Kind == vc02ref.ORwIP && vc02ref.HasMapped(got.IPs) {
				classes = append(classes, "rewrite-aaaa-ipv4-mapped")
			}

			// Metamorphic relation 3: DNS names are case-insensitive, so the
			// verdict and the answer do not depend on the client's spelling of
			// the name (only the echoed question does).
			selfSpell := c.SelfRewriteSpellings(q.host, q.qt)
			sentNames := []string{strings.TrimSuffix(req.DNS.Question[0].Name, ".")}
			if len(selfSpell) > 0 || rapid.Bool().Draw(t, "casePair") {
				if vname, has := vc02ref.CaseVariant(t, req.DNS.Question[0].Name); has {
					req2 := *req
					req2.DNS = req.DNS.Copy()
					req2.DNS.Question[0].Name = vname
					res2, ferr2 := f.FilterRequest(ctx, &req2)
					if ferr2 != nil {
						t.Fatalf("config %v\nquestion %s %s: FilterRequest error: %v", desc, vname, dns.TypeToString[q.qt], ferr2)
					}

					obs2 := vc02Observe(res2)
					same := obs2.Kind == obs.Kind && obs2.List == obs.List && obs2.Rule == obs.Rule && strings.EqualFold(obs2.Target, obs.Target) &&
						(obs.Msg == nil) == (obs2.Msg == nil) && (obs.Msg == nil || vc02ref.FoldMsg(obs.Msg) == vc02ref.FoldMsg(obs2.Msg))
					if !same {
						t.Fatalf("config %v\nthe verdict depends on the letter case of the name:\nquestion %s %s: %s\nquestion %s %s: %s",
							desc, req.DNS.Question[0].Name, dns.TypeToString[q.qt], obs, vname, dns.TypeToString[q.qt], obs2)
					}

					if obs2.Msg != nil {
						if err = vc02CheckMsg(req2.DNS, obs2, got, mode, ttl); err != nil {
							t.Fatalf("config %v\nquestion %s %s mode %s ttl %d\nverdict %s (as %s)\nmessage %s\n%v",
								desc, vname, dns.TypeToString[q.qt], mode, ttl, obs2, got, vc02ref.MsgString(obs2.Msg), err)
						}
					}

					sentNames = append(sentNames, strings.TrimSuffix(vname, "."))
					classes = append(classes, "case-variant-pair-compared")
				}
			}

			for _, sp := range selfSpell {
				for _, n := range sentNames {
					if n != sp {
						classes = append(classes, "self-rewrite-target-queried-mixed-case")

						break
					}
				}

				break
			}

			if repeat {
				classes = append(classes, "repeated-question")
				if change == "requester" && obs.Msg != nil && (mode1.String() != mode2.String() || ttl1 != ttl2) {
					classes = append(classes, "repeated-question-other-requester-modified-response")
				}
			}

			if i > 0 {
				classes = append(classes, "change-"+change)
			}

			if c.OwnAllowEqualsShared(q.host, q.qt) {
				classes = append(classes, "own-allow-equals-shared-allow-with-safety-match")
			}

			if !strings.Contains(q.host, ".") {
				classes = append(classes, "edge-host-root-or-tld")
			}
			slots := c.Slots(q.host, q.qt)
			nt := ""
			if slots >= 2 {
				nt = fmt.Sprintf("%v|%s|%d", desc, q.host, q.qt)
			}

			if slots >= 3 {
				classes = append(classes, "slots>=3")
			}

			// Metamorphic relation 1 (independent of the reference matcher): an
			// allow rule for exactly this host, added to any rule source, means
			// the question is never blocked by a rule.
			if rapid.IntRange(0, 3).Draw(t, "meta1") == 0 {
				c2, where := vc02AddAllow(t, c, q.host)
				f2 := b.build(t, c2)
				res2, ferr2 := f2.FilterRequest(ctx, vc02Req(t, msgs, q.host, q.qt))
				if ferr2 != nil {
					t.Fatalf("config %v + allow in %s: FilterRequest error: %v", desc, where, ferr2)
				}

				if obs2 := vc02Observe(res2); obs2.Kind == vc02ref.OBlocked {
					t.Fatalf("config %v\nquestion %s %s: verdict %s; after adding @@||%s^ to %s the verdict is %s: an allow rule must beat every block rule",
						desc, q.host, dns.TypeToString[q.qt], obs, q.host, where, obs2)
				}

				classes = append(classes, "meta-allow-added")
			}

			// Metamorphic relation 2: a rewrite that decided from a shared list
			// still decides, now as the custom list, when moved there.
			// (Not with a rewrite of the host to itself around: merged into one
			// list, its CNAME would take priority over the moved addresses.)
			if len(selfSpell) == 0 && obs.List != vc02ref.IDCustom && (got.Kind == vc02ref.ORwIP || got.Kind == vc02ref.ORwRcode || got.Kind == vc02ref.ORwCNAME) && vc02IsShared(c, obs.List) {
				c2 := vc02MoveRewrites(c, obs.List)
				f2 := b.build(t, c2)
				res2, ferr2 := f2.FilterRequest(ctx, vc02Req(t, msgs, q.host, q.qt))
				if ferr2 != nil {
					t.Fatalf("config %v, rewrites of %s moved to custom: FilterRequest error: %v", desc, obs.List, ferr2)
				}

				obs2 := vc02Observe(res2)
				if obs2.List != vc02ref.IDCustom || (obs2.Kind != vc02ref.ORwIP && obs2.Kind != vc02ref.ORwCNAME) {
					t.Fatalf("config %v\nquestion %s %s: verdict %s; after moving the rewrite rules of %s into the custom list the verdict is %s, want a rewrite by the custom list",
						desc, q.host, dns.TypeToString[q.qt], obs, obs.List, obs2)
				}

				classes = append(classes, "meta-rewrite-moved")
			}

			st.Case(nt, classes...)
			if st.WantSample() && slots >= 3 {
				st.Sample(map[string]any{"config": desc, "host": q.host, "qtype": dns.TypeToString[q.qt], "verdict": obs.String(), "acceptable": vc02ref.OutcomesString(want)})
			}
		}

		// Response side.
		qt := rapid.SampledFrom(vc02ref.QTypes).Draw(t, "respQt")
		up := vc02ref.DrawUpAnswer(t, qt)
		vc02ref.BiasHints(t, &up, c, qt)
		req := vc02Req(t, msgs, focus, qt)
		upMsg := up.Build(req.DNS)
		want := c.EvalResponse(upMsg)
		res, ferr := f.FilterResponse(ctx, &internal.Response{DNS: upMsg, RemoteIP: req.RemoteIP})
		if ferr != nil {
			t.Fatalf("config %v\nanswer %s: FilterResponse error: %v", desc, vc02ref.MsgString(upMsg), ferr)
		}

		obs := vc02Observe(res)
		got, ok := vc02ref.Accept(obs, want)
		if !ok {
			t.Fatalf("config %v\nanswer %s\nverdict    %s\nacceptable %s", desc, vc02ref.MsgString(upMsg), obs, vc02ref.OutcomesString(want))
		}

		nt := ""
		cls := "resp-" + got.Kind.String()
		if got.Kind != vc02ref.ONone {
			nt = fmt.Sprintf("%v|resp|%s", desc, vc02ref.MsgString(upMsg))
		}

		hintCls := ""
		if c.LaterHintDecides(upMsg) {
			hintCls = "https-answer-second-hint-decides"
		}

		st.Case(nt, cls, "resp-shape-"+vc02ref.UpShapeNames[up.Shape], "resp-acceptable-"+vc02ref.KindSet(want), hintCls)
	})
}

// vc02Classes labels a request case.
func vc02Classes(c *vc02ref.Config, host string, qt uint16, got vc02ref.Outcome) (cls []string) {
	cls = append(cls, "req-"+got.Kind.String())
	isRw := got.Kind == vc02ref.ORwIP || got.Kind == vc02ref.ORwRcode || got.Kind == vc02ref.ORwCNAME
	ruleList := got.List == vc02ref.IDCustom || vc02IsShared(c, got.List)

	var anyAllow, anyBlock, anyNetBlock, customAllow, svcRw bool
	srcs := []*vc02ref.List{}
	if c.Custom != nil {
		srcs = append(srcs, c.Custom)
	}

	srcs = append(srcs, c.Shared...)
	srcs = append(srcs, c.Svc...)
	for _, l := range srcs {
		for _, r := range l.Rules {
			if !r.Matches(host, qt) {
				continue
			}

			switch {
			case r.IsRewrite():
				svcRw = svcRw || l.ID == vc02ref.IDSvc
			case r.Kind == vc02ref.KAllow:
				anyAllow = true
				customAllow = customAllow || l.ID == vc02ref.IDCustom
			default:
				anyBlock = true
				anyNetBlock = anyNetBlock || r.Kind == vc02ref.KBlock
			}
		}
	}

	safeN := 0
	c2 := *c
	c2.Custom, c2.Shared, c2.Svc = nil, nil, nil
	safeFirst := ""
	if outs := c2.EvalRequest(host, qt); outs[0].Kind != vc02ref.ONone {
		safeN = 1
		safeFirst = outs[0].List
	}

	switch {
	case isRw && got.List == vc02ref.IDCustom:
		cls = append(cls, "req-rewrite-custom")
	case isRw && ruleList:
		cls = append(cls, "req-rewrite-shared")
	}

	if isRw && ruleList && anyAllow {
		cls = append(cls, "req-rewrite-beats-allow")
	}

	if isRw && ruleList && anyBlock {
		cls = append(cls, "req-rewrite-beats-block")
	}

	if got.Kind == vc02ref.OAllowed && anyBlock {
		cls = append(cls, "req-allow-beats-block")
	}

	if got.Kind == vc02ref.OAllowed && got.List == vc02ref.IDCustom && safeN > 0 {
		cls = append(cls, "req-allow-custom-stops-safety")
	}

	if !ruleList && got.Kind != vc02ref.ONone && got.Kind != vc02ref.OBlocked && got.Kind != vc02ref.OAllowed && anyAllow && !customAllow {
		cls = append(cls, "req-allow-shared-then-safety")
	}

	if got.Kind == vc02ref.OBlocked {
		cls = append(cls, "req-blocked")
		if !anyNetBlock {
			cls = append(cls, "req-blocked-hosts-only")
		}

		if got.List == vc02ref.IDSvc {
			cls = append(cls, "req-blocked-by-service")
		}
	}

	if svcRw && !isRw {
		cls = append(cls, "req-svc-rewrite-ignored")
	}

	if safeN > 0 && got.List == safeFirst && !ruleList {
		cls = append(cls, "req-safety-"+safeFirst)
		if safeFirst != vc02ref.IDDangerous {
			cls = append(cls, "req-safety-second-or-later")
		}
	}

	return cls
}

func vc02IsShared(c *vc02ref.Config, id string) bool {
	for _, l := range c.Shared {
		if l.ID == id {
			return true
		}
	}

	return false
}

// vc02AddAllow returns a copy of c with @@||host^ added to a drawn rule source.
func vc02AddAllow(t *rapid.T, c *vc02ref.Config, host string) (c2 *vc02ref.Config, where string) {
	cp := *c
	c2 = &cp
	r := vc02ref.Rule{Kind: vc02ref.KAllow, D: host}
	add := func(l *vc02ref.List) *vc02ref.List {
		nl := *l
		nl.Rules = append(append([]vc02ref.Rule{}, l.Rules...), r)

		return &nl
	}

	n := 1 + len(c.Shared) + len(c.Svc)
	i := rapid.IntRange(0, n-1).Draw(t, "allowWhere")
	switch {
	case i == 0:
		if c.Custom == nil {
			c2.Custom = &vc02ref.List{ID: vc02ref.IDCustom, Rules: []vc02ref.Rule{r}}
		} else {
			c2.Custom = add(c.Custom)
		}

		return c2, "custom"
	case i <= len(c.Shared):
		c2.Shared = append([]*vc02ref.List{}, c.Shared...)
		c2.Shared[i-1] = add(c.Shared[i-1])

		return c2, c.Shared[i-1].ID
	default:
		j := i - 1 - len(c.Shared)
		c2.Svc = append([]*vc02ref.List{}, c.Svc...)
		c2.Svc[j] = add(c.Svc[j])

		return c2, "service " + c.Svc[j].SvcID
	}
}

// vc02MoveRewrites returns a copy of c in which the rewrite rules of the shared
// list id are in the custom list instead.
func vc02MoveRewrites(c *vc02ref.Config, id string) (c2 *vc02ref.Config) {
	cp := *c
	c2 = &cp
	cust := &vc02ref.List{ID: vc02ref.IDCustom}
	if c.Custom != nil {
		cust.Rules = append(cust.Rules, c.Custom.Rules...)
	}

	c2.Shared = nil
	for _, l := range c.Shared {
		if l.ID != id {
			c2.Shared = append(c2.Shared, l)

			continue
		}

		nl := &vc02ref.List{ID: l.ID}
		for _, r := range l.Rules {
			if r.IsRewrite() {
				cust.Rules = append(cust.Rules, r)
			} else {
				nl.Rules = append(nl.Rules, r)
			}
		}

		c2.Shared = append(c2.Shared, nl)
	}

	c2.Custom = cust

	return c2
}

// vc02NearHosts returns the hosts that differ from host by one label step:
// parent, children and siblings in the pool.
func vc02NearHosts(host string) (near []string) {
	parent := ""
	if i := strings.IndexByte(host, '.'); i >= 0 {
		parent = host[i+1:]
	}

	for _, h := range vc02ref.Hosts {
		hp := ""
		if i := strings.IndexByte(h, '.'); i >= 0 {
			hp = h[i+1:]
		}

		if h != host && (h == parent || hp == host || hp == parent) {
			near = append(near, h)
		}
	}

	if len(near) == 0 {
		near = vc02ref.Hosts
	}

	return near
}
