//go:build verif

package dnssvc_test

// C15 (a): only opted-in profiles are logged, and every entry describes its
// own request.  Full handler stack of the shared fixture (vfs_stack.go); every
// entry handed to the query log is also written by the real
// querylog.FileSystem, and the JSON line is compared with doc/querylog.md.

import (
	"bytes"
	"context"
	"encoding/json"
	"fmt"
	"net/netip"
	"os"
	"path/filepath"
	"strings"
	"testing"

	"github.com/AdguardTeam/AdGuardDNS/internal/agd"
	"github.com/AdguardTeam/AdGuardDNS/internal/filter"
	"github.com/AdguardTeam/AdGuardDNS/internal/geoip"
	"github.com/AdguardTeam/AdGuardDNS/internal/querylog"
	"github.com/AdguardTeam/golibs/logutil/slogutil"
	"github.com/miekg/dns"
	"pgregory.net/rapid"
	"verif.local/harness/vstat"
)

// vc15Line is one JSONL line as documented in doc/querylog.md.
type vc15Line struct {
	IP *string `json:"ip"`
	U  *string `json:"u"`
	B  *string `json:"b"`
	I  *string `json:"i"`
	C  *string `json:"c"`
	D  *string `json:"d"`
	N  *string `json:"n"`
	L  *string `json:"l"`
	M  *string `json:"m"`
	T  *int64  `json:"t"`
	A  *uint32 `json:"a"`
	E  *uint32 `json:"e"`
	Q  *uint16 `json:"q"`
	R  *uint16 `json:"r"`
	RN *uint16 `json:"rn"`
	F  *uint8  `json:"f"`
	S  *uint8  `json:"s"`
	P  *uint8  `json:"p"`
}

// vc15ResultCode is the documented value of "f" for a scripted outcome.
func vc15ResultCode(outcome int) uint8 {
	switch outcome {
	case vfsOutReqBlocked:
		return 2
	case vfsOutRespBlocked:
		return 3
	case vfsOutReqAllowed:
		return 4
	case vfsOutRespAllowed:
		return 5
	case vfsOutRewritten, vfsOutCNAME:
		return 6
	default:
		return 1
	}
}

// vc15Proto is the documented value of "p".
func vc15Proto(server string) (uint8, agd.Protocol) {
	if server == vfsSrvDoT {
		return 5, agd.ProtoDoT
	}

	return 8, agd.ProtoDNS
}

func TestVerifC15Log(tt *testing.T) {
	st := vstat.New("C15", "dnssvc.log",
		"rapid: requests (anonymous / profile by SNI, CPE-ID, linked or dedicated address) x QueryLogEnabled x IPLogEnabled x profile and device filtering flags x scripted filtering outcome (none, request/response blocked, allowed, rewritten, CNAME-rewritten) x dropped (global / profile rate limit, access-blocked, unknown dedicated address) x debug class, 3-10 per stack; every entry also goes through the real querylog.FileSystem; non-trivial = profile request with exactly one of the two flags on; distinct by (flags, outcome, server, drop reason, qtype, location known)",
		"anon-answered", "prof-log-ip", "prof-log-noip", "prof-nolog-ip", "prof-nolog-noip",
		"dropped-access", "dropped-ratelimit-global", "dropped-ratelimit-profile", "dropped-unknown-dedicated",
		"oc-none", "oc-req-blocked", "oc-resp-blocked", "oc-req-allowed", "oc-resp-allowed", "oc-rewritten", "oc-cname-rewritten",
		"debug-profile", "filtering-disabled", "logged-no-location", "logged-escaped-rule", "dropped-profile-logging-on",
		"logged-both-req-blocked+resp-blocked", "logged-both-req-blocked+resp-allowed", "logged-both-req-allowed+resp-blocked",
		"logged-both-req-allowed+resp-allowed", "logged-both-rewritten+resp-blocked", "logged-both-other-rule",
		"logged-rcode-above-15", "logged-name-of-mixed-case-question", "logged-name-of-mixed-case-question-cname-rewritten", "near-miss-logging-differs", "near-miss-ip-logging-differs", "log-flip-by-device", "log-flip-by-anon", "concurrent-logged", "concurrent-profile-not-logged", "logged-asn-unknown")
	st.Finish(tt)

	opts := vfsOpts{AccessHeavy: false, Drops: true}
	// A memory-backed directory if there is one: the real file log opens,
	// appends and closes the file for every entry.
	dir := tt.TempDir()
	if shm, err := os.MkdirTemp("/dev/shm", "c15-verif-"); err == nil {
		dir = shm
		tt.Cleanup(func() { _ = os.RemoveAll(shm) })
	}

	logPath := filepath.Join(dir, "querylog.jsonl")

	rapid.Check(tt, func(t *rapid.T) {
		conf := vfsDrawConfig(t, opts)
		s := vfsNewStack(tt, conf)
		_ = os.Remove(logPath)
		fsLog := querylog.NewFileSystem(&querylog.FileSystemConfig{
			Logger:   slogutil.NewDiscardLogger(),
			Path:     logPath,
			RandSeed: rapid.Uint64().Draw(t, "randSeed"),
		})
		s.qlogSink = func(e *querylog.Entry) error { return fsLog.Write(context.Background(), e) }

		var hist []string
		linesSeen := 0

		// readNew returns the complete lines appended to the real log file
		// since the last call.
		readNew := func() (newLines [][]byte) {
			data, err := os.ReadFile(logPath)
			if err != nil && !os.IsNotExist(err) {
				t.Fatalf("harness: reading %s: %v", logPath, err)
			}

			if len(data) > 0 && data[len(data)-1] != '\n' {
				t.Fatalf("query log file does not end with a line feed: %q\nhistory:\n  %s", data, strings.Join(hist, "\n  "))
			}

			var lines [][]byte
			if len(data) > 0 {
				lines = bytes.Split(data[:len(data)-1], []byte("\n"))
			}

			if len(lines) < linesSeen {
				t.Fatalf("query log file shrank to %d lines from %d", len(lines), linesSeen)
			}

			newLines = lines[linesSeen:]
			linesSeen = len(lines)

			return newLines
		}

		// judge decides one served request; newLines are the lines of the real
		// log that belong to it.  It returns 0 if the request was not logged, 1
		// if it was logged without and 2 if with the client address.
		judge := func(r *vfsRequest, tr *vfsTrace, newLines [][]byte, prevLogged *int, mode string) (logged int) {
			v := vfsAccessVerdict(conf, r)
			rlDropped, rlBy := r.RateLimited(conf)
			hist = append(hist, fmt.Sprintf("%s%s -> %s", mode, r, tr))

			fail := func(format string, args ...any) {
				t.Fatalf("%s\n%s\naccess verdict %+v rateLimited=%t(%s)\nhistory:\n  %s", fmt.Sprintf(format, args...), conf, v, rlDropped, rlBy, strings.Join(hist, "\n  "))
			}

			for _, e := range tr.Errs {
				if strings.Contains(e, "query log") {
					fail("harness: the real querylog.FileSystem failed: %s", e)
				}
			}

			// Why the request is not answered, in the order of the stack.
			drop := ""
			switch {
			case r.UnknownDedicated:
				drop = "unknown-dedicated"
			case v.Blocked:
				drop = "access"
			case rlDropped:
				drop = "ratelimit-" + rlBy
			}

			// Sanity of the fixture's own model (not the property): a dropped
			// request gets no response, any other exactly one.
			if drop != "" && len(tr.Writes) != 0 {
				fail("dropped (%s) request got a response", drop)
			} else if drop == "" && (len(tr.Writes) != 1 || tr.Err != nil) {
				fail("request expected to be answered: %d responses, err %v", len(tr.Writes), tr.Err)
			}

			// The lines the real file log wrote for this request.
			if len(newLines) != len(tr.QLog) {
				fail("the query log file has %d lines for this request, the query log was handed %d entries", len(newLines), len(tr.QLog))
			}

			classes := []string{"srv-" + r.Server, "oc-" + vfsOutcomeNames[r.Script.Outcome]}
			prof := r.Prof >= 0
			var pc *vfsProfileConf
			var dc *vfsDeviceConf
			if prof {
				pc = &conf.Profiles[r.Prof]
				dc = &pc.Devices[r.Dev]
			}

			switch {
			case drop != "":
				if len(tr.QLog) != 0 || len(tr.Bill) != 0 {
					fail("dropped (%s) request was logged (%d) or billed (%d)", drop, len(tr.QLog), len(tr.Bill))
				}

				classes = append(classes, "dropped-"+drop)
				if prof && pc.QLog {
					classes = append(classes, "dropped-profile-logging-on")
				}
			case !prof:
				if len(tr.QLog) != 0 || len(tr.Bill) != 0 {
					fail("anonymous request was logged (%d) or billed (%d)", len(tr.QLog), len(tr.Bill))
				}

				classes = append(classes, "anon-answered")
			case r.Debug():
				// The statement gives only necessary conditions; whether a
				// debug-class (CHAOS) query is logged and billed is left open.
				if len(tr.QLog) > 1 || len(tr.Bill) > 1 || (len(tr.QLog) == 1 && !pc.QLog) {
					fail("debug-class profile request: %d entries (logging enabled: %t), %d billing records", len(tr.QLog), pc.QLog, len(tr.Bill))
				}

				classes = append(classes, "debug-profile")
			default:
				wantLog := 0
				if pc.QLog {
					wantLog = 1
				}

				if len(tr.Bill) != 1 {
					fail("answered profile request: %d billing records, want 1", len(tr.Bill))
				}

				if len(tr.QLog) != wantLog {
					fail("answered profile request: %d log entries, want %d (QueryLogEnabled=%t)", len(tr.QLog), wantLog, pc.QLog)
				}
			}

			nt := ""
			if prof {
				cl := "prof-"
				if pc.QLog {
					cl += "log-"
				} else {
					cl += "nolog-"
				}

				if pc.IPLog {
					cl += "ip"
				} else {
					cl += "noip"
				}

				if drop == "" {
					classes = append(classes, cl)
				}

				if pc.QLog != pc.IPLog {
					nt = fmt.Sprintf("%s|%s+%s|%s|%s|%d|%t|%t", cl, vfsOutcomeNames[r.Script.Outcome], vfsOutcomeNames[r.Script.RespToo], r.Server, drop, r.QType, vfsLocOf(r.Client) != nil, r.Debug())
				}
			}

			loc := vfsLocOf(r.Client)
			wantP, wantProto := vc15Proto(r.Server)

			for _, b := range tr.Bill {
				if b.Dev != agd.DeviceID(dc.ID) || b.Proto != wantProto || !b.Start.Equal(r.Start) {
					fail("billing record %+v does not describe its request (device %s, proto %v, start %v)", b, dc.ID, wantProto, r.Start)
				}

				if (loc == nil && (b.Ctry != geoip.CountryNone || b.ASN != 0)) || (loc != nil && (b.Ctry != loc.Country || b.ASN != loc.ASN)) {
					fail("billing record %+v: location is not the client's (%+v)", b, loc)
				}
			}

			// Expected filtering result of the entry: the scripted outcome,
			// unless filtering is switched off for the profile or device.
			outcome, list, rule := r.Script.Outcome, r.Script.List, r.Script.Rule
			if prof && !(pc.Filtering && dc.Filtering) {
				outcome, list, rule = vfsOutNone, "", ""
				if drop == "" {
					classes = append(classes, "filtering-disabled")
				}
			}

			for k, e := range tr.QLog {
				// The response as the client receives it: through the wire
				// (an extended RCODE is split between the header and the OPT
				// record).
				// The handler stack may hand the server a response without
				// the OPT record; the server's normalisation step adds it for
				// EDNS queries before the message is packed, which is mirrored
				// here.
				out := tr.Writes[0].Copy()
				if r.EDNS && out.IsEdns0() == nil {
					out.SetEdns0(1232, r.DO)
				}

				wire, perr := out.Pack()
				if perr != nil {
					fail("the response cannot be packed: %v", perr)
				}

				resp := &dns.Msg{}
				if perr = resp.Unpack(wire); perr != nil {
					fail("the response cannot be unpacked: %v", perr)
				}

				if resp.Rcode > 15 {
					classes = append(classes, "logged-rcode-above-15")
				}
				if e.ProfileID != agd.ProfileID(pc.ID) || e.DeviceID != agd.DeviceID(dc.ID) {
					fail("entry %d is attributed to %s/%s, request to %s/%s", k, e.ProfileID, e.DeviceID, pc.ID, dc.ID)
				}

				// The name is the question's name as the client sent it, byte for
				// byte (doc/querylog.md: "the requested resource name"), also for
				// a CNAME-rewritten request: not the lower-cased host.
				if e.DomainFQDN != r.Name || e.RequestType != r.QType {
					fail("entry %d names %q type %d, the request's question is %q type %d", k, e.DomainFQDN, e.RequestType, r.Name, r.QType)
				}

				if r.Name != strings.ToLower(r.Name) {
					classes = append(classes, "logged-name-of-mixed-case-question")
					if outcome == vfsOutCNAME {
						classes = append(classes, "logged-name-of-mixed-case-question-cname-rewritten")
					}
				}

				if int(e.ResponseCode) != resp.Rcode {
					fail("entry %d has rcode %d, the client was sent %d", k, e.ResponseCode, resp.Rcode)
				}

				if e.Protocol != wantProto || e.RequestID != r.ReqID || !e.Time.Equal(r.Start) {
					fail("entry %d: protocol %v / request id %s / time %v are not the request's (%v, %s, %v)", k, e.Protocol, e.RequestID, e.Time, wantProto, r.ReqID, r.Start)
				}

				if pc.IPLog {
					if e.RemoteIP != r.Client {
						fail("entry %d: IP logging is on but the entry has address %v, client is %v", k, e.RemoteIP, r.Client)
					}
				} else if e.RemoteIP != (netip.Addr{}) {
					fail("entry %d contains the client address %v although IP logging is off", k, e.RemoteIP)
				}

				if (loc == nil && (e.ClientCountry != geoip.CountryNone || e.ClientASN != 0)) || (loc != nil && (e.ClientCountry != loc.Country || e.ClientASN != loc.ASN)) {
					fail("entry %d: client location %s/%d is not the client's (%+v)", k, e.ClientCountry, e.ClientASN, loc)
				}

				// The line written by the real file log.
				var l vc15Line
				line := newLines[k]
				dec := json.NewDecoder(bytes.NewReader(line))
				dec.DisallowUnknownFields()
				if err := dec.Decode(&l); err != nil || dec.More() {
					fail("line %q is not one JSON object of the documented shape: %v", line, err)
				}

				if l.U == nil || l.B == nil || l.I == nil || l.N == nil || l.T == nil || l.E == nil || l.Q == nil || l.R == nil || l.RN == nil || l.F == nil || l.S == nil || l.P == nil {
					fail("line %q lacks a mandatory property", line)
				}

				if *l.U != r.ReqID.String() || *l.B != pc.ID || *l.I != dc.ID || *l.N != r.Name || *l.Q != r.QType ||
					int(*l.R) != resp.Rcode || *l.P != wantP || *l.T != r.Start.UnixMilli() {
					fail("line %q does not describe its request (u=%s b=%s i=%s n=%s q=%d r=%d p=%d t=%d)", line, r.ReqID, pc.ID, dc.ID, r.Name, r.QType, resp.Rcode, wantP, r.Start.UnixMilli())
				}

				if *l.F != vc15ResultCode(outcome) {
					fail("line %q: result code %d, documented code for outcome %s is %d", line, *l.F, vfsOutcomeNames[outcome], vc15ResultCode(outcome))
				}

				if outcome == vfsOutNone {
					if l.L != nil || l.M != nil {
						fail("line %q names a list/rule although nothing matched", line)
					}
				} else if l.L == nil || l.M == nil || filter.ID(*l.L) != list || filter.RuleText(*l.M) != rule {
					fail("line %q: list/rule are not the matched %q / %q", line, list, rule)
				}

				if pc.IPLog {
					if l.IP == nil || *l.IP != r.Client.String() {
						fail("line %q: IP logging is on, want ip=%s", line, r.Client)
					}
				} else if l.IP != nil {
					fail("line %q contains the client address although IP logging is off", line)
				}

				if bytes.Contains(line, []byte(r.Client.String())) && !pc.IPLog {
					fail("line %q contains the client address %s although IP logging is off", line, r.Client)
				}

				if loc == nil {
					if l.C != nil || l.A != nil {
						fail("line %q has a client country/ASN although none is known", line)
					}

					classes = append(classes, "logged-no-location")
				} else if l.C == nil || *l.C != string(loc.Country) {
					fail("line %q: client country is not %+v", line, loc)
				} else if loc.ASN == 0 {
					// "If none could be detected, this property is absent."
					if l.A != nil {
						fail("line %q has an ASN although the client's is not known", line)
					}

					classes = append(classes, "logged-asn-unknown")
				} else if l.A == nil || *l.A != uint32(loc.ASN) {
					fail("line %q: client ASN is not %+v", line, loc)
				}

				// Both stages produced a result: the line above was required to
				// carry the request-stage code, list and rule.
				// (Counted only if the entry really carries both results.)
				if outcome != vfsOutNone && r.Script.RespToo != vfsOutNone && e.RequestResult != nil && e.ResponseResult != nil {
					classes = append(classes, "logged-both-"+vfsOutcomeNames[outcome]+"+"+vfsOutcomeNames[r.Script.RespToo])
					if r.Script.RespList != list || r.Script.RespRule != rule {
						classes = append(classes, "logged-both-other-rule")
					}
				}

				if outcome != vfsOutNone && strings.ContainsAny(string(rule), "\"\\\t<>&") {
					classes = append(classes, "logged-escaped-rule")
				}
			}

			if mode != "" {
				classes = append(classes, "concurrent")
				if len(tr.QLog) > 0 {
					classes = append(classes, "concurrent-logged")
				} else if prof && drop == "" {
					classes = append(classes, "concurrent-profile-not-logged")
				}
			}

			if len(tr.QLog) > 0 {
				logged = 1
				if tr.QLog[0].RemoteIP.IsValid() {
					logged = 2
				}
			}

			if r.NearMiss != "" && prevLogged != nil {
				classes = append(classes, "near-miss-"+r.NearMiss)
				if (*prevLogged == 0) != (logged == 0) {
					classes = append(classes, "near-miss-logging-differs", "log-flip-by-"+r.NearMiss)
				} else if *prevLogged != logged {
					// Logged both times, once with and once without the address
					// (pooled entries and buffers are reused across profiles
					// of different kinds).
					classes = append(classes, "near-miss-ip-logging-differs")
				}
			}

			st.Case(nt, classes...)

			return logged
		}

		// A sequential history; a third of the requests are near misses of
		// their predecessor (exactly one component changed: the device, the
		// identification, the client address, the name, the type, ...).
		steps := rapid.IntRange(3, 10).Draw(t, "steps")
		var prevReq *vfsRequest
		var prevLogged *int
		for i := 0; i < steps; i++ {
			r := vfsDrawRequest(t, s, opts, prevReq)
			tr := s.serve(t, r)
			logged := judge(r, tr, readNew(), prevLogged, "")
			prevReq, prevLogged = r, &logged
		}

		// Then a batch served concurrently on the same stack and the same file
		// log: every request is judged by its own events and by the lines
		// that carry its own request ID.
		if rapid.Bool().Draw(t, "concurrentBatch") {
			n := rapid.IntRange(2, 6).Draw(t, "batch")
			var batch []*vfsRequest
			for i := 0; i < n; i++ {
				var p *vfsRequest
				if len(batch) > 0 {
					p = batch[len(batch)-1]
				}

				batch = append(batch, vfsDrawRequest(t, s, opts, p))
			}

			trs := s.serveConcurrently(t, batch)
			byU := map[string][][]byte{}
			for _, line := range readNew() {
				var u struct {
					U string `json:"u"`
				}

				if err := json.Unmarshal(line, &u); err != nil {
					t.Fatalf("line %q written during a concurrent batch is not a JSON object: %v\nhistory:\n  %s", line, err, strings.Join(hist, "\n  "))
				}

				byU[u.U] = append(byU[u.U], line)
			}

			for i, tr := range trs {
				u := batch[i].ReqID.String()
				judge(batch[i], tr, byU[u], nil, "[concurrent] ")
				delete(byU, u)
			}

			if len(byU) != 0 {
				t.Fatalf("lines that belong to no request of the concurrent batch: %q\nhistory:\n  %s", byU, strings.Join(hist, "\n  "))
			}
		}

		if n, desc := s.Orphans(); n != 0 {
			t.Fatalf("%d downstream events carried no request ID or the ID of a request not in flight: %s\n%s\nhistory:\n  %s", n, desc, conf, strings.Join(hist, "\n  "))
		}

		if st.WantSample() && len(hist) > 3 {
			st.Sample(map[string]any{"config": conf.String(), "history": hist})
		}
	})
}
