//go:build verif

package dnssvc_test

// C15 with the REAL geoip.File and the ECS cache in the stack: the client
// country and ASN of a log entry and of a billing record are the client's own
// also after earlier requests of the same /24 (/56) block went through the
// ECS cache's subnet lookup.

import (
	"fmt"
	"strings"
	"testing"

	"github.com/AdguardTeam/AdGuardDNS/internal/geoip"
	"pgregory.net/rapid"
	"verif.local/harness/vstat"
)

const vc15KnownASNOverwrite = "geoip-subnet-lookup-overwrites-cached-asn"

func TestVerifC15RealGeoIP(tt *testing.T) {
	st := vstat.New("C15", "dnssvc.log-realgeoip",
		"rapid: real geoip.File on the test MMDBs + ECS cache in the full stack; histories of 2-6 requests mixing anonymous and profile clients from the same address / block / other blocks (some naming a known block in ECS), then optionally a concurrent batch from one block; reference country/ASN from fresh database instances; non-trivial = a logged or billed request of a block that an earlier request already took through the cache, whose ASN differs from its country's top ASN; distinct by (client, earlier requests of the block)",
		"logged-after-cache-lookup-same-block", "billed-after-cache-lookup-same-block", "asn-differs-from-country-top-asn-after-lookup", "concurrent-same-block", "logged-name-of-mixed-case-question")
	st.Finish(tt)

	w := vfsRealWorldNew(tt)

	rapid.Check(tt, func(t *rapid.T) {
		conf := vfsRealDrawConfig(t, w)
		s := vfsNewStackGeo(tt, conf, vfsRealGeoNew(tt))
		var hist []string
		touched := map[int]int{}
		var used []int

		judge := func(r *vfsRequest, bi int, tr *vfsTrace, mode string) {
			loc := w.Loc(r.Client)
			hist = append(hist, fmt.Sprintf("%s%s loc=%+v -> %s", mode, r, loc, tr))
			want := geoip.Location{}
			if loc != nil {
				want = *loc
			}

			topASN := geoip.DefaultCountryTopASNs[want.Country]
			bad := func(what string, c geoip.Country, a geoip.ASN) {
				// (Billing and logging come after the request's own pass through
				// the cache, so no earlier request is needed.)
				if c == want.Country && a == topASN && st.Known(vc15KnownASNOverwrite) {
					st.Class("known-asn-overwritten")

					return
				}

				t.Fatalf("%s has client location %s/%d, the client's own is %s/%d (block taken through the cache %d times before)\n%s\nhistory:\n  %s",
					what, c, a, want.Country, want.ASN, touched[bi], conf, strings.Join(hist, "\n  "))
			}

			var classes []string
			for _, b := range tr.Bill {
				if b.Ctry != want.Country || b.ASN != want.ASN {
					bad("billing record", b.Ctry, b.ASN)
				}

				if touched[bi] > 0 {
					classes = append(classes, "billed-after-cache-lookup-same-block")
				}
			}

			nt := ""
			for _, e := range tr.QLog {
				if e.ClientCountry != want.Country || e.ClientASN != want.ASN {
					bad("log entry", e.ClientCountry, e.ClientASN)
				}

				if e.DomainFQDN != r.Name {
					t.Fatalf("log entry names %q, the question as sent is %q\nhistory:\n  %s", e.DomainFQDN, r.Name, strings.Join(hist, "\n  "))
				}

				if r.Name != strings.ToLower(r.Name) {
					classes = append(classes, "logged-name-of-mixed-case-question")
				}

				if pc := conf.Profiles[r.Prof]; pc.IPLog != e.RemoteIP.IsValid() || (pc.IPLog && e.RemoteIP != r.Client) {
					t.Fatalf("log entry has address %v, client %v, IP logging %t\nhistory:\n  %s", e.RemoteIP, r.Client, pc.IPLog, strings.Join(hist, "\n  "))
				}

				if touched[bi] > 0 {
					classes = append(classes, "logged-after-cache-lookup-same-block")
					if want.ASN != topASN {
						classes = append(classes, "asn-differs-from-country-top-asn-after-lookup")
						nt = fmt.Sprintf("%s|%d", r.Client, touched[bi])
					}
				}
			}

			if r.Prof < 0 && (len(tr.QLog) != 0 || len(tr.Bill) != 0) {
				t.Fatalf("anonymous request was logged or billed\nhistory:\n  %s", strings.Join(hist, "\n  "))
			}

			if mode != "" {
				classes = append(classes, "concurrent-same-block")
			}

			if tr.Err == nil && len(tr.Writes) == 1 {
				touched[bi]++
				if ei := vfsRealECSBlock(w, r); ei >= 0 {
					touched[ei]++
				}
			}

			st.Case(nt, classes...)
		}

		steps := rapid.IntRange(2, 6).Draw(t, "steps")
		for i := 0; i < steps; i++ {
			r, bi := vfsRealDrawRequest(t, s, w, used, -1)
			judge(r, bi, s.serve(t, r), "")
			used = append(used, bi)
			if ei := vfsRealECSBlock(w, r); ei >= 0 {
				used = append(used, ei)
			}
		}

		if rapid.Bool().Draw(t, "concurrentBatch") {
			any := false
			for _, n := range touched {
				any = any || n > 0
			}

			// The data race on the shared location is the same recorded defect.
			if !(any && st.Known(vc15KnownASNOverwrite)) {
				bi := rapid.SampledFrom(used).Draw(t, "batchBlock")
				n := rapid.IntRange(2, 5).Draw(t, "batch")
				var batch []*vfsRequest
				for i := 0; i < n; i++ {
					r, _ := vfsRealDrawRequest(t, s, w, used, bi)
					batch = append(batch, r)
				}

				for i, tr := range s.serveConcurrently(t, batch) {
					judge(batch[i], bi, tr, "[concurrent] ")
				}
			}
		}

		if st.WantSample() && len(hist) > 2 {
			st.Sample(map[string]any{"config": conf.String(), "history": hist})
		}
	})
}
