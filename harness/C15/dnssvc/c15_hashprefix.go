//go:build verif

package dnssvc_test

// C15 with a REAL hashprefix.Filter (adult blocking / safe browsing / newly
// registered domains) in the filtering path of the full stack: the rule a log
// line names for a hash-prefix match is an entry of the list that matches the
// queried name, for first and for repeated queries (the filter caches its
// results per host and type).

import (
	"bytes"
	"context"
	"encoding/json"
	"fmt"
	"net/url"
	"os"
	"path/filepath"
	"strings"
	"testing"
	"time"

	"github.com/AdguardTeam/AdGuardDNS/internal/agdcache"
	"github.com/AdguardTeam/AdGuardDNS/internal/agdtest"
	"github.com/AdguardTeam/AdGuardDNS/internal/filter"
	"github.com/AdguardTeam/AdGuardDNS/internal/filter/hashprefix"
	"github.com/AdguardTeam/AdGuardDNS/internal/querylog"
	"github.com/AdguardTeam/golibs/logutil/slogutil"
	"github.com/c2h5oh/datasize"
	"github.com/miekg/dns"
	"pgregory.net/rapid"
	"verif.local/harness/vstat"
)

// vc15HashDomains are the domains a list may contain: two-label domains and
// listed subdomains of them (nested parents).
var vc15HashDomains = []string{"adult.example", "sub.adult.example", "bad.test", "a.test", "x.a.test", "other.example"}

// vc15HashPrefixes are prepended to a listed (or unlisted) domain: none, or a
// proper subdomain of one to three labels.
var vc15HashPrefixes = []string{"", "", "www.", "x.", "a.b.", "a.b.c."}

var vc15HashUnlisted = []string{"clean.example", "adult.test", "xadult.example", "example", "ab.test"}

// vc15ListMatches returns the entries of list that match host: host itself or
// one of its parent domains.
func vc15ListMatches(list []string, host string) (m []string) {
	for _, d := range list {
		if host == d || strings.HasSuffix(host, "."+d) {
			m = append(m, d)
		}
	}

	return m
}

func TestVerifC15HashPrefix(tt *testing.T) {
	st := vstat.New("C15", "dnssvc.log-hashprefix",
		"rapid: real hashprefix.Filter (adult_blocking / safe_browsing / newly_registered_domains; replacement IP or host; list of 1-4 domains incl. nested parents) consulted by the filter behind the real main middleware in the full stack; histories of 3-10 requests over listed domains, 1-3-label subdomains of them and unlisted look-alikes, repeating earlier (name, type) pairs; every entry goes through the real querylog.FileSystem; oracle on the JSON line: a filterable query whose name is (under) a listed domain is logged with f=6, l=the filter's ID and m = an entry of the list that matches the name; other queries with f=1 and no l/m; non-trivial = logged repeated query for a proper subdomain of a listed domain; distinct by (list, name, type, replacement kind, repetition)",
		"hashprefix-exact-first", "hashprefix-exact-repeated", "hashprefix-subdomain-first", "hashprefix-subdomain-repeated",
		"hashprefix-nested-parents-repeated", "hashprefix-not-listed", "hashprefix-unfilterable-qtype", "hashprefix-repl-ip", "hashprefix-repl-host",
		"hashprefix-https", "hashprefix-subdomain-3-labels-repeated", "logged-name-of-mixed-case-question")
	st.Finish(tt)

	opts := vfsOpts{}
	dir := tt.TempDir()
	if shm, err := os.MkdirTemp("/dev/shm", "c15-verif-"); err == nil {
		dir = shm
		tt.Cleanup(func() { _ = os.RemoveAll(shm) })
	}

	logPath := filepath.Join(dir, "querylog.jsonl")
	hashesPath := filepath.Join(dir, "hashes.txt")

	rapid.Check(tt, func(t *rapid.T) {
		conf := vfsDrawConfig(t, opts)
		// Most profiles log, so that the verdicts can be read.
		for i := range conf.Profiles {
			if rapid.IntRange(0, 3).Draw(t, fmt.Sprintf("forceQLog%d", i)) > 0 {
				conf.Profiles[i].QLog = true
				conf.Profiles[i].Filtering = true
				for j := range conf.Profiles[i].Devices {
					conf.Profiles[i].Devices[j].Filtering = true
				}
			}
		}

		// The list and the filter.
		var list []string
		seen := map[string]bool{}
		for n := rapid.IntRange(1, 4).Draw(t, "listLen"); len(list) < n; {
			d := rapid.SampledFrom(vc15HashDomains).Draw(t, "listed")
			if !seen[d] {
				seen[d] = true
				list = append(list, d)
			}
		}

		if err := os.WriteFile(hashesPath, []byte(strings.Join(list, "\n")+"\n"), 0o600); err != nil {
			t.Fatalf("harness: %v", err)
		}

		id := rapid.SampledFrom([]filter.ID{filter.IDAdultBlocking, filter.IDSafeBrowsing, filter.IDNewRegDomains}).Draw(t, "filterID")
		repl := rapid.SampledFrom([]string{"192.0.2.77", "blocked-page.vfs.example"}).Draw(t, "replacement")
		strg, err := hashprefix.NewStorage("")
		if err != nil {
			t.Fatalf("harness: %v", err)
		}

		hp, err := hashprefix.NewFilter(&hashprefix.FilterConfig{
			Logger:          slogutil.NewDiscardLogger(),
			Cloner:          agdtest.NewCloner(),
			CacheManager:    agdcache.EmptyManager{},
			Hashes:          strg,
			URL:             &url.URL{Scheme: "file", Path: hashesPath},
			ErrColl:         agdtest.NewErrorCollector(),
			Metrics:         filter.EmptyMetrics{},
			ID:              id,
			CachePath:       hashesPath,
			ReplacementHost: repl,
			Staleness:       time.Hour,
			CacheTTL:        time.Hour,
			RefreshTimeout:  10 * time.Second,
			CacheCount:      100,
			MaxSize:         datasize.MB,
		})
		if err != nil {
			t.Fatalf("harness: hashprefix.NewFilter: %v", err)
		}

		if err = hp.RefreshInitial(context.Background()); err != nil {
			t.Fatalf("harness: RefreshInitial: %v", err)
		}

		s := vfsNewStack(tt, conf)
		s.reqFilter = hp.FilterRequest
		_ = os.Remove(logPath)
		fsLog := querylog.NewFileSystem(&querylog.FileSystemConfig{Logger: slogutil.NewDiscardLogger(), Path: logPath, RandSeed: 1})
		s.qlogSink = func(e *querylog.Entry) error { return fsLog.Write(context.Background(), e) }

		type qkey struct {
			host string
			qt   uint16
			cl   uint16
		}

		var hist []string
		var asked []qkey
		consulted := map[qkey]int{}
		linesSeen := 0

		steps := rapid.IntRange(3, 10).Draw(t, "steps")
		for i := 0; i < steps; i++ {
			r := vfsDrawRequest(t, s, opts, nil)
			r.Script.Outcome, r.Script.RespToo = vfsOutNone, vfsOutNone
			if rapid.IntRange(0, 7).Draw(t, "scripted") == 0 {
				// Now and then another filter decides first.
				r.Script.Outcome, r.Script.List, r.Script.Rule = vfsOutReqBlocked, "custom", "||scripted.example^"
			}

			if len(asked) > 0 && rapid.IntRange(0, 2).Draw(t, "repeat") > 0 {
				k := asked[rapid.IntRange(0, len(asked)-1).Draw(t, "repeatWhich")]
				r.Name, r.QType = vfsMixCase(t, k.host+"."), k.qt
			} else {
				base := rapid.SampledFrom(vc15HashDomains).Draw(t, "hashDomain")
				if rapid.IntRange(0, 2).Draw(t, "fromList") > 0 {
					base = rapid.SampledFrom(list).Draw(t, "listedDomain")
				}

				if rapid.IntRange(0, 4).Draw(t, "unlisted") == 0 {
					base = rapid.SampledFrom(vc15HashUnlisted).Draw(t, "unlistedDomain")
				}

				r.Name = vfsMixCase(t, rapid.SampledFrom(vc15HashPrefixes).Draw(t, "hashPrefix")+base+".")
				r.QType = rapid.SampledFrom([]uint16{dns.TypeA, dns.TypeA, dns.TypeAAAA, dns.TypeHTTPS, dns.TypeTXT}).Draw(t, "hashQType")
			}

			host := r.Host()
			k := qkey{host, r.QType, r.QClass}
			asked = append(asked, k)

			v := vfsAccessVerdict(conf, r)
			tr := s.serve(t, r)
			hist = append(hist, fmt.Sprintf("%s -> %s", r, tr))
			fail := func(format string, args ...any) {
				t.Fatalf("%s\nlist %q filter %s replacement %s\n%s\nhistory:\n  %s", fmt.Sprintf(format, args...), list, id, repl, conf, strings.Join(hist, "\n  "))
			}

			data, rerr := os.ReadFile(logPath)
			if rerr != nil && !os.IsNotExist(rerr) {
				fail("harness: %v", rerr)
			}

			var lines [][]byte
			if len(data) > 0 {
				lines = bytes.Split(bytes.TrimSuffix(data, []byte("\n")), []byte("\n"))
			}

			newLines := lines[linesSeen:]
			linesSeen = len(lines)
			if len(newLines) != len(tr.QLog) {
				fail("%d new log lines for %d entries", len(newLines), len(tr.QLog))
			}

			if v.Blocked || r.UnknownDedicated || len(tr.Writes) != 1 {
				st.Case("", "not-answered")

				continue
			}

			// Was the hash-prefix filter consulted, and what must it say?
			filteringOn := r.Prof < 0 || (conf.Profiles[r.Prof].Filtering && conf.Profiles[r.Prof].Devices[r.Dev].Filtering)
			useHash := filteringOn && r.Script.Outcome == vfsOutNone
			filterable := r.QType == dns.TypeA || r.QType == dns.TypeAAAA || r.QType == dns.TypeHTTPS
			var matches []string
			if useHash && filterable {
				matches = vc15ListMatches(list, host)
			}

			repeated := useHash && consulted[k] > 0
			if useHash {
				consulted[k]++
			}

			var classes []string
			nt := ""
			if useHash {
				switch {
				case !filterable:
					classes = append(classes, "hashprefix-unfilterable-qtype")
				case len(matches) == 0:
					classes = append(classes, "hashprefix-not-listed")
				}
			}

			for li, line := range newLines {
				var l vc15Line
				if err := json.Unmarshal(line, &l); err != nil || l.F == nil || l.N == nil || l.Q == nil {
					fail("line %q is not a documented entry: %v", line, err)
				}

				if *l.N != r.Name || *l.Q != r.QType {
					fail("line %d %q does not name the request's question %q type %d as sent", li, line, r.Name, r.QType)
				}

				if r.Name != strings.ToLower(r.Name) {
					classes = append(classes, "logged-name-of-mixed-case-question")
				}

				switch {
				case !useHash:
					// Decided by the scripted filter or filtering is off: C15's
					// main part judges these.
				case len(matches) == 0:
					if *l.F != 1 || l.L != nil || l.M != nil {
						fail("line %q: nothing in the list %q matches %s (type %d), want f=1 and no list/rule", line, list, host, r.QType)
					}
				default:
					if *l.F != 6 || l.L == nil || filter.ID(*l.L) != id {
						fail("line %q: %s is (under) the listed %q, want f=6 and l=%s", line, host, matches, id)
					}

					if l.M == nil || !vc15Contains(matches, *l.M) {
						m := "<none>"
						if l.M != nil {
							m = *l.M
						}

						fail("line %q names rule %q, which is not an entry of the list that matches %s (matching entries: %q; repeated query: %t)", line, m, host, matches, repeated)
					}

					kind := "subdomain"
					if vc15Contains(matches, host) {
						kind = "exact"
					}

					rep := "first"
					if repeated {
						rep = "repeated"
					}

					classes = append(classes, "hashprefix-"+kind+"-"+rep)
					if len(matches) > 1 && repeated {
						classes = append(classes, "hashprefix-nested-parents-repeated")
					}

					if kind == "subdomain" && repeated {
						nt = fmt.Sprintf("%q|%s|%d|%s|%s", list, host, r.QType, repl, id)
						longest := ""
						for _, m := range matches {
							if len(m) > len(longest) {
								longest = m
							}
						}

						if strings.Count(strings.TrimSuffix(host, "."+longest), ".") >= 2 {
							classes = append(classes, "hashprefix-subdomain-3-labels-repeated")
						}
					}

					if r.QType == dns.TypeHTTPS {
						classes = append(classes, "hashprefix-https")
					}

					if repl == "192.0.2.77" {
						classes = append(classes, "hashprefix-repl-ip")
					} else {
						classes = append(classes, "hashprefix-repl-host")
					}
				}
			}

			// The rule statistics of a logged request name the same rule.
			for _, rs := range tr.RuleStat {
				if len(matches) > 0 && len(tr.QLog) > 0 && (rs.ID != id || !vc15Contains(matches, string(rs.Text))) {
					fail("rule statistics got %s / %q; the list entries that match %s are %q", rs.ID, rs.Text, host, matches)
				}
			}

			st.Case(nt, classes...)
		}

		if st.WantSample() && len(hist) > 3 {
			st.Sample(map[string]any{"list": list, "filter": string(id), "replacement": repl, "history": hist})
		}
	})
}

func vc15Contains(list []string, s string) bool {
	for _, v := range list {
		if v == s {
			return true
		}
	}

	return false
}
