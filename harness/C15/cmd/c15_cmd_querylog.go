//go:build verif

package cmd

// C15, configuration plumbing: the `query_log:` section (file.enabled) and the
// environment variable QUERYLOG_PATH -- next to a neighbouring switch
// (dnsdb.enabled, always the opposite) and a neighbouring path variable
// (PROFILES_CACHE_PATH) that must not be taken for them -- are parsed and
// validated by the package's own code (parseConfig, parseEnvironment) and
// turned into the query log by the builder's own method (builder.queryLog, the
// value builder.initDNS hands to the handlers).  An entry written to the
// result must appear as one complete JSON line in the file at QUERYLOG_PATH
// exactly when file.enabled is true, and nowhere otherwise.
//
// Not judged here: that initDNS passes this very value on.

import (
	"context"
	"encoding/json"
	"fmt"
	"net/netip"
	"os"
	"path/filepath"
	"strings"
	"testing"
	"time"

	"github.com/AdguardTeam/AdGuardDNS/internal/agd"
	"github.com/AdguardTeam/AdGuardDNS/internal/querylog"
	"github.com/AdguardTeam/golibs/logutil/slogutil"
	"github.com/miekg/dns"
	"pgregory.net/rapid"
	"verif.local/harness/vstat"
)

var vc15cmdEnvNames = []string{
	"ADULT_BLOCKING_URL", "BLOCKED_SERVICE_INDEX_URL", "FILTER_INDEX_URL", "GENERAL_SAFE_SEARCH_URL", "NEW_REG_DOMAINS_URL", "SAFE_BROWSING_URL",
	"YOUTUBE_SAFE_SEARCH_URL", "QUERYLOG_PATH", "PROFILES_CACHE_PATH", "FILTER_CACHE_PATH", "VERBOSE", "ADULT_BLOCKING_ENABLED", "NEW_REG_DOMAINS_ENABLED",
	"SAFE_BROWSING_ENABLED", "BLOCKED_SERVICE_ENABLED", "GENERAL_SAFE_SEARCH_ENABLED", "YOUTUBE_SAFE_SEARCH_ENABLED", "WEB_STATIC_DIR_ENABLED", "WEB_STATIC_DIR",
}

func vc15cmdWithEnv(set map[string]string, f func()) {
	old := map[string]*string{}
	for _, n := range vc15cmdEnvNames {
		if v, ok := os.LookupEnv(n); ok {
			old[n] = &v
		} else {
			old[n] = nil
		}

		if v, ok := set[n]; ok {
			_ = os.Setenv(n, v)
		} else {
			_ = os.Unsetenv(n)
		}
	}

	defer func() {
		for n, v := range old {
			if v == nil {
				_ = os.Unsetenv(n)
			} else {
				_ = os.Setenv(n, *v)
			}
		}
	}()

	f()
}

func TestVerifC15CmdQueryLog(t *testing.T) {
	st := vstat.New("C15", "cmd.querylog-config",
		"rapid: `query_log.file.enabled` true/false with `dnsdb.enabled` always the opposite, QUERYLOG_PATH and PROFILES_CACHE_PATH pointing at two different files -> parseConfig, parseEnvironment, validate, builder.queryLog; 1-3 entries written; oracle: with the switch on the file at QUERYLOG_PATH holds exactly one complete JSON line per entry with the entry's name, with the switch off nothing is written anywhere; non-trivial = the switch is on and lines were written, distinct by switch, path and entries",
		"file-log-enabled-lines-written", "file-log-disabled-nothing-written")
	st.Finish(t)

	dir := t.TempDir()
	logger := slogutil.NewDiscardLogger()
	caseNo := 0
	ctx := context.Background()

	rapid.Check(t, func(rt *rapid.T) {
		caseNo++
		enabled := rapid.Bool().Draw(rt, "enabled")
		names := rapid.Permutation([]string{"querylog", "ql", "profilecache", "log"}).Draw(rt, "fileNames")
		qlPath := filepath.Join(dir, fmt.Sprintf("%s_%d.jsonl", names[0], caseNo))
		decoy := filepath.Join(dir, fmt.Sprintf("%s_%d.pb", names[1], caseNo))
		text := fmt.Sprintf("dnsdb:\n    enabled: %t\n    max_size: 1000\nquery_log:\n    file:\n        enabled: %t\n", !enabled, enabled)
		path := filepath.Join(dir, fmt.Sprintf("c%d.yaml", caseNo))
		if err := os.WriteFile(path, []byte(text), 0o600); err != nil {
			rt.Fatalf("harness: %v", err)
		}
		defer func() {
			_ = os.Remove(path)
			_ = os.Remove(qlPath)
			_ = os.Remove(decoy)
		}()

		env := map[string]string{
			"FILTER_INDEX_URL": "http://127.0.0.1:9/filters.json", "QUERYLOG_PATH": qlPath, "PROFILES_CACHE_PATH": decoy,
			"ADULT_BLOCKING_ENABLED": "0", "NEW_REG_DOMAINS_ENABLED": "0", "SAFE_BROWSING_ENABLED": "0", "BLOCKED_SERVICE_ENABLED": "0",
			"GENERAL_SAFE_SEARCH_ENABLED": "0", "YOUTUBE_SAFE_SEARCH_ENABLED": "0",
		}
		fail := func(format string, args ...any) {
			rt.Fatalf("%s\nQUERYLOG_PATH=%s PROFILES_CACHE_PATH=%s\n%s", fmt.Sprintf(format, args...), qlPath, decoy, text)
		}

		conf, err := parseConfig(path)
		if err != nil || conf.QueryLog == nil {
			fail("the generated query_log section was not parsed: %v", err)
		}

		if err = conf.QueryLog.validate(); err != nil {
			fail("a valid query_log section was rejected: %v", err)
		}

		var envs *environment
		vc15cmdWithEnv(env, func() { envs, err = parseEnvironment() })
		if err == nil {
			err = envs.validate()
		}

		if err != nil {
			fail("a valid environment was rejected: %v", err)
		}

		b := &builder{baseLogger: logger, logger: logger, conf: conf, env: envs}
		l := b.queryLog()
		if l == nil {
			fail("builder.queryLog returned nothing")
		}

		n := rapid.IntRange(1, 3).Draw(rt, "entries")
		var want []string
		for i := range n {
			name := fmt.Sprintf("q%d-%d.example.", caseNo, i)
			want = append(want, name)
			werr := l.Write(ctx, &querylog.Entry{
				RemoteIP:      netip.MustParseAddr("192.0.2.9"),
				Time:          time.Unix(1700000000+int64(i), 0),
				ProfileID:     "prof1234",
				DeviceID:      "dev12345",
				ClientCountry: "US",
				DomainFQDN:    name,
				RequestID:     agd.NewRequestID(),
				Elapsed:       time.Millisecond,
				RequestType:   dns.TypeA,
				ResponseCode:  dns.RcodeSuccess,
				Protocol:      agd.ProtoDNS,
			})
			if werr != nil {
				fail("writing an entry to the configured query log: %v", werr)
			}
		}

		if _, serr := os.Stat(decoy); serr == nil {
			fail("the query log wrote to PROFILES_CACHE_PATH")
		}

		data, rerr := os.ReadFile(qlPath)
		if !enabled {
			// "If true, the JSONL file query logging is enabled."
			if rerr == nil {
				fail("query_log.file.enabled is false, but %d octets were written to QUERYLOG_PATH", len(data))
			}

			st.Case("", "file-log-disabled-nothing-written")

			return
		}

		if rerr != nil {
			fail("query_log.file.enabled is true, but nothing is at QUERYLOG_PATH after %d entries: %v", n, rerr)
		}

		lines := strings.Split(strings.TrimSuffix(string(data), "\n"), "\n")
		if len(lines) != n || !strings.HasSuffix(string(data), "\n") {
			fail("%d entries were written, the file at QUERYLOG_PATH holds %d lines: %q", n, len(lines), data)
		}

		for i, ln := range lines {
			var obj map[string]any
			if jerr := json.Unmarshal([]byte(ln), &obj); jerr != nil {
				fail("line %d at QUERYLOG_PATH is not a JSON object: %v: %q", i, jerr, ln)
			}

			if !strings.Contains(ln, strings.TrimSuffix(want[i], ".")) {
				fail("line %d at QUERYLOG_PATH does not describe the entry for %s: %q", i, want[i], ln)
			}
		}

		st.Case(fmt.Sprintf("%s|%d", qlPath, n), "file-log-enabled-lines-written")
		if st.WantSample() {
			st.Sample(map[string]any{"yaml": strings.Split(text, "\n"), "QUERYLOG_PATH": qlPath, "lines": lines})
		}
	})
}
