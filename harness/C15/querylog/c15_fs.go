//go:build verif

package querylog_test

// C15 (b): the log file consists solely of complete single-line JSON objects,
// one per logged request, even when many requests are logged concurrently.
// 16 goroutines write generated entries through one querylog.FileSystem after
// a start barrier; the file is then split on line feeds and compared, as a
// multiset, with what was written.

import (
	"bytes"
	"context"
	"encoding/json"
	"fmt"
	"net/netip"
	"os"
	"path/filepath"
	"sort"
	"strings"
	"sync"
	"sync/atomic"
	"testing"
	"time"

	"github.com/AdguardTeam/AdGuardDNS/internal/agd"
	"github.com/AdguardTeam/AdGuardDNS/internal/filter"
	"github.com/AdguardTeam/AdGuardDNS/internal/geoip"
	"github.com/AdguardTeam/AdGuardDNS/internal/querylog"
	"github.com/AdguardTeam/golibs/logutil/slogutil"
	"github.com/miekg/dns"
	"pgregory.net/rapid"
	"verif.local/harness/vstat"
)

const vc15Writers = 16

type vc15FSLine struct {
	IP *string `json:"ip"`
	U  string  `json:"u"`
	B  string  `json:"b"`
	I  string  `json:"i"`
	C  string  `json:"c"`
	D  string  `json:"d"`
	N  string  `json:"n"`
	L  string  `json:"l"`
	M  string  `json:"m"`
	T  int64   `json:"t"`
	A  uint32  `json:"a"`
	E  uint32  `json:"e"`
	Q  uint16  `json:"q"`
	R  uint16  `json:"r"`
	RN uint16  `json:"rn"`
	F  uint8   `json:"f"`
	S  uint8   `json:"s"`
	P  uint8   `json:"p"`
}

var vc15NameAlphabet = []string{
	"example", "a", "b", "xn--e1afmkfd", "WwW", "ExAmPlE", "oRg", `q"uote`, `back\slash`, "tab\there", "<tag>&", "юникод", "\u2028sep", "nul\x01ctl",
	strings.Repeat("l", 63), "A-Z", "under_score", `\046dot`, "{brace}", "[]", "'", " sp ace ",
}

var vc15RuleAlphabet = []string{
	"||", "^", "$dnsrewrite=NOERROR;A;1.2.3.4", "@@", "/re[gG]ex/", `"`, `\`, "\n", "\r\n", "\t", "<script>", "&amp;", "правило", "\u2029",
	"example.org", "|", "*", "$important,dnstype=~A", strings.Repeat("long-rule-", 40), strings.Repeat("very-long-rule-", 400), "}{", "\",\"f\":0,\"x\":\"",
}

func vc15DrawText(t *rapid.T, label string, alphabet []string, maxParts int) string {
	n := rapid.IntRange(1, maxParts).Draw(t, label+"Parts")
	var sb strings.Builder
	for i := 0; i < n; i++ {
		sb.WriteString(rapid.SampledFrom(alphabet).Draw(t, label))
	}

	return sb.String()
}

// vc15Key is the documented projection of an entry that the multiset
// comparison uses (u, n, q, r, l, m) plus the result code, address, profile
// and device.
type vc15Key struct {
	U, N, L, M, B, I, IP string
	Q, R                 uint16
	F                    uint8
}

func vc15DrawEntry(t *rapid.T, label string) (e *querylog.Entry, k vc15Key, both bool) {
	var labels []string
	nl := rapid.IntRange(1, 4).Draw(t, label+"Labels")
	for i := 0; i < nl; i++ {
		labels = append(labels, vc15DrawText(t, label+"Label", vc15NameAlphabet, 2))
	}

	name := strings.Join(labels, ".") + "."
	e = &querylog.Entry{
		Time:            time.UnixMilli(rapid.Int64Range(0, 4102444800000).Draw(t, label+"Time")),
		RequestID:       agd.NewRequestID(),
		ProfileID:       agd.ProfileID(rapid.SampledFrom([]string{"prof1234", "p", "pr0f"}).Draw(t, label+"Prof")),
		DeviceID:        agd.DeviceID(rapid.SampledFrom([]string{"dev1234", "d", "d-e-v"}).Draw(t, label+"Dev")),
		ClientCountry:   geoip.Country(rapid.SampledFrom([]string{"", "US", "DE", "XK"}).Draw(t, label+"Ctry")),
		ResponseCountry: geoip.Country(rapid.SampledFrom([]string{"", "US", "QN"}).Draw(t, label+"RespCtry")),
		DomainFQDN:      name,
		Elapsed:         time.Duration(rapid.Int64Range(-1000, int64(100*time.Hour)).Draw(t, label+"Elapsed")),
		ClientASN:       geoip.ASN(rapid.Uint32().Draw(t, label+"ASN")),
		RequestType:     rapid.SampledFrom([]uint16{dns.TypeA, dns.TypeAAAA, dns.TypeHTTPS, dns.TypeTXT, 0, 65535}).Draw(t, label+"QType"),
		ResponseCode:    rapid.SampledFrom([]uint16{0, 2, 3, 5, 23, 0xff}).Draw(t, label+"RCode"),
		Protocol:        rapid.SampledFrom([]agd.Protocol{agd.ProtoDNS, agd.ProtoDoT, agd.ProtoDoH, agd.ProtoDoQ, agd.ProtoDNSCrypt}).Draw(t, label+"Proto"),
		DNSSEC:          rapid.Bool().Draw(t, label+"DNSSEC"),
	}

	k = vc15Key{U: e.RequestID.String(), N: name, B: string(e.ProfileID), I: string(e.DeviceID), Q: e.RequestType, R: e.ResponseCode, F: 1}

	if rapid.Bool().Draw(t, label+"HasIP") {
		e.RemoteIP = rapid.SampledFrom([]netip.Addr{
			netip.MustParseAddr("192.0.2.1"), netip.MustParseAddr("2001:db8::1"), netip.MustParseAddr("::ffff:192.0.2.7"),
		}).Draw(t, label+"IP")
		k.IP = e.RemoteIP.String()
	}

	kind := rapid.IntRange(0, 6).Draw(t, label+"Result")
	if kind != 0 {
		k.L = rapid.SampledFrom([]string{"adguard_dns_filter", "custom", "blocked_service", "safe_browsing"}).Draw(t, label+"List")
		k.M = vc15DrawText(t, label+"Rule", vc15RuleAlphabet, 5)
	}

	id, text := filter.ID(k.L), filter.RuleText(k.M)
	switch kind {
	case 1:
		e.RequestResult, k.F = &filter.ResultBlocked{List: id, Rule: text}, 2
	case 2:
		e.ResponseResult, k.F = &filter.ResultBlocked{List: id, Rule: text}, 3
	case 3:
		e.RequestResult, k.F = &filter.ResultAllowed{List: id, Rule: text}, 4
	case 4:
		e.ResponseResult, k.F = &filter.ResultAllowed{List: id, Rule: text}, 5
	case 5:
		e.RequestResult, k.F = &filter.ResultModifiedResponse{List: id, Rule: text}, 6
	case 6:
		e.RequestResult, k.F = &filter.ResultModifiedRequest{List: id, Rule: text}, 6
	}

	// Both stages: a request-stage result and, independently, a response-stage
	// one with its own list and rule.  The request-stage verdict is the one
	// that is logged (code, list and rule).
	both = false
	if (kind == 1 || kind == 3 || kind == 5) && rapid.Bool().Draw(t, label+"Both") {
		both = true
		rid := filter.ID(rapid.SampledFrom([]string{"adguard_dns_filter", "custom", "safe_browsing"}).Draw(t, label+"RespList"))
		rtext := filter.RuleText(vc15DrawText(t, label+"RespRule", vc15RuleAlphabet, 3))
		if rapid.Bool().Draw(t, label+"RespBlocked") {
			e.ResponseResult = &filter.ResultBlocked{List: rid, Rule: rtext}
		} else {
			e.ResponseResult = &filter.ResultAllowed{List: rid, Rule: rtext}
		}
	}

	return e, k, both
}

func vc15Concurrent(tt *testing.T, part string, perWriterMax int) {
	st := vstat.New("C15", part,
		"rapid: 16 goroutines x 1-N generated entries (names and rule texts needing JSON escaping, line feeds inside rule texts, long rules, optional client address) written through one querylog.FileSystem after a start barrier; non-trivial = at least two writers were inside Write at the same time (measured); distinct by the multiset of written keys",
		"overlap>=2", "both-stages-result", "logged-name-of-mixed-case-question", "concurrent-writes-after-failed-opens", "failed-opens-from-several-goroutines", "no-failed-opens-before", "rule-with-linefeed", "long-line>4096", "with-ip", "without-ip")
	st.Finish(tt)

	dir := tt.TempDir()
	var caseNo atomic.Int64

	rapid.Check(tt, func(t *rapid.T) {
		// The log lives in a directory of its own, so that it can be made
		// unreachable for a moment.
		logDir := filepath.Join(dir, fmt.Sprintf("ql-%d", caseNo.Add(1)))
		if err := os.Mkdir(logDir, 0o700); err != nil {
			t.Fatalf("harness: %v", err)
		}

		path := filepath.Join(logDir, "ql.jsonl")
		defer func() { _ = os.RemoveAll(logDir) }()

		l := querylog.NewFileSystem(&querylog.FileSystemConfig{
			Logger:   slogutil.NewDiscardLogger(),
			Path:     path,
			RandSeed: rapid.Uint64().Draw(t, "randSeed"),
		})

		entries := make([][]*querylog.Entry, vc15Writers)
		var want []string
		classes := map[string]bool{}
		for w := 0; w < vc15Writers; w++ {
			n := rapid.IntRange(1, perWriterMax).Draw(t, fmt.Sprintf("w%dN", w))
			for i := 0; i < n; i++ {
				e, k, both := vc15DrawEntry(t, fmt.Sprintf("w%de%d", w, i))
				if both {
					classes["both-stages-result"] = true
				}

				entries[w] = append(entries[w], e)
				want = append(want, fmt.Sprintf("%+v", k))
				if strings.Contains(k.M, "\n") {
					classes["rule-with-linefeed"] = true
				}

				if k.N != strings.ToLower(k.N) {
					classes["logged-name-of-mixed-case-question"] = true
				}

				if k.IP != "" {
					classes["with-ip"] = true
				} else {
					classes["without-ip"] = true
				}
			}
		}

		// Before the concurrent phase, in most cases: some writes that fail at
		// opening the file (its directory is renamed away, as an external
		// rotation or a full / read-only volume would do), from one or several
		// goroutines.  Their entries are lost and must not appear; what they
		// leave behind in the writer must not disturb the later writes.
		if rapid.IntRange(0, 2).Draw(t, "failedOpens") > 0 {
			k := rapid.IntRange(1, 12).Draw(t, "failedOpensN")
			g := rapid.IntRange(1, 3).Draw(t, "failedOpensGoroutines")
			var lost []*querylog.Entry
			for i := 0; i < k; i++ {
				e, _, _ := vc15DrawEntry(t, fmt.Sprintf("lost%d", i))
				lost = append(lost, e)
			}

			away := logDir + ".away"
			if err := os.Rename(logDir, away); err != nil {
				t.Fatalf("harness: %v", err)
			}

			var fwg sync.WaitGroup
			succeeded := make([]bool, k)
			for gi := 0; gi < g; gi++ {
				fwg.Add(1)
				go func(gi int) {
					defer fwg.Done()
					for i := gi; i < k; i += g {
						succeeded[i] = l.Write(context.Background(), lost[i]) == nil
					}
				}(gi)
			}

			fwg.Wait()
			if err := os.Rename(away, logDir); err != nil {
				t.Fatalf("harness: %v", err)
			}

			for i, ok := range succeeded {
				if ok {
					t.Fatalf("harness: write %d succeeded although the directory of the log was away", i)
				}
			}

			if _, err := os.Stat(path); err == nil {
				t.Fatalf("harness: the log file exists after the failed writes")
			}

			classes["concurrent-writes-after-failed-opens"] = true
			if g > 1 {
				classes["failed-opens-from-several-goroutines"] = true
			}
		} else {
			classes["no-failed-opens-before"] = true
		}

		// Start barrier, and a measure of how many writers were between the
		// barrier and the end of their first Write at the same time.
		var (
			wg       sync.WaitGroup
			start    = make(chan struct{})
			inside   atomic.Int32
			maxIn    atomic.Int32
			errs     = make([]error, vc15Writers)
			ctx      = context.Background()
			raiseMax = func(v int32) {
				for {
					m := maxIn.Load()
					if v <= m || maxIn.CompareAndSwap(m, v) {
						return
					}
				}
			}
		)

		for w := 0; w < vc15Writers; w++ {
			wg.Add(1)
			go func(w int) {
				defer wg.Done()
				<-start
				for _, e := range entries[w] {
					raiseMax(inside.Add(1))
					err := l.Write(ctx, e)
					inside.Add(-1)
					if err != nil && errs[w] == nil {
						errs[w] = err
					}
				}
			}(w)
		}

		close(start)
		wg.Wait()

		for w, err := range errs {
			if err != nil {
				t.Fatalf("writer %d: Write: %v", w, err)
			}
		}

		data, err := os.ReadFile(path)
		if err != nil {
			t.Fatalf("harness: reading the log: %v", err)
		}

		if len(data) == 0 || data[len(data)-1] != '\n' {
			t.Fatalf("log does not end with a line feed: %d bytes", len(data))
		}

		lines := bytes.Split(data[:len(data)-1], []byte("\n"))
		if len(lines) != len(want) {
			t.Fatalf("%d lines for %d writes\n%s", len(lines), len(want), data)
		}

		var got []string
		for i, line := range lines {
			if len(line) > 4096 {
				classes["long-line>4096"] = true
			}

			var fl vc15FSLine
			dec := json.NewDecoder(bytes.NewReader(line))
			dec.DisallowUnknownFields()
			if err = dec.Decode(&fl); err != nil || dec.More() {
				t.Fatalf("line %d is not exactly one JSON object of the documented shape (%v): %q", i, err, line)
			}

			if len(line) == 0 || line[0] != '{' || line[len(line)-1] != '}' {
				t.Fatalf("line %d is not a bare JSON object: %q", i, line)
			}

			k := vc15Key{U: fl.U, N: fl.N, L: fl.L, M: fl.M, B: fl.B, I: fl.I, Q: fl.Q, R: fl.R, F: fl.F}
			if fl.IP != nil {
				k.IP = *fl.IP
			}

			got = append(got, fmt.Sprintf("%+v", k))
		}

		sort.Strings(got)
		sort.Strings(want)
		for i := range want {
			if got[i] != want[i] {
				t.Fatalf("the log is not the multiset of what was written; first difference (sorted) at %d:\n got  %s\n want %s", i, got[i], want[i])
			}
		}

		m := maxIn.Load()
		var cl []string
		for c := range classes {
			cl = append(cl, c)
		}

		sort.Strings(cl)
		nt := ""
		if m >= 2 {
			cl = append(cl, "overlap>=2")
			nt = strings.Join(want, ";")
		}

		if m >= 8 {
			cl = append(cl, "overlap>=8")
		}

		st.Case(nt, cl...)
		if st.WantSample() {
			st.Sample(map[string]any{"writes": len(want), "max_writers_inside": m, "bytes": len(data), "first_line": string(lines[0])})
		}
	})
}

func TestVerifC15FSConcurrent(t *testing.T) {
	vc15Concurrent(t, "querylog.fs-concurrent", 6)
}

func TestVerifC15FSConcurrentRace(t *testing.T) {
	vc15Concurrent(t, "querylog.fs-concurrent-race", 3)
}
