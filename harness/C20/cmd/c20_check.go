//go:build verif

package cmd

// C20: a configuration that passes validation cannot make request handling
// fail.  Mutations of the distributed example are parsed and validated by the
// package's own code; an accepted configuration must satisfy the documented
// requirements of the values it carries and must build and serve; a rejected
// one must be reported with the name of a mutated property.

import (
	"fmt"
	"io"
	"math"
	"os"
	"path/filepath"
	"runtime"
	"slices"
	"sort"
	"strings"
	"testing"
	"time"

	"github.com/AdguardTeam/AdGuardDNS/internal/dnsserver"
	"github.com/AdguardTeam/AdGuardDNS/internal/remotekv/consulkv"
	"github.com/AdguardTeam/AdGuardDNS/internal/remotekv/rediskv"
	"github.com/AdguardTeam/golibs/log"
	"github.com/miekg/dns"
	"gopkg.in/yaml.v2"
	"pgregory.net/rapid"
	"verif.local/harness/vstat"
)

// Findings on the unchanged tree, by root cause.
const (
	// validatePositive only checks timeutil.Duration values, so that every
	// integer or size passed to it is accepted whatever its value.
	vc20KnownPositiveInts = "validate-positive-ignores-integers"

	// rateLimitOptions.validate has no upper bound for subnet_key_len.
	vc20KnownKeyLenFamily = "subnet-key-len-exceeds-family"

	// cacheConfig.validate accepts ecs_size: 0 with type: ecs.
	vc20KnownECSSizeZero = "cache-ecs-size-zero"

	// connLimitConfig.validate accepts resume: 0.
	vc20KnownResumeZero = "connlimit-resume-zero"

	// rateLimitOptions.validate has no upper bound for count; the request
	// counter allocates count+1 slots on the first request of a subnet.
	vc20KnownCountUnbounded = "ratelimit-count-unbounded"

	// dnsDBConfig.validate reports max_size as "size".
	vc20KnownDNSDBName = "dnsdb-max-size-reported-as-size"

	// serverGroups.collectSessTicketPaths dereferences the tls section of every
	// group, also of a group that needs none and, as documented, has none:
	// builder.initTLSManager panics at start-up.
	vc20KnownNoTLSSection = "no-tls-section-nil-dereference"

	// ddrRecord.validate accepts an IPv4-mapped IPv6 address in ipv6_hints
	// (netip.Addr.Is6 is true for it); the SVCB ipv6hint of the DDR answer
	// cannot be packed with it.
	vc20KnownDDRMappedHint = "ddr-ipv6-hint-ipv4-mapped"

	// ratelimitTCPConfig.validate has no upper bound for max_pipeline_count;
	// the TCP and TLS servers make a channel of that capacity for every
	// connection.
	vc20KnownPipelineUnbounded = "tcp-pipeline-count-unbounded"
)

// vc20T is what the evaluation needs from *testing.T and *rapid.T.
type vc20T interface {
	Fatalf(format string, args ...any)
	Logf(format string, args ...any)
}

// vc20Shard tells the enumerations which cases are theirs when the driver runs
// them in several processes.
type vc20Shard struct {
	shard, of, n int
}

func vc20NewShard() (sh *vc20Shard) {
	return &vc20Shard{shard: vstat.EnvInt("VERIF_SHARD", 0), of: max(1, vstat.EnvInt("VERIF_NSHARDS", 1))}
}

// mine reports whether the next case belongs to this process.
func (sh *vc20Shard) mine() (ok bool) {
	sh.n++

	return (sh.n-1)%sh.of == sh.shard%sh.of
}

// vc20Collector lets the exhaustive enumeration go on behind a failing case, so
// that one run reports every failing single-field mutation.
type vc20Collector struct {
	t      *testing.T
	failed []string
}

// vc20Unwind is the panic value that ends a failed case.
type vc20Unwind struct{}

func (c *vc20Collector) Logf(format string, args ...any) { c.t.Logf(format, args...) }

func (c *vc20Collector) Fatalf(format string, args ...any) {
	c.failed = append(c.failed, fmt.Sprintf(format, args...))
	panic(vc20Unwind{})
}

func (c *vc20Collector) run(f func()) {
	defer func() {
		if v := recover(); v != nil {
			if _, ok := v.(vc20Unwind); !ok {
				panic(v)
			}
		}
	}()

	f()
}

func (c *vc20Collector) report() {
	if len(c.failed) == 0 {
		return
	}

	const maxShown = 25
	shown := c.failed
	if len(shown) > maxShown {
		shown = shown[:maxShown]
	}

	c.t.Fatalf("%d failing cases; the first %d:\n%s", len(c.failed), len(shown), strings.Join(shown, "\n"))
}

// vc20Mutation is one applied change.
type vc20Mutation struct {
	field *vc20Field
	val   vc20Value
}

func (m vc20Mutation) String() (s string) {
	return fmt.Sprintf("%s: %s -> %s (%s)", m.field.name, vc20ValueString(m.field.orig), vc20ValueString(m.val.v), m.val.class)
}

// vc20Requirement is a documented requirement on a value of an accepted
// configuration.  broken reports that c carries a value that violates it while
// the value is in effect.
type vc20Requirement struct {
	name    string
	finding string
	broken  func(c *configuration) (bad bool, got string)

	// onlyIfFails marks a requirement that the documentation contradicts
	// (doc/configuration.md: a custom_filter_cache_size of zero "means no
	// caching"; agdcache.LRUConfig: the count "must be positive").  It counts
	// only when building or serving actually fails with the value.
	onlyIfFails bool
}

func vc20Dur(name string, get func(c *configuration) (d time.Duration, inEffect bool)) (r vc20Requirement) {
	return vc20Requirement{name: name, broken: func(c *configuration) (bad bool, got string) {
		d, inEffect := get(c)

		return inEffect && d <= 0, d.String()
	}}
}

// vc20Requirements is hand-listed from doc/configuration.md, the comments of
// config.dist.yaml and the documented requirements of the constructors the
// values are handed to.  A requirement with a finding is one the unchanged
// tree is known not to enforce.
func vc20Requirements() (reqs []vc20Requirement) {
	always := true
	reqs = []vc20Requirement{{
		name: "ratelimit.ipv4.count > 0", finding: vc20KnownPositiveInts,
		broken: func(c *configuration) (bool, string) {
			return c.RateLimit.IPv4.Count == 0, fmt.Sprint(c.RateLimit.IPv4.Count)
		},
	}, {
		name: "ratelimit.ipv6.count > 0", finding: vc20KnownPositiveInts,
		broken: func(c *configuration) (bool, string) {
			return c.RateLimit.IPv6.Count == 0, fmt.Sprint(c.RateLimit.IPv6.Count)
		},
	}, {
		name: "ratelimit.ipv4.count is allocatable", finding: vc20KnownCountUnbounded,
		broken: func(c *configuration) (bool, string) {
			n := c.RateLimit.IPv4.Count

			return n >= 1<<46 && n != math.MaxUint64, fmt.Sprint(n)
		},
	}, {
		name: "ratelimit.ipv6.count is allocatable", finding: vc20KnownCountUnbounded,
		broken: func(c *configuration) (bool, string) {
			n := c.RateLimit.IPv6.Count

			return n >= 1<<46 && n != math.MaxUint64, fmt.Sprint(n)
		},
	}, {
		name: "ratelimit.ipv4.subnet_key_len > 0", finding: vc20KnownPositiveInts,
		broken: func(c *configuration) (bool, string) {
			return c.RateLimit.IPv4.SubnetKeyLen <= 0, fmt.Sprint(c.RateLimit.IPv4.SubnetKeyLen)
		},
	}, {
		name: "ratelimit.ipv6.subnet_key_len > 0", finding: vc20KnownPositiveInts,
		broken: func(c *configuration) (bool, string) {
			return c.RateLimit.IPv6.SubnetKeyLen <= 0, fmt.Sprint(c.RateLimit.IPv6.SubnetKeyLen)
		},
	}, {
		name: "ratelimit.ipv4.subnet_key_len <= 32", finding: vc20KnownKeyLenFamily,
		broken: func(c *configuration) (bool, string) {
			return c.RateLimit.IPv4.SubnetKeyLen > 32, fmt.Sprint(c.RateLimit.IPv4.SubnetKeyLen)
		},
	}, {
		name: "ratelimit.ipv6.subnet_key_len <= 128", finding: vc20KnownKeyLenFamily,
		broken: func(c *configuration) (bool, string) {
			return c.RateLimit.IPv6.SubnetKeyLen > 128, fmt.Sprint(c.RateLimit.IPv6.SubnetKeyLen)
		},
	}, {
		name: "ratelimit.backoff_count > 0", finding: vc20KnownPositiveInts,
		broken: func(c *configuration) (bool, string) {
			return c.RateLimit.BackoffCount == 0, fmt.Sprint(c.RateLimit.BackoffCount)
		},
	}, {
		name: "ratelimit.response_size_estimate > 0", finding: vc20KnownPositiveInts,
		broken: func(c *configuration) (bool, string) {
			return c.RateLimit.ResponseSizeEstimate == 0, c.RateLimit.ResponseSizeEstimate.String()
		},
	}, {
		name: "ratelimit.tcp.max_pipeline_count > 0 when enabled", finding: vc20KnownPositiveInts,
		broken: func(c *configuration) (bool, string) {
			tc := c.RateLimit.TCP

			return tc.Enabled && tc.MaxPipelineCount == 0, fmt.Sprint(tc.MaxPipelineCount)
		},
	}, {
		name: "ratelimit.tcp.max_pipeline_count can be the capacity of a channel when enabled", finding: vc20KnownPipelineUnbounded,
		broken: func(c *configuration) (bool, string) {
			tc := c.RateLimit.TCP

			return tc.Enabled && uint64(tc.MaxPipelineCount) > math.MaxInt64, fmt.Sprint(tc.MaxPipelineCount)
		},
	}, {
		name: "ratelimit.quic.max_streams_per_peer > 0 when enabled", finding: vc20KnownPositiveInts,
		broken: func(c *configuration) (bool, string) {
			qc := c.RateLimit.QUIC

			return qc.Enabled && qc.MaxStreamsPerPeer <= 0, fmt.Sprint(qc.MaxStreamsPerPeer)
		},
	}, {
		name: "filters.safe_search_cache_size > 0", finding: vc20KnownPositiveInts,
		broken: func(c *configuration) (bool, string) {
			return c.Filters.SafeSearchCacheSize <= 0, fmt.Sprint(c.Filters.SafeSearchCacheSize)
		},
	}, {
		name: "filters.custom_filter_cache_size >= 0", finding: vc20KnownPositiveInts,
		broken: func(c *configuration) (bool, string) {
			return c.Filters.CustomFilterCacheSize < 0, fmt.Sprint(c.Filters.CustomFilterCacheSize)
		},
	}, {
		name: "filters.custom_filter_cache_size != 0 unless zero really means no caching", finding: vc20KnownPositiveInts,
		onlyIfFails: true,
		broken: func(c *configuration) (bool, string) {
			return c.Filters.CustomFilterCacheSize == 0, fmt.Sprint(c.Filters.CustomFilterCacheSize)
		},
	}, {
		name: "filters.max_size > 0", finding: vc20KnownPositiveInts,
		broken: func(c *configuration) (bool, string) {
			return c.Filters.MaxSize == 0, c.Filters.MaxSize.String()
		},
	}, {
		name: "cache.ecs_size > 0 when type is ecs and the cache is on", finding: vc20KnownECSSizeZero,
		broken: func(c *configuration) (bool, string) {
			cc := c.Cache

			return cc.Type == cacheTypeECS && cc.Size > 0 && cc.ECSSize <= 0, fmt.Sprint(cc.ECSSize)
		},
	}, {
		name: "ratelimit.connection_limit.resume > 0 when enabled", finding: vc20KnownResumeZero,
		broken: func(c *configuration) (bool, string) {
			cl := c.RateLimit.ConnectionLimit

			return cl.Enabled && cl.Resume == 0, fmt.Sprint(cl.Resume)
		},
	}, {
		name: "ratelimit.connection_limit.stop > 0 when enabled",
		broken: func(c *configuration) (bool, string) {
			cl := c.RateLimit.ConnectionLimit

			return cl.Enabled && cl.Stop == 0, fmt.Sprint(cl.Stop)
		},
	}, {
		name: "ratelimit.connection_limit.resume <= stop when enabled",
		broken: func(c *configuration) (bool, string) {
			cl := c.RateLimit.ConnectionLimit

			return cl.Enabled && cl.Resume > cl.Stop, fmt.Sprintf("resume %d stop %d", cl.Resume, cl.Stop)
		},
	}, {
		name:   "cache.size >= 0",
		broken: func(c *configuration) (bool, string) { return c.Cache.Size < 0, fmt.Sprint(c.Cache.Size) },
	}, {
		name: "dns.tcp_idle_timeout <= 6553.5s",
		broken: func(c *configuration) (bool, string) {
			d := c.DNS.TCPIdleTimeout.Duration

			return d > dnsserver.MaxTCPIdleTimeout, d.String()
		},
	}, {
		name: "0 < dns.max_udp_response_size <= 65535",
		broken: func(c *configuration) (bool, string) {
			n := c.DNS.MaxUDPResponseSize.Bytes()

			return n == 0 || n > dns.MaxMsgSize, fmt.Sprint(n)
		},
	}, {
		name: "dnsdb.max_size > 0 when enabled",
		broken: func(c *configuration) (bool, string) {
			return c.DNSDB.Enabled && c.DNSDB.MaxSize <= 0, fmt.Sprint(c.DNSDB.MaxSize)
		},
	}, {
		name: "backend.timeout >= 0",
		broken: func(c *configuration) (bool, string) {
			return c.Backend.Timeout.Duration < 0, c.Backend.Timeout.String()
		},
	}, {
		name: "geoip.host_cache_size >= 0",
		broken: func(c *configuration) (bool, string) {
			return c.GeoIP.HostCacheSize < 0, fmt.Sprint(c.GeoIP.HostCacheSize)
		},
	}, {
		name: "geoip.ip_cache_size > 0",
		broken: func(c *configuration) (bool, string) {
			return c.GeoIP.IPCacheSize <= 0, fmt.Sprint(c.GeoIP.IPCacheSize)
		},
	}, {
		name: "check.kv.ttl fits its type",
		broken: func(c *configuration) (bool, string) {
			kv := c.Check.RemoteKV
			d := kv.TTL.Duration
			switch kv.Type {
			case kvModeBackend:
				return d <= 0, d.String()
			case kvModeConsul:
				return d < consulkv.MinTTL || d > consulkv.MaxTTL, d.String()
			case kvModeRedis:
				return d < rediskv.MinTTL, d.String()
			}

			return false, d.String()
		},
	}, {
		name: "safe_browsing.cache_size > 0",
		broken: func(c *configuration) (bool, string) {
			return c.SafeBrowsing.CacheSize <= 0, fmt.Sprint(c.SafeBrowsing.CacheSize)
		},
	}, {
		name: "adult_blocking.cache_size > 0",
		broken: func(c *configuration) (bool, string) {
			return c.AdultBlocking.CacheSize <= 0, fmt.Sprint(c.AdultBlocking.CacheSize)
		},
	}, {
		name: "filters.rule_list_cache.size > 0 when enabled",
		broken: func(c *configuration) (bool, string) {
			rc := c.Filters.RuleListCache

			return rc.Enabled && rc.Size <= 0, fmt.Sprint(rc.Size)
		},
	}, {
		name: "interface_listeners.channel_buffer_size >= 0",
		broken: func(c *configuration) (bool, string) {
			il := c.InterfaceListeners

			return il != nil && il.ChannelBufferSize < 0, fmt.Sprint(il)
		},
	}, {
		name: "network.so_sndbuf and so_rcvbuf <= 2147483647",
		broken: func(c *configuration) (bool, string) {
			n := c.Network

			return n.SndBufSize > math.MaxInt32 || n.RcvBufSize > math.MaxInt32, fmt.Sprint(n.SndBufSize, n.RcvBufSize)
		},
	}}

	durs := []vc20Requirement{
		vc20Dur("ratelimit.ipv4.interval > 0", func(c *configuration) (time.Duration, bool) {
			return c.RateLimit.IPv4.Interval.Duration, always
		}),
		vc20Dur("ratelimit.ipv6.interval > 0", func(c *configuration) (time.Duration, bool) {
			return c.RateLimit.IPv6.Interval.Duration, always
		}),
		vc20Dur("ratelimit.backoff_duration > 0", func(c *configuration) (time.Duration, bool) {
			return c.RateLimit.BackoffDuration.Duration, always
		}),
		vc20Dur("ratelimit.backoff_period > 0", func(c *configuration) (time.Duration, bool) {
			return c.RateLimit.BackoffPeriod.Duration, always
		}),
		vc20Dur("ratelimit.allowlist.refresh_interval > 0", func(c *configuration) (time.Duration, bool) {
			return c.RateLimit.Allowlist.RefreshIvl.Duration, always
		}),
		vc20Dur("cache.ttl_override.min > 0", func(c *configuration) (time.Duration, bool) {
			return c.Cache.TTLOverride.Min.Duration, always
		}),
		vc20Dur("upstream.healthcheck.interval > 0 when enabled", func(c *configuration) (time.Duration, bool) {
			return c.Upstream.Healthcheck.Interval.Duration, c.Upstream.Healthcheck.Enabled
		}),
		vc20Dur("upstream.healthcheck.timeout > 0 when enabled", func(c *configuration) (time.Duration, bool) {
			return c.Upstream.Healthcheck.Timeout.Duration, c.Upstream.Healthcheck.Enabled
		}),
		vc20Dur("upstream.healthcheck.backoff_duration > 0 when enabled", func(c *configuration) (time.Duration, bool) {
			return c.Upstream.Healthcheck.BackoffDuration.Duration, c.Upstream.Healthcheck.Enabled
		}),
		vc20Dur("dns.read_timeout > 0", func(c *configuration) (time.Duration, bool) {
			return c.DNS.ReadTimeout.Duration, always
		}),
		vc20Dur("dns.tcp_idle_timeout > 0", func(c *configuration) (time.Duration, bool) {
			return c.DNS.TCPIdleTimeout.Duration, always
		}),
		vc20Dur("dns.write_timeout > 0", func(c *configuration) (time.Duration, bool) {
			return c.DNS.WriteTimeout.Duration, always
		}),
		vc20Dur("dns.handle_timeout > 0", func(c *configuration) (time.Duration, bool) {
			return c.DNS.HandleTimeout.Duration, always
		}),
		vc20Dur("backend.refresh_interval > 0", func(c *configuration) (time.Duration, bool) {
			return c.Backend.RefreshIvl.Duration, always
		}),
		vc20Dur("backend.full_refresh_interval > 0", func(c *configuration) (time.Duration, bool) {
			return c.Backend.FullRefreshIvl.Duration, always
		}),
		vc20Dur("backend.full_refresh_retry_interval > 0", func(c *configuration) (time.Duration, bool) {
			return c.Backend.FullRefreshRetryIvl.Duration, always
		}),
		vc20Dur("backend.bill_stat_interval > 0", func(c *configuration) (time.Duration, bool) {
			return c.Backend.BillStatIvl.Duration, always
		}),
		vc20Dur("geoip.refresh_interval > 0", func(c *configuration) (time.Duration, bool) {
			return c.GeoIP.RefreshIvl.Duration, always
		}),
		vc20Dur("web.timeout > 0", func(c *configuration) (time.Duration, bool) {
			if c.Web == nil {
				return 0, false
			}

			return c.Web.Timeout.Duration, true
		}),
		vc20Dur("filters.response_ttl > 0", func(c *configuration) (time.Duration, bool) {
			return c.Filters.ResponseTTL.Duration, always
		}),
		vc20Dur("filters.refresh_interval > 0", func(c *configuration) (time.Duration, bool) {
			return c.Filters.RefreshIvl.Duration, always
		}),
		vc20Dur("filters.refresh_timeout > 0", func(c *configuration) (time.Duration, bool) {
			return c.Filters.RefreshTimeout.Duration, always
		}),
		vc20Dur("filters.index_refresh_timeout > 0", func(c *configuration) (time.Duration, bool) {
			return c.Filters.IndexRefreshTimeout.Duration, always
		}),
		vc20Dur("filters.rule_list_refresh_timeout > 0", func(c *configuration) (time.Duration, bool) {
			return c.Filters.RuleListRefreshTimeout.Duration, always
		}),
	}
	reqs = append(reqs, durs...)

	for _, sb := range []struct {
		name string
		get  func(c *configuration) (sb *safeBrowsingConfig)
	}{
		{name: "safe_browsing", get: func(c *configuration) *safeBrowsingConfig { return c.SafeBrowsing }},
		{name: "adult_blocking", get: func(c *configuration) *safeBrowsingConfig { return c.AdultBlocking }},
	} {
		reqs = append(reqs,
			vc20Dur(sb.name+".cache_ttl > 0", func(c *configuration) (time.Duration, bool) {
				return sb.get(c).CacheTTL.Duration, always
			}),
			vc20Dur(sb.name+".refresh_interval > 0", func(c *configuration) (time.Duration, bool) {
				return sb.get(c).RefreshIvl.Duration, always
			}),
			vc20Dur(sb.name+".refresh_timeout > 0", func(c *configuration) (time.Duration, bool) {
				return sb.get(c).RefreshTimeout.Duration, always
			}),
		)
	}

	reqs = append(reqs, vc20Requirement{
		name: "ddr ipv4_hints are IPv4 addresses and ipv6_hints are IPv6 addresses",
		broken: func(c *configuration) (bool, string) {
			for _, g := range c.ServerGroups {
				// "If it is set to false, DDR domain name queries receive an
				// NXDOMAIN response": the records of a disabled DDR are not
				// sent, so only what is done with them at start-up counts.
				if g.DDR == nil || !g.DDR.Enabled {
					continue
				}

				for _, recs := range []map[string]*ddrRecord{g.DDR.DeviceRecords, g.DDR.PublicRecords} {
					for name, r := range recs {
						if r == nil {
							return true, name + ": null record"
						}

						for _, a := range r.IPv4Hints {
							if !a.Is4() {
								return true, fmt.Sprintf("%s: ipv4 hint %q", name, a)
							}
						}

						for _, a := range r.IPv6Hints {
							if !a.Is6() {
								return true, fmt.Sprintf("%s: ipv6 hint %q", name, a)
							}
						}
					}
				}
			}

			return false, ""
		},
	}, vc20Requirement{
		name: "ddr ipv6_hints can be sent as an SVCB ipv6hint (are not IPv4-mapped)", finding: vc20KnownDDRMappedHint,
		broken: func(c *configuration) (bool, string) {
			for _, g := range c.ServerGroups {
				// "If it is set to false, DDR domain name queries receive an
				// NXDOMAIN response": the records of a disabled DDR are not
				// sent, so only what is done with them at start-up counts.
				if g.DDR == nil || !g.DDR.Enabled {
					continue
				}

				for _, recs := range []map[string]*ddrRecord{g.DDR.DeviceRecords, g.DDR.PublicRecords} {
					for name, r := range recs {
						if r == nil {
							return true, name + ": null record"
						}

						for _, a := range r.IPv6Hints {
							if a.Is4In6() {
								return true, fmt.Sprintf("%s: ipv6 hint %q", name, a)
							}
						}
					}
				}
			}

			return false, ""
		},
	}, vc20Requirement{
		name: "names of server groups, of the servers of a group, and ids of filtering groups are unique and not empty",
		broken: func(c *configuration) (bool, string) {
			grpNames := map[string]struct{}{}
			for _, g := range c.ServerGroups {
				if _, dup := grpNames[g.Name]; dup || g.Name == "" {
					return true, "server group " + g.Name
				}

				grpNames[g.Name] = struct{}{}
				srvNames := map[string]struct{}{}
				for _, s := range g.Servers {
					if _, dup := srvNames[s.Name]; dup || s.Name == "" {
						return true, "server " + s.Name
					}

					srvNames[s.Name] = struct{}{}
				}
			}

			ids := map[string]struct{}{}
			for _, g := range c.FilteringGroups {
				if _, dup := ids[g.ID]; dup || g.ID == "" {
					return true, "filtering group " + g.ID
				}

				ids[g.ID] = struct{}{}
			}

			return false, ""
		},
	}, vc20Requirement{
		name: "filters.ede_enabled is true when sde_enabled is",
		broken: func(c *configuration) (bool, string) {
			return c.Filters.SDEEnabled && !c.Filters.EDEEnabled, "sde without ede"
		},
	}, vc20Requirement{
		name: "upstream.servers and upstream.fallback.servers are not empty",
		broken: func(c *configuration) (bool, string) {
			return len(c.Upstream.Servers) == 0 || len(c.Upstream.Fallback.Servers) == 0, "empty"
		},
	}, vc20Requirement{
		name: "ratelimit.allowlist.type is backend or consul",
		broken: func(c *configuration) (bool, string) {
			typ := c.RateLimit.Allowlist.Type

			return typ != "backend" && typ != "consul", typ
		},
	}, vc20Requirement{
		name: "cache.type is simple or ecs",
		broken: func(c *configuration) (bool, string) {
			typ := c.Cache.Type

			return typ != "simple" && typ != "ecs", typ
		},
	}, vc20Requirement{
		name: "check.kv.type is backend, cache, consul or redis",
		broken: func(c *configuration) (bool, string) {
			typ := c.Check.RemoteKV.Type

			return typ != "backend" && typ != "cache" && typ != "consul" && typ != "redis", typ
		},
	}, vc20Requirement{
		name: "a server group with a tls, https or quic server has a tls section with certificates",
		broken: func(c *configuration) (bool, string) {
			for _, g := range c.ServerGroups {
				needs := ""
				for _, s := range g.Servers {
					switch s.Protocol {
					case "tls", "https", "quic":
						needs = s.Name + " (" + string(s.Protocol) + ")"
					}
				}

				if needs == "" {
					continue
				}

				if g.TLS == nil || len(g.TLS.Certificates) == 0 {
					return true, "group " + g.Name + " has " + needs + " but no certificates"
				}

				for _, crt := range g.TLS.Certificates {
					if crt == nil || crt.Certificate == "" || crt.Key == "" {
						return true, "group " + g.Name + " has " + needs + " and an empty certificate entry"
					}
				}
			}

			return false, ""
		},
	}, vc20Requirement{
		name: "a dnscrypt server has a dnscrypt section with either config_path or inline",
		broken: func(c *configuration) (bool, string) {
			for _, g := range c.ServerGroups {
				for _, s := range g.Servers {
					if s.Protocol != "dnscrypt" {
						continue
					}

					if dc := s.DNSCrypt; dc == nil || (dc.ConfigPath == "") == (dc.Inline == nil) {
						return true, "server " + s.Name
					}
				}
			}

			return false, ""
		},
	}, vc20Requirement{
		name: "a server has either bind_addresses or bind_interfaces, and bind_interfaces only with protocol dns",
		broken: func(c *configuration) (bool, string) {
			for _, g := range c.ServerGroups {
				for _, s := range g.Servers {
					addrs, ifaces := len(s.BindAddresses) > 0, len(s.BindInterfaces) > 0
					if addrs == ifaces || (ifaces && s.Protocol != "dns") {
						return true, "server " + s.Name
					}
				}
			}

			return false, ""
		},
	}, vc20Requirement{
		name: "server_groups.*.servers.*.protocol is dns, dnscrypt, https, quic or tls",
		broken: func(c *configuration) (bool, string) {
			for _, g := range c.ServerGroups {
				for _, s := range g.Servers {
					switch s.Protocol {
					case "dns", "dnscrypt", "https", "quic", "tls":
						// Go on.
					default:
						return true, string(s.Protocol)
					}
				}
			}

			return false, ""
		},
	}, vc20Requirement{
		name: "ddr records: a non-zero https_port differs from tls_port, doh_path is set with https_port, some port is set",
		broken: func(c *configuration) (bool, string) {
			for _, g := range c.ServerGroups {
				// "If it is set to false, DDR domain name queries receive an
				// NXDOMAIN response": the records of a disabled DDR are not
				// sent, so only what is done with them at start-up counts.
				if g.DDR == nil || !g.DDR.Enabled {
					continue
				}

				for _, recs := range []map[string]*ddrRecord{g.DDR.DeviceRecords, g.DDR.PublicRecords} {
					for name, r := range recs {
						if r == nil {
							return true, name + ": null record"
						}

						switch {
						case r.HTTPSPort != 0 && r.HTTPSPort == r.TLSPort,
							r.HTTPSPort != 0 && r.DoHPath == "",
							r.HTTPSPort == 0 && r.TLSPort == 0 && r.QUICPort == 0:
							return true, fmt.Sprintf("%s: %+v", name, *r)
						}
					}
				}
			}

			return false, ""
		},
	}, vc20Requirement{
		name: "upstream.servers.*.timeout > 0 (also fallback)",
		broken: func(c *configuration) (bool, string) {
			for _, s := range append(append([]*upstreamServerConfig{}, c.Upstream.Servers...), c.Upstream.Fallback.Servers...) {
				if s.Timeout.Duration <= 0 {
					return true, s.Timeout.String()
				}
			}

			return false, ""
		},
	})

	return reqs
}

// vc20Broken evaluates a requirement.  An accepted configuration in which a
// section the requirement looks at is absent breaks the requirement.
func vc20Broken(r vc20Requirement, c *configuration) (bad bool, got string) {
	defer func() {
		if v := recover(); v != nil {
			bad, got = true, fmt.Sprintf("a section that validation guarantees is absent: %v", v)
		}
	}()

	return r.broken(c)
}

// vc20Names reports whether errText names one of the mutated properties.  With
// orValue, quoting the offending value is also accepted (errors of the
// start-up steps after validation).
func vc20Names(errText string, muts []vc20Mutation, orValue bool) (ok bool) {
	for _, m := range muts {
		keys := []string{m.field.key}
		if m.field.altKey != "" {
			keys = append(keys, m.field.altKey)
		}

		for _, k := range keys {
			if k == "" {
				continue
			}

			if strings.Contains(errText, k) {
				return true
			}

			// Conditions over several properties are reported with the common
			// part of their names: "ede must be enabled to enable sde", "all
			// ports are zero".
			if base, found := strings.CutSuffix(k, "_enabled"); found && strings.Contains(errText, base) {
				return true
			}

			if strings.HasSuffix(k, "_port") && strings.Contains(errText, "port") {
				return true
			}

			// An abbreviation of the key that is a word of the message:
			// "invalid addr" for address.
			for _, w := range strings.FieldsFunc(errText, func(r rune) (sep bool) {
				return !(r == '_' || r >= 'a' && r <= 'z' || r >= 'A' && r <= 'Z' || r >= '0' && r <= '9')
			}) {
				if len(w) >= 4 && len(w) < len(k) && strings.HasPrefix(k, w) {
					return true
				}
			}

			// The steps behind validation speak prose: "unknown filtering
			// group".
			if prose := strings.TrimSuffix(strings.ReplaceAll(k, "_", " "), "s"); orValue && strings.Contains(errText, prose) {
				return true
			}
		}

		if !orValue {
			continue
		}

		for _, v := range []any{m.val.v, m.field.orig} {
			if s, isStr := v.(string); isStr && s != "" && strings.Contains(errText, s) {
				return true
			}
		}
	}

	return false
}

// vc20OutsideWorld reports whether the error of a start-up step is the expected
// end of a step that needs the outside world: the downloads of the filters
// stop at the initial refresh whatever the configuration is.
func vc20OutsideWorld(step, errText string) (ok bool) {
	switch {
	case strings.HasPrefix(step, "hashprefix-"):
		return strings.Contains(errText, "initial refresh: ")
	case step == "filter-storage":
		return strings.HasPrefix(errText, "refreshing default filter storage: ")
	case step == "ratelimit-init":
		// The allowlist source of the environment is down or failing.
		return strings.HasPrefix(errText, "allowlist: initial refresh: ")
	case step == "allowlist-later-refresh":
		return true
	case step == "profiledb-init":
		// The profiles backend of the environment is down.
		return strings.Contains(errText, "initial refresh")
	}

	return false
}

// vc20Checker evaluates cases.
type vc20Checker struct {
	tb testing.TB

	// variants are the servers of generated server groups; drawnClasses are
	// the labels of the last drawn protocol set.
	variants     []*vc20ServerVariant
	drawnClasses []string

	fx       *vc20Fixture
	st       *vstat.Stats
	reqs     []vc20Requirement
	baseline map[string]string
	confPath string
	n        int
}

// vc20NewChecker prepares the fixture and checks the unmutated configuration.
func vc20NewChecker(t *testing.T, st *vstat.Stats) (ck *vc20Checker) {
	log.SetOutput(io.Discard)

	fx := vc20NewFixture(t)
	ck = &vc20Checker{
		tb:       t,
		fx:       fx,
		st:       st,
		reqs:     vc20Requirements(),
		confPath: filepath.Join(fx.dir, "config.yaml"),
	}

	// The distributed file as it is must be accepted.
	raw, err := parseConfig(filepath.Join(fx.repo, "config.dist.yaml"))
	if err != nil {
		t.Fatalf("the distributed configuration does not parse: %v", err)
	} else if err = raw.validate(); err != nil {
		t.Fatalf("the distributed configuration is rejected: %v", err)
	}

	// Bound to the fixture, it must be accepted, satisfy every requirement and
	// serve.
	c, parseErr, valErr, panicked := ck.vc20Load(fx.base)
	if c != nil {
		fx.baseIfaces = fx.vc20BasePorts(c.InterfaceListeners)
	}

	if panicked != "" || parseErr != nil || valErr != nil {
		t.Fatalf("the distributed configuration is not accepted: parse %v, validate %v, panic %q", parseErr, valErr, panicked)
	}

	for _, r := range ck.reqs {
		if bad, got := r.broken(c); bad {
			t.Fatalf("the distributed configuration breaks the requirement %q: got %s (harness table is wrong)", r.name, got)
		}
	}

	o := fx.vc20Exercise(c)
	for range 2 {
		if !o.realListenerFailed {
			break
		}

		// See vc20EvalClasses: what the configuration causes repeats.
		c, _, _, _ = ck.vc20Load(fx.base)
		fx.baseIfaces = fx.vc20BasePorts(c.InterfaceListeners)
		o = fx.vc20Exercise(c)
	}

	if len(o.failures) > 0 {
		t.Fatalf("the distributed configuration cannot be exercised:\n  %s", strings.Join(o.failures, "\n  "))
	}

	full := false
	for _, cl := range o.classes {
		full = full || cl == "exercise-full"
	}

	if !full {
		t.Fatalf("the distributed configuration is not exercised completely; step errors: %v", o.stepErrs)
	}

	ck.baseline = o.stepErrs
	fx.baseConf, fx.baseGeo = c, o.geo
	st.Extra("baseline_step_errors", o.stepErrs)
	st.Extra("catalogue_size", len(fx.fields))

	return ck
}

// vc20Load renders the tree, parses and validates it with the package's own
// code.
func (ck *vc20Checker) vc20Load(tree yaml.MapSlice) (c *configuration, parseErr, valErr error, panicked string) {
	tree, _ = vc20Copy(tree).(yaml.MapSlice)
	ck.fx.vc20FreshPorts(ck.tb, tree)
	text, err := yaml.Marshal(tree)
	if err != nil {
		return nil, fmt.Errorf("harness: marshalling: %w", err), nil, ""
	}

	if err = os.WriteFile(ck.confPath, text, 0o600); err != nil {
		return nil, nil, nil, "harness: writing the configuration: " + err.Error()
	}

	func() {
		defer func() {
			if v := recover(); v != nil {
				panicked = fmt.Sprintf("parseConfig: %v", v)
			}
		}()

		c, parseErr = parseConfig(ck.confPath)
	}()

	if panicked != "" || parseErr != nil {
		return nil, parseErr, nil, panicked
	}

	func() {
		defer func() {
			if v := recover(); v != nil {
				panicked = fmt.Sprintf("validate: %v", v)
			}
		}()

		valErr = c.validate()
	}()

	return c, nil, valErr, panicked
}

// vc20Eval evaluates one list of mutations.
func (ck *vc20Checker) vc20Eval(t vc20T, muts []vc20Mutation, pair bool) {
	ck.vc20EvalClasses(t, muts, pair, nil)
}

// vc20EvalClasses is vc20Eval with additional histogram labels.
func (ck *vc20Checker) vc20EvalClasses(t vc20T, muts []vc20Mutation, pair bool, extra []string) {
	st := ck.st
	tree := vc20Copy(ck.fx.base)

	var applied []vc20Mutation
	for _, m := range muts {
		res, ok := vc20Set(tree, m.field.path, m.val.v)
		if !ok {
			continue
		}

		tree = res
		applied = append(applied, m)
	}

	descr := make([]string, 0, len(applied))
	keyParts := make([]string, 0, len(applied))
	classes := append([]string{fmt.Sprintf("mutations:%d", len(applied))}, extra...)
	for _, m := range applied {
		descr = append(descr, m.String())
		keyParts = append(keyParts, m.field.name+"="+m.val.class+"/"+vc20ValueString(m.val.v))
		classes = append(classes, "kind:"+string(m.field.kind), "val:"+m.val.class)
	}

	classes = append(classes, ck.fx.vc20DisabledSectionClasses(applied)...)
	for _, e := range extra {
		// What the backend does is part of the identity of a case.
		if strings.HasPrefix(e, "backend:") {
			keyParts = append(keyParts, e)
		}
	}

	sort.Strings(keyParts)
	ntKey := strings.Join(keyParts, ";")
	if pair {
		classes = append(classes, "threshold-pair")
	}

	caseText := strings.Join(descr, "\n    ")
	ck.n++

	c, parseErr, valErr, panicked := ck.vc20Load(tree.(yaml.MapSlice))
	outcome := ""
	defer func() {
		if slices.Contains(extra, "valid-pair") && !strings.HasPrefix(outcome, "accepted") {
			classes = append(classes, "valid-pair-"+outcome)
			t.Logf("C20 note: a pair of valid alternatives is %s: parse error %v, validation error %v\n    %s", outcome, parseErr, valErr, caseText)
		}

		st.Case(ntKey, append(classes, outcome)...)
		if st.WantSample() && ck.n%97 == 1 {
			st.Sample(map[string]any{"mutations": descr, "outcome": outcome, "parse_error": fmt.Sprint(parseErr), "validate_error": fmt.Sprint(valErr)})
		}
	}()

	switch {
	case panicked != "":
		outcome = "panic-at-load"
		t.Fatalf("C20: loading the configuration panicked instead of reporting an error: %s\n  mutations:\n    %s", panicked, caseText)
	case parseErr != nil:
		outcome = "rejected-parse"

		return
	case valErr != nil:
		outcome = "rejected-named"
		if len(applied) == 0 {
			t.Fatalf("C20: harness: no mutation applied but validation failed: %v", valErr)
		}

		if !vc20Names(valErr.Error(), applied, false) {
			for _, m := range applied {
				if m.field.name == "dnsdb.max_size" && strings.Contains(valErr.Error(), "dnsdb: size:") && st.Known(vc20KnownDNSDBName) {
					outcome = "rejected-known-misnamed"

					return
				}
			}

			outcome = "rejected-unnamed"
			t.Fatalf("C20: rejected without naming an offending property: error %q\n  mutations:\n    %s", valErr, caseText)
		}

		return
	}

	// Accepted.
	outcome = "accepted"
	if len(applied) == 0 {
		ntKey = ""
		outcome = "accepted-unchanged"
	}

	o := ck.fx.vc20Exercise(c)
	if o.realListenerFailed {
		// Sockets on ephemeral loopback ports that are shared with the other
		// processes of a busy machine (the listeners set SO_REUSEPORT) can
		// get somebody else's datagrams.  What a configuration causes, it
		// causes every time: the exercise is repeated with fresh listeners and
		// the second outcome counts.
		classes = append(classes, "real-listener-failure-rechecked")
		if c2, perr, _, pan := ck.vc20Load(tree.(yaml.MapSlice)); c2 != nil && perr == nil && pan == "" {
			// Loaded again, the interface listeners get other ports.
			c = c2
		}

		o = ck.fx.vc20Exercise(c)
	}

	classes = append(classes, o.classes...)
	if o.timeouts > 0 {
		classes = append(classes, "had-timeouts")
	}

	started := vc20StartedClasses(c, o)
	classes = append(classes, started...)
	if len(started) > 0 && slices.Contains(extra, "valid-pair") {
		classes = append(classes, "valid-pair-started-and-queried")
	}

	for _, cl := range o.classes {
		switch cl {
		case "query-dropped", "query-error", "query-other-rcode":
			t.Logf("C20 note: %s with %s; step errors %v", cl, strings.Join(descr, "; "), o.stepErrs)
		}
	}

	var broken, findings []string
	unlisted := false
	for _, r := range ck.reqs {
		bad, got := vc20Broken(r, c)
		if !bad || (r.onlyIfFails && len(o.failures) == 0) {
			continue
		}

		broken = append(broken, fmt.Sprintf("%s (got %s)", r.name, got))
		if r.finding == "" {
			unlisted = true
		} else {
			findings = append(findings, r.finding)
		}
	}

	// Errors of the start-up steps behind validation that the distributed
	// configuration does not produce are late rejections: they must name the
	// property or quote the value.
	var late []string
	for step, e := range o.stepErrs {
		if ck.baseline[step] == e || vc20OutsideWorld(step, e) {
			continue
		}

		late = append(late, step+": "+e)
	}

	sort.Strings(late)

	if len(broken) > 0 {
		known := !unlisted
		seen := map[string]struct{}{}
		for _, f := range findings {
			if _, dup := seen[f]; dup {
				continue
			}

			seen[f] = struct{}{}
			known = st.Known(f) && known
		}

		if known {
			// A recorded finding: excluded, including what the exercise did
			// with these values.
			outcome = "accepted-known-finding"

			return
		}

		outcome = "accepted-breaking-requirement"
		t.Fatalf("C20: validation accepted a configuration that breaks documented requirements:\n    %s\n  mutations:\n    %s\n  exercise failures: %v\n  late errors: %v",
			strings.Join(broken, "\n    "), caseText, o.failures, late)
	}

	if o.noTLSSectionPanic != "" {
		classes = append(classes, "group-without-tls-section-panics")
		if !st.Known(vc20KnownNoTLSSection) {
			outcome = "accepted-failing"
			t.Fatalf("C20: an accepted configuration with a server group that needs no tls section and has none makes the start-up panic:\n    %s\n  mutations:\n    %s",
				o.noTLSSectionPanic, caseText)
		}
	}

	if len(o.failures) > 0 {
		outcome = "accepted-failing"
		t.Fatalf("C20: an accepted configuration makes building or request handling fail:\n    %s\n  mutations:\n    %s\n  late errors: %v",
			strings.Join(o.failures, "\n    "), caseText, late)
	}

	if len(late) > 0 {
		outcome = "rejected-late-named"
		text := strings.Join(late, "\n")
		if !vc20Names(text, applied, true) {
			outcome = "rejected-late-unnamed"
			t.Fatalf("C20: a start-up step behind validation failed without naming an offending property or value:\n    %s\n  mutations:\n    %s",
				strings.Join(late, "\n    "), caseText)
		}
	}
}

// vc20Thresholds returns the values tried for a pair of sibling integers.
func vc20Thresholds(a, b *vc20Field) (thresholds []int64) {
	oa, _ := vc20OrigInt(a.orig)
	ob, _ := vc20OrigInt(b.orig)
	seen := map[int64]struct{}{}
	for _, v := range []int64{0, 1, 2, 3, oa - 1, oa, oa + 1, ob - 1, ob, ob + 1, math.MaxInt32, math.MaxInt64} {
		if _, dup := seen[v]; !dup {
			seen[v] = struct{}{}
			thresholds = append(thresholds, v)
		}
	}

	return thresholds
}

// vc20ThresholdPair returns the mutations that set a to va and b to vb.
func vc20ThresholdPair(a, b *vc20Field, va, vb int64) (muts []vc20Mutation) {
	cls := func(x, y int64) (s string) {
		switch {
		case x == 0:
			return "zero"
		case x < 0:
			return "neg"
		case x < y:
			return "below-sibling"
		case x == y:
			return "equal-sibling"
		default:
			return "above-sibling"
		}
	}

	return []vc20Mutation{
		{field: a, val: vc20Value{class: cls(va, vb), v: va}},
		{field: b, val: vc20Value{class: cls(vb, va), v: vb}},
	}
}

// vc20DrawMutations draws 1-4 mutations (biased to one), or a threshold pair.
func (ck *vc20Checker) vc20DrawMutations(t *rapid.T, weighted []int) (muts []vc20Mutation, pair bool) {
	fx := ck.fx
	if len(ck.variants) > 0 && rapid.IntRange(0, 11).Draw(t, "protocolSetMode") == 0 {
		// A server group of one to three servers with some tls section,
		// possibly together with one more mutation elsewhere.
		n := rapid.IntRange(1, 3).Draw(t, "servers")
		members := rapid.Permutation(ck.variants).Draw(t, "members")[:n]
		muts, ck.drawnClasses = fx.vc20ProtocolSet(t, members, rapid.SampledFrom(vc20TLSStates).Draw(t, "tls"))
		if rapid.Bool().Draw(t, "more") {
			f := fx.fields[rapid.SampledFrom(weighted).Draw(t, "field")]
			if f.path[0] != "server_groups" {
				vals := vc20Values(f, fx.enums, fx.xrefs)
				muts = append(muts, vc20Mutation{field: f, val: rapid.SampledFrom(vals).Draw(t, "value")})
			}
		}

		return muts, false
	}

	if len(fx.siblings) > 0 && rapid.IntRange(0, 7).Draw(t, "pairMode") == 0 {
		grp := rapid.SampledFrom(fx.siblings).Draw(t, "siblings")
		i := rapid.IntRange(0, len(grp)-1).Draw(t, "first")
		j := rapid.IntRange(0, len(grp)-2).Draw(t, "second")
		if j >= i {
			j++
		}

		a, b := fx.fields[grp[i]], fx.fields[grp[j]]
		thresholds := vc20Thresholds(a, b)
		va := rapid.SampledFrom(thresholds).Draw(t, "a")
		vb := rapid.SampledFrom(thresholds).Draw(t, "b")

		return vc20ThresholdPair(a, b, va, vb), true
	}

	if len(fx.groups) > 0 && rapid.IntRange(0, 3).Draw(t, "groupMode") == 0 {
		// Properties of one object: switches, enums and the values they
		// govern.
		grp := rapid.SampledFrom(fx.groups).Draw(t, "group")
		n := min(len(grp), rapid.SampledFrom([]int{2, 2, 2, 3, 3, 4}).Draw(t, "n"))
		idxs := rapid.Permutation(grp).Draw(t, "members")[:n]
		for _, idx := range idxs {
			f := fx.fields[idx]
			vals := vc20Values(f, fx.enums, fx.xrefs)
			muts = append(muts, vc20Mutation{field: f, val: rapid.SampledFrom(vals).Draw(t, "value")})
		}

		return muts, false
	}

	n := rapid.SampledFrom([]int{1, 1, 1, 1, 1, 2, 2, 2, 3, 4}).Draw(t, "n")
	used := map[int]struct{}{}
	for len(muts) < n {
		idx := rapid.SampledFrom(weighted).Draw(t, "field")
		if _, dup := used[idx]; dup {
			// Constructive: take the next unused field instead of rejecting.
			for {
				idx = (idx + 1) % len(fx.fields)
				if _, dup = used[idx]; !dup {
					break
				}
			}
		}

		used[idx] = struct{}{}
		f := fx.fields[idx]
		vals := vc20Values(f, fx.enums, fx.xrefs)
		muts = append(muts, vc20Mutation{field: f, val: rapid.SampledFrom(vals).Draw(t, "value")})
	}

	// An invalid value is often only looked at, or only skipped, depending on
	// a switch of an enclosing object: switch one of them as well.
	for _, m := range muts {
		if _, invalid := vc20InvalidClasses[m.val.class]; !invalid {
			continue
		}

		govs := fx.vc20Governors(m.field)
		if len(govs) == 0 || !rapid.Bool().Draw(t, "withSwitch") {
			continue
		}

		sw := rapid.SampledFrom(govs).Draw(t, "switch")
		if vals := fx.vc20SwitchValues(sw); len(vals) > 0 {
			muts = append(muts, vc20Mutation{field: sw, val: rapid.SampledFrom(vals).Draw(t, "switchValue")})
		}

		break
	}

	return muts, false
}

// vc20Weights returns field indexes repeated by weight.
func (ck *vc20Checker) vc20Weights() (weighted []int) {
	for i, f := range ck.fx.fields {
		w := 1
		switch f.kind {
		case vc20KindCount, vc20KindDuration, vc20KindSize:
			w = 6
		case vc20KindPrefixLen:
			w = 18
		case vc20KindEnum, vc20KindXRef:
			w = 8
		case vc20KindPort, vc20KindBool:
			w = 2
		}

		// The sections that feed the request path weigh more.
		switch f.path[0] {
		case "ratelimit", "cache", "dns", "upstream", "filters":
			if w > 1 {
				w *= 3
			}
		}

		for range w {
			weighted = append(weighted, i)
		}
	}

	return weighted
}

const vc20Rule = "mutations of config.dist.yaml over an automatically extracted field catalogue, loaded by parseConfig and validate; " +
	"non-trivial = a configuration different from the distributed one that was accepted, or rejected naming a mutated property; " +
	"distinct by the set of (field path, value)"

// TestVerifC20Singles enumerates every single-field mutation of the catalogue.
func TestVerifC20Singles(t *testing.T) {
	st := vstat.New("C20", "cmd.singles", "bounded-exhaustive: every catalogue field x every mutation value, one at a time; "+vc20Rule,
		"accepted", "client-ipv4-mapped", "ddr-query-served", "ddr-device-query-served", "dnscheck-query-served", "val:empty-list-element", "val:null-list-element", "val:wrong-family",
		"rejected-named", "rejected-parse", "exercise-full", "dot-real-answered", "doh-real-answered", "doq-real-answered", "dnscrypt-real-answered",
		"val:zero", "val:neg", "val:missing", "val:null", "val:huge", "val:max-family-1", "val:max-family+1",
		"val:limit-1", "val:limit+1", "val:duplicate-element", "val:wrong-enum", "val:dangling-ref",
		"kind:prefixlen", "kind:duration", "kind:size", "kind:count", "kind:enum", "kind:xref", "kind:node",
		"served-v4", "served-v6")
	st.SetExhaustive()
	st.Finish(t)

	ck := vc20NewChecker(t, st)
	col := &vc20Collector{t: t}
	sh := vc20NewShard()
	for _, f := range ck.fx.fields {
		for _, v := range vc20Values(f, ck.fx.enums, ck.fx.xrefs) {
			if !sh.mine() {
				continue
			}

			col.run(func() { ck.vc20Eval(col, []vc20Mutation{{field: f, val: v}}, false) })
		}
	}

	st.Extra("goroutines_at_end", runtime.NumGoroutine())
	st.Extra("queries_that_reached_the_loopback_upstream", ck.fx.upsCount.Load())
	col.report()
}

// vc20InvalidClasses are the classes of values that are invalid, or at least
// suspicious, almost everywhere.
var vc20InvalidClasses = map[string]struct{}{
	"null": {}, "null-list-element": {}, "empty": {}, "empty-list-element": {}, "missing": {},
	"zero": {}, "neg": {}, "wrong-type": {}, "wrong-enum": {}, "wrong-family": {}, "unspecified-address": {},
	"unparsable": {}, "dangling-ref": {}, "max-family+1": {}, "huge": {}, "duplicate-element": {}, "ipv4-mapped": {},
}

// vc20IsSwitch reports whether f is a property that switches the meaning of
// the object it belongs to: a flag or an enumeration.
func vc20IsSwitch(f *vc20Field) (ok bool) {
	_, isKey := f.path[len(f.path)-1].(string)

	return isKey && (f.kind == vc20KindBool || f.kind == vc20KindEnum)
}

// vc20SwitchValues returns the values that really switch: the other value of a
// flag, the other values of an enumeration.
func (fx *vc20Fixture) vc20SwitchValues(sw *vc20Field) (vals []vc20Value) {
	for _, v := range vc20Values(sw, fx.enums, nil) {
		switch v.class {
		case "flip", "other-enum", "set-true":
			vals = append(vals, v)
		}
	}

	return vals
}

// vc20Governors returns the switches of the objects that enclose f: the flags
// and enumerations that are properties of a mapping on the path to f.
func (fx *vc20Fixture) vc20Governors(f *vc20Field) (sws []*vc20Field) {
	for _, sw := range fx.fields {
		if sw == f || !vc20IsSwitch(sw) {
			continue
		}

		parent := sw.path[:len(sw.path)-1]
		if len(parent) >= len(f.path) {
			continue
		}

		inside := true
		for i, p := range parent {
			inside = inside && f.path[i] == p
		}

		if inside {
			sws = append(sws, sw)
		}
	}

	return sws
}

// vc20SectionName is the dotted path with list indexes generalised.
func vc20SectionName(path []any) (name string) {
	parts := make([]string, 0, len(path))
	for _, p := range path {
		if s, ok := p.(string); ok {
			parts = append(parts, s)
		} else {
			parts = append(parts, "*")
		}
	}

	return strings.Join(parts, ".")
}

// vc20DisabledSectionClasses returns the labels of a case that puts an invalid
// value into a section whose enabled flag is (or is made) false.
func (fx *vc20Fixture) vc20DisabledSectionClasses(applied []vc20Mutation) (classes []string) {
	seen := map[string]struct{}{}
	for _, m := range applied {
		if _, invalid := vc20InvalidClasses[m.val.class]; !invalid {
			continue
		}

		for _, sw := range fx.vc20Governors(m.field) {
			if sw.kind != vc20KindBool || !strings.Contains(sw.key, "enabled") {
				continue
			}

			on, _ := sw.orig.(bool)
			for _, other := range applied {
				if other.field == sw {
					on, _ = other.val.v.(bool)
				}
			}

			section := vc20SectionName(sw.path[:len(sw.path)-1])
			if _, dup := seen[section]; on || dup {
				continue
			}

			seen[section] = struct{}{}
			classes = append(classes, "invalid-value-in-disabled-section:"+section)
		}
	}

	if len(classes) > 0 {
		classes = append(classes, "invalid-value-in-disabled-section")
	}

	return classes
}

// TestVerifC20DisabledSections enumerates every switch (flag or enumeration)
// with every property nested anywhere below the object the switch belongs to:
// the switch takes its other values, the nested property its invalid values
// (null, empty, zero, negative, wrong type, wrong family ...).  A section that
// skips validation when it is switched off must skip the use of its values as
// well: whatever is accepted goes through the start-up path and serves.  (The
// direct children of the object are paired with the switch, with all values, by
// TestVerifC20Switches.)
func TestVerifC20DisabledSections(t *testing.T) {
	st := vstat.New("C20", "cmd.disabled", "bounded-exhaustive: every switch (flag or enum) x every property nested below its object x (other values of the switch) x (invalid values of the property); "+vc20Rule,
		"accepted", "client-ipv4-mapped", "ddr-query-served", "rejected-named", "exercise-full",
		"invalid-value-in-disabled-section", "invalid-value-in-disabled-section:server_groups.*.ddr",
		"invalid-value-in-disabled-section:filtering_groups.*.rule_lists", "val:null", "val:flip")
	st.SetExhaustive()
	st.Finish(t)

	ck := vc20NewChecker(t, st)
	col := &vc20Collector{t: t}
	fx := ck.fx
	sh := vc20NewShard()
	for _, f := range fx.fields {
		for _, sw := range fx.vc20Governors(f) {
			if len(f.path) <= len(sw.path) {
				// A sibling of the switch.
				continue
			}

			for _, vs := range fx.vc20SwitchValues(sw) {
				for _, vf := range vc20Values(f, fx.enums, nil) {
					if _, invalid := vc20InvalidClasses[vf.class]; !invalid {
						continue
					}

					if !sh.mine() {
						continue
					}

					col.run(func() {
						ck.vc20Eval(col, []vc20Mutation{{field: sw, val: vs}, {field: f, val: vf}}, false)
					})
				}
			}
		}
	}

	st.Extra("goroutines_at_end", runtime.NumGoroutine())
	st.Extra("queries_that_reached_the_loopback_upstream", ck.fx.upsCount.Load())
	col.report()
}

// vc20StartedClasses labels an accepted configuration whose plain-DNS servers
// were really started and answered over UDP and TCP.
func vc20StartedClasses(c *configuration, o *vc20Outcome) (classes []string) {
	full, plain, ifaces := false, false, false
	for _, cl := range o.classes {
		switch cl {
		case "exercise-full":
			full = true
		case "btd-real-answered-tcp":
			plain, ifaces = true, true
		case "dns-real-answered":
			plain = true
		}
	}

	if !full || !plain || len(o.failures) > 0 {
		return nil
	}

	classes = append(classes, "plain-dns-started-and-queried")
	if ifaces && !c.RateLimit.ConnectionLimit.Enabled {
		classes = append(classes, "pair:connection_limit.enabled=false×bind_interfaces")
	}

	if ifaces && c.RateLimit.ConnectionLimit.Enabled {
		classes = append(classes, "pair:connection_limit.enabled=true×bind_interfaces")
	}

	if !ifaces && !c.RateLimit.ConnectionLimit.Enabled {
		classes = append(classes, "pair:connection_limit.enabled=false×bind_addresses")
	}

	return classes
}

// vc20Alternative is a valid alternative to what the distributed example has:
// the other value of a flag, another documented value of an enumeration, or
// another form of a section.
type vc20Alternative struct {
	// dim is what the alternative is an alternative of; two alternatives of
	// one dimension are not combined.
	dim  string
	name string
	muts []vc20Mutation
}

// vc20Alternatives lists the valid alternatives.
func (fx *vc20Fixture) vc20Alternatives(tb testing.TB) (alts []*vc20Alternative) {
	find := func(name string) (f *vc20Field) {
		for _, f = range fx.fields {
			if f.name == name {
				return f
			}
		}

		tb.Fatalf("fixture: no field %s in the catalogue", name)

		return nil
	}

	set := func(name, class string, v any) (m vc20Mutation) {
		return vc20Mutation{field: find(name), val: vc20Value{class: class, v: v}}
	}

	// Every flag the other way; every enumeration with its other documented
	// values (the protocols of the servers are forms, below).
	valid := map[string][]string{
		"cache.type":               {"simple", "ecs"},
		"ratelimit.allowlist.type": {"backend", "consul"},
		"check.kv.type":            {"backend", "cache", "consul", "redis"},
	}
	for _, f := range fx.fields {
		switch {
		case !vc20IsSwitch(f):
			continue
		case f.kind == vc20KindBool:
			for _, v := range fx.vc20SwitchValues(f) {
				alts = append(alts, &vc20Alternative{
					dim:  f.name,
					name: fmt.Sprintf("%s=%v", f.name, v.v),
					muts: []vc20Mutation{{field: f, val: v}},
				})
			}
		default:
			for _, e := range valid[f.name] {
				if e == f.orig {
					continue
				}

				alts = append(alts, &vc20Alternative{
					dim:  f.name,
					name: f.name + "=" + e,
					muts: []vc20Mutation{{field: f, val: vc20Value{class: "other-enum", v: e}}},
				})
			}
		}
	}

	// Other forms of sections.
	vars := map[string]*vc20ServerVariant{}
	for _, v := range fx.vc20ServerVariants(tb) {
		vars[v.name] = v
	}

	servers := func(names ...string) (m vc20Mutation) {
		var list []any
		for _, n := range names {
			list = append(list, vc20Copy(vars[n].node))
		}

		return set("server_groups.0.servers", "protocol-set", list)
	}

	missing := vc20Missing{}
	forms := []*vc20Alternative{{
		dim: "servers", name: "dns server bound by bind_addresses",
		muts: []vc20Mutation{servers("dns-addrs", "tls", "https", "quic", "dnscrypt-file", "dnscrypt-inline")},
	}, {
		dim: "servers", name: "dns server bound by bind_addresses, no interface_listeners",
		muts: []vc20Mutation{
			servers("dns-addrs", "tls", "https", "quic", "dnscrypt-file", "dnscrypt-inline"),
			set("interface_listeners", "missing", missing),
		},
	}, {
		dim: "servers", name: "both dns servers: bind_interfaces and bind_addresses",
		muts: []vc20Mutation{servers("dns-ifaces", "dns-addrs", "tls")},
	}, {
		dim: "servers", name: "dns (bind_interfaces) and dnscrypt only, no tls section",
		muts: []vc20Mutation{servers("dns-ifaces", "dnscrypt-file"), set("server_groups.0.tls", "missing", missing)},
	}, {
		dim: "servers", name: "dns (bind_addresses) only, no tls section, no interface_listeners",
		muts: []vc20Mutation{
			servers("dns-addrs"),
			set("server_groups.0.tls", "missing", missing),
			set("interface_listeners", "missing", missing),
		},
	}, {
		dim: "servers", name: "dns (bind_interfaces) and quic only",
		muts: []vc20Mutation{servers("dns-ifaces", "quic")},
	}, {
		dim: "upstream.fallback", name: "one fallback server",
		muts: []vc20Mutation{set("upstream.fallback.servers.1", "missing", missing)},
	}, {
		dim: "upstream.servers", name: "one upstream server",
		muts: []vc20Mutation{set("upstream.servers.1", "missing", missing)},
	}, {
		dim: "web", name: "no web section",
		muts: []vc20Mutation{set("web", "missing", missing)},
	}, {
		dim: "cache.size", name: "cache.size=0 (no cache)",
		muts: []vc20Mutation{set("cache.size", "zero", 0)},
	}, {
		dim: "ddr.records", name: "ddr without device records",
		muts: []vc20Mutation{set("server_groups.0.ddr.device_records", "missing", missing)},
	}, {
		dim: "tls.session_keys", name: "tls without session keys",
		muts: []vc20Mutation{set("server_groups.0.tls.session_keys", "missing", missing)},
	}, {
		dim: "tls.device_id_wildcards", name: "tls without device id wildcards",
		muts: []vc20Mutation{set("server_groups.0.tls.device_id_wildcards", "missing", missing)},
	}, {
		dim: "filtering_group", name: "server group with the non_filtering group",
		muts: []vc20Mutation{set("server_groups.0.filtering_group", "other-ref", "non_filtering")},
	}, {
		dim: "backend.timeout", name: "backend.timeout=0s (no timeout)",
		muts: []vc20Mutation{set("backend.timeout", "zero", "0s")},
	}}

	return append(alts, forms...)
}

// TestVerifC20ValidPairs enumerates every valid alternative and every pair of
// valid alternatives of different sections: each flag both ways, the other
// documented values of the enumerations, and the forms of sections that the
// distributed example does not use (servers bound by addresses instead of
// interfaces, groups without tls users and without a tls section, one upstream,
// no web section, no cache ...).  Every accepted file goes through the whole
// start-up, nothing of it being skipped, including the start of the real
// listeners (those bound to interfaces behind the real bind-to-device manager)
// and UDP and TCP queries to the started plain-DNS servers.
func TestVerifC20ValidPairs(t *testing.T) {
	st := vstat.New("C20", "cmd.validpairs", "bounded-exhaustive: every valid alternative (flag the other way, other documented enum value, other form of a section) alone and every pair of alternatives of different sections; full start-up incl. real listeners for every accepted file; "+vc20Rule,
		"accepted", "exercise-full", "valid-pair-started-and-queried", "client-ipv4-mapped", "ddr-query-served",
		"pair:connection_limit.enabled=false×bind_interfaces", "pair:connection_limit.enabled=false×bind_addresses",
		"pair:connection_limit.enabled=true×bind_interfaces", "allowlist-backend-only-with-failing-backend",
		"btd-real-answered-udp", "btd-real-answered-tcp", "dns-real-answered", "dot-real-answered", "doh-real-answered", "doq-real-answered", "dnscrypt-real-answered")
	st.SetExhaustive()
	st.Finish(t)

	ck := vc20NewChecker(t, st)
	ck.fx.forceFull = true
	col := &vc20Collector{t: t}
	sh := vc20NewShard()
	alts := ck.fx.vc20Alternatives(t)
	st.Extra("valid_alternatives", len(alts))
	if os.Geteuid() != 0 {
		st.Extra("interface_listeners_not_started", "SO_BINDTODEVICE needs root")
	}

	run := func(members ...*vc20Alternative) {
		if !sh.mine() {
			return
		}

		var muts []vc20Mutation
		for _, a := range members {
			muts = append(muts, a.muts...)
		}

		col.run(func() { ck.vc20EvalClasses(col, muts, false, []string{"valid-pair"}) })
	}

	for i, a := range alts {
		run(a)
		for _, b := range alts[i+1:] {
			// Two flags of filtering groups have nothing to do with each
			// other or with the start-up: such pairs are left to the thorough
			// tier.
			bothFiltering := strings.HasPrefix(a.dim, "filtering_groups.") && strings.HasPrefix(b.dim, "filtering_groups.")
			if a.dim != b.dim && (!bothFiltering || vstat.Thorough()) {
				run(a, b)
			}
		}
	}

	st.Extra("goroutines_at_end", runtime.NumGoroutine())
	st.Extra("queries_that_reached_the_loopback_upstream", ck.fx.upsCount.Load())
	col.report()
}

// TestVerifC20BackendUsage enumerates who uses the protobuf backend (the
// allowlist: backend or consul; profiles: enabled in the server group or not;
// the DNS-check storage: backend or cache) against what the rate-limit backend
// does: answers, refuses connections, answers every call with a gRPC error,
// answers at start-up and fails on a later refresh.
func TestVerifC20BackendUsage(t *testing.T) {
	st := vstat.New("C20", "cmd.backendusage", "bounded-exhaustive: {allowlist.type backend|consul} x {profiles_enabled true|false} x {check.kv.type backend|cache} x {backend answers | refuses connections | returns a gRPC error | fails on a later refresh}; builder.initGRPCMetrics and builder.initRateLimiter are the package's own; "+vc20Rule,
		"accepted", "exercise-full", "allowlist-backend-only-with-failing-backend", "allowlist-backend-answers", "allowlist-backend-fails-later",
		"backend:answers", "backend:refuses", "backend:grpc-error", "backend:fails-later")
	st.SetExhaustive()
	st.Finish(t)

	ck := vc20NewChecker(t, st)
	ck.fx.forceFull = true
	col := &vc20Collector{t: t}
	fx := ck.fx
	be := vc20StartRateLimitBackend(t)
	fx.rlBackend = be
	find := func(name string) (f *vc20Field) {
		for _, f = range fx.fields {
			if f.name == name {
				return f
			}
		}

		t.Fatalf("fixture: no field %s in the catalogue", name)

		return nil
	}

	allowType, profiles, kvType := find("ratelimit.allowlist.type"), find("server_groups.0.profiles_enabled"), find("check.kv.type")
	for _, behaviour := range []string{"answers", "refuses", "grpc-error", "fails-later"} {
		for _, at := range []string{"backend", "consul"} {
			for _, prof := range []bool{true, false} {
				for _, kv := range []string{"backend", "cache"} {
					be.refuse = behaviour == "refuses"
					be.laterFail = behaviour == "fails-later"
					be.fail.Store(behaviour == "grpc-error")

					var muts []vc20Mutation
					if at != allowType.orig {
						muts = append(muts, vc20Mutation{field: allowType, val: vc20Value{class: "other-enum", v: at}})
					}

					if prof != profiles.orig {
						muts = append(muts, vc20Mutation{field: profiles, val: vc20Value{class: "flip", v: prof}})
					}

					if kv != kvType.orig {
						muts = append(muts, vc20Mutation{field: kvType, val: vc20Value{class: "other-enum", v: kv}})
					}

					col.run(func() { ck.vc20EvalClasses(col, muts, false, []string{"backend:" + behaviour}) })
				}
			}
		}
	}

	be.refuse, be.laterFail = false, false
	be.fail.Store(false)
	st.Extra("rate_limit_backend_calls", be.calls.Load())
	col.report()
}

// TestVerifC20RefreshIntervals runs the profile database and its refresh worker,
// the one the builder starts with a randomised start, with tiny, small and
// ordinary values of backend.refresh_interval, with profiles enabled and not.
func TestVerifC20RefreshIntervals(t *testing.T) {
	st := vstat.New("C20", "cmd.refreshintervals", "bounded-exhaustive: backend.refresh_interval in {1ns,5ns,9ns,10ns,11ns,99ns,100ns,1us,1ms,15s,1h} x profiles_enabled {true,false}; builder.initProfileDB is the package's own, against a fake profiles backend; the worker ticks, is checked for a recovered panic in the log, and is shut down by the signal handler; "+vc20Rule,
		"accepted", "exercise-full", "refresh-interval-below-10ns-with-profiles-enabled", "profiledb-refresh-loop-alive", "profiledb-disabled", "val:tiny")
	st.SetExhaustive()
	st.Finish(t)

	ck := vc20NewChecker(t, st)
	col := &vc20Collector{t: t}
	fx := ck.fx
	fx.profBackend = vc20StartProfilesBackend(t)
	find := func(name string) (f *vc20Field) {
		for _, f = range fx.fields {
			if f.name == name {
				return f
			}
		}

		t.Fatalf("fixture: no field %s in the catalogue", name)

		return nil
	}

	ivl, profiles := find("backend.refresh_interval"), find("server_groups.0.profiles_enabled")
	for _, v := range []string{"1ns", "5ns", "9ns", "10ns", "11ns", "99ns", "100ns", "1us", "1ms", "15s", "1h"} {
		for _, prof := range []bool{true, false} {
			var muts []vc20Mutation
			if v != ivl.orig {
				cls := "near"
				if len(v) <= 4 && strings.HasSuffix(v, "ns") {
					cls = "tiny"
				}

				muts = append(muts, vc20Mutation{field: ivl, val: vc20Value{class: cls, v: v}})
			}

			if prof != profiles.orig {
				muts = append(muts, vc20Mutation{field: profiles, val: vc20Value{class: "flip", v: prof}})
			}

			col.run(func() { ck.vc20Eval(col, muts, false) })
		}
	}

	st.Extra("profiles_backend_calls", fx.profBackend.calls.Load())
	st.Extra("goroutines_at_end", runtime.NumGoroutine())
	col.report()
}

// TestVerifC20Switches enumerates, for every object of the configuration, every
// pair of a switch or enum property and another property of the same object
// with all their values: the requirements on many values depend on a sibling
// ("if enabled", "for consul the TTL must be ...", "if set to ecs, ecs_size
// must be greater than zero").
func TestVerifC20Switches(t *testing.T) {
	st := vstat.New("C20", "cmd.switches", "bounded-exhaustive: per mapping, every (bool or enum child, other child: scalar, list or object) pair x all values of both; "+vc20Rule,
		"accepted", "client-ipv4-mapped", "ddr-query-served", "rejected-named", "exercise-full", "kind:enum", "kind:bool", "kind:node", "val:zero", "val:flip", "val:other-enum",
		"val:set-true", "val:null", "invalid-value-in-disabled-section",
		"invalid-value-in-disabled-section:ratelimit.connection_limit", "invalid-value-in-disabled-section:dnsdb",
		"invalid-value-in-disabled-section:upstream.healthcheck", "invalid-value-in-disabled-section:ratelimit.tcp",
		"invalid-value-in-disabled-section:ratelimit.quic")
	st.SetExhaustive()
	st.Finish(t)

	ck := vc20NewChecker(t, st)
	col := &vc20Collector{t: t}
	fx := ck.fx
	sh := vc20NewShard()
	isSwitch := func(f *vc20Field) (ok bool) { return f.kind == vc20KindBool || f.kind == vc20KindEnum }
	for _, grp := range fx.groups {
		for i, ai := range grp {
			for _, bi := range grp[i+1:] {
				a, b := fx.fields[ai], fx.fields[bi]
				if !isSwitch(a) && !isSwitch(b) {
					continue
				}

				for _, va := range vc20Values(a, fx.enums, nil) {
					for _, vb := range vc20Values(b, fx.enums, nil) {
						if !sh.mine() {
							continue
						}

						col.run(func() {
							ck.vc20Eval(col, []vc20Mutation{{field: a, val: va}, {field: b, val: vb}}, false)
						})
					}
				}
			}
		}
	}

	st.Extra("goroutines_at_end", runtime.NumGoroutine())
	st.Extra("queries_that_reached_the_loopback_upstream", ck.fx.upsCount.Load())
	col.report()
}

// vc20ServerVariant is a server of a generated server group.
type vc20ServerVariant struct {
	name  string
	proto string

	// needsTLS tells that the documentation lists the protocol as one that
	// uses the group's TLS settings.
	needsTLS bool
	node     yaml.MapSlice
}

// vc20MapSet returns m with key set to v (or removed if v is vc20Missing).
func vc20MapSet(m yaml.MapSlice, key string, v any) (res yaml.MapSlice) {
	out, _ := vc20Set(m, []any{key}, v)
	res, _ = out.(yaml.MapSlice)

	return res
}

// vc20ServerVariants derives, from the servers of the distributed example,
// one server per protocol and way of binding, plus servers whose sections do
// not fit their protocol.
func (fx *vc20Fixture) vc20ServerVariants(tb testing.TB) (vars []*vc20ServerVariant) {
	node, ok := vc20Get(fx.base, []any{"server_groups", 0, "servers"})
	if !ok {
		tb.Fatalf("fixture: the distributed configuration has no server_groups.0.servers")
	}

	byProto := map[string]yaml.MapSlice{}
	var inline, iface yaml.MapSlice
	for _, it := range node.([]any) {
		srv := it.(yaml.MapSlice)
		proto, _ := vc20Get(srv, []any{"protocol"})
		p := fmt.Sprint(proto)
		if _, isInline := vc20Get(srv, []any{"dnscrypt", "inline"}); isInline {
			inline = srv
		} else if _, seen := byProto[p]; !seen {
			byProto[p] = srv
		}

		if _, hasIfaces := vc20Get(srv, []any{"bind_interfaces"}); hasIfaces && iface == nil {
			iface = srv
		}
	}

	for _, p := range []string{"dns", "tls", "https", "quic", "dnscrypt"} {
		if byProto[p] == nil {
			tb.Fatalf("fixture: the distributed configuration has no %s server", p)
		}
	}

	if inline == nil || iface == nil {
		tb.Fatalf("fixture: the distributed configuration has no inline dnscrypt server or no bind_interfaces")
	}

	ifaces, _ := vc20Get(iface, []any{"bind_interfaces"})
	dcSection, _ := vc20Get(byProto["dnscrypt"], []any{"dnscrypt"})
	mk := func(name, proto string, from yaml.MapSlice, edit func(m yaml.MapSlice) yaml.MapSlice) {
		m := vc20MapSet(vc20Copy(from).(yaml.MapSlice), "name", "c20_"+name)
		if edit != nil {
			m = edit(m)
		}

		vars = append(vars, &vc20ServerVariant{
			name:     name,
			proto:    proto,
			needsTLS: proto == "tls" || proto == "https" || proto == "quic",
			node:     m,
		})
	}

	withIfaces := func(m yaml.MapSlice) yaml.MapSlice {
		return vc20MapSet(vc20MapSet(m, "bind_addresses", vc20Missing{}), "bind_interfaces", vc20Copy(ifaces))
	}

	mk("dns-ifaces", "dns", byProto["dns"], nil)
	mk("dns-addrs", "dns", byProto["dns"], func(m yaml.MapSlice) yaml.MapSlice {
		return vc20MapSet(vc20MapSet(m, "bind_interfaces", vc20Missing{}), "bind_addresses", []any{"127.0.0.1:5354"})
	})
	mk("tls", "tls", byProto["tls"], nil)
	mk("https", "https", byProto["https"], nil)
	mk("quic", "quic", byProto["quic"], nil)
	mk("dnscrypt-file", "dnscrypt", byProto["dnscrypt"], nil)
	mk("dnscrypt-inline", "dnscrypt", inline, nil)

	// Sections that do not fit the protocol.
	mk("tls-ifaces", "tls", byProto["tls"], withIfaces)
	mk("quic-ifaces", "quic", byProto["quic"], withIfaces)
	mk("https-both-binds", "https", byProto["https"], func(m yaml.MapSlice) yaml.MapSlice {
		return vc20MapSet(m, "bind_interfaces", vc20Copy(ifaces))
	})
	mk("dnscrypt-no-section", "dnscrypt", byProto["dnscrypt"], func(m yaml.MapSlice) yaml.MapSlice {
		return vc20MapSet(m, "dnscrypt", vc20Missing{})
	})
	mk("quic-with-dnscrypt-section", "quic", byProto["quic"], func(m yaml.MapSlice) yaml.MapSlice {
		return vc20MapSet(m, "dnscrypt", vc20Copy(dcSection))
	})
	mk("dns-with-dnscrypt-section", "dns", byProto["dns"], func(m yaml.MapSlice) yaml.MapSlice {
		return vc20MapSet(m, "dnscrypt", vc20Copy(dcSection))
	})

	return vars
}

// vc20TLSStates are the states of the tls section of a generated server group.
var vc20TLSStates = []string{"present", "absent", "null", "empty", "no-certificates"}

// vc20ProtocolSet returns the mutations that make the first server group
// consist of the given servers with its tls section in the given state, and
// the classes of the case.
func (fx *vc20Fixture) vc20ProtocolSet(
	tb vc20T,
	members []*vc20ServerVariant,
	tlsState string,
) (muts []vc20Mutation, classes []string) {
	find := func(name string) (f *vc20Field) {
		for _, f = range fx.fields {
			if f.name == name {
				return f
			}
		}

		tb.Fatalf("fixture: no field %s in the catalogue", name)

		return nil
	}

	var list []any
	tlsUsers := map[string]struct{}{}
	for _, m := range members {
		list = append(list, vc20Copy(m.node))
		if m.needsTLS {
			tlsUsers[m.proto] = struct{}{}
		}
	}

	muts = append(muts, vc20Mutation{
		field: find("server_groups.0.servers"),
		val:   vc20Value{class: "protocol-set", v: list},
	})

	switch tlsState {
	case "absent":
		muts = append(muts, vc20Mutation{field: find("server_groups.0.tls"), val: vc20Value{class: "missing", v: vc20Missing{}}})
	case "null":
		muts = append(muts, vc20Mutation{field: find("server_groups.0.tls"), val: vc20Value{class: "null", v: nil}})
	case "empty":
		muts = append(muts, vc20Mutation{field: find("server_groups.0.tls"), val: vc20Value{class: "empty", v: yaml.MapSlice{}}})
	case "no-certificates":
		muts = append(muts, vc20Mutation{field: find("server_groups.0.tls.certificates"), val: vc20Value{class: "empty", v: []any{}}})
	}

	classes = append(classes, "tls-section:"+tlsState, fmt.Sprintf("servers-in-group:%d", len(members)))
	if _, quic := tlsUsers["quic"]; quic && len(tlsUsers) == 1 {
		classes = append(classes, "quic-only-group")
	}

	if len(tlsUsers) == 1 {
		for p := range tlsUsers {
			classes = append(classes, "only-tls-user:"+p)
		}
	}

	if len(tlsUsers) == 0 {
		classes = append(classes, "no-tls-user")
	}

	return muts, classes
}

// TestVerifC20ProtocolSets enumerates server groups made of every single server
// variant and every pair of them (each protocol, bound to addresses or to
// interfaces, with and without the sections that belong to other protocols),
// crossed with the states of the group's tls section.
func TestVerifC20ProtocolSets(t *testing.T) {
	st := vstat.New("C20", "cmd.protocolsets", "bounded-exhaustive: server group = every single server variant and every pair (dns/tls/https/quic/dnscrypt x addresses/interfaces x fitting/unfitting sections) x tls section present/absent/null/empty/without certificates; real listeners of every protocol are started and queried; "+vc20Rule,
		"accepted", "client-ipv4-mapped", "ddr-query-served", "rejected-named", "exercise-full", "quic-only-group", "only-tls-user:tls", "only-tls-user:https", "no-tls-user",
		"tls-section:present", "tls-section:absent", "tls-section:empty",
		"dns-real-answered", "dot-real-answered", "doh-real-answered", "doq-real-answered", "dnscrypt-real-answered")
	st.SetExhaustive()
	st.Finish(t)

	ck := vc20NewChecker(t, st)
	col := &vc20Collector{t: t}
	sh := vc20NewShard()
	vars := ck.fx.vc20ServerVariants(t)

	var sets [][]*vc20ServerVariant
	for i, a := range vars {
		sets = append(sets, []*vc20ServerVariant{a})
		for _, b := range vars[i+1:] {
			sets = append(sets, []*vc20ServerVariant{a, b})
		}
	}

	for _, set := range sets {
		for _, tlsState := range vc20TLSStates {
			if !sh.mine() {
				continue
			}

			col.run(func() {
				muts, classes := ck.fx.vc20ProtocolSet(col, set, tlsState)
				ck.vc20EvalClasses(col, muts, false, classes)
			})
		}
	}

	st.Extra("goroutines_at_end", runtime.NumGoroutine())
	st.Extra("queries_that_reached_the_loopback_upstream", ck.fx.upsCount.Load())
	col.report()
}

// TestVerifC20Thresholds enumerates, for every pair of integer properties of
// one object (stop and resume, size and ecs_size, the ports of a DDR record,
// count and subnet_key_len), all combinations of boundary values in both
// orders.
func TestVerifC20Thresholds(t *testing.T) {
	st := vstat.New("C20", "cmd.thresholds", "bounded-exhaustive: per mapping, every pair of integer siblings x boundary values {0,1,2,3,each original and its neighbours,2^31-1,2^63-1} of both; "+vc20Rule,
		"accepted", "client-ipv4-mapped", "ddr-query-served", "rejected-named", "exercise-full", "threshold-pair",
		"val:zero", "val:below-sibling", "val:equal-sibling", "val:above-sibling")
	st.SetExhaustive()
	st.Finish(t)

	ck := vc20NewChecker(t, st)
	col := &vc20Collector{t: t}
	fx := ck.fx
	sh := vc20NewShard()
	for _, grp := range fx.siblings {
		for i, ai := range grp {
			for _, bi := range grp[i+1:] {
				a, b := fx.fields[ai], fx.fields[bi]
				thresholds := vc20Thresholds(a, b)
				for _, va := range thresholds {
					for _, vb := range thresholds {
						if !sh.mine() {
							continue
						}

						col.run(func() { ck.vc20Eval(col, vc20ThresholdPair(a, b, va, vb), true) })
					}
				}
			}
		}
	}

	st.Extra("goroutines_at_end", runtime.NumGoroutine())
	st.Extra("queries_that_reached_the_loopback_upstream", ck.fx.upsCount.Load())
	col.report()
}

// TestVerifC20Mutate draws subsets of one to four fields and threshold pairs.
func TestVerifC20Mutate(t *testing.T) {
	st := vstat.New("C20", "cmd.mutate", "rapid: 1-4 fields (biased to one), properties of one object, a pair of sibling thresholds in all orders, or a generated server group of 1-3 servers x tls section states; "+vc20Rule,
		"accepted", "client-ipv4-mapped", "ddr-query-served", "rejected-named", "rejected-parse", "exercise-full", "threshold-pair",
		"dot-real-answered", "doh-real-answered", "doq-real-answered", "dnscrypt-real-answered", "quic-only-group",
		"val:empty-list-element", "val:wrong-family", "invalid-value-in-disabled-section",
		"mutations:1", "mutations:2", "mutations:3",
		"val:zero", "val:neg", "val:missing", "val:null", "val:huge",
		"kind:prefixlen", "kind:duration", "kind:size", "kind:count", "kind:enum", "kind:xref",
		"served-v4", "served-v6")
	st.Finish(t)

	ck := vc20NewChecker(t, st)
	weighted := ck.vc20Weights()

	ck.variants = ck.fx.vc20ServerVariants(t)

	rapid.Check(t, func(t *rapid.T) {
		ck.drawnClasses = nil
		muts, pair := ck.vc20DrawMutations(t, weighted)
		ck.vc20EvalClasses(t, muts, pair, ck.drawnClasses)
	})

	st.Extra("queries_that_reached_the_loopback_upstream", ck.fx.upsCount.Load())
}
