//go:build verif

package cmd

// C20 fixture: the files the distributed configuration refers to, a loopback
// upstream, and an environment in which nothing outside the process is needed.

import (
	"context"
	"crypto/ecdsa"
	"crypto/elliptic"
	"crypto/rand"
	"crypto/x509"
	"crypto/x509/pkix"
	"encoding/pem"
	"fmt"
	"math/big"
	"net"
	"net/netip"
	"net/url"
	"os"
	"path/filepath"
	"runtime"
	"strconv"
	"strings"
	"sync/atomic"
	"testing"
	"time"

	"github.com/AdguardTeam/AdGuardDNS/internal/backendpb"
	"github.com/AdguardTeam/AdGuardDNS/internal/geoip"
	"github.com/AdguardTeam/golibs/netutil/urlutil"
	"github.com/AdguardTeam/golibs/timeutil"
	"github.com/c2h5oh/datasize"
	"github.com/miekg/dns"
	"google.golang.org/grpc"
	"google.golang.org/grpc/codes"
	"google.golang.org/grpc/credentials/insecure"
	"google.golang.org/grpc/metadata"
	"google.golang.org/grpc/status"
	"gopkg.in/yaml.v2"
)

// vc20Fixture is what every case of one test process shares.
type vc20Fixture struct {
	dir      string
	repo     string
	upstream netip.AddrPort
	upsCount *atomic.Int64

	// closed is a loopback TCP address nothing listens on.
	closed string

	// rlBackend, if not nil, is the fake rate-limit backend the environment
	// points to; otherwise nothing listens at the backend's address.
	rlBackend *vc20RateLimitBackend

	// profBackend, if not nil, is the fake profiles backend: the exercise
	// then runs builder.initProfileDB with its refresh worker.
	profBackend *vc20ProfilesBackend

	// forceFull makes the exercise create, start and query the listeners for
	// every configuration (the other steps are repeated only if their input
	// differs from that of the distributed configuration, as always).
	forceFull bool

	// nextPort counts the ports handed out by vc20FreePort; basePorts are the
	// ports in the base tree.
	nextPort  int
	basePorts map[int]struct{}

	// portBack maps the fresh ports of the current case to the ports of the
	// base tree they stand for.
	portBack map[uint16]uint16

	// dualStack tells that a wildcard IPv6 socket can be bound and reached
	// from the IPv4 loopback address.
	dualStack bool

	base   yaml.MapSlice
	fields []*vc20Field

	// baseConf and baseGeo are the parsed distributed configuration and the
	// GeoIP database built from it; they are set once the distributed
	// configuration has been exercised completely.
	baseConf *configuration

	// baseIfaces is the interface-listener section of baseConf with the ports
	// of the base tree.
	baseIfaces *interfaceListenersConfig
	baseGeo    *geoip.File

	enums map[string][]string
	xrefs []string

	// siblings lists, per mapping, the indexes of integer fields that are
	// direct children of the same mapping (threshold pairs).
	siblings [][]int

	// groups lists, per mapping with at least two children, the indexes of
	// those children (scalars and nodes).
	groups [][]int
}

func vc20RepoDir() (dir string) {
	dir = os.Getenv("VERIF_REPO")
	if dir == "" {
		dir = "/repo"
	}

	return dir
}

const vc20DNSCryptYAML = `provider_name: '2.dnscrypt-cert.example.org'
public_key: 'F11DDBCC4817E543845FDDD4CB881849B64226F3DE397625669D87B919BC4FB0'
private_key: '5752095FFA56D963569951AFE70FE1690F378D13D8AD6F8054DFAA100907F8B6F11DDBCC4817E543845FDDD4CB881849B64226F3DE397625669D87B919BC4FB0'
resolver_secret: '9E46E79FEB3AB3D45F4EB3EA957DEAF5D9639A0179F1850AFABA7E58F87C74C4'
resolver_public: '9327C5E64783E19C339BD6B680A56DB85521CC6E4E0CA5DF5274E2D3CE026C6B'
es_version: 1
certificate_ttl: 8760h
`

// vc20WriteCert writes a self-signed certificate and its key.
func vc20WriteCert(tb testing.TB, certPath, keyPath string) {
	key, err := ecdsa.GenerateKey(elliptic.P256(), rand.Reader)
	if err != nil {
		tb.Fatalf("fixture: generating key: %v", err)
	}

	tmpl := &x509.Certificate{
		SerialNumber: big.NewInt(20),
		Subject:      pkix.Name{CommonName: "dns.example.com"},
		DNSNames:     []string{"dns.example.com", "*.dns.example.com", "*.d.dns.example.com"},
		NotBefore:    time.Now().Add(-time.Hour),
		NotAfter:     time.Now().Add(240 * time.Hour),
		KeyUsage:     x509.KeyUsageDigitalSignature,
		ExtKeyUsage:  []x509.ExtKeyUsage{x509.ExtKeyUsageServerAuth},
	}

	der, err := x509.CreateCertificate(rand.Reader, tmpl, tmpl, &key.PublicKey, key)
	if err != nil {
		tb.Fatalf("fixture: creating certificate: %v", err)
	}

	keyDER, err := x509.MarshalECPrivateKey(key)
	if err != nil {
		tb.Fatalf("fixture: marshalling key: %v", err)
	}

	certPEM := pem.EncodeToMemory(&pem.Block{Type: "CERTIFICATE", Bytes: der})
	keyPEM := pem.EncodeToMemory(&pem.Block{Type: "EC PRIVATE KEY", Bytes: keyDER})
	if err = os.WriteFile(certPath, certPEM, 0o600); err != nil {
		tb.Fatalf("fixture: %v", err)
	}

	if err = os.WriteFile(keyPath, keyPEM, 0o600); err != nil {
		tb.Fatalf("fixture: %v", err)
	}
}

// vc20StartUpstream starts a loopback DNS server (UDP and TCP on the same
// port) that answers every A/AAAA question with one record.
func vc20StartUpstream(tb testing.TB) (addr netip.AddrPort, count *atomic.Int64) {
	count = &atomic.Int64{}
	h := dns.HandlerFunc(func(w dns.ResponseWriter, req *dns.Msg) {
		count.Add(1)
		resp := (&dns.Msg{}).SetReply(req)
		resp.RecursionAvailable = true
		if len(req.Question) == 1 {
			q := req.Question[0]
			hdr := dns.RR_Header{Name: q.Name, Rrtype: q.Qtype, Class: dns.ClassINET, Ttl: 300}
			switch q.Qtype {
			case dns.TypeA:
				resp.Answer = append(resp.Answer, &dns.A{Hdr: hdr, A: net.IP{192, 0, 2, 80}})
			case dns.TypeAAAA:
				resp.Answer = append(resp.Answer, &dns.AAAA{Hdr: hdr, AAAA: net.ParseIP("2001:db8::80")})
			}
		}

		_ = w.WriteMsg(resp)
	})

	var pc net.PacketConn
	var l net.Listener
	var err error
	for range 20 {
		pc, err = net.ListenPacket("udp", "127.0.0.1:0")
		if err != nil {
			tb.Fatalf("fixture: listening udp: %v", err)
		}

		port := pc.LocalAddr().(*net.UDPAddr).Port
		l, err = net.Listen("tcp", fmt.Sprintf("127.0.0.1:%d", port))
		if err == nil {
			break
		}

		_ = pc.Close()
	}

	if err != nil {
		tb.Fatalf("fixture: listening tcp: %v", err)
	}

	udpSrv := &dns.Server{PacketConn: pc, Handler: h}
	tcpSrv := &dns.Server{Listener: l, Handler: h}
	go func() { _ = udpSrv.ActivateAndServe() }()
	go func() { _ = tcpSrv.ActivateAndServe() }()
	tb.Cleanup(func() {
		_ = udpSrv.Shutdown()
		_ = tcpSrv.Shutdown()
	})

	return netip.MustParseAddrPort(pc.LocalAddr().String()), count
}

// vc20Rebind binds the base tree to the fixture: file paths, the interface
// name and the upstream addresses.
func (fx *vc20Fixture) vc20Rebind(tb testing.TB, n any, path []any) (res any) {
	switch n := n.(type) {
	case yaml.MapSlice:
		for i, it := range n {
			n[i].Value = fx.vc20Rebind(tb, it.Value, append(path, fmt.Sprint(it.Key)))
		}

		return n
	case []any:
		for i, it := range n {
			n[i] = fx.vc20Rebind(tb, it, append(path, i))
		}

		return n
	case int:
		// The interface listeners get free ports of this process, so that they
		// can really be started on the loopback interface.
		if len(path) > 0 && path[0] == "interface_listeners" && path[len(path)-1] == "port" {
			port := fx.vc20FreePort(tb)
			fx.basePorts[port] = struct{}{}

			return port
		}

		return n
	case string:
		key := ""
		for i := len(path) - 1; i >= 0 && key == ""; i-- {
			key, _ = path[i].(string)
		}

		switch {
		case strings.HasPrefix(n, "./test/"):
			p := filepath.Join(fx.dir, filepath.Base(n))
			if _, err := os.Stat(p); err != nil {
				if err = os.WriteFile(p, []byte("<html><body>c20</body></html>\n"), 0o600); err != nil {
					tb.Fatalf("fixture: %v", err)
				}
			}

			return p
		case key == "interface":
			return "lo"
		case key == "subnets" && path[0] == "server_groups":
			// A single-address subnet: queries to that address are not looked
			// up as dedicated addresses of profiles.
			return "127.0.0.1/32"
		case key == "address" && path[0] == "upstream":
			if scheme, _, ok := strings.Cut(n, "://"); ok {
				return scheme + "://" + fx.upstream.String()
			}

			return fx.upstream.String()
		}
	}

	return n
}

// vc20FreePort returns a port for an interface listener.  The ports are taken
// from a slice, chosen by the process identifier, of a range below the range
// the kernel assigns ephemeral ports from: a bind-to-device socket of an
// earlier case that is still closing (the manager does not wait for that) must
// not share its port with a listener on an ephemeral port of a later case, or
// it would take that listener's datagrams; nor with another process of the
// check.  The ports of the slice are used in turn, and only if nothing else
// holds them at the moment.
func (fx *vc20Fixture) vc20FreePort(tb testing.TB) (port int) {
	const (
		rangeStart = 10240
		sliceWidth = 60
		slices     = 360
	)

	base := rangeStart + (os.Getpid()%slices)*sliceWidth
	for i := range 2 * sliceWidth {
		if i == sliceWidth {
			// Sockets of finished cases are closed by their finalizers.
			runtime.GC()
			time.Sleep(50 * time.Millisecond)
		}

		port = base + fx.nextPort%sliceWidth
		fx.nextPort++

		pc, err := net.ListenPacket("udp", fmt.Sprintf("127.0.0.1:%d", port))
		if err != nil {
			continue
		}

		l, err := net.Listen("tcp", fmt.Sprintf("127.0.0.1:%d", port))
		_ = pc.Close()
		if err != nil {
			continue
		}

		_ = l.Close()

		return port
	}

	tb.Fatalf("fixture: no free port in %d-%d", base, base+sliceWidth)

	return 0
}

// vc20FreshPorts gives the interface listeners of tree, which is a private copy,
// ports that no earlier case of this process has used: the bind-to-device
// manager does not wait for its sockets to close on shutdown, and a socket of
// the previous case on the same port would take the datagrams of this one.
func (fx *vc20Fixture) vc20FreshPorts(tb testing.TB, tree any) {
	fx.portBack = map[uint16]uint16{}
	list, ok := vc20Get(tree, []any{"interface_listeners", "list"})
	if !ok {
		return
	}

	m, ok := list.(yaml.MapSlice)
	if !ok {
		return
	}

	for _, it := range m {
		l, isMap := it.Value.(yaml.MapSlice)
		if !isMap {
			continue
		}

		for i, kv := range l {
			port, isInt := kv.Value.(int)
			if _, isBase := fx.basePorts[port]; kv.Key == "port" && isInt && isBase {
				fresh := fx.vc20FreePort(tb)
				l[i].Value = fresh
				fx.portBack[uint16(fresh)] = uint16(port)
			}
		}
	}
}

// vc20ProfilesBackendAddr returns the address of the profiles backend.
func (fx *vc20Fixture) vc20ProfilesBackendAddr() (hostport string) {
	if fx.profBackend != nil {
		return fx.profBackend.addr
	}

	return fx.closed
}

// vc20RateLimitBackend returns the address of the rate-limit backend.
func (fx *vc20Fixture) vc20RateLimitBackend() (hostport string) {
	if fx.rlBackend != nil && !fx.rlBackend.refuse {
		return fx.rlBackend.addr
	}

	return fx.closed
}

// vc20RateLimitBackend is a fake gRPC rate-limit backend whose behaviour can be
// switched.
type vc20RateLimitBackend struct {
	backendpb.UnimplementedRateLimitServiceServer

	addr string

	// refuse makes the environment point to a closed port instead; fail makes
	// every call end in a gRPC error.
	// laterFail makes the exercise fail the backend after a successful
	// start-up and refresh again.
	refuse    bool
	laterFail bool
	fail      atomic.Bool
	calls     atomic.Int64
}

// GetRateLimitSettings implements the [backendpb.RateLimitServiceServer]
// interface for *vc20RateLimitBackend.
func (s *vc20RateLimitBackend) GetRateLimitSettings(
	_ context.Context,
	_ *backendpb.RateLimitSettingsRequest,
) (resp *backendpb.RateLimitSettingsResponse, err error) {
	s.calls.Add(1)
	if s.fail.Load() {
		return nil, status.Error(codes.Unavailable, "c20: the backend is failing")
	}

	return &backendpb.RateLimitSettingsResponse{
		AllowedSubnets: []*backendpb.CidrRange{{Address: []byte{203, 0, 113, 7}, Prefix: 32}},
	}, nil
}

// vc20ProfilesBackend is a fake gRPC profiles backend without profiles.
type vc20ProfilesBackend struct {
	backendpb.UnimplementedDNSServiceServer

	addr  string
	calls atomic.Int64
}

// GetDNSProfiles implements the [backendpb.DNSServiceServer] interface for
// *vc20ProfilesBackend.
func (s *vc20ProfilesBackend) GetDNSProfiles(
	_ *backendpb.DNSProfilesRequest,
	srv grpc.ServerStreamingServer[backendpb.DNSProfile],
) (err error) {
	s.calls.Add(1)
	srv.SetTrailer(metadata.Pairs("sync_time", strconv.FormatInt(time.Now().UnixMilli(), 10)))

	return nil
}

// vc20StartProfilesBackend starts the fake profiles backend on a loopback port.
func vc20StartProfilesBackend(tb testing.TB) (s *vc20ProfilesBackend) {
	ln, err := net.Listen("tcp", "127.0.0.1:0")
	if err != nil {
		tb.Fatalf("fixture: %v", err)
	}

	s = &vc20ProfilesBackend{addr: ln.Addr().String()}
	grpcSrv := grpc.NewServer(grpc.ConnectionTimeout(time.Second), grpc.Creds(insecure.NewCredentials()))
	backendpb.RegisterDNSServiceServer(grpcSrv, s)
	go func() { _ = grpcSrv.Serve(ln) }()
	tb.Cleanup(grpcSrv.Stop)

	return s
}

// vc20StartRateLimitBackend starts the fake backend on a loopback port.
func vc20StartRateLimitBackend(tb testing.TB) (s *vc20RateLimitBackend) {
	ln, err := net.Listen("tcp", "127.0.0.1:0")
	if err != nil {
		tb.Fatalf("fixture: %v", err)
	}

	s = &vc20RateLimitBackend{addr: ln.Addr().String()}
	grpcSrv := grpc.NewServer(grpc.ConnectionTimeout(time.Second), grpc.Creds(insecure.NewCredentials()))
	backendpb.RegisterRateLimitServiceServer(grpcSrv, s)
	go func() { _ = grpcSrv.Serve(ln) }()
	tb.Cleanup(grpcSrv.Stop)

	return s
}

// vc20NewFixture prepares the fixture.
func vc20NewFixture(tb testing.TB) (fx *vc20Fixture) {
	fx = &vc20Fixture{dir: tb.TempDir(), repo: vc20RepoDir(), basePorts: map[int]struct{}{}}
	fx.upstream, fx.upsCount = vc20StartUpstream(tb)

	l, err := net.Listen("tcp", "127.0.0.1:0")
	if err != nil {
		tb.Fatalf("fixture: %v", err)
	}

	fx.closed = l.Addr().String()
	_ = l.Close()

	if l6, err6 := net.Listen("tcp", "[::]:0"); err6 == nil {
		_, port, _ := net.SplitHostPort(l6.Addr().String())
		if c4, err4 := net.DialTimeout("tcp4", net.JoinHostPort("127.0.0.1", port), time.Second); err4 == nil {
			fx.dualStack = true
			_ = c4.Close()
		}

		_ = l6.Close()
	}

	vc20WriteCert(tb, filepath.Join(fx.dir, "cert.crt"), filepath.Join(fx.dir, "cert.key"))
	for _, name := range []string{"tls_key_1", "tls_key_2"} {
		key := []byte(strings.Repeat(name[len(name)-1:], 32))
		if err := os.WriteFile(filepath.Join(fx.dir, name), key, 0o600); err != nil {
			tb.Fatalf("fixture: %v", err)
		}
	}

	if err := os.WriteFile(filepath.Join(fx.dir, "dnscrypt.yml"), []byte(vc20DNSCryptYAML), 0o600); err != nil {
		tb.Fatalf("fixture: %v", err)
	}

	if err := os.MkdirAll(filepath.Join(fx.dir, "filters"), 0o700); err != nil {
		tb.Fatalf("fixture: %v", err)
	}

	var text []byte
	text, err = os.ReadFile(filepath.Join(fx.repo, "config.dist.yaml"))
	if err != nil {
		tb.Fatalf("fixture: reading the distributed configuration: %v", err)
	}

	root, err := vc20Parse(text)
	if err != nil {
		tb.Fatalf("fixture: parsing the distributed configuration: %v", err)
	}

	fx.base = fx.vc20Rebind(tb, root, nil).(yaml.MapSlice)
	fx.fields = vc20Catalogue(fx.base)

	// Documented properties that the distributed example does not set (it
	// spells refuse_any as "refuseany", which the parser ignores).
	for _, extra := range [][]any{{"ratelimit", "refuse_any"}} {
		if _, present := vc20Get(fx.base, extra); !present {
			fx.fields = append(fx.fields, &vc20Field{
				path: extra,
				name: vc20PathName(extra),
				key:  extra[len(extra)-1].(string),
				kind: vc20KindBool,
				orig: vc20Missing{},
			})
		}
	}
	fx.enums = vc20EnumPool(fx.fields)

	seen := map[string]struct{}{}
	byParent := map[string][]int{}
	var parents []string
	for i, f := range fx.fields {
		if f.kind == vc20KindXRef {
			s := f.orig.(string)
			if _, ok := seen[s]; !ok {
				seen[s] = struct{}{}
				fx.xrefs = append(fx.xrefs, s)
			}
		}

		if f.kind == vc20KindCount || f.kind == vc20KindPort || f.kind == vc20KindPrefixLen {
			if _, isKey := f.path[len(f.path)-1].(string); isKey {
				parent := vc20PathName(f.path[:len(f.path)-1])
				if _, ok := byParent[parent]; !ok {
					parents = append(parents, parent)
				}

				byParent[parent] = append(byParent[parent], i)
			}
		}
	}

	for _, p := range parents {
		if len(byParent[p]) >= 2 {
			fx.siblings = append(fx.siblings, byParent[p])
		}
	}

	leaves := map[string][]int{}
	var leafParents []string
	for i, f := range fx.fields {
		if _, isKey := f.path[len(f.path)-1].(string); !isKey {
			continue
		}

		parent := vc20PathName(f.path[:len(f.path)-1])
		if _, ok := leaves[parent]; !ok {
			leafParents = append(leafParents, parent)
		}

		leaves[parent] = append(leaves[parent], i)
	}

	for _, p := range leafParents {
		if len(leaves[p]) >= 2 {
			fx.groups = append(fx.groups, leaves[p])
		}
	}

	return fx
}

func vc20URL(s string) (u *urlutil.URL) {
	parsed, err := url.Parse(s)
	if err != nil {
		panic(err)
	}

	return &urlutil.URL{URL: *parsed}
}

// vc20Environment returns a complete environment.  Every URL points at a file
// on a loopback port nothing listens on, so
// that the steps of the start-up that need the outside world fail fast with
// an error instead of being attempted.
func (fx *vc20Fixture) vc20Environment() (envs *environment) {
	missing := func(name string) (u *urlutil.URL) {
		return vc20URL("http://" + fx.closed + "/" + name)
	}

	return &environment{
		AdultBlockingURL:         missing("adult.txt"),
		BackendRateLimitURL:      vc20URL("grpc://" + fx.vc20RateLimitBackend()),
		BillStatURL:              vc20URL("grpc://127.0.0.1:9"),
		BlockedServiceIndexURL:   missing("services.json"),
		ConsulAllowlistURL:       vc20URL("http://" + fx.closed + "/allowlist"),
		ConsulDNSCheckKVURL:      vc20URL("http://127.0.0.1:9/v1/kv/c20"),
		ConsulDNSCheckSessionURL: vc20URL("http://127.0.0.1:9/v1/session/create"),
		DNSCheckRemoteKVURL:      vc20URL("grpc://127.0.0.1:9"),
		FilterIndexURL:           missing("filters.json"),
		GeneralSafeSearchURL:     missing("general_ss.txt"),
		LinkedIPTargetURL:        vc20URL("http://127.0.0.1:9/"),
		NewRegDomainsURL:         missing("newreg.txt"),
		ProfilesURL:              vc20URL("grpc://" + fx.vc20ProfilesBackendAddr()),
		RuleStatURL:              vc20URL("http://127.0.0.1:9/rulestat"),
		SafeBrowsingURL:          missing("sb.txt"),
		YoutubeSafeSearchURL:     missing("yt_ss.txt"),

		ConfPath:          filepath.Join(fx.dir, "config.yaml"),
		FilterCachePath:   filepath.Join(fx.dir, "filters"),
		GeoIPASNPath:      filepath.Join(fx.repo, "internal/geoip/testdata/GeoIP2-ISP-Test.mmdb"),
		GeoIPCountryPath:  filepath.Join(fx.repo, "internal/geoip/testdata/GeoIP2-City-Test.mmdb"),
		ProfilesCachePath: "none",
		RedisAddr:         "127.0.0.1",
		RedisKeyPrefix:    "agdns",
		QueryLogPath:      filepath.Join(fx.dir, "querylog.jsonl"),
		SentryDSN:         "stderr",

		ListenAddr: net.IP{127, 0, 0, 1},

		ProfilesMaxRespSize: 64 * datasize.MB,
		RedisIdleTimeout:    timeutil.Duration{Duration: 30 * time.Second},

		DNSCheckCacheKVSize: 1000,
		RedisMaxActive:      10,
		RedisMaxIdle:        3,
		ListenPort:          8181,
		RedisPort:           6379,

		AdultBlockingEnabled:     true,
		LogTimestamp:             true,
		NewRegDomainsEnabled:     true,
		SafeBrowsingEnabled:      true,
		BlockedServiceEnabled:    true,
		GeneralSafeSearchEnabled: true,
		YoutubeSafeSearchEnabled: true,
	}
}
