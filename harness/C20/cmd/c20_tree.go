//go:build verif

package cmd

// C20: a configuration that passes validation cannot make request handling
// fail.  This file holds the YAML tree of config.dist.yaml, the field catalogue
// extracted from it and the mutation values.  See /verif/DESIGN.md, section 3,
// C20.

import (
	"fmt"
	"math"
	"net/netip"
	"regexp"
	"sort"
	"strconv"
	"strings"

	"gopkg.in/yaml.v2"
)

// vc20Kind is the kind of a catalogue entry.
type vc20Kind string

const (
	vc20KindCount     vc20Kind = "count"
	vc20KindPrefixLen vc20Kind = "prefixlen"
	vc20KindPort      vc20Kind = "port"
	vc20KindDuration  vc20Kind = "duration"
	vc20KindSize      vc20Kind = "size"
	vc20KindBool      vc20Kind = "bool"
	vc20KindEnum      vc20Kind = "enum"
	vc20KindXRef      vc20Kind = "xref"
	vc20KindAddr      vc20Kind = "addr"
	vc20KindString    vc20Kind = "string"
	vc20KindNode      vc20Kind = "node"
)

// vc20Field is one entry of the catalogue: a place in the YAML tree that can be
// mutated.
type vc20Field struct {
	// path is the list of mapping keys (string) and sequence indexes (int).
	path []any

	// name is the dotted form of path.
	name string

	// key is the innermost mapping key on the path; altKey is the key of the
	// mapping that encloses the sequence when the leaf is a sequence element
	// of a sequence that is itself a mapping value ("ids" -> "rule_lists").
	key    string
	altKey string

	kind vc20Kind
	orig any

	// isSeq tells for node entries whether the node is a sequence.
	isSeq bool
}

// vc20Missing is the mutation value that removes the entry.
type vc20Missing struct{}

// vc20Value is a mutation value together with its class label.
type vc20Value struct {
	class string
	v     any
}

var (
	vc20DurRe  = regexp.MustCompile(`^-?\d+(\.\d+)?(ns|us|µs|ms|s|m|h)(\d+(\.\d+)?(ns|us|µs|ms|s|m|h))*$`)
	vc20SizeRe = regexp.MustCompile(`(?i)^\d+\s*[kmgtpe]?b$`)
)

func vc20PathName(path []any) (s string) {
	parts := make([]string, 0, len(path))
	for _, p := range path {
		parts = append(parts, fmt.Sprint(p))
	}

	return strings.Join(parts, ".")
}

// vc20Parse parses text into an order-preserving tree.
func vc20Parse(text []byte) (root yaml.MapSlice, err error) {
	err = yaml.Unmarshal(text, &root)

	return root, err
}

// vc20Copy returns a deep copy of n.
func vc20Copy(n any) (c any) {
	switch n := n.(type) {
	case yaml.MapSlice:
		out := make(yaml.MapSlice, len(n))
		for i, it := range n {
			out[i] = yaml.MapItem{Key: it.Key, Value: vc20Copy(it.Value)}
		}

		return out
	case []any:
		out := make([]any, len(n))
		for i, it := range n {
			out[i] = vc20Copy(it)
		}

		return out
	default:
		return n
	}
}

// vc20Get returns the node at path.
func vc20Get(n any, path []any) (v any, ok bool) {
	for _, p := range path {
		switch p := p.(type) {
		case string:
			m, isMap := n.(yaml.MapSlice)
			if !isMap {
				return nil, false
			}

			found := false
			for _, it := range m {
				if it.Key == p {
					n, found = it.Value, true

					break
				}
			}

			if !found {
				return nil, false
			}
		case int:
			s, isSeq := n.([]any)
			if !isSeq || p >= len(s) {
				return nil, false
			}

			n = s[p]
		}
	}

	return n, true
}

// vc20Set returns n with the node at path replaced by v (or removed when v is
// vc20Missing).  n must be a private copy; it is modified.  ok is false if the
// path does not exist any more (an enclosing node has been removed by an
// earlier mutation).
func vc20Set(n any, path []any, v any) (res any, ok bool) {
	if len(path) == 0 {
		return v, true
	}

	_, del := v.(vc20Missing)
	switch p := path[0].(type) {
	case string:
		m, isMap := n.(yaml.MapSlice)
		if !isMap {
			return n, false
		}

		for i, it := range m {
			if it.Key != p {
				continue
			}

			if len(path) == 1 && del {
				return append(m[:i:i], m[i+1:]...), true
			}

			m[i].Value, ok = vc20Set(it.Value, path[1:], v)

			return m, ok
		}

		if len(path) == 1 && !del {
			// A key the distributed example does not have.
			return append(m, yaml.MapItem{Key: p, Value: v}), true
		}

		return n, false
	case int:
		s, isSeq := n.([]any)
		if !isSeq || p >= len(s) {
			return n, false
		}

		if len(path) == 1 && del {
			return append(s[:p:p], s[p+1:]...), true
		}

		s[p], ok = vc20Set(s[p], path[1:], v)

		return s, ok
	}

	return n, false
}

// vc20Catalogue walks the tree and returns the mutable places.
func vc20Catalogue(root yaml.MapSlice) (fields []*vc20Field) {
	// Count how often every string occurs as a scalar value or as a mapping
	// key: a string that occurs more than once is a cross-reference
	// candidate.
	occ := map[string]int{}
	var count func(n any)
	count = func(n any) {
		switch n := n.(type) {
		case yaml.MapSlice:
			for _, it := range n {
				occ[fmt.Sprint(it.Key)]++
				count(it.Value)
			}
		case []any:
			for _, it := range n {
				count(it)
			}
		case string:
			occ[n]++
		}
	}
	count(root)

	var walk func(n any, path []any, key, altKey string)
	walk = func(n any, path []any, key, altKey string) {
		f := &vc20Field{
			path:   append([]any{}, path...),
			name:   vc20PathName(path),
			key:    key,
			altKey: altKey,
			orig:   n,
		}

		switch n := n.(type) {
		case yaml.MapSlice:
			if len(path) > 0 {
				f.kind = vc20KindNode
				// Removing the objects of a mapping empties the mapping, which
				// is reported under its own key ("list: empty value").
				for j := len(path) - 2; j >= 0 && f.altKey == ""; j-- {
					f.altKey, _ = path[j].(string)
				}

				fields = append(fields, f)
			}

			for _, it := range n {
				k := fmt.Sprint(it.Key)
				walk(it.Value, append(path, k), k, "")
			}

			return
		case []any:
			f.kind, f.isSeq = vc20KindNode, true
			// Errors about a list of plain values are reported under the
			// object that holds the list ("rule_lists: at index 1: id: ...").
			for j := len(path) - 2; j >= 0 && f.altKey == ""; j-- {
				f.altKey, _ = path[j].(string)
			}

			fields = append(fields, f)
			for i, it := range n {
				// Elements keep the key of the sequence; the enclosing mapping's
				// key is the alternative name.
				enclosing := ""
				for j := len(path) - 2; j >= 0; j-- {
					if s, ok := path[j].(string); ok {
						enclosing = s

						break
					}
				}

				walk(it, append(path, i), key, enclosing)
			}

			return
		case bool:
			f.kind = vc20KindBool
		case int, int64, uint64:
			switch {
			case strings.Contains(key, "key_len") || strings.Contains(key, "prefix_len"):
				f.kind = vc20KindPrefixLen
			case strings.HasSuffix(key, "port"):
				f.kind = vc20KindPort
			default:
				f.kind = vc20KindCount
			}
		case string:
			switch {
			case vc20DurRe.MatchString(n):
				f.kind = vc20KindDuration
			case vc20SizeRe.MatchString(n):
				f.kind = vc20KindSize
			case key == "type" || key == "protocol":
				f.kind = vc20KindEnum
			case vc20AddrForm(n) != "":
				f.kind = vc20KindAddr
			case occ[n] > 1 && !strings.ContainsAny(n, "/:") && n != "":
				f.kind = vc20KindXRef
			default:
				f.kind = vc20KindString
			}
		case nil:
			f.kind = vc20KindString
		default:
			f.kind = vc20KindString
		}

		fields = append(fields, f)
	}

	walk(root, nil, "", "")

	return fields
}

// vc20AddrForm tells whether s is an IP address ("addr"), an address with a
// port ("addrport") or a prefix ("prefix"), possibly behind a scheme, and
// returns "" otherwise.
func vc20AddrForm(s string) (form string) {
	if _, rest, ok := strings.Cut(s, "://"); ok {
		s = rest
	}

	if _, err := netip.ParseAddr(s); err == nil {
		return "addr"
	} else if _, err = netip.ParseAddrPort(s); err == nil {
		return "addrport"
	} else if _, err = netip.ParsePrefix(s); err == nil {
		return "prefix"
	}

	return ""
}

// vc20AddrValues returns the odd addresses tried in place of orig.
func vc20AddrValues(orig string) (vals []vc20Value) {
	scheme := ""
	rest := orig
	if sch, r, ok := strings.Cut(orig, "://"); ok {
		scheme, rest = sch+"://", r
	}

	is6 := strings.Contains(rest, ":") && strings.Count(rest, ":") > 1
	var other, same, mapped, unspec string
	switch vc20AddrForm(orig) {
	case "addr":
		other, same, mapped, unspec = "2001:db8::c20", "192.0.2.20", "::ffff:192.0.2.20", "0.0.0.0"
		if is6 {
			other, same, unspec = same, other, "::"
		}
	case "addrport":
		other, same, mapped, unspec = "[2001:db8::c20]:5353", "192.0.2.20:5353", "[::ffff:192.0.2.20]:5353", "0.0.0.0:0"
		if is6 {
			other, same, unspec = same, other, "[::]:0"
		}
	case "prefix":
		other, same, mapped, unspec = "2001:db8:c20::/48", "192.0.2.0/25", "::ffff:192.0.2.0/120", "0.0.0.0/0"
		if is6 {
			other, same, unspec = same, other, "::/0"
		}
	}

	return []vc20Value{
		{class: "wrong-family", v: scheme + other},
		{class: "other-address", v: scheme + same},
		{class: "ipv4-mapped", v: scheme + mapped},
		{class: "unspecified-address", v: scheme + unspec},
		{class: "unparsable", v: scheme + "c20-not-an-address"},
		{class: "empty", v: scheme},
	}
}

// vc20EnumPool returns, for enum fields, the values seen under the same key
// anywhere in the tree plus the tokens the documentation lists.
func vc20EnumPool(fields []*vc20Field) (pool map[string][]string) {
	sets := map[string]map[string]struct{}{
		"type":     {"ecs": {}, "simple": {}, "backend": {}, "consul": {}, "redis": {}, "cache": {}},
		"protocol": {"dns": {}, "dnscrypt": {}, "https": {}, "quic": {}, "tls": {}},
	}
	for _, f := range fields {
		if f.kind != vc20KindEnum {
			continue
		}

		if sets[f.key] == nil {
			sets[f.key] = map[string]struct{}{}
		}

		sets[f.key][f.orig.(string)] = struct{}{}
	}

	pool = map[string][]string{}
	for k, s := range sets {
		for v := range s {
			pool[k] = append(pool[k], v)
		}

		sort.Strings(pool[k])
	}

	return pool
}

func vc20OrigInt(v any) (n int64, ok bool) {
	switch v := v.(type) {
	case int:
		return int64(v), true
	case int64:
		return v, true
	case uint64:
		if v > math.MaxInt64 {
			return math.MaxInt64, true
		}

		return int64(v), true
	}

	return 0, false
}

// vc20Values returns the mutation values of a field.  xrefs are the other
// cross-reference strings of the tree.
func vc20Values(f *vc20Field, enums map[string][]string, xrefs []string) (vals []vc20Value) {
	add := func(class string, v any) {
		switch v.(type) {
		case yaml.MapSlice, []any:
			// Nodes are never equal to their replacement unless both are
			// empty, which makes no difference.
		default:
			if v == f.orig {
				return
			}
		}

		vals = append(vals, vc20Value{class: class, v: v})
	}

	ints := func(family int64) {
		add("zero", 0)
		add("neg", -1)
		add("one", 1)
		add("two", 2)
		if family > 0 {
			add("max-family", int(family))
			add("max-family+1", int(family+1))
		}

		add("2^31-1", math.MaxInt32)
		add("huge", 1<<31)
		add("huge", int64(math.MaxInt64))
		add("huge", uint64(math.MaxUint64))
		if o, ok := vc20OrigInt(f.orig); ok && o > 2 && o < math.MaxInt32 {
			add("near", int(o-1))
			add("near", int(o+1))
		}
	}

	switch f.kind {
	case vc20KindCount:
		ints(0)
	case vc20KindPrefixLen:
		ints(0)
		for _, n := range []int{7, 8, 23, 24, 25, 31, 32, 33, 47, 48, 49, 64, 127, 128, 129} {
			switch n {
			case 32, 128:
				add("max-family", n)
			case 33, 129:
				add("max-family+1", n)
			case 31, 127:
				add("max-family-1", n)
			default:
				add("near", n)
			}
		}
	case vc20KindPort:
		ints(65535)
	case vc20KindDuration:
		add("zero", "0s")
		add("neg", "-1s")
		add("neg", "-1ns")
		add("one", "1ns")
		// Tiny positive values: a tenth, or a rounded fraction, of these is
		// zero.
		add("tiny", "5ns")
		add("tiny", "9ns")
		add("tiny", "10ns")
		add("tiny", "11ns")
		add("near", "1ms")
		add("near", "1s")
		add("near", "9s")
		add("near", "10s")
		add("near", "30s")
		add("near", "31s")
		add("near", "24h")
		add("near", "25h")
		// Exactly below, at and above the documented limits: 1ms (redis TTL),
		// 10s and 24h (consul TTL), 6553.5s (TCP idle timeout).
		add("limit-1", "999us")
		add("limit-1", "9.999s")
		add("limit+1", "10.001s")
		add("limit-1", "23h59m59.999s")
		add("limit+1", "24h0m0.001s")
		add("limit-1", "6553.499s")
		add("limit", "6553.5s")
		add("limit+1", "6553.501s")
		add("near", "1.5s")
		add("near", "499ms")
		add("near", "501ms")
		add("huge", "2562047h")
		add("unparsable", "9999999h")
		add("unparsable", "1d")
	case vc20KindSize:
		add("zero", "0B")
		add("zero", 0)
		add("neg", "-1B")
		add("one", "1B")
		add("near", "511B")
		add("near", "1KB")
		add("near", "513B")
		add("max-family-1", "65534B")
		add("max-family", "65535B")
		add("max-family+1", "65536B")
		add("max-family+1", "64KB")
		add("near", "65537B")
		add("limit-1", "2147483646B")
		add("2^31-1", "2147483647B")
		add("huge", "2GB")
		add("huge", "4GB")
		add("huge", "15EB")
		add("unparsable", "99999EB")
	case vc20KindBool:
		if _, absent := f.orig.(vc20Missing); absent {
			// A documented property that the distributed example does not
			// set.
			return []vc20Value{{class: "set-true", v: true}, {class: "set-false", v: false}}
		}

		add("flip", !f.orig.(bool))
	case vc20KindEnum:
		for _, e := range enums[f.key] {
			add("other-enum", e)
		}

		add("wrong-enum", "bogus")
		add("empty", "")
	case vc20KindXRef:
		add("dangling-ref", "nonexistent_ref")
		add("empty", "")
		for _, x := range xrefs {
			add("other-ref", x)
		}
	case vc20KindAddr:
		for _, v := range vc20AddrValues(f.orig.(string)) {
			add(v.class, v.v)
		}

		add("empty", "")
	case vc20KindString:
		add("empty", "")
	case vc20KindNode:
		if f.isSeq {
			add("empty", []any{})
			if seq := f.orig.([]any); len(seq) > 0 {
				// The same element twice.
				dup := append(vc20Copy(seq).([]any), vc20Copy(seq[0]))
				add("duplicate-element", dup)
			}
		} else {
			add("empty", yaml.MapSlice{})
		}

		add("wrong-type", "c20-scalar-instead-of-node")
	}

	if f.kind != vc20KindNode {
		add("wrong-type", []any{"c20-list-instead-of-scalar"})
	}

	// An explicit null is not the same thing as a missing key to every
	// consumer.
	vals = append(vals, vc20Value{class: "null", v: nil})
	vals = append(vals, vc20Value{class: "missing", v: vc20Missing{}})

	// An empty or null element of a list is a different thing to a consumer
	// than an empty or null property: the list still has an entry, with the
	// zero value of its type.
	if _, isElem := f.path[len(f.path)-1].(int); isElem {
		seen := map[string]struct{}{}
		out := vals[:0]
		for _, v := range vals {
			switch v.class {
			case "empty", "null":
				v.class += "-list-element"
			}

			k := v.class + "/" + vc20ValueString(v.v)
			if _, dup := seen[k]; dup {
				continue
			}

			seen[k] = struct{}{}
			out = append(out, v)
		}

		vals = out
	}

	return vals
}

// vc20ValueString renders a mutation value for keys, messages and samples.
func vc20ValueString(v any) (s string) {
	switch v := v.(type) {
	case vc20Missing:
		return "<missing>"
	case string:
		return strconv.Quote(v)
	case nil:
		return "null"
	case yaml.MapSlice:
		return "{}"
	case []any:
		if len(v) == 0 {
			return "[]"
		}

		// Objects with names are told apart by them.
		var names []string
		for _, el := range v {
			if name, ok := vc20Get(el, []any{"name"}); ok {
				names = append(names, fmt.Sprint(name))
			}
		}

		if len(names) > 0 {
			return fmt.Sprintf("[%d elements: %s]", len(v), strings.Join(names, " "))
		}

		return fmt.Sprintf("[%d elements]", len(v))
	default:
		return fmt.Sprint(v)
	}
}
