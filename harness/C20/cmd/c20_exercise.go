//go:build verif

package cmd

// C20: what is done with a configuration that passed validation.  The objects
// the builder would create are created through the package's own conversions
// and builder methods where those do not need the outside world, and a few
// representative queries are served through the real handler chain.

import (
	"context"
	"crypto/tls"
	"errors"
	"fmt"
	"math"
	"net"
	"net/http"
	"net/netip"
	"net/url"
	"os"
	"reflect"
	"runtime/debug"
	"strings"
	"sync"
	"time"
	"unsafe"

	"github.com/AdguardTeam/AdGuardDNS/internal/agd"
	"github.com/AdguardTeam/AdGuardDNS/internal/agdcache"
	"github.com/AdguardTeam/AdGuardDNS/internal/agdtest"
	"github.com/AdguardTeam/AdGuardDNS/internal/billstat"
	"github.com/AdguardTeam/AdGuardDNS/internal/debugsvc"
	"github.com/AdguardTeam/AdGuardDNS/internal/dnsmsg"
	"github.com/AdguardTeam/AdGuardDNS/internal/dnsserver"
	"github.com/AdguardTeam/AdGuardDNS/internal/dnsserver/forward"
	"github.com/AdguardTeam/AdGuardDNS/internal/dnsserver/ratelimit"
	"github.com/AdguardTeam/AdGuardDNS/internal/dnssvc"
	"github.com/AdguardTeam/AdGuardDNS/internal/filter"
	"github.com/AdguardTeam/AdGuardDNS/internal/filter/hashprefix"
	"github.com/AdguardTeam/AdGuardDNS/internal/geoip"
	"github.com/AdguardTeam/AdGuardDNS/internal/metrics"
	"github.com/AdguardTeam/AdGuardDNS/internal/profiledb"
	"github.com/AdguardTeam/AdGuardDNS/internal/querylog"
	"github.com/AdguardTeam/AdGuardDNS/internal/rulestat"
	"github.com/AdguardTeam/AdGuardDNS/internal/websvc"
	"github.com/AdguardTeam/golibs/logutil/slogutil"
	"github.com/AdguardTeam/golibs/netutil"
	"github.com/miekg/dns"
	"github.com/panjf2000/ants/v2"
	"github.com/prometheus/client_golang/prometheus"
)

// vc20Outcome is the result of exercising one accepted configuration.
type vc20Outcome struct {
	// failures are violations: a panic, a division by zero, a query that a
	// fresh client cannot get answered.
	failures []string

	// stepErrs maps a start-up step to the error it returned.
	stepErrs map[string]string

	// classes are histogram labels.
	classes []string

	// timeouts counts the queries that ended in a deadline error; they decide
	// nothing.
	timeouts int

	// geo is the GeoIP database that was built.
	geo *geoip.File
}

func (o *vc20Outcome) fail(format string, args ...any) {
	o.failures = append(o.failures, fmt.Sprintf(format, args...))
}

// step runs f, turning a panic into a failure and recording a returned error.
// ok is true if f returned without error.
func (o *vc20Outcome) step(name string, f func() (err error)) (ok bool) {
	defer func() {
		if v := recover(); v != nil {
			o.fail("%s: panic: %v\n%s", name, v, vc20Stack())
			ok = false
		}
	}()

	err := f()
	if err != nil {
		o.stepErrs[name] = err.Error()

		return false
	}

	return true
}

// vc20Stack returns the frames of the current goroutine's stack that belong to
// the repository, innermost first, shortened.
func vc20Stack() (s string) {
	var lines []string
	for _, l := range strings.Split(string(debug.Stack()), "\n") {
		if strings.HasPrefix(l, "\t") && strings.Contains(l, "/internal/") && !strings.Contains(l, "zz_verif_") {
			l = strings.TrimSpace(l)
			if i := strings.Index(l, "/internal/"); i >= 0 {
				l = l[i+1:]
			}

			if i := strings.Index(l, " +0x"); i >= 0 {
				l = l[:i]
			}

			lines = append(lines, "        at "+l)
		}

		if len(lines) == 6 {
			break
		}
	}

	return strings.Join(lines, "\n")
}

// vc20ErrColl collects the errors the code reports as non-critical.
type vc20ErrColl struct {
	mu   sync.Mutex
	errs []error
}

func (c *vc20ErrColl) Collect(_ context.Context, err error) {
	c.mu.Lock()
	defer c.mu.Unlock()

	c.errs = append(c.errs, err)
}

// vc20RW is a recording response writer.
type vc20RW struct {
	local  net.Addr
	remote net.Addr
	resp   *dns.Msg
}

func (rw *vc20RW) LocalAddr() (a net.Addr)  { return rw.local }
func (rw *vc20RW) RemoteAddr() (a net.Addr) { return rw.remote }
func (rw *vc20RW) WriteMsg(_ context.Context, _, resp *dns.Msg) (err error) {
	rw.resp = resp

	return nil
}

// vc20Listener is a listener that hands out one side of an in-memory pipe per
// Accept.
type vc20Listener struct{}

func (vc20Listener) Accept() (c net.Conn, err error) {
	c, other := net.Pipe()
	_ = other.Close()

	return c, nil
}

func (vc20Listener) Close() (err error) { return nil }
func (vc20Listener) Addr() (a net.Addr) {
	return &net.TCPAddr{IP: net.IP{127, 0, 0, 1}, Port: 853}
}

// vc20KnownLists are the rule lists the pretended filter index has.
var vc20KnownLists = map[filter.ID]struct{}{"adguard_dns_filter": {}}

// vc20IsTimeout reports whether err is a deadline error of some kind.
func vc20IsTimeout(err error) (ok bool) {
	var ne net.Error

	return errors.Is(err, context.DeadlineExceeded) ||
		errors.Is(err, os.ErrDeadlineExceeded) ||
		(errors.As(err, &ne) && ne.Timeout())
}

// vc20SaneTimeouts reports whether all timeouts that bound the handling of a
// query over the loopback interface are generous enough for the answer to be
// required rather than merely permitted.
func vc20SaneTimeouts(c *configuration) (ok bool) {
	const enough = 500 * time.Millisecond
	if c.DNS.HandleTimeout.Duration < enough {
		return false
	}

	for _, s := range c.Upstream.Servers {
		if s.Timeout.Duration < enough {
			return false
		}
	}

	for _, s := range c.Upstream.Fallback.Servers {
		if s.Timeout.Duration < enough {
			return false
		}
	}

	return true
}

// vc20Clients are the fresh clients: documentation addresses that are neither
// allowlisted nor blocked in the distributed configuration.
var (
	vc20ClientV4 = netip.MustParseAddr("192.0.2.55")
	vc20ClientV6 = netip.MustParseAddr("2001:db8:1::55")
)

// vc20AllocHazard reports whether creating a request counter for n requests
// would really allocate an unreasonable amount of memory in the harness
// process (as opposed to failing immediately or being small).
func vc20AllocHazard(n uint) (ok bool) {
	return n > 1<<22 && n < 1<<46
}

// vc20MemoryHazard names a value of c that makes a constructor preallocate an
// amount of memory the harness process must not ask for (LRU caches and
// channels are preallocated to their configured size).  Whether the server
// should refuse such sizes is not part of the property: no upper bounds are
// documented for them.
func vc20MemoryHazard(c *configuration) (what string) {
	const limit = 1 << 22
	sizes := map[string]int{
		"cache.size":                       c.Cache.Size,
		"cache.ecs_size":                   c.Cache.ECSSize,
		"geoip.host_cache_size":            c.GeoIP.HostCacheSize,
		"geoip.ip_cache_size":              c.GeoIP.IPCacheSize,
		"safe_browsing.cache_size":         c.SafeBrowsing.CacheSize,
		"adult_blocking.cache_size":        c.AdultBlocking.CacheSize,
		"filters.custom_filter_cache_size": c.Filters.CustomFilterCacheSize,
		"filters.safe_search_cache_size":   c.Filters.SafeSearchCacheSize,
		"filters.rule_list_cache.size":     c.Filters.RuleListCache.Size,
		"dnsdb.max_size":                   c.DNSDB.MaxSize,
	}
	if il := c.InterfaceListeners; il != nil {
		sizes["interface_listeners.channel_buffer_size"] = il.ChannelBufferSize
	}

	for name, n := range sizes {
		if n > limit {
			return name
		}
	}

	if vc20AllocHazard(c.RateLimit.IPv4.Count) || vc20AllocHazard(c.RateLimit.IPv6.Count) {
		return "ratelimit.count"
	}

	return ""
}

// vc20BigResponse returns a response of about 4 KiB.
func vc20BigResponse(req *dns.Msg) (resp *dns.Msg) {
	resp = (&dns.Msg{}).SetReply(req)
	txt := strings.Repeat("x", 200)
	for range 19 {
		resp.Answer = append(resp.Answer, &dns.TXT{
			Hdr: dns.RR_Header{Name: req.Question[0].Name, Rrtype: dns.TypeTXT, Class: dns.ClassINET, Ttl: 10},
			Txt: []string{txt},
		})
	}

	return resp
}

// vc20ExerciseRateLimit creates the rate limiter exactly as the builder does
// and checks it with a fresh IPv4 and a fresh IPv6 client.
func (o *vc20Outcome) vc20ExerciseRateLimit(c *configuration) {
	rc := c.RateLimit
	if vc20AllocHazard(rc.IPv4.Count) || vc20AllocHazard(rc.IPv6.Count) {
		o.classes = append(o.classes, "ratelimit-skipped-alloc-hazard")

		return
	}

	ctx := context.Background()
	req := (&dns.Msg{}).SetQuestion("c20-ratelimit.example.net.", dns.TypeA)
	small := (&dns.Msg{}).SetReply(req)
	big := vc20BigResponse(req)

	for _, ip := range []netip.Addr{vc20ClientV4, vc20ClientV6} {
		fam := "ipv4"
		if ip.Is6() {
			fam = "ipv6"
		}

		o.step("ratelimit-"+fam, func() (err error) {
			allowSubnets := netutil.UnembedPrefixes(rc.Allowlist.List)
			allowlist := ratelimit.NewDynamicAllowlist(allowSubnets, nil)
			for _, p := range allowSubnets {
				if p.Contains(ip) {
					o.classes = append(o.classes, "client-allowlisted")

					return nil
				}
			}

			// "If true, refuse DNS queries with the ANY type"; otherwise the
			// first ANY query of a fresh client is a query like any other.
			anyReq := (&dns.Msg{}).SetQuestion("c20-ratelimit.example.net.", dns.TypeANY)
			anyDrop, _, anyErr := ratelimit.NewBackoff(rc.toInternal(allowlist)).IsRateLimited(ctx, anyReq, ip)
			if anyErr != nil || anyDrop != rc.RefuseANY {
				o.fail("ratelimit %s: refuse_any is %t but the first ANY query of a fresh client: dropped %t, error %v",
					fam, rc.RefuseANY, anyDrop, anyErr)
			}

			l := ratelimit.NewBackoff(rc.toInternal(allowlist))
			drop, allowlisted, err := l.IsRateLimited(ctx, req, ip)
			switch {
			case err != nil:
				o.fail("ratelimit %s: first request of a fresh client: error %v", fam, err)
			case allowlisted:
				o.fail("ratelimit %s: client %s is not in the allowlist but was allowlisted", fam, ip)
			case drop:
				o.fail("ratelimit %s: the first request of a fresh client is dropped", fam)
			}

			l.CountResponses(ctx, small, ip)
			l.CountResponses(ctx, big, ip)
			_, _, err = l.IsRateLimited(ctx, req, ip)
			if err != nil {
				o.fail("ratelimit %s: request after responses: error %v", fam, err)
			}

			// The per-profile rate limiter gets the same response-size
			// estimate through the profile storage.
			pl := agd.NewDefaultRatelimiter(&agd.RatelimitConfig{RPS: 10, Enabled: true}, rc.ResponseSizeEstimate)
			if res := pl.Check(ctx, req, ip); res != agd.RatelimitResultPass {
				o.fail("profile ratelimit %s: first request: result %v", fam, res)
			}

			pl.CountResponses(ctx, small, ip)
			pl.CountResponses(ctx, big, ip)

			return nil
		})
	}
}

// vc20ExerciseConnLimit creates the connection limiter as the builder does and
// accepts, closes and accepts again through it.
func (o *vc20Outcome) vc20ExerciseConnLimit(c *configuration) {
	o.step("connlimit", func() (err error) {
		l := c.RateLimit.ConnectionLimit.toInternal(slogutil.NewDiscardLogger())
		if l == nil {
			o.classes = append(o.classes, "connlimit-off")

			return nil
		}

		lsnr := l.Limit(vc20Listener{}, &dnsserver.ServerInfo{
			Name:  "c20",
			Addr:  "127.0.0.1:853",
			Proto: dnsserver.ProtoDoT,
		})

		// With any stop >= 1 and resume <= stop an accept on an idle limiter,
		// and an accept after the only connection has been closed, cannot
		// wait.
		done := make(chan error, 1)
		go func() {
			defer func() {
				if v := recover(); v != nil {
					done <- fmt.Errorf("panic: %v", v)
				}
			}()

			for range 3 {
				conn, accErr := lsnr.Accept()
				if accErr != nil {
					done <- fmt.Errorf("accept: %w", accErr)

					return
				}

				_ = conn.Close()
			}

			done <- nil
		}()

		select {
		case err = <-done:
			if err != nil {
				o.fail("connlimit stop=%d resume=%d: %v", c.RateLimit.ConnectionLimit.Stop, c.RateLimit.ConnectionLimit.Resume, err)
			}
		case <-time.After(20 * time.Second):
			// Not a verdict.
			o.timeouts++
			o.classes = append(o.classes, "connlimit-wait-timeout")
			_ = lsnr.Close()
		}

		return nil
	})
}

// vc20Fidelity checks that the conversions hand every constructor the value
// of the property that is documented to set it.
func (o *vc20Outcome) vc20Fidelity(c *configuration, srvGrps []*agd.ServerGroup) {
	type pair struct {
		name      string
		got, want any
	}

	rc := c.RateLimit
	var pairs []pair
	o.step("fidelity-ratelimit", func() (err error) {
		bc := rc.toInternal(nil)
		pairs = append(pairs,
			pair{"ratelimit.response_size_estimate", bc.ResponseSizeEstimate, rc.ResponseSizeEstimate},
			pair{"ratelimit.backoff_duration", bc.Duration, rc.BackoffDuration.Duration},
			pair{"ratelimit.backoff_period", bc.Period, rc.BackoffPeriod.Duration},
			pair{"ratelimit.backoff_count", bc.Count, rc.BackoffCount},
			pair{"ratelimit.ipv4.count", bc.IPv4Count, rc.IPv4.Count},
			pair{"ratelimit.ipv4.interval", bc.IPv4Interval, rc.IPv4.Interval.Duration},
			pair{"ratelimit.ipv4.subnet_key_len", bc.IPv4SubnetKeyLen, rc.IPv4.SubnetKeyLen},
			pair{"ratelimit.ipv6.count", bc.IPv6Count, rc.IPv6.Count},
			pair{"ratelimit.ipv6.interval", bc.IPv6Interval, rc.IPv6.Interval.Duration},
			pair{"ratelimit.ipv6.subnet_key_len", bc.IPv6SubnetKeyLen, rc.IPv6.SubnetKeyLen},
			pair{"ratelimit.refuse_any", bc.RefuseANY, rc.RefuseANY},
		)

		return nil
	})

	o.step("fidelity-cache", func() (err error) {
		cc := c.Cache.toInternal()
		wantType := dnssvc.CacheTypeECS
		switch {
		case c.Cache.Size == 0:
			// "If zero, cache is disabled."
			wantType = dnssvc.CacheTypeNone
		case c.Cache.Type == cacheTypeSimple:
			wantType = dnssvc.CacheTypeSimple
		}

		pairs = append(pairs,
			pair{"cache.type", cc.Type, wantType},
			pair{"cache.size", cc.NoECSCount, c.Cache.Size},
			pair{"cache.ecs_size", cc.ECSCount, c.Cache.ECSSize},
			pair{"cache.ttl_override.min", cc.MinTTL, c.Cache.TTLOverride.Min.Duration},
			pair{"cache.ttl_override.enabled", cc.OverrideCacheTTL, c.Cache.TTLOverride.Enabled},
		)

		return nil
	})

	o.step("fidelity-upstream", func() (err error) {
		uc := c.Upstream
		want := map[string][]*upstreamServerConfig{"servers": uc.Servers, "fallback.servers": uc.Fallback.Servers}
		got := map[string][]*forward.UpstreamPlainConfig{
			"servers":          toUpstreamConfigs(uc.Servers),
			"fallback.servers": toUpstreamConfigs(uc.Fallback.Servers),
		}
		for k, ws := range want {
			pairs = append(pairs, pair{"upstream." + k + " (number)", len(got[k]), len(ws)})
			for i := 0; i < len(ws) && i < len(got[k]); i++ {
				pairs = append(pairs, pair{fmt.Sprintf("upstream.%s.%d.timeout", k, i), got[k][i].Timeout, ws[i].Timeout.Duration})
			}
		}

		return nil
	})

	for _, g := range srvGrps {
		for _, s := range g.Servers {
			n := "server " + string(s.Name) + ": "
			pairs = append(pairs,
				pair{n + "dns.read_timeout", s.ReadTimeout, c.DNS.ReadTimeout.Duration},
				pair{n + "dns.write_timeout", s.WriteTimeout, c.DNS.WriteTimeout.Duration},
			)
			if tc := s.TCPConf; tc != nil {
				pairs = append(pairs,
					pair{n + "dns.tcp_idle_timeout", tc.IdleTimeout, c.DNS.TCPIdleTimeout.Duration},
					pair{n + "ratelimit.tcp.max_pipeline_count", tc.MaxPipelineCount, rc.TCP.MaxPipelineCount},
					pair{n + "ratelimit.tcp.enabled", tc.MaxPipelineEnabled, rc.TCP.Enabled},
				)
			} else if s.Protocol != agd.ProtoDNSCrypt {
				o.fail("%sno tcp settings", n)
			}

			if uc := s.UDPConf; uc != nil {
				pairs = append(pairs, pair{n + "dns.max_udp_response_size", uint64(uc.MaxRespSize), c.DNS.MaxUDPResponseSize.Bytes()})
			} else if s.Protocol == agd.ProtoDNS {
				o.fail("%sno udp settings", n)
			}

			if qc := s.QUICConf; qc != nil {
				pairs = append(pairs,
					pair{n + "ratelimit.quic.max_streams_per_peer", qc.MaxStreamsPerPeer, rc.QUIC.MaxStreamsPerPeer},
					pair{n + "ratelimit.quic.enabled", qc.QUICLimitsEnabled, rc.QUIC.Enabled},
				)
			} else if s.Protocol == agd.ProtoDoQ || s.Protocol == agd.ProtoDoH {
				o.fail("%sno quic settings", n)
			}
		}
	}

	for _, p := range pairs {
		if p.got != p.want {
			o.fail("conversion: %s is configured as %v but the constructor is given %v", p.name, p.want, p.got)
		}
	}
}

// vc20ReleasePools stops the worker pools of a server that was constructed but
// never started (Shutdown refuses to work on such a server), so that the
// pools' goroutines do not pile up in the harness process.  The fields are
// found by type; if there are none, nothing happens.
func vc20ReleasePools(v reflect.Value, depth int) {
	if depth > 3 {
		return
	}

	for v.Kind() == reflect.Pointer || v.Kind() == reflect.Interface {
		if v.IsNil() {
			return
		}

		v = v.Elem()
	}

	if v.Kind() != reflect.Struct || !v.CanAddr() {
		return
	}

	poolType := reflect.TypeOf((*ants.Pool)(nil))
	for i := range v.NumField() {
		f := v.Field(i)
		switch {
		case f.Type() == poolType:
			p := reflect.NewAt(f.Type(), unsafe.Pointer(f.UnsafeAddr())).Elem().Interface().(*ants.Pool)
			if p != nil {
				p.Release()
			}
		case f.Kind() == reflect.Pointer && f.Type().Elem().Kind() == reflect.Struct &&
			strings.HasPrefix(f.Type().Elem().Name(), "Server"):
			vc20ReleasePools(reflect.NewAt(f.Type(), unsafe.Pointer(f.UnsafeAddr())).Elem(), depth+1)
		}
	}
}

// vc20Exercise builds what the builder would build from c and serves queries.
func (fx *vc20Fixture) vc20Exercise(c *configuration) (o *vc20Outcome) {
	o = &vc20Outcome{stepErrs: map[string]string{}}
	if vc20MemoryHazard(c) != "" {
		o.classes = append(o.classes, "exercise-skipped-memory-hazard")

		return o
	}

	ctx := context.Background()
	logger := slogutil.NewDiscardLogger()
	errColl := &vc20ErrColl{}
	envs := fx.vc20Environment()

	// Metrics are registered with the default registerer by several
	// constructors; give every case its own.
	oldReg := prometheus.DefaultRegisterer
	reg := prometheus.NewRegistry()
	prometheus.DefaultRegisterer = reg
	defer func() { prometheus.DefaultRegisterer = oldReg }()

	b := &builder{
		baseLogger:     logger,
		cacheManager:   agdcache.NewDefaultManager(),
		cloner:         dnsmsg.NewCloner(metrics.ClonerStat{}),
		conf:           c,
		env:            envs,
		errColl:        errColl,
		geoIPError:     make(chan error, 1),
		logger:         logger,
		mtrcNamespace:  metrics.Namespace(),
		promRegisterer: reg,
		debugRefrs:     debugsvc.Refreshers{},
	}

	o.step("env", func() (err error) { return envs.validateFromValidConfig(c) })

	// The constructors are deterministic: a step whose whole input is the same
	// as in the distributed configuration, which is exercised completely when
	// the fixture is made, is not repeated.
	base := fx.baseConf
	same := func(a, b any) (ok bool) { return base != nil && reflect.DeepEqual(a, b) }
	hashPrefixSame := base != nil && same(c.SafeBrowsing, base.SafeBrowsing) &&
		same(c.AdultBlocking, base.AdultBlocking) && c.Filters.MaxSize == base.Filters.MaxSize
	filtersSame := base != nil && same(c.Filters, base.Filters)
	geoSame := base != nil && same(c.GeoIP, base.GeoIP) && fx.baseGeo != nil
	webSame := base != nil && same(c.Web, base.Web)
	listenersSame := base != nil && same(c.DNS, base.DNS) && same(c.RateLimit.TCP, base.RateLimit.TCP) &&
		same(c.RateLimit.QUIC, base.RateLimit.QUIC) && same(c.RateLimit.ConnectionLimit, base.RateLimit.ConnectionLimit) &&
		same(c.ServerGroups, base.ServerGroups) && same(c.Network, base.Network) &&
		same(c.InterfaceListeners, base.InterfaceListeners)

	// Hash-prefix filters, one at a time: each stops at the initial refresh
	// (there is nothing to download), after the constructor has run with the
	// configured sizes and durations.
	for _, which := range []string{"adult", "newreg", "safebrowsing"} {
		if hashPrefixSame {
			break
		}

		e := *envs
		e.AdultBlockingEnabled = which == "adult"
		e.NewRegDomainsEnabled = which == "newreg"
		e.SafeBrowsingEnabled = which == "safebrowsing"
		b.env = &e
		b.promRegisterer = prometheus.NewRegistry()
		o.step("hashprefix-"+which, func() (err error) { return b.initHashPrefixFilters(ctx) })
	}

	b.env = envs
	b.promRegisterer = reg
	b.adultBlocking, b.newRegDomains, b.safeBrowsing = nil, nil, nil
	b.filterMtrc = nil

	o.step("filter-metrics", func() (err error) {
		b.filterMtrc, err = metrics.NewFilter(b.mtrcNamespace, b.promRegisterer)

		return err
	})
	if !filtersSame {
		o.step("filter-storage", func() (err error) { return b.initFilterStorage(ctx) })
	}

	okAccess := o.step("access", func() (err error) { return b.initAccess(ctx) })
	okBTD := o.step("bindtodevice", func() (err error) { return b.initBindToDevice(ctx) })
	if okBTD && b.controlConf != nil {
		nc := c.Network
		if uint64(b.controlConf.SndBufSize) != nc.SndBufSize.Bytes() || uint64(b.controlConf.RcvBufSize) != nc.RcvBufSize.Bytes() {
			o.fail("conversion: network.so_sndbuf/so_rcvbuf are configured as %d/%d but the sockets are given %d/%d",
				nc.SndBufSize.Bytes(), nc.RcvBufSize.Bytes(), b.controlConf.SndBufSize, b.controlConf.RcvBufSize)
		}
	}

	okMsgs := o.step("messages", func() (err error) { return b.initMsgConstructor(ctx) })
	okTLS := o.step("tls-manager", func() (err error) { return b.initTLSManager(ctx) })

	strg := &agdtest.FilterStorage{
		OnForConfig: func(_ context.Context, _ filter.Config) (f filter.Interface) { return filter.Empty{} },
		OnHasListID: func(id filter.ID) (ok bool) {
			_, ok = vc20KnownLists[id]

			return ok
		},
	}
	okFltGrps := o.step("filtering-groups", func() (err error) {
		b.filteringGroups, err = c.FilteringGroups.toInternal(strg)

		return err
	})

	okSrvGrps := okBTD && okMsgs && okTLS && okFltGrps &&
		o.step("server-groups", func() (err error) { return b.initServerGroups(ctx) })

	o.vc20Fidelity(c, b.serverGroups)

	geo := fx.baseGeo
	okGeo := geoSame || o.step("geoip", func() (err error) {
		gc := c.GeoIP
		geo = geoip.NewFile(&geoip.FileConfig{
			Logger:         logger,
			CacheManager:   b.cacheManager,
			ASNPath:        envs.GeoIPASNPath,
			CountryPath:    envs.GeoIPCountryPath,
			HostCacheCount: gc.HostCacheSize,
			IPCacheCount:   gc.IPCacheSize,
			AllTopASNs:     geoip.DefaultTopASNs,
			CountryTopASNs: geoip.DefaultCountryTopASNs,
		})

		return geo.Refresh(ctx)
	})

	okRL := o.step("ratelimit-build", func() (err error) {
		rc := c.RateLimit
		allowlist := ratelimit.NewDynamicAllowlist(netutil.UnembedPrefixes(rc.Allowlist.List), nil)
		b.connLimit = rc.ConnectionLimit.toInternal(logger)
		b.rateLimit = ratelimit.NewBackoff(rc.toInternal(allowlist))

		return nil
	})

	okCheck := okMsgs && o.step("dnscheck", func() (err error) { return b.initDNSCheck(ctx) })

	if okCheck && okTLS && !webSame {
		o.step("web", func() (err error) {
			webConf, err := c.Web.toInternal(ctx, envs, b.dnsCheck, errColl, b.tlsManager)
			if err != nil {
				return err
			}

			_ = websvc.New(webConf)

			return nil
		})
	}

	o.vc20ExerciseRateLimit(c)
	o.vc20ExerciseConnLimit(c)

	var fwd *forward.Handler
	okFwd := o.step("forward", func() (err error) {
		fwd = forward.NewHandler(c.Upstream.toInternal(logger))
		_ = newUpstreamHealthcheck(logger, fwd, c.Upstream, errColl)

		return nil
	})
	if fwd != nil {
		defer func() { _ = fwd.Close() }()
	}

	okDNSDB := o.step("dnsdb", func() (err error) {
		b.dnsDB = c.DNSDB.toInternal(logger, errColl)

		return nil
	})

	if !(okAccess && okSrvGrps && okGeo && okRL && okCheck && okFwd && okDNSDB) {
		o.classes = append(o.classes, "exercise-partial")

		return o
	}

	profDB := agdtest.NewProfileDB()
	notFound := func() (p *agd.Profile, d *agd.Device, err error) { return nil, nil, profiledb.ErrDeviceNotFound }
	profDB.OnProfileByDedicatedIP = func(_ context.Context, _ netip.Addr) (*agd.Profile, *agd.Device, error) {
		return notFound()
	}
	profDB.OnProfileByDeviceID = func(_ context.Context, _ agd.DeviceID) (*agd.Profile, *agd.Device, error) {
		return notFound()
	}
	profDB.OnProfileByHumanID = func(
		_ context.Context,
		_ agd.ProfileID,
		_ agd.HumanIDLower,
	) (*agd.Profile, *agd.Device, error) {
		return notFound()
	}
	profDB.OnProfileByLinkedIP = func(_ context.Context, _ netip.Addr) (*agd.Profile, *agd.Device, error) {
		return notFound()
	}

	var handlers dnssvc.Handlers
	okHdlrs := o.step("handlers", func() (err error) {
		handlers, err = dnssvc.NewHandlers(ctx, &dnssvc.HandlersConfig{
			BaseLogger:           logger,
			Cache:                c.Cache.toInternal(),
			Cloner:               b.cloner,
			HumanIDParser:        agd.NewHumanIDParser(),
			Messages:             b.messages,
			PluginRegistry:       nil,
			StructuredErrors:     b.sdeConf,
			AccessManager:        b.access,
			BillStat:             billstat.EmptyRecorder{},
			CacheManager:         b.cacheManager,
			DNSCheck:             b.dnsCheck,
			DNSDB:                b.dnsDB,
			ErrColl:              errColl,
			FilterStorage:        strg,
			GeoIP:                geo,
			Handler:              fwd,
			HashMatcher:          hashprefix.NewMatcher(nil),
			ProfileDB:            profDB,
			PrometheusRegisterer: reg,
			QueryLog:             querylog.Empty{},
			RateLimit:            b.rateLimit,
			RuleStat:             rulestat.Empty{},
			MetricsNamespace:     b.mtrcNamespace,
			FilteringGroups:      b.filteringGroups,
			ServerGroups:         b.serverGroups,
			EDEEnabled:           c.Filters.EDEEnabled,
		})

		return err
	})
	if !okHdlrs {
		o.classes = append(o.classes, "exercise-partial")

		return o
	}

	// The listeners are created with the package's own constructor.  They are
	// not started, except the first DNS-over-TLS listener bound to an address:
	// that one is moved to an ephemeral loopback port and serves real
	// connections below.
	var listeners []dnssvc.Listener
	var dot dnssvc.Listener
	newListener := func(s *agd.Server, bc dnsserver.ConfigBase, nonDNS http.Handler) (l dnssvc.Listener, err error) {
		isDoT := s.Protocol == agd.ProtoDoT && dot == nil && len(s.BindData()) > 0 && s.BindData()[0].PrefixAddr == nil
		if isDoT {
			bc.Addr = "127.0.0.1:0"
		}

		l, err = dnssvc.NewListener(s, bc, nonDNS)
		if l != nil {
			listeners = append(listeners, l)
			if isDoT {
				dot = l
			}
		}

		return l, err
	}
	defer func() {
		for _, l := range listeners {
			vc20ReleasePools(reflect.ValueOf(l), 0)
		}
	}()

	okSvc := listenersSame || o.step("service", func() (err error) {
		_, err = dnssvc.New(&dnssvc.Config{
			Handlers:         handlers,
			NewListener:      newListener,
			Cloner:           b.cloner,
			ControlConf:      b.controlConf,
			ConnLimiter:      b.connLimit,
			ErrColl:          errColl,
			NonDNS:           http.NotFoundHandler(),
			MetricsNamespace: b.mtrcNamespace,
			ServerGroups:     b.serverGroups,
			HandleTimeout:    c.DNS.HandleTimeout.Duration,
		})

		return err
	})
	if !okSvc {
		o.classes = append(o.classes, "exercise-partial")

		return o
	}

	fx.vc20Queries(o, c, handlers, b.serverGroups)
	if dot != nil {
		o.vc20RealDoT(c, dot)
	}

	o.classes = append(o.classes, "exercise-full")
	o.geo = geo

	return o
}

// vc20RealDoT starts the real DNS-over-TLS listener on a loopback port and
// sends two pipelined queries over one TLS connection: the connection limiter,
// the read, write and idle timeouts, the pipeline limit and the handle timeout
// are those of the configuration.
func (o *vc20Outcome) vc20RealDoT(c *configuration, l dnssvc.Listener) {
	ctx := context.Background()
	started := o.step("dot-start", func() (err error) { return l.Start(ctx) })
	if !started {
		return
	}

	defer func() {
		sctx, cancel := context.WithTimeout(ctx, 3*time.Second)
		defer cancel()

		_ = l.Shutdown(sctx)
	}()

	const enough = 500 * time.Millisecond
	dc := c.DNS
	must := vc20SaneTimeouts(c) && dc.ReadTimeout.Duration >= enough && dc.WriteTimeout.Duration >= enough &&
		dc.TCPIdleTimeout.Duration >= enough

	addr := l.LocalTCPAddr()
	if addr == nil {
		o.fail("the started DNS-over-TLS listener has no local address")

		return
	}

	start := time.Now()
	var got int
	var err error
	func() {
		defer func() {
			if v := recover(); v != nil {
				err = fmt.Errorf("harness client panicked: %v", v)
			}
		}()

		cli := &dns.Client{
			Net:       "tcp-tls",
			TLSConfig: &tls.Config{InsecureSkipVerify: true, ServerName: "dns.example.com"},
			Timeout:   5 * time.Second,
		}

		var conn *dns.Conn
		conn, err = cli.Dial(addr.String())
		if err != nil {
			return
		}
		defer func() { _ = conn.Close() }()

		_ = conn.SetDeadline(time.Now().Add(5 * time.Second))
		ids := map[uint16]struct{}{}
		for i, name := range []string{"c20-dot-1.example.net.", "c20-dot-2.example.net."} {
			req := (&dns.Msg{}).SetQuestion(name, dns.TypeA)
			req.Id = uint16(0xD070 + i)
			ids[req.Id] = struct{}{}
			if err = conn.WriteMsg(req); err != nil {
				return
			}
		}

		for range 2 {
			var resp *dns.Msg
			resp, err = conn.ReadMsg()
			if err != nil {
				return
			}

			if _, ok := ids[resp.Id]; !ok || resp.Rcode != dns.RcodeSuccess || len(resp.Answer) == 0 {
				err = fmt.Errorf("unexpected response: %v", resp)

				return
			}

			delete(ids, resp.Id)
			got++
		}
	}()

	elapsed := time.Since(start)
	switch {
	case err == nil:
		o.classes = append(o.classes, "dot-real-answered")
	case vc20IsTimeout(err) || elapsed >= 400*time.Millisecond || !must:
		// Slow or bounded by a tiny configured timeout: decides nothing.
		o.timeouts++
		o.classes = append(o.classes, "dot-real-inconclusive")
	default:
		o.fail("real DNS-over-TLS listener on %s: %d of 2 pipelined queries answered, then after %s: %v", addr, got, elapsed, err)
	}
}

// vc20Queries serves queries of a fresh IPv4 and a fresh IPv6 client through
// the handlers of every server.
func (fx *vc20Fixture) vc20Queries(
	o *vc20Outcome,
	c *configuration,
	handlers dnssvc.Handlers,
	srvGrps []*agd.ServerGroup,
) {
	sane := vc20SaneTimeouts(c)
	if !sane {
		o.classes = append(o.classes, "tiny-timeouts")
	}

	// Only the first plain-DNS server gets the must-be-served queries of a
	// client: the servers share one rate limiter, and a second request of the
	// same client may legitimately go over a limit of one.
	plainSeen := false
	n := 0
	for _, g := range srvGrps {
		for _, s := range g.Servers {
			h, ok := handlers[dnssvc.HandlerKey{Server: s, ServerGroup: g}]
			if !ok {
				o.fail("no handler for server %q of group %q", s.Name, g.Name)

				continue
			}

			limited := s.Protocol == agd.ProtoDNS
			must := sane && (!limited || !plainSeen)
			if limited {
				plainSeen = true
			}

			for _, client := range []netip.Addr{vc20ClientV4, vc20ClientV6} {
				n++
				// The same name is asked on every server: after the first
				// server this is the cache-hit path when a cache is on.
				qtype := dns.TypeA
				name := "c20-v4.example.net."
				if client.Is6() {
					qtype, name = dns.TypeAAAA, "c20-v6.example.net."
				}

				fx.vc20Query(o, c, h, s, client, name, qtype, must)
			}
		}
	}

	if n == 0 {
		o.fail("no servers were built from an accepted configuration")
	}
}

// vc20Query serves one query.
func (fx *vc20Fixture) vc20Query(
	o *vc20Outcome,
	c *configuration,
	h dnsserver.Handler,
	s *agd.Server,
	client netip.Addr,
	name string,
	qtype uint16,
	must bool,
) {
	var laddr netip.AddrPort
	bd := s.BindData()
	switch {
	case len(bd) == 0:
		o.fail("server %q has no bind data", s.Name)

		return
	case bd[0].PrefixAddr != nil:
		laddr = netip.AddrPortFrom(bd[0].PrefixAddr.Prefix.Addr(), bd[0].PrefixAddr.Port)
	default:
		laddr = bd[0].AddrPort
	}

	raddr := netip.AddrPortFrom(client, 40053)
	rw := &vc20RW{}
	ri := &dnsserver.RequestInfo{StartTime: time.Now()}
	switch s.Protocol {
	case agd.ProtoDNS, agd.ProtoDNSCrypt:
		rw.local, rw.remote = net.UDPAddrFromAddrPort(laddr), net.UDPAddrFromAddrPort(raddr)
	case agd.ProtoDoQ:
		rw.local, rw.remote = net.UDPAddrFromAddrPort(laddr), net.UDPAddrFromAddrPort(raddr)
		ri.TLSServerName = "dns.example.com"
	case agd.ProtoDoH:
		rw.local, rw.remote = net.TCPAddrFromAddrPort(laddr), net.TCPAddrFromAddrPort(raddr)
		ri.TLSServerName = "dns.example.com"
		ri.URL = &url.URL{Scheme: "https", Host: "dns.example.com", Path: "/dns-query"}
	default:
		rw.local, rw.remote = net.TCPAddrFromAddrPort(laddr), net.TCPAddrFromAddrPort(raddr)
		ri.TLSServerName = "dns.example.com"
	}

	handleTimeout := c.DNS.HandleTimeout.Duration
	if handleTimeout <= 0 || handleTimeout > math.MaxInt64/4 {
		handleTimeout = time.Hour
	}

	ctx, cancel := context.WithTimeout(context.Background(), handleTimeout)
	defer cancel()

	ctx = dnsserver.ContextWithServerInfo(ctx, &dnsserver.ServerInfo{
		Name:  string(s.Name),
		Addr:  laddr.String(),
		Proto: s.Protocol,
	})
	ctx = dnsserver.ContextWithRequestInfo(ctx, ri)

	req := (&dns.Msg{}).SetQuestion(name, qtype)
	req.Id = 0xC20
	req.SetEdns0(1232, false)

	label := fmt.Sprintf("query %s %s on %q (%s) from %s", dns.TypeToString[qtype], name, s.Name, s.Protocol, client)
	var err error
	func() {
		defer func() {
			if v := recover(); v != nil {
				o.fail("%s: panic: %v\n%s", label, v, vc20Stack())
				err = errors.New("panicked")
			}
		}()

		err = h.ServeDNS(ctx, rw, req)
	}()

	// A failure that took as long as the shortest generous timeout may be the
	// machine being busy; it decides nothing.
	if elapsed := time.Since(ri.StartTime); must && elapsed >= 400*time.Millisecond {
		must = false
		o.timeouts++
		o.classes = append(o.classes, "query-slow")
	}

	switch {
	case err != nil && vc20IsTimeout(err):
		o.timeouts++
		o.classes = append(o.classes, "query-timeout")
	case err != nil:
		if must && err.Error() != "panicked" {
			o.fail("%s: error: %v", label, err)
		}

		o.classes = append(o.classes, "query-error")
	case rw.resp == nil:
		if must {
			o.fail("%s: no response was written for a fresh, not blocked client", label)
		}

		o.classes = append(o.classes, "query-dropped")
	default:
		if must && (rw.resp.Id != req.Id || !rw.resp.Response) {
			o.fail("%s: malformed response %v", label, rw.resp)
		}

		switch {
		case rw.resp.Rcode == dns.RcodeSuccess && len(rw.resp.Answer) > 0:
			o.classes = append(o.classes, "query-answered")
			if client.Is4() {
				o.classes = append(o.classes, "served-v4")
			} else {
				o.classes = append(o.classes, "served-v6")
			}
		case rw.resp.Rcode == dns.RcodeServerFailure && !must:
			o.classes = append(o.classes, "query-servfail-tiny-timeout")
		default:
			if must {
				o.fail("%s: response %s with %d answers although the upstream answers every query",
					label, dns.RcodeToString[rw.resp.Rcode], len(rw.resp.Answer))
			}

			o.classes = append(o.classes, "query-other-rcode")
		}
	}
}
