//go:build verif

package cmd

// C20: what is done with a configuration that passed validation.  The objects
// the builder would create are created through the package's own conversions
// and builder methods where those do not need the outside world, and a few
// representative queries are served through the real handler chain.

import (
	"bytes"
	"context"
	"crypto/tls"
	"encoding/binary"
	"encoding/hex"
	"errors"
	"fmt"
	"io"
	"log/slog"
	"math"
	"net"
	"net/http"
	"net/netip"
	"net/url"
	"os"
	"reflect"
	"runtime/debug"
	"slices"
	"strings"
	"sync"
	"time"
	"unsafe"

	"github.com/AdguardTeam/AdGuardDNS/internal/access"
	"github.com/AdguardTeam/AdGuardDNS/internal/agd"
	"github.com/AdguardTeam/AdGuardDNS/internal/agdcache"
	"github.com/AdguardTeam/AdGuardDNS/internal/agdpasswd"
	"github.com/AdguardTeam/AdGuardDNS/internal/agdtest"
	"github.com/AdguardTeam/AdGuardDNS/internal/billstat"
	"github.com/AdguardTeam/AdGuardDNS/internal/bindtodevice"
	"github.com/AdguardTeam/AdGuardDNS/internal/debugsvc"
	"github.com/AdguardTeam/AdGuardDNS/internal/dnsmsg"
	"github.com/AdguardTeam/AdGuardDNS/internal/dnsserver"
	"github.com/AdguardTeam/AdGuardDNS/internal/dnsserver/forward"
	"github.com/AdguardTeam/AdGuardDNS/internal/dnsserver/ratelimit"
	"github.com/AdguardTeam/AdGuardDNS/internal/dnssvc"
	"github.com/AdguardTeam/AdGuardDNS/internal/filter"
	"github.com/AdguardTeam/AdGuardDNS/internal/filter/hashprefix"
	"github.com/AdguardTeam/AdGuardDNS/internal/geoip"
	"github.com/AdguardTeam/AdGuardDNS/internal/metrics"
	"github.com/AdguardTeam/AdGuardDNS/internal/profiledb"
	"github.com/AdguardTeam/AdGuardDNS/internal/querylog"
	"github.com/AdguardTeam/AdGuardDNS/internal/rulestat"
	"github.com/AdguardTeam/AdGuardDNS/internal/tlsconfig"
	"github.com/AdguardTeam/AdGuardDNS/internal/websvc"
	"github.com/AdguardTeam/golibs/logutil/slogutil"
	"github.com/AdguardTeam/golibs/netutil"
	"github.com/AdguardTeam/golibs/service"
	"github.com/ameshkov/dnscrypt/v2"
	"github.com/ameshkov/dnsstamps"
	"github.com/miekg/dns"
	"github.com/panjf2000/ants/v2"
	"github.com/prometheus/client_golang/prometheus"
	"github.com/quic-go/quic-go"
)

// vc20Outcome is the result of exercising one accepted configuration.
type vc20Outcome struct {
	// failures are violations: a panic, a division by zero, a query that a
	// fresh client cannot get answered.
	failures []string

	// stepErrs maps a start-up step to the error it returned.
	stepErrs map[string]string

	// classes are histogram labels.
	classes []string

	// timeouts counts the queries that ended in a deadline error; they decide
	// nothing.
	timeouts int

	// geo is the GeoIP database that was built.
	geo *geoip.File

	// realListenerFailed tells that a really started listener did not answer.
	realListenerFailed bool

	// noTLSSectionPanic is the failure of builder.initTLSManager on a
	// configuration that has a server group without a tls section.
	noTLSSectionPanic string
}

// vc20HasGroupWithoutTLS reports whether a server group of c has no tls
// section.
func vc20HasGroupWithoutTLS(c *configuration) (ok bool) {
	for _, g := range c.ServerGroups {
		if g != nil && g.TLS == nil {
			return true
		}
	}

	return false
}

func (o *vc20Outcome) fail(format string, args ...any) {
	o.failures = append(o.failures, fmt.Sprintf(format, args...))
}

// step runs f, turning a panic into a failure and recording a returned error.
// ok is true if f returned without error.
func (o *vc20Outcome) step(name string, f func() (err error)) (ok bool) {
	defer func() {
		if v := recover(); v != nil {
			o.fail("%s: panic: %v\n%s", name, v, vc20Stack())
			ok = false
		}
	}()

	err := f()
	if err != nil {
		o.stepErrs[name] = err.Error()

		return false
	}

	return true
}

// vc20Stack returns the frames of the current goroutine's stack that belong to
// the repository, innermost first, shortened.
func vc20Stack() (s string) {
	var lines []string
	for _, l := range strings.Split(string(debug.Stack()), "\n") {
		if strings.HasPrefix(l, "\t") && strings.Contains(l, "/internal/") && !strings.Contains(l, "zz_verif_") {
			l = strings.TrimSpace(l)
			if i := strings.Index(l, "/internal/"); i >= 0 {
				l = l[i+1:]
			}

			if i := strings.Index(l, " +0x"); i >= 0 {
				l = l[:i]
			}

			lines = append(lines, "        at "+l)
		}

		if len(lines) == 6 {
			break
		}
	}

	return strings.Join(lines, "\n")
}

// vc20ErrColl collects the errors the code reports as non-critical.
type vc20ErrColl struct {
	mu   sync.Mutex
	errs []error
}

func (c *vc20ErrColl) Collect(_ context.Context, err error) {
	c.mu.Lock()
	defer c.mu.Unlock()

	c.errs = append(c.errs, err)
}

// vc20RW is a recording response writer.
type vc20RW struct {
	local  net.Addr
	remote net.Addr
	resp   *dns.Msg

	// packErr is the error of packing resp.
	packErr error
}

func (rw *vc20RW) LocalAddr() (a net.Addr)  { return rw.local }
func (rw *vc20RW) RemoteAddr() (a net.Addr) { return rw.remote }
func (rw *vc20RW) WriteMsg(_ context.Context, _, resp *dns.Msg) (err error) {
	rw.resp = resp

	// Every real response writer packs the message; a message that cannot be
	// packed cannot be sent.
	if _, err = resp.Pack(); err != nil {
		rw.packErr = err

		return fmt.Errorf("packing the response: %w", err)
	}

	return nil
}

// vc20Listener is a listener that hands out one side of an in-memory pipe per
// Accept.
type vc20Listener struct{}

func (vc20Listener) Accept() (c net.Conn, err error) {
	c, other := net.Pipe()
	_ = other.Close()

	return c, nil
}

func (vc20Listener) Close() (err error) { return nil }
func (vc20Listener) Addr() (a net.Addr) {
	return &net.TCPAddr{IP: net.IP{127, 0, 0, 1}, Port: 853}
}

// vc20KnownLists are the rule lists the pretended filter index has.
var vc20KnownLists = map[filter.ID]struct{}{"adguard_dns_filter": {}}

// vc20IsTimeout reports whether err is a deadline error of some kind.
func vc20IsTimeout(err error) (ok bool) {
	var ne net.Error

	return errors.Is(err, context.DeadlineExceeded) ||
		errors.Is(err, os.ErrDeadlineExceeded) ||
		(errors.As(err, &ne) && ne.Timeout())
}

// vc20SaneTimeouts reports whether all timeouts that bound the handling of a
// query over the loopback interface are generous enough for the answer to be
// required rather than merely permitted.
func vc20SaneTimeouts(c *configuration) (ok bool) {
	const enough = 500 * time.Millisecond
	if c.DNS.HandleTimeout.Duration < enough {
		return false
	}

	for _, s := range c.Upstream.Servers {
		if s.Timeout.Duration < enough {
			return false
		}
	}

	for _, s := range c.Upstream.Fallback.Servers {
		if s.Timeout.Duration < enough {
			return false
		}
	}

	return true
}

// vc20Clients are the fresh clients: documentation addresses that are neither
// allowlisted nor blocked in the distributed configuration.
var (
	vc20ClientV4 = netip.MustParseAddr("192.0.2.55")
	vc20ClientV6 = netip.MustParseAddr("2001:db8:1::55")

	// vc20ClientMapped is an IPv4 client as a dual-stack socket reports it.
	vc20ClientMapped = netip.MustParseAddr("::ffff:192.0.2.57")

	// vc20ClientSpecial asks for the answers the service builds itself.
	vc20ClientSpecial = netip.MustParseAddr("198.51.100.77")
)

// vc20DeviceID is the identifier of the one device the profile database of the
// exercise knows.
const vc20DeviceID agd.DeviceID = "c20dev"

// vc20AllocHazard reports whether creating a request counter for n requests
// would really allocate an unreasonable amount of memory in the harness
// process (as opposed to failing immediately or being small).
func vc20AllocHazard(n uint) (ok bool) {
	return n > 1<<22 && n < 1<<46
}

// vc20MemoryHazard names a value of c that makes a constructor preallocate an
// amount of memory the harness process must not ask for (LRU caches and
// channels are preallocated to their configured size).  Whether the server
// should refuse such sizes is not part of the property: no upper bounds are
// documented for them.
func vc20MemoryHazard(c *configuration) (what string) {
	const limit = 1 << 22
	sizes := map[string]int{
		"cache.size":                       c.Cache.Size,
		"cache.ecs_size":                   c.Cache.ECSSize,
		"geoip.host_cache_size":            c.GeoIP.HostCacheSize,
		"geoip.ip_cache_size":              c.GeoIP.IPCacheSize,
		"safe_browsing.cache_size":         c.SafeBrowsing.CacheSize,
		"adult_blocking.cache_size":        c.AdultBlocking.CacheSize,
		"filters.custom_filter_cache_size": c.Filters.CustomFilterCacheSize,
		"filters.safe_search_cache_size":   c.Filters.SafeSearchCacheSize,
		"filters.rule_list_cache.size":     c.Filters.RuleListCache.Size,
		"dnsdb.max_size":                   c.DNSDB.MaxSize,
	}
	if il := c.InterfaceListeners; il != nil {
		sizes["interface_listeners.channel_buffer_size"] = il.ChannelBufferSize
	}

	for name, n := range sizes {
		if n > limit {
			return name
		}
	}

	if vc20AllocHazard(c.RateLimit.IPv4.Count) || vc20AllocHazard(c.RateLimit.IPv6.Count) {
		return "ratelimit.count"
	}

	return ""
}

// vc20BigResponse returns a response of about 4 KiB.
func vc20BigResponse(req *dns.Msg) (resp *dns.Msg) {
	resp = (&dns.Msg{}).SetReply(req)
	txt := strings.Repeat("x", 200)
	for range 19 {
		resp.Answer = append(resp.Answer, &dns.TXT{
			Hdr: dns.RR_Header{Name: req.Question[0].Name, Rrtype: dns.TypeTXT, Class: dns.ClassINET, Ttl: 10},
			Txt: []string{txt},
		})
	}

	return resp
}

// vc20ExerciseRateLimit creates the rate limiter exactly as the builder does
// and checks it with a fresh IPv4 and a fresh IPv6 client.
func (o *vc20Outcome) vc20ExerciseRateLimit(c *configuration) {
	rc := c.RateLimit
	if vc20AllocHazard(rc.IPv4.Count) || vc20AllocHazard(rc.IPv6.Count) {
		o.classes = append(o.classes, "ratelimit-skipped-alloc-hazard")

		return
	}

	ctx := context.Background()
	req := (&dns.Msg{}).SetQuestion("c20-ratelimit.example.net.", dns.TypeA)
	small := (&dns.Msg{}).SetReply(req)
	big := vc20BigResponse(req)

	for _, ip := range []netip.Addr{vc20ClientV4, vc20ClientV6, vc20ClientMapped} {
		fam := "ipv4"
		switch {
		case ip.Is4In6():
			// Which family's settings apply to this form is not documented:
			// the request may be counted either way, but it must be handled
			// without a panic or an error.
			fam = "ipv4-mapped"
		case ip.Is6():
			fam = "ipv6"
		}

		lenient := ip.Is4In6()
		o.step("ratelimit-"+fam, func() (err error) {
			allowSubnets := netutil.UnembedPrefixes(rc.Allowlist.List)
			allowlist := ratelimit.NewDynamicAllowlist(allowSubnets, nil)
			for _, p := range allowSubnets {
				if p.Contains(ip) {
					o.classes = append(o.classes, "client-allowlisted")

					return nil
				}
			}

			// "If true, refuse DNS queries with the ANY type"; otherwise the
			// first ANY query of a fresh client is a query like any other.
			anyReq := (&dns.Msg{}).SetQuestion("c20-ratelimit.example.net.", dns.TypeANY)
			anyDrop, _, anyErr := ratelimit.NewBackoff(rc.toInternal(allowlist)).IsRateLimited(ctx, anyReq, ip)
			if anyErr != nil || (anyDrop != rc.RefuseANY && !lenient) {
				o.fail("ratelimit %s: refuse_any is %t but the first ANY query of a fresh client: dropped %t, error %v",
					fam, rc.RefuseANY, anyDrop, anyErr)
			}

			l := ratelimit.NewBackoff(rc.toInternal(allowlist))
			drop, allowlisted, err := l.IsRateLimited(ctx, req, ip)
			switch {
			case err != nil:
				o.fail("ratelimit %s: first request of a fresh client: error %v", fam, err)
			case lenient:
				// Handled or dropped.
			case allowlisted:
				o.fail("ratelimit %s: client %s is not in the allowlist but was allowlisted", fam, ip)
			case drop:
				o.fail("ratelimit %s: the first request of a fresh client is dropped", fam)
			}

			l.CountResponses(ctx, small, ip)
			l.CountResponses(ctx, big, ip)
			_, _, err = l.IsRateLimited(ctx, req, ip)
			if err != nil {
				o.fail("ratelimit %s: request after responses: error %v", fam, err)
			}

			// The per-profile rate limiter gets the same response-size
			// estimate through the profile storage.
			pl := agd.NewDefaultRatelimiter(&agd.RatelimitConfig{RPS: 10, Enabled: true}, rc.ResponseSizeEstimate)
			if res := pl.Check(ctx, req, ip); res != agd.RatelimitResultPass && !lenient {
				o.fail("profile ratelimit %s: first request: result %v", fam, res)
			}

			pl.CountResponses(ctx, small, ip)
			pl.CountResponses(ctx, big, ip)

			return nil
		})
	}
}

// vc20ExerciseConnLimit creates the connection limiter as the builder does and
// accepts, closes and accepts again through it.
func (o *vc20Outcome) vc20ExerciseConnLimit(c *configuration) {
	o.step("connlimit", func() (err error) {
		l := c.RateLimit.ConnectionLimit.toInternal(slogutil.NewDiscardLogger())
		if l == nil {
			o.classes = append(o.classes, "connlimit-off")

			return nil
		}

		lsnr := l.Limit(vc20Listener{}, &dnsserver.ServerInfo{
			Name:  "c20",
			Addr:  "127.0.0.1:853",
			Proto: dnsserver.ProtoDoT,
		})

		// With any stop >= 1 and resume <= stop an accept on an idle limiter,
		// and an accept after the only connection has been closed, cannot
		// wait.
		done := make(chan error, 1)
		go func() {
			defer func() {
				if v := recover(); v != nil {
					done <- fmt.Errorf("panic: %v", v)
				}
			}()

			for range 3 {
				conn, accErr := lsnr.Accept()
				if accErr != nil {
					done <- fmt.Errorf("accept: %w", accErr)

					return
				}

				_ = conn.Close()
			}

			done <- nil
		}()

		select {
		case err = <-done:
			if err != nil {
				o.fail("connlimit stop=%d resume=%d: %v", c.RateLimit.ConnectionLimit.Stop, c.RateLimit.ConnectionLimit.Resume, err)
			}
		case <-time.After(20 * time.Second):
			// Not a verdict.
			o.timeouts++
			o.classes = append(o.classes, "connlimit-wait-timeout")
			_ = lsnr.Close()
		}

		return nil
	})
}

// vc20Fidelity checks that the conversions hand every constructor the value
// of the property that is documented to set it.
func (o *vc20Outcome) vc20Fidelity(c *configuration, srvGrps []*agd.ServerGroup) {
	type pair struct {
		name      string
		got, want any
	}

	rc := c.RateLimit
	var pairs []pair
	o.step("fidelity-ratelimit", func() (err error) {
		bc := rc.toInternal(nil)
		pairs = append(pairs,
			pair{"ratelimit.response_size_estimate", bc.ResponseSizeEstimate, rc.ResponseSizeEstimate},
			pair{"ratelimit.backoff_duration", bc.Duration, rc.BackoffDuration.Duration},
			pair{"ratelimit.backoff_period", bc.Period, rc.BackoffPeriod.Duration},
			pair{"ratelimit.backoff_count", bc.Count, rc.BackoffCount},
			pair{"ratelimit.ipv4.count", bc.IPv4Count, rc.IPv4.Count},
			pair{"ratelimit.ipv4.interval", bc.IPv4Interval, rc.IPv4.Interval.Duration},
			pair{"ratelimit.ipv4.subnet_key_len", bc.IPv4SubnetKeyLen, rc.IPv4.SubnetKeyLen},
			pair{"ratelimit.ipv6.count", bc.IPv6Count, rc.IPv6.Count},
			pair{"ratelimit.ipv6.interval", bc.IPv6Interval, rc.IPv6.Interval.Duration},
			pair{"ratelimit.ipv6.subnet_key_len", bc.IPv6SubnetKeyLen, rc.IPv6.SubnetKeyLen},
			pair{"ratelimit.refuse_any", bc.RefuseANY, rc.RefuseANY},
		)

		return nil
	})

	o.step("fidelity-cache", func() (err error) {
		cc := c.Cache.toInternal()
		wantType := dnssvc.CacheTypeECS
		switch {
		case c.Cache.Size == 0:
			// "If zero, cache is disabled."
			wantType = dnssvc.CacheTypeNone
		case c.Cache.Type == cacheTypeSimple:
			wantType = dnssvc.CacheTypeSimple
		}

		pairs = append(pairs,
			pair{"cache.type", cc.Type, wantType},
			pair{"cache.size", cc.NoECSCount, c.Cache.Size},
			pair{"cache.ecs_size", cc.ECSCount, c.Cache.ECSSize},
			pair{"cache.ttl_override.min", cc.MinTTL, c.Cache.TTLOverride.Min.Duration},
			pair{"cache.ttl_override.enabled", cc.OverrideCacheTTL, c.Cache.TTLOverride.Enabled},
		)

		return nil
	})

	o.step("fidelity-upstream", func() (err error) {
		uc := c.Upstream
		want := map[string][]*upstreamServerConfig{"servers": uc.Servers, "fallback.servers": uc.Fallback.Servers}
		got := map[string][]*forward.UpstreamPlainConfig{
			"servers":          toUpstreamConfigs(uc.Servers),
			"fallback.servers": toUpstreamConfigs(uc.Fallback.Servers),
		}
		for k, ws := range want {
			pairs = append(pairs, pair{"upstream." + k + " (number)", len(got[k]), len(ws)})
			for i := 0; i < len(ws) && i < len(got[k]); i++ {
				pairs = append(pairs, pair{fmt.Sprintf("upstream.%s.%d.timeout", k, i), got[k][i].Timeout, ws[i].Timeout.Duration})
			}
		}

		return nil
	})

	for _, g := range srvGrps {
		for _, s := range g.Servers {
			n := "server " + string(s.Name) + ": "
			pairs = append(pairs,
				pair{n + "dns.read_timeout", s.ReadTimeout, c.DNS.ReadTimeout.Duration},
				pair{n + "dns.write_timeout", s.WriteTimeout, c.DNS.WriteTimeout.Duration},
			)
			if tc := s.TCPConf; tc != nil {
				pairs = append(pairs,
					pair{n + "dns.tcp_idle_timeout", tc.IdleTimeout, c.DNS.TCPIdleTimeout.Duration},
					pair{n + "ratelimit.tcp.max_pipeline_count", tc.MaxPipelineCount, rc.TCP.MaxPipelineCount},
					pair{n + "ratelimit.tcp.enabled", tc.MaxPipelineEnabled, rc.TCP.Enabled},
				)
			} else if s.Protocol != agd.ProtoDNSCrypt {
				o.fail("%sno tcp settings", n)
			}

			if uc := s.UDPConf; uc != nil {
				pairs = append(pairs, pair{n + "dns.max_udp_response_size", uint64(uc.MaxRespSize), c.DNS.MaxUDPResponseSize.Bytes()})
			} else if s.Protocol == agd.ProtoDNS {
				o.fail("%sno udp settings", n)
			}

			if qc := s.QUICConf; qc != nil {
				pairs = append(pairs,
					pair{n + "ratelimit.quic.max_streams_per_peer", qc.MaxStreamsPerPeer, rc.QUIC.MaxStreamsPerPeer},
					pair{n + "ratelimit.quic.enabled", qc.QUICLimitsEnabled, rc.QUIC.Enabled},
				)
			} else if s.Protocol == agd.ProtoDoQ || s.Protocol == agd.ProtoDoH {
				o.fail("%sno quic settings", n)
			}
		}
	}

	for _, p := range pairs {
		if p.got != p.want {
			o.fail("conversion: %s is configured as %v but the constructor is given %v", p.name, p.want, p.got)
		}
	}
}

// vc20ReleasePools stops the worker pools of a server that was constructed but
// never started (Shutdown refuses to work on such a server), so that the
// pools' goroutines do not pile up in the harness process.  The fields are
// found by type; if there are none, nothing happens.
func vc20ReleasePools(v reflect.Value, depth int) {
	if depth > 3 {
		return
	}

	for v.Kind() == reflect.Pointer || v.Kind() == reflect.Interface {
		if v.IsNil() {
			return
		}

		v = v.Elem()
	}

	if v.Kind() != reflect.Struct || !v.CanAddr() {
		return
	}

	poolType := reflect.TypeOf((*ants.Pool)(nil))
	for i := range v.NumField() {
		f := v.Field(i)
		switch {
		case f.Type() == poolType:
			p := reflect.NewAt(f.Type(), unsafe.Pointer(f.UnsafeAddr())).Elem().Interface().(*ants.Pool)
			if p != nil {
				p.Release()
			}
		case f.Kind() == reflect.Pointer && f.Type().Elem().Kind() == reflect.Struct &&
			strings.HasPrefix(f.Type().Elem().Name(), "Server"):
			vc20ReleasePools(reflect.NewAt(f.Type(), unsafe.Pointer(f.UnsafeAddr())).Elem(), depth+1)
		}
	}
}

// vc20BasePorts returns a copy of ilc in which the fresh ports of the case stand
// for the ports of the base tree again: a fresh port is no difference of the
// configuration.
func (fx *vc20Fixture) vc20BasePorts(ilc *interfaceListenersConfig) (res *interfaceListenersConfig) {
	if ilc == nil {
		return nil
	}

	res = &interfaceListenersConfig{
		List:              map[bindtodevice.ID]*interfaceListener{},
		ChannelBufferSize: ilc.ChannelBufferSize,
	}
	for id, l := range ilc.List {
		if l == nil {
			res.List[id] = nil

			continue
		}

		cp := *l
		if back, ok := fx.portBack[cp.Port]; ok {
			cp.Port = back
		}

		res.List[id] = &cp
	}

	return res
}

// vc20LogCapture is a log handler that keeps the records of level error.
type vc20LogCapture struct {
	mu   *sync.Mutex
	errs *[]string
}

func (h vc20LogCapture) Enabled(_ context.Context, lvl slog.Level) (ok bool) {
	return lvl >= slog.LevelError
}

func (h vc20LogCapture) Handle(_ context.Context, r slog.Record) (err error) {
	h.mu.Lock()
	defer h.mu.Unlock()

	text := r.Message
	r.Attrs(func(a slog.Attr) (cont bool) {
		text += " " + a.String()

		return true
	})
	*h.errs = append(*h.errs, text)

	return nil
}

func (h vc20LogCapture) WithAttrs(_ []slog.Attr) (res slog.Handler) { return h }
func (h vc20LogCapture) WithGroup(_ string) (res slog.Handler)      { return h }

// vc20SignalNotifier hands the channel of a signal handler to the harness.
type vc20SignalNotifier struct {
	ch chan<- os.Signal
}

func (n *vc20SignalNotifier) Notify(c chan<- os.Signal, _ ...os.Signal) { n.ch = c }
func (n *vc20SignalNotifier) Stop(_ chan<- os.Signal)                   {}

// vc20ExerciseProfileDB runs builder.initProfileDB against the fake profiles
// backend: with profiles enabled it creates the profile database and starts its
// refresh worker with the configured backend.refresh_interval.  The worker is
// left to tick, then shut down the way the process does it, by the signal
// handler.  A panic that the worker's loop recovers is visible in the log the
// harness supplies; the backend counts the refreshes.
func (fx *vc20Fixture) vc20ExerciseProfileDB(ctx context.Context, o *vc20Outcome, c *configuration, b *builder) {
	ivl := c.Backend.RefreshIvl.Duration
	profiles := c.isProfilesEnabled()
	if profiles && ivl > 0 && ivl < 10 {
		o.classes = append(o.classes, "refresh-interval-below-10ns-with-profiles-enabled")
	}

	var logErrs []string
	mu := &sync.Mutex{}
	oldLogger := b.baseLogger
	b.baseLogger = slog.New(vc20LogCapture{mu: mu, errs: &logErrs})
	defer func() { b.baseLogger = oldLogger }()

	notifier := &vc20SignalNotifier{}
	b.sigHdlr = service.NewSignalHandler(&service.SignalHandlerConfig{
		SignalNotifier:  notifier,
		Logger:          slogutil.NewDiscardLogger(),
		ShutdownTimeout: 3 * time.Second,
	})

	before := fx.profBackend.calls.Load()
	ictx, cancel := context.WithTimeout(ctx, 3*time.Second)
	defer cancel()

	if !o.step("profiledb-init", func() (err error) { return b.initProfileDB(ictx) }) {
		return
	}

	if !profiles {
		o.classes = append(o.classes, "profiledb-disabled")

		return
	}

	// Shut the worker down whatever happens: with a tiny interval it spins.
	defer func() {
		done := make(chan struct{})
		go func() {
			defer close(done)

			_ = b.sigHdlr.Handle(ctx)
		}()

		notifier.ch <- os.Interrupt
		select {
		case <-done:
		case <-time.After(5 * time.Second):
			o.classes = append(o.classes, "profiledb-shutdown-slow")
		}
	}()

	if fx.profBackend.calls.Load() == before {
		o.fail("profiledb-init: the initial refresh did not reach the profiles backend")

		return
	}

	// With an interval of up to a few milliseconds several ticks fit into a
	// short wait; otherwise the worker has nothing to do yet, and a refresh
	// is called directly, as a tick would do.
	ticking := ivl <= 5*time.Millisecond
	afterInit := fx.profBackend.calls.Load()
	if ticking {
		for range 300 {
			if fx.profBackend.calls.Load() >= afterInit+3 {
				break
			}

			time.Sleep(5 * time.Millisecond)
		}
	} else if refr := b.debugRefrs[debugIDProfileDB]; refr != nil {
		o.step("profiledb-refresh", func() (err error) { return refr.Refresh(ictx) })
	}

	mu.Lock()
	recovered := slices.Clone(logErrs)
	mu.Unlock()

	for _, e := range recovered {
		if strings.Contains(e, "recovered from panic") {
			o.fail("profile database refresh worker with backend.refresh_interval %s: its loop panicked and ended: %s", ivl, e)

			return
		}
	}

	switch got := fx.profBackend.calls.Load() - afterInit; {
	case got >= 3 || (!ticking && got >= 1):
		o.classes = append(o.classes, "profiledb-refresh-loop-alive")
	default:
		// No panic was logged, and a verdict from elapsed time alone is not
		// drawn.
		o.timeouts++
		o.classes = append(o.classes, "profiledb-refresh-loop-inconclusive")
	}
}

// vc20ExerciseAllowlist runs builder.initRateLimiter against the allowlist
// source of the environment: a closed port (the backend or Consul is down), or
// the fake rate-limit backend, which answers, fails, or answers first and fails
// on a later refresh.  A source that is down or failing must end the step in
// an ordinary error, or leave the stale data in use, never in a panic.
func (fx *vc20Fixture) vc20ExerciseAllowlist(ctx context.Context, o *vc20Outcome, c *configuration, b *builder) {
	rlc := c.RateLimit
	backendOnly := rlc.Allowlist.Type == rlAllowlistTypeBackend && !c.isProfilesEnabled() &&
		c.Check.RemoteKV.Type != kvModeBackend
	be := fx.rlBackend
	answers := be != nil && !be.refuse && rlc.Allowlist.Type == rlAllowlistTypeBackend
	if answers {
		// Only reached when the initial refresh succeeds.
		b.sigHdlr = service.NewSignalHandler(&service.SignalHandlerConfig{
			Logger:          b.baseLogger,
			ShutdownTimeout: time.Second,
		})
	}

	ictx, cancel := context.WithTimeout(ctx, 3*time.Second)
	defer cancel()

	failing := !answers || be.fail.Load()
	ok := o.step("ratelimit-init", func() (err error) { return b.initRateLimiter(ictx) })
	switch {
	case ok && failing:
		o.fail("ratelimit-init: the allowlist source is down but the initial refresh reports success")
	case !ok && !failing && o.stepErrs["ratelimit-init"] != "":
		o.classes = append(o.classes, "allowlist-backend-answers-but-init-fails")
	case ok:
		o.classes = append(o.classes, "allowlist-backend-answers")
	}

	if failing && backendOnly {
		o.classes = append(o.classes, "allowlist-backend-only-with-failing-backend")
	}

	if !ok || !answers || !be.laterFail {
		return
	}

	// The backend goes down after the start-up; the next refresh (the refresh
	// worker calls exactly this) must report it.
	be.fail.Store(true)
	defer be.fail.Store(false)

	updater := b.debugRefrs[debugIDAllowlist]
	if updater == nil {
		o.fail("ratelimit-init: no allowlist refresher is registered")

		return
	}

	later := o.step("allowlist-later-refresh", func() (err error) { return updater.Refresh(ictx) })
	if later {
		o.fail("allowlist-later-refresh: the backend is failing but the refresh reports success")
	}

	o.classes = append(o.classes, "allowlist-backend-fails-later")
	if backendOnly {
		o.classes = append(o.classes, "allowlist-backend-only-with-failing-backend")
	}
}

// vc20Exercise builds what the builder would build from c and serves queries.
func (fx *vc20Fixture) vc20Exercise(c *configuration) (o *vc20Outcome) {
	o = &vc20Outcome{stepErrs: map[string]string{}}
	if vc20MemoryHazard(c) != "" {
		o.classes = append(o.classes, "exercise-skipped-memory-hazard")

		return o
	}

	ctx := context.Background()
	logger := slogutil.NewDiscardLogger()
	errColl := &vc20ErrColl{}
	envs := fx.vc20Environment()

	// Metrics are registered with the default registerer by several
	// constructors; give every case its own.
	oldReg := prometheus.DefaultRegisterer
	reg := prometheus.NewRegistry()
	prometheus.DefaultRegisterer = reg
	defer func() { prometheus.DefaultRegisterer = oldReg }()

	b := &builder{
		baseLogger:     logger,
		cacheManager:   agdcache.NewDefaultManager(),
		cloner:         dnsmsg.NewCloner(metrics.ClonerStat{}),
		conf:           c,
		env:            envs,
		errColl:        errColl,
		geoIPError:     make(chan error, 1),
		logger:         logger,
		mtrcNamespace:  metrics.Namespace(),
		promRegisterer: reg,
		debugRefrs:     debugsvc.Refreshers{},
	}

	o.step("env", func() (err error) { return envs.validateFromValidConfig(c) })

	// The constructors are deterministic: a step whose whole input is the same
	// as in the distributed configuration, which is exercised completely when
	// the fixture is made, is not repeated.
	base := fx.baseConf
	same := func(a, b any) (ok bool) { return base != nil && reflect.DeepEqual(a, b) }
	hashPrefixSame := base != nil && same(c.SafeBrowsing, base.SafeBrowsing) &&
		same(c.AdultBlocking, base.AdultBlocking) && c.Filters.MaxSize == base.Filters.MaxSize
	filtersSame := base != nil && same(c.Filters, base.Filters)
	geoSame := base != nil && same(c.GeoIP, base.GeoIP) && fx.baseGeo != nil
	webSame := base != nil && same(c.Web, base.Web)
	// With forceFull the listeners are created, started and queried for every
	// configuration, whatever it shares with the distributed one.
	listenersSame := !fx.forceFull && base != nil && same(c.DNS, base.DNS) && same(c.RateLimit.TCP, base.RateLimit.TCP) &&
		same(c.RateLimit.QUIC, base.RateLimit.QUIC) && same(c.RateLimit.ConnectionLimit, base.RateLimit.ConnectionLimit) &&
		same(c.ServerGroups, base.ServerGroups) && same(c.Network, base.Network) &&
		same(fx.vc20BasePorts(c.InterfaceListeners), fx.baseIfaces)

	// Hash-prefix filters, one at a time: each stops at the initial refresh
	// (there is nothing to download), after the constructor has run with the
	// configured sizes and durations.
	for _, which := range []string{"adult", "newreg", "safebrowsing"} {
		if hashPrefixSame {
			break
		}

		e := *envs
		e.AdultBlockingEnabled = which == "adult"
		e.NewRegDomainsEnabled = which == "newreg"
		e.SafeBrowsingEnabled = which == "safebrowsing"
		b.env = &e
		b.promRegisterer = prometheus.NewRegistry()
		o.step("hashprefix-"+which, func() (err error) { return b.initHashPrefixFilters(ctx) })
	}

	b.env = envs
	b.promRegisterer = reg
	b.adultBlocking, b.newRegDomains, b.safeBrowsing = nil, nil, nil
	b.filterMtrc = nil

	o.step("filter-metrics", func() (err error) {
		b.filterMtrc, err = metrics.NewFilter(b.mtrcNamespace, b.promRegisterer)

		return err
	})
	if !filtersSame {
		o.step("filter-storage", func() (err error) { return b.initFilterStorage(ctx) })
	}

	okAccess := o.step("access", func() (err error) { return b.initAccess(ctx) })
	okBTD := o.step("bindtodevice", func() (err error) { return b.initBindToDevice(ctx) })
	if okBTD && b.controlConf != nil {
		nc := c.Network
		if uint64(b.controlConf.SndBufSize) != nc.SndBufSize.Bytes() || uint64(b.controlConf.RcvBufSize) != nc.RcvBufSize.Bytes() {
			o.fail("conversion: network.so_sndbuf/so_rcvbuf are configured as %d/%d but the sockets are given %d/%d",
				nc.SndBufSize.Bytes(), nc.RcvBufSize.Bytes(), b.controlConf.SndBufSize, b.controlConf.RcvBufSize)
		}
	}

	okMsgs := o.step("messages", func() (err error) { return b.initMsgConstructor(ctx) })
	nFail := len(o.failures)
	okTLS := o.step("tls-manager", func() (err error) { return b.initTLSManager(ctx) })
	if !okTLS && len(o.failures) == nFail+1 && vc20HasGroupWithoutTLS(c) {
		// The finding vc20KnownNoTLSSection: collecting the session-ticket
		// paths dereferences the absent tls section of a group that needs
		// none.  The failure is kept aside for the caller to judge, and the
		// manager is made the way initTLSManager would have made it, so that
		// the exercise goes on behind the finding.
		o.noTLSSectionPanic = o.failures[nFail]
		o.failures = o.failures[:nFail]
		okTLS = o.step("tls-manager-behind-finding", func() (err error) {
			var paths []string
			for _, g := range c.ServerGroups {
				if g.TLS != nil {
					paths = append(paths, g.TLS.SessionKeys...)
				}
			}

			b.tlsManager, err = tlsconfig.NewDefaultManager(&tlsconfig.DefaultManagerConfig{
				Logger:             logger,
				ErrColl:            errColl,
				Metrics:            tlsconfig.EmptyMetrics{},
				KeyLogFilename:     envs.SSLKeyLogFile,
				SessionTicketPaths: paths,
			})

			return err
		})
	}

	strg := &agdtest.FilterStorage{
		OnForConfig: func(_ context.Context, _ filter.Config) (f filter.Interface) { return filter.Empty{} },
		OnHasListID: func(id filter.ID) (ok bool) {
			_, ok = vc20KnownLists[id]

			return ok
		},
	}
	okFltGrps := o.step("filtering-groups", func() (err error) {
		b.filteringGroups, err = c.FilteringGroups.toInternal(strg)

		return err
	})

	okSrvGrps := okBTD && okMsgs && okTLS && okFltGrps &&
		o.step("server-groups", func() (err error) { return b.initServerGroups(ctx) })

	o.vc20Fidelity(c, b.serverGroups)

	geo := fx.baseGeo
	okGeo := geoSame || o.step("geoip", func() (err error) {
		gc := c.GeoIP
		geo = geoip.NewFile(&geoip.FileConfig{
			Logger:         logger,
			CacheManager:   b.cacheManager,
			ASNPath:        envs.GeoIPASNPath,
			CountryPath:    envs.GeoIPCountryPath,
			HostCacheCount: gc.HostCacheSize,
			IPCacheCount:   gc.IPCacheSize,
			AllTopASNs:     geoip.DefaultTopASNs,
			CountryTopASNs: geoip.DefaultCountryTopASNs,
		})

		return geo.Refresh(ctx)
	})

	okRL := o.step("ratelimit-build", func() (err error) {
		rc := c.RateLimit
		allowlist := ratelimit.NewDynamicAllowlist(netutil.UnembedPrefixes(rc.Allowlist.List), nil)
		b.connLimit = rc.ConnectionLimit.toInternal(logger)
		b.rateLimit = ratelimit.NewBackoff(rc.toInternal(allowlist))

		return nil
	})

	// As in Main, the gRPC metrics come before the users of the backend.
	okGRPC := o.step("grpc-metrics", func() (err error) { return b.initGRPCMetrics(ctx) })
	okCheck := okMsgs && okGRPC && o.step("dnscheck", func() (err error) { return b.initDNSCheck(ctx) })
	if okGRPC {
		fx.vc20ExerciseAllowlist(ctx, o, c, b)
	}

	if okGRPC && okSrvGrps && fx.profBackend != nil {
		fx.vc20ExerciseProfileDB(ctx, o, c, b)
	}

	if okCheck && okTLS && !webSame {
		o.step("web", func() (err error) {
			webConf, err := c.Web.toInternal(ctx, envs, b.dnsCheck, errColl, b.tlsManager)
			if err != nil {
				return err
			}

			_ = websvc.New(webConf)

			return nil
		})
	}

	o.vc20ExerciseRateLimit(c)
	o.vc20ExerciseConnLimit(c)

	var fwd *forward.Handler
	okFwd := o.step("forward", func() (err error) {
		fwd = forward.NewHandler(c.Upstream.toInternal(logger))
		_ = newUpstreamHealthcheck(logger, fwd, c.Upstream, errColl)

		return nil
	})
	if fwd != nil {
		defer func() { _ = fwd.Close() }()
	}

	okDNSDB := o.step("dnsdb", func() (err error) {
		b.dnsDB = c.DNSDB.toInternal(logger, errColl)

		return nil
	})

	if !(okAccess && okSrvGrps && okGeo && okRL && okCheck && okFwd && okDNSDB) {
		o.classes = append(o.classes, "exercise-partial")

		return o
	}

	profDB := agdtest.NewProfileDB()
	notFound := func() (p *agd.Profile, d *agd.Device, err error) { return nil, nil, profiledb.ErrDeviceNotFound }
	profDB.OnProfileByDedicatedIP = func(_ context.Context, _ netip.Addr) (*agd.Profile, *agd.Device, error) {
		return notFound()
	}
	// One device is known, so that the answers that are specific to recognised
	// devices (the device DDR records) are built as well.  Its profile gets
	// the response-size estimate the way the profile storage passes it on.
	dev := &agd.Device{
		Auth:             &agd.AuthSettings{Enabled: false, PasswordHash: agdpasswd.AllowAuthenticator{}},
		ID:               vc20DeviceID,
		FilteringEnabled: true,
	}
	prof := &agd.Profile{
		FilterConfig: &filter.ConfigClient{
			Custom:       &filter.ConfigCustom{},
			Parental:     &filter.ConfigParental{},
			RuleList:     &filter.ConfigRuleList{},
			SafeBrowsing: &filter.ConfigSafeBrowsing{},
		},
		Access:              access.EmptyProfile{},
		BlockingMode:        &dnsmsg.BlockingModeNullIP{},
		Ratelimiter:         agd.NewDefaultRatelimiter(&agd.RatelimitConfig{RPS: 1000, Enabled: true}, c.RateLimit.ResponseSizeEstimate),
		ID:                  "c20prof",
		DeviceIDs:           []agd.DeviceID{vc20DeviceID},
		FilteredResponseTTL: 10 * time.Second,
		FilteringEnabled:    true,
	}
	profDB.OnProfileByDeviceID = func(_ context.Context, id agd.DeviceID) (*agd.Profile, *agd.Device, error) {
		if id == vc20DeviceID {
			return prof, dev, nil
		}

		return notFound()
	}
	profDB.OnProfileByHumanID = func(
		_ context.Context,
		_ agd.ProfileID,
		_ agd.HumanIDLower,
	) (*agd.Profile, *agd.Device, error) {
		return notFound()
	}
	profDB.OnProfileByLinkedIP = func(_ context.Context, _ netip.Addr) (*agd.Profile, *agd.Device, error) {
		return notFound()
	}

	var handlers dnssvc.Handlers
	okHdlrs := o.step("handlers", func() (err error) {
		handlers, err = dnssvc.NewHandlers(ctx, &dnssvc.HandlersConfig{
			BaseLogger:           logger,
			Cache:                c.Cache.toInternal(),
			Cloner:               b.cloner,
			HumanIDParser:        agd.NewHumanIDParser(),
			Messages:             b.messages,
			PluginRegistry:       nil,
			StructuredErrors:     b.sdeConf,
			AccessManager:        b.access,
			BillStat:             billstat.EmptyRecorder{},
			CacheManager:         b.cacheManager,
			DNSCheck:             b.dnsCheck,
			DNSDB:                b.dnsDB,
			ErrColl:              errColl,
			FilterStorage:        strg,
			GeoIP:                geo,
			Handler:              fwd,
			HashMatcher:          hashprefix.NewMatcher(nil),
			ProfileDB:            profDB,
			PrometheusRegisterer: reg,
			QueryLog:             querylog.Empty{},
			RateLimit:            b.rateLimit,
			RuleStat:             rulestat.Empty{},
			MetricsNamespace:     b.mtrcNamespace,
			FilteringGroups:      b.filteringGroups,
			ServerGroups:         b.serverGroups,
			EDEEnabled:           c.Filters.EDEEnabled,
		})

		return err
	})
	if !okHdlrs {
		o.classes = append(o.classes, "exercise-partial")

		return o
	}

	// The listeners are created with the package's own constructor.  They are
	// not started, except the first listener of every protocol that is bound
	// to an address: that one is moved to an ephemeral loopback port and
	// serves real connections below.
	var listeners []dnssvc.Listener
	var realOrder []agd.Protocol
	var btdServer *agd.Server
	var btdListeners []dnssvc.Listener
	real := map[agd.Protocol]*vc20RealListener{}
	newListener := func(s *agd.Server, bc dnsserver.ConfigBase, nonDNS http.Handler) (l dnssvc.Listener, err error) {
		_, have := real[s.Protocol]
		isReal := !have && len(s.BindData()) > 0 && s.BindData()[0].PrefixAddr == nil
		if isReal {
			bc.Addr = "127.0.0.1:0"
			if fx.dualStack {
				// A dual-stack socket: the IPv4 clients below are reported
				// to the server in the IPv4-mapped form.
				bc.Addr = "[::]:0"
			}
		}

		l, err = dnssvc.NewListener(s, bc, nonDNS)
		if l != nil {
			listeners = append(listeners, l)
			if isIface := len(s.BindData()) > 0 && s.BindData()[0].PrefixAddr != nil; isIface &&
				s.Protocol == agd.ProtoDNS && (btdServer == nil || btdServer == s) {
				// All listeners of the first plain-DNS server that is bound to
				// interfaces are started as well, behind the real
				// bind-to-device manager.
				btdServer = s
				btdListeners = append(btdListeners, l)
			}

			if isReal {
				real[s.Protocol] = &vc20RealListener{l: l, srv: s}
				realOrder = append(realOrder, s.Protocol)
			}
		}

		return l, err
	}
	defer func() {
		for _, l := range listeners {
			vc20ReleasePools(reflect.ValueOf(l), 0)
		}
	}()

	okSvc := listenersSame || o.step("service", func() (err error) {
		_, err = dnssvc.New(&dnssvc.Config{
			Handlers:         handlers,
			NewListener:      newListener,
			Cloner:           b.cloner,
			ControlConf:      b.controlConf,
			ConnLimiter:      b.connLimit,
			ErrColl:          errColl,
			NonDNS:           http.NotFoundHandler(),
			MetricsNamespace: b.mtrcNamespace,
			ServerGroups:     b.serverGroups,
			HandleTimeout:    c.DNS.HandleTimeout.Duration,
		})

		return err
	})
	if !okSvc {
		o.classes = append(o.classes, "exercise-partial")

		return o
	}

	fx.vc20Queries(o, c, handlers, b.serverGroups)
	for _, p := range realOrder {
		o.vc20RealListener(c, real[p])
	}

	if btdServer != nil {
		o.vc20RealInterfaceListeners(c, b.btdManager, btdServer, btdListeners)
	}

	o.classes = append(o.classes, "exercise-full")
	o.geo = geo

	return o
}

// vc20RealListener is a listener that is really started, with its server.
type vc20RealListener struct {
	l   dnssvc.Listener
	srv *agd.Server
}

// vc20ClientTimeout bounds every exchange of the real clients.  Running into
// it decides nothing, so it only has to be long enough for a loopback exchange
// on a busy machine.
const vc20LongClientTimeout = 1500 * time.Millisecond

// vc20ClientTimeout is the timeout in force.  It is shorter while a
// configuration with tiny timeouts is exercised: its exchanges may fail, and
// nothing is concluded from that.  The exercise is sequential.
var vc20ClientTimeout = vc20LongClientTimeout

// vc20DNSCryptPublicKey is the provider public key of the DNSCrypt
// configuration of the distributed example.
const vc20DNSCryptPublicKey = "F11DDBCC4817E543845FDDD4CB881849B64226F3DE397625669D87B919BC4FB0"

// vc20ClientTLS returns the TLS configuration of the harness clients.
func vc20ClientTLS(alpn ...string) (conf *tls.Config) {
	return &tls.Config{InsecureSkipVerify: true, ServerName: "dns.example.com", NextProtos: alpn}
}

// vc20Loopback returns the IPv4 loopback address with the port of a.
func vc20Loopback(a net.Addr) (hostport string) {
	if a == nil {
		return "127.0.0.1:0"
	}

	_, port, err := net.SplitHostPort(a.String())
	if err != nil {
		return a.String()
	}

	return net.JoinHostPort("127.0.0.1", port)
}

// vc20CheckAnswer returns an error if resp is not the upstream's answer to req.
func vc20CheckAnswer(req, resp *dns.Msg) (err error) {
	if resp == nil || resp.Id != req.Id || resp.Rcode != dns.RcodeSuccess || len(resp.Answer) == 0 {
		return fmt.Errorf("unexpected response: %v", resp)
	}

	return nil
}

// vc20ExchangeDoT sends two pipelined queries over one TLS connection.
func vc20ExchangeDoT(l dnssvc.Listener) (got int, err error) {
	cli := &dns.Client{Net: "tcp-tls", TLSConfig: vc20ClientTLS(), Timeout: vc20ClientTimeout}
	conn, err := cli.Dial(vc20Loopback(l.LocalTCPAddr()))
	if err != nil {
		return 0, err
	}
	defer func() { _ = conn.Close() }()

	_ = conn.SetDeadline(time.Now().Add(vc20ClientTimeout))
	reqs := map[uint16]*dns.Msg{}
	for i, name := range []string{"c20-dot-1.example.net.", "c20-dot-2.example.net."} {
		req := (&dns.Msg{}).SetQuestion(name, dns.TypeA)
		req.Id = uint16(0xD070 + i)
		reqs[req.Id] = req
		if err = conn.WriteMsg(req); err != nil {
			return 0, err
		}
	}

	// The third pipelined query is a DDR one: its answer is built from the
	// group's DDR records; any response will do, but there must be one.
	ddr := vc20DDRRequest(0xD07F)
	if err = conn.WriteMsg(ddr); err != nil {
		return 0, err
	}

	for range 3 {
		var resp *dns.Msg
		resp, err = conn.ReadMsg()
		if err != nil {
			return got, err
		}

		if resp.Id == ddr.Id {
			got++

			continue
		}

		req, ok := reqs[resp.Id]
		if !ok {
			return got, fmt.Errorf("unexpected response: %v", resp)
		} else if err = vc20CheckAnswer(req, resp); err != nil {
			return got, err
		}

		delete(reqs, resp.Id)
		got++
	}

	return got, nil
}

// vc20DDRRequest returns a DDR query.
func vc20DDRRequest(id uint16) (req *dns.Msg) {
	req = (&dns.Msg{}).SetQuestion("_dns.resolver.arpa.", dns.TypeSVCB)
	req.Id = id

	return req
}

// vc20ExchangeDoQ sends one query over a QUIC connection, RFC 9250.
func vc20ExchangeDoQ(l dnssvc.Listener) (got int, err error) {
	ctx, cancel := context.WithTimeout(context.Background(), 5*time.Second)
	defer cancel()

	conn, err := quic.DialAddr(ctx, vc20Loopback(l.LocalUDPAddr()), vc20ClientTLS("doq"), &quic.Config{})
	if err != nil {
		return 0, fmt.Errorf("dialing: %w", err)
	}
	defer func() { _ = conn.CloseWithError(0, "") }()

	req := (&dns.Msg{}).SetQuestion("c20-doq.example.net.", dns.TypeA)
	req.Id = 0
	resp, err := vc20DoQStream(ctx, conn, req)
	if err != nil {
		return 0, err
	} else if err = vc20CheckAnswer(req, resp); err != nil {
		return 0, err
	}

	// A DDR query on a second stream: any response will do.
	_, err = vc20DoQStream(ctx, conn, vc20DDRRequest(0))
	if err != nil {
		return 1, fmt.Errorf("ddr query: %w", err)
	}

	return 2, nil
}

// vc20DoQStream sends req on a new stream of conn and reads the response.
func vc20DoQStream(ctx context.Context, conn quic.Connection, req *dns.Msg) (resp *dns.Msg, err error) {
	stream, err := conn.OpenStreamSync(ctx)
	if err != nil {
		return nil, fmt.Errorf("opening stream: %w", err)
	}

	data, err := req.Pack()
	if err != nil {
		return nil, err
	}

	buf := binary.BigEndian.AppendUint16(nil, uint16(len(data)))
	_ = stream.SetDeadline(time.Now().Add(vc20ClientTimeout))
	if _, err = stream.Write(append(buf, data...)); err != nil {
		return nil, fmt.Errorf("writing: %w", err)
	}

	// A DoQ client must send a FIN to indicate that the query is finished.
	if err = stream.Close(); err != nil {
		return nil, fmt.Errorf("closing stream: %w", err)
	}

	respBytes, err := io.ReadAll(stream)
	if err != nil {
		return nil, fmt.Errorf("reading: %w", err)
	} else if len(respBytes) < 2+12 {
		return nil, fmt.Errorf("short response of %d octets", len(respBytes))
	}

	resp = &dns.Msg{}
	if err = resp.Unpack(respBytes[2:]); err != nil {
		return nil, fmt.Errorf("unpacking: %w", err)
	}

	return resp, nil
}

// vc20ExchangeDoH sends one query as an HTTP POST over TLS, RFC 8484.
func vc20ExchangeDoH(l dnssvc.Listener) (got int, err error) {
	tr := &http.Transport{TLSClientConfig: vc20ClientTLS(), ForceAttemptHTTP2: true}
	defer tr.CloseIdleConnections()

	cli := &http.Client{Transport: tr, Timeout: vc20ClientTimeout}
	u := "https://" + vc20Loopback(l.LocalTCPAddr()) + "/dns-query"
	post := func(req *dns.Msg) (resp *dns.Msg, err error) {
		data, err := req.Pack()
		if err != nil {
			return nil, err
		}

		httpResp, err := cli.Post(u, "application/dns-message", bytes.NewReader(data))
		if err != nil {
			return nil, err
		}
		defer func() { _ = httpResp.Body.Close() }()

		body, err := io.ReadAll(httpResp.Body)
		if err != nil {
			return nil, fmt.Errorf("reading: %w", err)
		} else if httpResp.StatusCode != http.StatusOK {
			return nil, fmt.Errorf("status %d: %q", httpResp.StatusCode, body)
		}

		resp = &dns.Msg{}
		if err = resp.Unpack(body); err != nil {
			return nil, fmt.Errorf("unpacking: %w", err)
		}

		return resp, nil
	}

	req := (&dns.Msg{}).SetQuestion("c20-doh.example.net.", dns.TypeA)
	req.Id = 0
	resp, err := post(req)
	if err != nil {
		return 0, err
	} else if err = vc20CheckAnswer(req, resp); err != nil {
		return 0, err
	}

	// A DDR query: any response will do.
	if _, err = post(vc20DDRRequest(0)); err != nil {
		return 1, fmt.Errorf("ddr query: %w", err)
	}

	return 2, nil
}

// vc20ExchangeDNSCrypt fetches the certificate and sends one query over UDP.
func vc20ExchangeDNSCrypt(l dnssvc.Listener, srv *agd.Server) (got int, err error) {
	pk, err := hex.DecodeString(vc20DNSCryptPublicKey)
	if err != nil {
		return 0, err
	}

	cli := &dnscrypt.Client{Timeout: vc20ClientTimeout, Net: "udp", UDPSize: 4096}
	ri, err := cli.DialStamp(dnsstamps.ServerStamp{
		ServerAddrStr: vc20Loopback(l.LocalUDPAddr()),
		ServerPk:      pk,
		ProviderName:  srv.DNSCrypt.ProviderName,
		Proto:         dnsstamps.StampProtoTypeDNSCrypt,
	})
	if err != nil {
		return 0, fmt.Errorf("fetching the certificate: %w", err)
	}

	req := (&dns.Msg{}).SetQuestion("c20-dnscrypt.example.net.", dns.TypeA)
	resp, err := cli.Exchange(req, ri)
	if err != nil {
		return 0, err
	}

	return 1, vc20CheckAnswer(req, resp)
}

// vc20ExchangePlain sends one query over UDP and one over TCP.
func vc20ExchangePlain(l dnssvc.Listener) (got int, err error) {
	for _, netw := range []string{"udp", "tcp"} {
		addr := l.LocalUDPAddr()
		if netw == "tcp" {
			addr = l.LocalTCPAddr()
		}

		cli := &dns.Client{Net: netw, Timeout: vc20ClientTimeout}
		req := (&dns.Msg{}).SetQuestion("c20-plain-"+netw+".example.net.", dns.TypeA)
		var resp *dns.Msg
		resp, _, err = cli.Exchange(req, vc20Loopback(addr))
		if err != nil {
			return got, fmt.Errorf("%s: %w", netw, err)
		} else if err = vc20CheckAnswer(req, resp); err != nil {
			return got, fmt.Errorf("%s: %w", netw, err)
		}

		got++
	}

	return got, nil
}

// vc20RealInterfaceListeners starts the listeners of a plain-DNS server that is
// bound to interfaces and the bind-to-device manager behind them, as
// dnssvc.Service.Start and builder.startBindToDevice do, and sends one UDP and
// one TCP query to every port.  SO_BINDTODEVICE needs root; without it the
// part is skipped with a recorded reason.
func (o *vc20Outcome) vc20RealInterfaceListeners(
	c *configuration,
	mgr *bindtodevice.Manager,
	srv *agd.Server,
	ls []dnssvc.Listener,
) {
	if os.Geteuid() != 0 {
		o.classes = append(o.classes, "btd-real-skipped-not-root")

		return
	}

	ctx := context.Background()
	var startedLs []dnssvc.Listener
	defer func() {
		sctx, cancel := context.WithTimeout(ctx, 3*time.Second)
		defer cancel()

		for _, l := range startedLs {
			_ = l.Shutdown(sctx)
		}
	}()

	okLs := o.step("btd-listeners-start", func() (err error) {
		for _, l := range ls {
			if err = l.Start(ctx); err != nil {
				return err
			}

			startedLs = append(startedLs, l)
		}

		return nil
	})
	if !okLs {
		return
	}

	inUse := false
	okMgr := o.step("bindtodevice-start", func() (err error) {
		err = mgr.Start(ctx)
		if err != nil && strings.Contains(err.Error(), "address already in use") {
			inUse = true

			return nil
		}

		return err
	})
	defer func() {
		_ = mgr.Shutdown(ctx)

		// The manager's accept and read loops look at the shutdown signal
		// only between two connections or datagrams, and nothing closes
		// their sockets: wake them, so that the loops end and the sockets
		// are collected, instead of piling up in the harness process.
		for _, bd := range srv.BindData() {
			if bd.PrefixAddr == nil {
				continue
			}

			addr := fmt.Sprintf("127.0.0.1:%d", bd.PrefixAddr.Port)
			if conn, err := net.DialTimeout("tcp", addr, 200*time.Millisecond); err == nil {
				_ = conn.Close()
			}

			if conn, err := net.Dial("udp", addr); err == nil {
				_, _ = conn.Write([]byte{0})
				_ = conn.Close()
			}
		}
	}()

	if inUse {
		o.timeouts++
		o.classes = append(o.classes, "btd-real-inconclusive")

		return
	} else if !okMgr {
		return
	}

	const enough = 500 * time.Millisecond
	dc := c.DNS
	must := vc20SaneTimeouts(c) && dc.ReadTimeout.Duration >= enough && dc.WriteTimeout.Duration >= enough &&
		dc.TCPIdleTimeout.Duration >= enough && !vc20AccessBlocked(c, netip.MustParseAddr("127.0.0.1"))
	vc20ClientTimeout = vc20LongClientTimeout
	if !must {
		vc20ClientTimeout = 250 * time.Millisecond
	}

	ports := map[uint16]struct{}{}
	for _, bd := range srv.BindData() {
		if bd.PrefixAddr == nil || !bd.PrefixAddr.Prefix.Contains(netip.MustParseAddr("127.0.0.1")) {
			continue
		}

		port := bd.PrefixAddr.Port
		if _, dup := ports[port]; dup {
			continue
		}

		ports[port] = struct{}{}
		for _, netw := range []string{"udp", "tcp"} {
			start := time.Now()
			cli := &dns.Client{Net: netw, Timeout: vc20ClientTimeout}
			req := (&dns.Msg{}).SetQuestion("c20-btd-"+netw+".example.net.", dns.TypeA)
			resp, _, err := cli.Exchange(req, fmt.Sprintf("127.0.0.1:%d", port))
			if err == nil {
				err = vc20CheckAnswer(req, resp)
			}

			elapsed := time.Since(start)
			switch {
			case err == nil:
				o.classes = append(o.classes, "btd-real-answered", "btd-real-answered-"+netw)
			case vc20IsTimeout(err) || elapsed >= 400*time.Millisecond || !must:
				o.timeouts++
				o.classes = append(o.classes, "btd-real-inconclusive")
			default:
				o.realListenerFailed = true
				o.fail("real interface listener of server %q on lo port %d over %s: after %s: %v", srv.Name, port, netw, elapsed, err)
			}
		}
	}
}

// vc20RealListener starts a real listener on a loopback port, sends real
// queries with a client of its protocol and shuts it down: the TLS
// configuration, the connection limiter, the read, write and idle timeouts, the
// pipeline and stream limits and the handle timeout are those built from the
// configuration.
func (o *vc20Outcome) vc20RealListener(c *configuration, rl *vc20RealListener) {
	l, proto := rl.l, rl.srv.Protocol
	tag := map[agd.Protocol]string{
		agd.ProtoDNS:      "dns",
		agd.ProtoDNSCrypt: "dnscrypt",
		agd.ProtoDoH:      "doh",
		agd.ProtoDoQ:      "doq",
		agd.ProtoDoT:      "dot",
	}[proto]
	if tag == "" {
		return
	}

	ctx := context.Background()
	// A listener that takes one port for both UDP and TCP can find the port of
	// its first socket taken for the second one on a busy machine; that is the
	// machine, not the configuration.
	inUse := false
	started := o.step(tag+"-start", func() (err error) {
		for range 5 {
			err = l.Start(ctx)
			if err == nil || !strings.Contains(err.Error(), "address already in use") {
				return err
			}
		}

		inUse = true

		return nil
	})
	if inUse {
		o.timeouts++
		o.classes = append(o.classes, tag+"-real-inconclusive")

		return
	} else if !started {
		return
	}

	defer func() {
		sctx, cancel := context.WithTimeout(ctx, 3*time.Second)
		defer cancel()

		_ = l.Shutdown(sctx)
	}()

	const enough = 500 * time.Millisecond
	dc := c.DNS
	must := vc20SaneTimeouts(c) && dc.ReadTimeout.Duration >= enough && dc.WriteTimeout.Duration >= enough &&
		dc.TCPIdleTimeout.Duration >= enough && !vc20AccessBlocked(c, netip.MustParseAddr("127.0.0.1"))
	vc20ClientTimeout = vc20LongClientTimeout
	if !must {
		vc20ClientTimeout = 250 * time.Millisecond
	}

	start := time.Now()
	var got int
	var err error
	func() {
		defer func() {
			if v := recover(); v != nil {
				err = fmt.Errorf("harness client panicked: %v", v)
				must = false
			}
		}()

		switch proto {
		case agd.ProtoDNS:
			got, err = vc20ExchangePlain(l)
		case agd.ProtoDNSCrypt:
			got, err = vc20ExchangeDNSCrypt(l, rl.srv)
		case agd.ProtoDoH:
			got, err = vc20ExchangeDoH(l)
		case agd.ProtoDoQ:
			got, err = vc20ExchangeDoQ(l)
		case agd.ProtoDoT:
			got, err = vc20ExchangeDoT(l)
		}
	}()

	elapsed := time.Since(start)
	switch {
	case err == nil:
		o.classes = append(o.classes, tag+"-real-answered")
		if a := l.LocalUDPAddr(); a != nil && strings.HasPrefix(a.String(), "[::]") {
			o.classes = append(o.classes, "real-dual-stack-ipv4-client")
		} else if a = l.LocalTCPAddr(); a != nil && strings.HasPrefix(a.String(), "[::]") {
			o.classes = append(o.classes, "real-dual-stack-ipv4-client")
		}
	case vc20IsTimeout(err) || elapsed >= 400*time.Millisecond || !must:
		// Slow or bounded by a tiny configured timeout: decides nothing.
		o.timeouts++
		o.classes = append(o.classes, tag+"-real-inconclusive")
	default:
		o.realListenerFailed = true
		o.fail("real %s listener of server %q: %d queries answered, then after %s: %v", tag, rl.srv.Name, got, elapsed, err)
	}
}

// vc20Queries serves queries of a fresh IPv4 and a fresh IPv6 client through
// the handlers of every server.
func (fx *vc20Fixture) vc20Queries(
	o *vc20Outcome,
	c *configuration,
	handlers dnssvc.Handlers,
	srvGrps []*agd.ServerGroup,
) {
	sane := vc20SaneTimeouts(c)
	if !sane {
		o.classes = append(o.classes, "tiny-timeouts")
	}

	// Only the first plain-DNS server gets the must-be-served queries of a
	// client: the servers share one rate limiter, and a second request of the
	// same client may legitimately go over a limit of one.
	plainSeen := false
	n := 0
	for _, g := range srvGrps {
		for _, s := range g.Servers {
			h, ok := handlers[dnssvc.HandlerKey{Server: s, ServerGroup: g}]
			if !ok {
				o.fail("no handler for server %q of group %q", s.Name, g.Name)

				continue
			}

			limited := s.Protocol == agd.ProtoDNS
			must := sane && (!limited || !plainSeen)
			respondSpecial := sane && !vc20AccessBlocked(c, vc20ClientSpecial)
			if limited {
				plainSeen = true
			}

			for _, client := range []netip.Addr{vc20ClientV4, vc20ClientV6, vc20ClientMapped} {
				n++
				// The same name is asked on every server: after the first
				// server this is the cache-hit path when a cache is on.
				qtype := dns.TypeA
				name := "c20-v4.example.net."
				answered := must
				switch {
				case client.Is4In6():
					// An IPv4 client behind a dual-stack socket: handled or
					// dropped, never a panic or an error.
					name, answered = "c20-mapped.example.net.", false
					o.classes = append(o.classes, "client-ipv4-mapped")
				case client.Is6():
					qtype, name = dns.TypeAAAA, "c20-v6.example.net."
				}

				if vc20AccessBlocked(c, client) {
					// "The list of IP addresses or CIDR-es to block": no
					// answer is the configured behaviour.
					answered = false
					o.classes = append(o.classes, "client-access-blocked")
				}

				fx.vc20Query(o, c, h, s, client, name, qtype, answered, sane)
			}

			fx.vc20SpecialQueries(o, c, h, g, s, sane, !limited && respondSpecial)
		}
	}

	if n == 0 {
		o.fail("no servers were built from an accepted configuration")
	}
}

// vc20AccessBlocked reports whether the access settings block the client.
func vc20AccessBlocked(c *configuration, ip netip.Addr) (ok bool) {
	for _, p := range c.Access.BlockedClientSubnets {
		if p.IsValid() && (p.Contains(ip) || p.Contains(ip.Unmap())) {
			return true
		}
	}

	return false
}

// vc20Special describes a query for an answer the service builds itself.
type vc20Special struct {
	tag          string
	qclass       uint16
	device       bool
	deviceDomain string
	wantAnswers  bool
	mustRespond  bool
}

// vc20SpecialQueries asks a server for the answers that are built from the
// configuration rather than fetched from the upstream: the DDR records (public
// and device-specific), the DNS-check addresses, the blocked canary domains,
// and the debug records of a CHAOS query.  Such a query gets a response of
// some kind, never an error: a template that the configuration produced and
// that cannot be packed is a failure of request handling.
func (fx *vc20Fixture) vc20SpecialQueries(
	o *vc20Outcome,
	c *configuration,
	h dnsserver.Handler,
	g *agd.ServerGroup,
	s *agd.Server,
	sane bool,
	unlimited bool,
) {
	respond := sane && unlimited
	ask := func(name string, qtype uint16, sp vc20Special) {
		sp.mustRespond = respond
		fx.vc20Query(o, c, h, s, vc20ClientSpecial, dns.Fqdn(name), qtype, false, sane, sp)
	}

	ddr := vc20Special{tag: "ddr-query", wantAnswers: true}
	ask("_dns.resolver.arpa", dns.TypeSVCB, ddr)
	if g.DDR != nil {
		publicTargets := g.DDR.PublicTargets.Values()
		deviceTargets := g.DDR.DeviceTargets.Values()
		slices.Sort(publicTargets)
		slices.Sort(deviceTargets)
		for _, target := range publicTargets {
			ask("_dns."+target, dns.TypeSVCB, ddr)
		}

		for _, target := range deviceTargets {
			for _, dom := range g.DeviceDomains {
				dev := vc20Special{tag: "ddr-device-query", wantAnswers: true, device: true, deviceDomain: dom}
				ask("_dns."+string(vc20DeviceID)+"."+target, dns.TypeSVCB, dev)
				ask("_dns.resolver.arpa", dns.TypeSVCB, dev)
			}
		}
	}

	// Other types and names under resolver.arpa are answered with NODATA and
	// NXDOMAIN built by the service.
	ask("_dns.resolver.arpa", dns.TypeA, vc20Special{tag: "ddr-nodata-query"})
	ask("c20.resolver.arpa", dns.TypeSVCB, vc20Special{tag: "ddr-nodata-query"})

	for _, dom := range c.Check.Domains {
		if dom == "" {
			continue
		}

		chk := vc20Special{tag: "dnscheck-query", wantAnswers: true}
		ask(strings.ToLower(dom), dns.TypeA, chk)
		if c.Check.RemoteKV.Type == kvModeCache {
			// With an identifier the answer is also stored in the key-value
			// storage; the other storages are the outside world.
			ask("c20c20c20c-"+strings.ToLower(dom), dns.TypeAAAA, chk)
		}
	}

	for _, host := range []string{"use-application-dns.net", "mask.icloud.com", "dns-tunnel-check.googlezip.net"} {
		ask(host, dns.TypeA, vc20Special{tag: "canary-query"})
	}

	ask("c20-debug.example.net", dns.TypeA, vc20Special{tag: "debug-query", qclass: dns.ClassCHAOS})
}

// vc20Query serves one query.
func (fx *vc20Fixture) vc20Query(
	o *vc20Outcome,
	c *configuration,
	h dnsserver.Handler,
	s *agd.Server,
	client netip.Addr,
	name string,
	qtype uint16,
	must bool,
	noErr bool,
	special ...vc20Special,
) {
	// A special query asks for an answer that the service builds itself from
	// the configuration: any response will do, but it must be possible to
	// build and pack it.
	var sp vc20Special
	if len(special) > 0 {
		sp = special[0]
	}

	var laddr netip.AddrPort
	bd := s.BindData()
	switch {
	case len(bd) == 0:
		o.fail("server %q has no bind data", s.Name)

		return
	case bd[0].PrefixAddr != nil:
		laddr = netip.AddrPortFrom(bd[0].PrefixAddr.Prefix.Addr(), bd[0].PrefixAddr.Port)
	default:
		laddr = bd[0].AddrPort
	}

	raddr := netip.AddrPortFrom(client, 40053)
	rw := &vc20RW{}
	ri := &dnsserver.RequestInfo{StartTime: time.Now()}
	switch s.Protocol {
	case agd.ProtoDNS, agd.ProtoDNSCrypt:
		rw.local, rw.remote = net.UDPAddrFromAddrPort(laddr), net.UDPAddrFromAddrPort(raddr)
	case agd.ProtoDoQ:
		rw.local, rw.remote = net.UDPAddrFromAddrPort(laddr), net.UDPAddrFromAddrPort(raddr)
		ri.TLSServerName = "dns.example.com"
	case agd.ProtoDoH:
		rw.local, rw.remote = net.TCPAddrFromAddrPort(laddr), net.TCPAddrFromAddrPort(raddr)
		ri.TLSServerName = "dns.example.com"
		ri.URL = &url.URL{Scheme: "https", Host: "dns.example.com", Path: "/dns-query"}
	default:
		rw.local, rw.remote = net.TCPAddrFromAddrPort(laddr), net.TCPAddrFromAddrPort(raddr)
		ri.TLSServerName = "dns.example.com"
	}

	handleTimeout := c.DNS.HandleTimeout.Duration
	if handleTimeout <= 0 || handleTimeout > math.MaxInt64/4 {
		handleTimeout = time.Hour
	}

	ctx, cancel := context.WithTimeout(context.Background(), handleTimeout)
	defer cancel()

	ctx = dnsserver.ContextWithServerInfo(ctx, &dnsserver.ServerInfo{
		Name:  string(s.Name),
		Addr:  laddr.String(),
		Proto: s.Protocol,
	})
	ctx = dnsserver.ContextWithRequestInfo(ctx, ri)

	req := (&dns.Msg{}).SetQuestion(name, qtype)
	req.Id = 0xC20
	req.SetEdns0(1232, false)
	if sp.qclass != 0 {
		req.Question[0].Qclass = sp.qclass
	}

	if sp.device && ri.TLSServerName != "" {
		// The device is recognised by the server name of the TLS session.
		ri.TLSServerName = string(vc20DeviceID) + "." + sp.deviceDomain
	}

	label := fmt.Sprintf("query %s %s on %q (%s) from %s", dns.TypeToString[qtype], name, s.Name, s.Protocol, client)
	if sp.tag != "" {
		label = sp.tag + " " + label
	}
	var err error
	func() {
		defer func() {
			if v := recover(); v != nil {
				o.fail("%s: panic: %v\n%s", label, v, vc20Stack())
				err = errors.New("panicked")
			}
		}()

		err = h.ServeDNS(ctx, rw, req)
	}()

	// A failure that took as long as the shortest generous timeout may be the
	// machine being busy; it decides nothing.
	if elapsed := time.Since(ri.StartTime); (must || noErr) && elapsed >= 400*time.Millisecond {
		must, noErr = false, false
		o.timeouts++
		o.classes = append(o.classes, "query-slow")
	}

	switch {
	case err != nil && vc20IsTimeout(err):
		o.timeouts++
		o.classes = append(o.classes, "query-timeout")
	case err != nil:
		if (must || noErr) && err.Error() != "panicked" {
			o.fail("%s: error: %v", label, err)
		}

		o.classes = append(o.classes, "query-error")
	case rw.resp == nil:
		if must || (sp.tag != "" && sp.mustRespond) {
			o.fail("%s: no response was written for a fresh, not blocked client", label)
		}

		o.classes = append(o.classes, "query-dropped")
	default:
		if must && (rw.resp.Id != req.Id || !rw.resp.Response) {
			o.fail("%s: malformed response %v", label, rw.resp)
		}

		if sp.tag != "" {
			o.classes = append(o.classes, sp.tag+"-responded")
			if sp.wantAnswers && rw.resp.Rcode == dns.RcodeSuccess && len(rw.resp.Answer) > 0 {
				o.classes = append(o.classes, sp.tag+"-served")
			}

			return
		}

		switch {
		case rw.resp.Rcode == dns.RcodeSuccess && len(rw.resp.Answer) > 0:
			o.classes = append(o.classes, "query-answered")
			switch {
			case client.Is4():
				o.classes = append(o.classes, "served-v4")
			case client.Is4In6():
				o.classes = append(o.classes, "served-ipv4-mapped")
			default:
				o.classes = append(o.classes, "served-v6")
			}
		case rw.resp.Rcode == dns.RcodeServerFailure && !must:
			o.classes = append(o.classes, "query-servfail-tiny-timeout")
		default:
			if must {
				o.fail("%s: response %s with %d answers although the upstream answers every query",
					label, dns.RcodeToString[rw.resp.Rcode], len(rw.resp.Answer))
			}

			o.classes = append(o.classes, "query-other-rcode")
		}
	}
}
