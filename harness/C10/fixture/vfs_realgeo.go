//go:build verif

package dnssvc_test

// Shared by C10 and C15: the full handler stack with the REAL geoip.File on the
// repository's test databases and the ECS cache enabled, so that the locations
// the access check, billing and query log see are the database's own cached
// *geoip.Location objects, which the ECS cache's subnet lookup also works with.

import (
	"context"
	"fmt"
	"net/netip"
	"os"
	"path/filepath"
	"strings"
	"testing"

	"github.com/AdguardTeam/AdGuardDNS/internal/agdcache"
	"github.com/AdguardTeam/AdGuardDNS/internal/geoip"
	"github.com/AdguardTeam/golibs/logutil/slogutil"
	"github.com/miekg/dns"
	"pgregory.net/rapid"
)

// vfsRealGeoNew loads a new geoip.File from the test databases of the tree
// under test.
func vfsRealGeoNew(tb testing.TB) *geoip.File {
	td := vfsRealTestdata()

	return vfsRealGeoFromFiles(tb, filepath.Join(td, "GeoIP2-ISP-Test.mmdb"), filepath.Join(td, "GeoIP2-City-Test.mmdb"))
}

// vfsRealTestdata is the directory of the test databases of the tree under
// test.
func vfsRealTestdata() string {
	dir := os.Getenv("VERIF_REPO")
	if dir == "" {
		dir = "/repo"
	}

	return filepath.Join(dir, "internal", "geoip", "testdata")
}

// vfsRealGeoFromFiles loads a new geoip.File from the given database files.
func vfsRealGeoFromFiles(tb testing.TB, asnPath, ctryPath string) *geoip.File {
	g := geoip.NewFile(&geoip.FileConfig{
		Logger:         slogutil.NewDiscardLogger(),
		CacheManager:   agdcache.EmptyManager{},
		ASNPath:        asnPath,
		CountryPath:    ctryPath,
		HostCacheCount: 0,
		IPCacheCount:   100,
		AllTopASNs:     geoip.DefaultTopASNs,
		CountryTopASNs: geoip.DefaultCountryTopASNs,
	})
	if err := g.Refresh(context.Background()); err != nil {
		tb.Fatalf("harness: loading the test GeoIP databases: %v", err)
	}

	return g
}

// vfsRealBases are addresses the test databases know, with the country and
// ASN a fresh database reports for them (hand-written; checked against a fresh
// instance when the world is built).
var vfsRealBases = []struct {
	Addr netip.Addr
	Ctry geoip.Country
	ASN  geoip.ASN
}{
	{netip.MustParseAddr("216.160.83.56"), "US", 209},
	{netip.MustParseAddr("149.101.100.0"), "US", 6167},
	{netip.MustParseAddr("67.43.156.1"), "BT", 35908},
	{netip.MustParseAddr("81.2.69.142"), "GB", 0},
	{netip.MustParseAddr("2.125.160.216"), "GB", 0},
	{netip.MustParseAddr("2001:218::"), "JP", 0},
	{netip.MustParseAddr("1.128.0.0"), "", 1221},
	{netip.MustParseAddr("89.160.20.112"), "SE", 29518},
	{netip.MustParseAddr("76.128.0.5"), "", 7922},
	{netip.MustParseAddr("12.81.92.0"), "", 7018},
	// not in the databases at all
	{netip.MustParseAddr("192.0.2.77"), "", 0},
	// an IPv6 network whose 4th to 7th octets are zero: its /56 block and the
	// IPv4 /24 block 32.1.23.0 have the same leading octets
	{netip.MustParseAddr("2001:1700::53"), "", 6730},
}

// vfsRealASNs are the ASNs used in access lists: the clients' real ones and
// the top ASNs of their countries.
var vfsRealASNs = []geoip.ASN{209, 6167, 35908, 1221, 29518, 7922, 7018, 18024, 2856, 2516, 6730, 64512}

// vfsRealBlock is the block the database caches locations by: /24 for IPv4,
// /56 for IPv6 (own computation).
func vfsRealBlock(a netip.Addr) netip.Prefix {
	if a.Is4() {
		return netip.PrefixFrom(a, 24).Masked()
	}

	return netip.PrefixFrom(a, 56).Masked()
}

// vfsRealWorld is the set of client addresses and their reference locations.
type vfsRealWorld struct {
	// Blocks[i] are the usable addresses of the block of vfsRealBases[i]; the
	// first one is the base itself.
	Blocks [][]netip.Addr
	// ECSOK lists the blocks whose network address (what the stack looks up
	// for an ECS option naming the block) has the same location as the base:
	// the database caches by block on purpose, so naming another block in
	// ECS would make the clients' location depend on the order of lookups.
	ECSOK []int
	// Partner maps a block to the block of the OTHER address family that has
	// the same leading octets (IPv4 a.b.c.0/24 and IPv6 aabb:cc00:0:00xx::/56):
	// constructed pairs, for which a cache keyed by leading octets alone would
	// mix the families up.  NBase is the number of blocks that are not
	// constructed partners.
	Partner map[int]int
	NBase   int
	ref     map[netip.Addr]*geoip.Location
}

// Loc is the reference location of a (nil = none): what a fresh database that
// was never asked anything else, and never asked for a subnet, reports.
func (w *vfsRealWorld) Loc(a netip.Addr) *geoip.Location { return w.ref[a] }

func vfsLocEq(a, b *geoip.Location) bool {
	if a == nil || b == nil {
		return a == nil && b == nil
	}

	return a.Country == b.Country && a.ASN == b.ASN
}

// vfsRealWorldNew builds the world.  Every reference lookup uses its own fresh
// geoip.File that is asked exactly one Data() question, so neither the
// per-block cache nor any subnet lookup can influence it.  Neighbours whose
// own location differs from their base's are dropped: the database caches by
// block on purpose, so for them the statement leaves the location open.
func vfsRealWorldNew(tb testing.TB) (w *vfsRealWorld) {
	w = &vfsRealWorld{ref: map[netip.Addr]*geoip.Location{}, Partner: map[int]int{}}
	lookup := func(a netip.Addr) *geoip.Location {
		l, err := vfsRealGeoNew(tb).Data("", a)
		if err != nil {
			tb.Fatalf("harness: reference lookup of %s: %v", a, err)
		}

		if l == nil {
			return nil
		}

		return &geoip.Location{Country: l.Country, ASN: l.ASN}
	}

	for _, b := range vfsRealBases {
		bl := lookup(b.Addr)
		// The table pins the ASN, and the country where it names one.
		got := geoip.Location{}
		if bl != nil {
			got = *bl
		}

		if got.ASN != b.ASN || (b.Ctry != "" && got.Country != b.Ctry) {
			tb.Fatalf("harness: the test database reports %+v for %s, the hand-written table says %s/%d", bl, b.Addr, b.Ctry, b.ASN)
		}

		w.ref[b.Addr] = bl
		addrs := []netip.Addr{b.Addr}
		var cands []netip.Addr
		if b.Addr.Is4() {
			a4 := b.Addr.As4()
			for _, last := range []byte{a4[3] ^ 1, 1, 254} {
				c := a4
				c[3] = last
				cands = append(cands, netip.AddrFrom4(c))
			}
		} else {
			a16 := b.Addr.As16()
			for _, v := range [][2]byte{{0, 1}, {0xff, 1}} {
				c := a16
				c[7], c[15] = v[0], v[1]
				cands = append(cands, netip.AddrFrom16(c))
			}
		}

		for _, c := range cands {
			if c == b.Addr {
				continue
			}

			if cl := lookup(c); vfsLocEq(cl, bl) {
				w.ref[c] = cl
				addrs = append(addrs, c)
			}
		}

		if na := vfsRealBlock(b.Addr).Addr(); vfsLocEq(lookup(na), bl) {
			w.ECSOK = append(w.ECSOK, len(w.Blocks))
		}

		w.Blocks = append(w.Blocks, addrs)
	}

	// Constructed partners of the other family.
	w.NBase = len(w.Blocks)
	for bi := 0; bi < w.NBase; bi++ {
		base := w.Blocks[bi][0]
		var partner netip.Addr
		if base.Is4() {
			a := base.As4()
			partner = netip.AddrFrom16([16]byte{a[0], a[1], a[2], 0, 0, 0, 0, 0x42, 0, 0, 0, 0, 0, 0, 0, 1})
		} else {
			a := base.As16()
			if a[3] != 0 || a[4] != 0 || a[5] != 0 || a[6] != 0 {
				continue
			}

			partner = netip.AddrFrom4([4]byte{a[0], a[1], a[2], 5})
		}

		w.ref[partner] = lookup(partner)
		pi := len(w.Blocks)
		if vfsLocEq(lookup(vfsRealBlock(partner).Addr()), w.ref[partner]) {
			w.ECSOK = append(w.ECSOK, pi)
		}

		w.Blocks = append(w.Blocks, []netip.Addr{partner})
		w.Partner[bi], w.Partner[pi] = pi, bi
	}

	return w
}

// vfsRealDrawConfig draws profiles whose access lists are made of the real
// ASNs and of subnets around the known addresses.
func vfsRealDrawConfig(t *rapid.T, w *vfsRealWorld) (c *vfsConfig) {
	c = &vfsConfig{ECSCache: true}

	// Two focus blocks: most list entries and most clients relate to them, so
	// that an allowed ASN often meets a blocked subnet of the same client.
	for len(c.Focus) < 2 {
		c.Focus = append(c.Focus, rapid.IntRange(0, len(w.Blocks)-1).Draw(t, "focusBlock"))
	}

	drawNets := func(label string, maxN int) (nets []netip.Prefix) {
		n := rapid.IntRange(0, maxN).Draw(t, label+"N")
		for i := 0; i < n; i++ {
			l := fmt.Sprintf("%s%d", label, i)
			bi := rapid.IntRange(0, len(w.Blocks)-1).Draw(t, l+"Block")
			if rapid.IntRange(0, 2).Draw(t, l+"Focus") > 0 {
				bi = rapid.SampledFrom(c.Focus).Draw(t, l+"FocusBlock")
			}

			a := rapid.SampledFrom(w.Blocks[bi]).Draw(t, l+"Addr")
			bits := []int{32, 31, 24, 23, 16}
			if a.Is6() {
				bits = []int{128, 64, 56, 48, 32}
			}

			nets = append(nets, netip.PrefixFrom(a, rapid.SampledFrom(bits).Draw(t, l+"Bits")).Masked())
		}

		return nets
	}
	drawASNs := func(label string, maxN int) (asns []geoip.ASN) {
		n := rapid.IntRange(0, maxN).Draw(t, label+"N")
		for i := 0; i < n; i++ {
			l := fmt.Sprintf("%s%d", label, i)
			if rapid.IntRange(0, 2).Draw(t, l+"Focus") > 0 {
				// The real ASN of a focus block, or its country's top ASN.
				loc := w.Loc(w.Blocks[rapid.SampledFrom(c.Focus).Draw(t, l+"FocusBlock")][0])
				if loc != nil && loc.ASN != 0 && rapid.IntRange(0, 3).Draw(t, l+"Real") > 0 {
					asns = append(asns, loc.ASN)

					continue
				} else if loc != nil {
					if top, ok := geoip.DefaultCountryTopASNs[loc.Country]; ok {
						asns = append(asns, top)

						continue
					}
				}
			}

			asns = append(asns, rapid.SampledFrom(vfsRealASNs).Draw(t, l))
		}

		return asns
	}

	if rapid.IntRange(0, 5).Draw(t, "globalNet") == 0 {
		c.GlobalNets = drawNets("gNet", 1)
	}

	nProf := rapid.IntRange(1, 2).Draw(t, "nProf")
	for pi := 0; pi < nProf; pi++ {
		l := fmt.Sprintf("p%d", pi)
		p := vfsProfileConf{
			ID:        fmt.Sprintf("prof%d", pi),
			QLog:      rapid.IntRange(0, 3).Draw(t, l+"QLog") != 0,
			IPLog:     rapid.Bool().Draw(t, l+"IPLog"),
			Filtering: true,
			Devices:   []vfsDeviceConf{{ID: fmt.Sprintf("dev%da", pi), Filtering: true}},
		}

		if rapid.IntRange(0, 5).Draw(t, l+"AccessEmpty") == 0 {
			p.Access.Empty = true
		} else {
			a := &p.Access
			a.BlockedASN = drawASNs(l+"BlkASN", 3)
			a.AllowedASN = drawASNs(l+"AlwASN", 2)
			a.Blocked = drawNets(l+"Blk", 2)
			a.Allowed = drawNets(l+"Alw", 1)
		}

		c.Profiles = append(c.Profiles, p)
	}

	return c
}

// vfsRealDrawRequest draws the next request; used lists the blocks (indexes
// into w.Blocks) that earlier requests of the history came from or named in an
// ECS option, so that the next one often shares a block with them.  block >= 0
// forces the client's block.
func vfsRealDrawRequest(t *rapid.T, s *vfsStack, w *vfsRealWorld, used []int, block int) (r *vfsRequest, bi int) {
	conf := s.conf
	r = &vfsRequest{Prof: -1, Dev: -1, QClass: dns.ClassINET}

	pi := rapid.IntRange(0, len(conf.Profiles)-1).Draw(t, "tryProf")
	dev := conf.Profiles[pi].Devices[0].ID
	r.IDMode = rapid.SampledFrom([]string{"dot-none", "dot-sni", "dot-sni", "dns-none", "dns-cpe", "dns-cpe"}).Draw(t, "idMode")
	switch r.IDMode {
	case "dot-none":
		r.Server, r.Local = vfsSrvDoT, vfsDoTAddr
	case "dot-sni":
		r.Server, r.Local, r.SNI = vfsSrvDoT, vfsDoTAddr, dev+"."+vfsDeviceDomain
	case "dns-none":
		r.Server, r.Local = vfsSrvDNS, vfsDNSAddr
	case "dns-cpe":
		r.Server, r.Local, r.CPEID = vfsSrvDNS, vfsDNSAddr, dev
	}

	switch {
	case block >= 0:
		bi = block
	case len(used) > 0 && rapid.IntRange(0, 3).Draw(t, "partnerOfUsed") == 0:
		// The block of the other family that shares the leading octets with
		// an earlier client's (or the client's own block if it has none).
		bi = rapid.SampledFrom(used).Draw(t, "partnerOf")
		if p, ok := w.Partner[bi]; ok {
			bi = p
		}
	case len(used) > 0 && rapid.IntRange(0, 3).Draw(t, "sameBlock") > 0:
		bi = rapid.SampledFrom(used).Draw(t, "usedBlock")
	case rapid.IntRange(0, 2).Draw(t, "focusBlock") > 0:
		bi = rapid.SampledFrom(conf.Focus).Draw(t, "clientFocusBlock")
	default:
		bi = rapid.IntRange(0, len(w.Blocks)-1).Draw(t, "block")
	}

	r.Client = rapid.SampledFrom(w.Blocks[bi]).Draw(t, "client")
	r.Client16 = r.Client.Is4() && rapid.IntRange(0, 3).Draw(t, "client16") == 0

	r.Name = vfsMixCase(t, rapid.SampledFrom([]string{"a.test.", "x.a.test.", "b.test.", "www.example.org."}).Draw(t, "name"))
	r.QType = rapid.SampledFrom([]uint16{dns.TypeA, dns.TypeA, dns.TypeAAAA}).Draw(t, "qtype")
	r.ID = uint16(rapid.IntRange(0, 65535).Draw(t, "msgID"))
	r.DO = rapid.IntRange(0, 5).Draw(t, "do") == 0
	r.EDNS = r.DO || r.CPEID != "" || rapid.IntRange(0, 2).Draw(t, "edns") == 0
	if rapid.IntRange(0, 3).Draw(t, "ecs") == 0 {
		// An ECS option that names the block of some known address: the ECS
		// cache then works with the database's location of THAT block.
		ei := rapid.SampledFrom(w.ECSOK).Draw(t, "ecsBlock")
		var usedOK []int
		for _, u := range used {
			for _, ok := range w.ECSOK {
				if u == ok {
					usedOK = append(usedOK, u)
				}
			}
		}

		if len(usedOK) > 0 && rapid.Bool().Draw(t, "ecsUsed") {
			ei = rapid.SampledFrom(usedOK).Draw(t, "ecsUsedBlock")
		}

		r.ECS = vfsRealBlock(w.Blocks[ei][0])
		r.EDNS = true
	}

	r.ECSFirst = rapid.Bool().Draw(t, "ecsFirst")
	r.Script.GlobalRL = vfsRLPass
	r.Script.ProfRL = vfsRLPass
	r.resolve(s)

	return r, bi
}

// vfsRealECSBlock returns the index of the block that r's ECS option names, or
// -1.
func vfsRealECSBlock(w *vfsRealWorld, r *vfsRequest) int {
	if !r.ECS.IsValid() {
		return -1
	}

	for i, b := range w.Blocks {
		if vfsRealBlock(b[0]) == r.ECS {
			return i
		}
	}

	return -1
}

// ---------------------------------------------------------------------------
// Refreshes: the stack's geoip.File reads two files that the harness replaces.

// vfsGeoASNVariants / vfsGeoCtryVariants are the test databases that can play
// the role of the ASN and of the country database: the City database has no
// ASN data (every ASN is 0), the ISP database no country data.
var (
	vfsGeoASNVariants  = []string{"GeoIP2-ISP-Test.mmdb", "GeoIP2-City-Test.mmdb"}
	vfsGeoCtryVariants = []string{"GeoIP2-City-Test.mmdb", "GeoIP2-Country-Test.mmdb", "GeoIP2-ISP-Test.mmdb"}
)

// vfsGeoFiles are the two database files of one stack.
type vfsGeoFiles struct {
	ASNPath, CtryPath string
	// ASN, Ctry are the indexes of the data variants currently in the files.
	ASN, Ctry int
	version   int
}

// vfsGeoWithBuildEpoch returns a copy of a MaxMind database whose build epoch
// differs from the original's by version (1..255): the same data "built at
// another time".  (All test databases of the repository were built in the same
// second.)
func vfsGeoWithBuildEpoch(tb testing.TB, orig []byte, version int) (patched []byte) {
	const key = "build_epoch"
	patched = append([]byte{}, orig...)
	idx := strings.LastIndex(string(patched), key)
	if idx < 0 {
		tb.Fatalf("harness: no %s in the database metadata", key)
	}

	// A control byte with type 0 (extended) and the size, the extended type
	// (uint64 = 9, stored as 2), then the big-endian value.
	pos := idx + len(key)
	size := int(patched[pos] & 0x1f)
	if patched[pos]>>5 != 0 || patched[pos+1] != 2 || size < 1 || size > 8 {
		tb.Fatalf("harness: unexpected encoding of %s: % x", key, patched[pos:pos+10])
	}

	patched[pos+1+size] ^= byte(version)

	return patched
}

// write replaces one of the files (atomically, by rename) by the given data
// variant with a build epoch not used before in this case.
func (g *vfsGeoFiles) write(tb testing.TB, asn bool, variant int) {
	name, path := vfsGeoCtryVariants[variant], g.CtryPath
	if asn {
		name, path = vfsGeoASNVariants[variant], g.ASNPath
	}

	data, err := os.ReadFile(filepath.Join(vfsRealTestdata(), name))
	if err != nil {
		tb.Fatalf("harness: %v", err)
	}

	g.version++
	if g.version > 255 {
		tb.Fatalf("harness: too many database versions in one case")
	}

	tmp := path + ".tmp"
	if err = os.WriteFile(tmp, vfsGeoWithBuildEpoch(tb, data, g.version), 0o600); err != nil {
		tb.Fatalf("harness: %v", err)
	}

	if err = os.Rename(tmp, path); err != nil {
		tb.Fatalf("harness: %v", err)
	}

	if asn {
		g.ASN = variant
	} else {
		g.Ctry = variant
	}
}

// vfsGeoRef is the reference: what a freshly constructed geoip.File over the
// pristine test databases of the given variants, asked this one question,
// reports.
type vfsGeoRef struct {
	tb   testing.TB
	memo map[string]*geoip.Location
}

func (ref *vfsGeoRef) Loc(asnVariant, ctryVariant int, a netip.Addr) *geoip.Location {
	k := fmt.Sprintf("%d|%d|%s", asnVariant, ctryVariant, a)
	if l, ok := ref.memo[k]; ok {
		return l
	}

	td := vfsRealTestdata()
	g := vfsRealGeoFromFiles(ref.tb, filepath.Join(td, vfsGeoASNVariants[asnVariant]), filepath.Join(td, vfsGeoCtryVariants[ctryVariant]))
	l, err := g.Data("", a)
	if err != nil {
		ref.tb.Fatalf("harness: reference lookup of %s: %v", a, err)
	}

	if l != nil {
		l = &geoip.Location{Country: l.Country, ASN: l.ASN}
	}

	ref.memo[k] = l

	return l
}
