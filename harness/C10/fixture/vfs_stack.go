//go:build verif

package dnssvc_test

// Shared fixture of C10 and C15: the full handler stack of dnssvc.NewHandlers
// with the real access.Global / access.DefaultProfile, a model GeoIP, a map
// based profile database and a recorder on every downstream dependency
// (upstream handler, filter storage and filter, query log, billing, rule
// statistics, DNSDB, DNS check, hash matcher, global and per-profile rate
// limiter, error collector) plus the response writer.

import (
	"context"
	"fmt"
	"net"
	"net/netip"
	"strings"
	"sync"
	"testing"
	"time"

	"github.com/AdguardTeam/AdGuardDNS/internal/access"
	"github.com/AdguardTeam/AdGuardDNS/internal/agd"
	"github.com/AdguardTeam/AdGuardDNS/internal/agdcache"
	"github.com/AdguardTeam/AdGuardDNS/internal/agdnet"
	"github.com/AdguardTeam/AdGuardDNS/internal/agdpasswd"
	"github.com/AdguardTeam/AdGuardDNS/internal/agdtest"
	"github.com/AdguardTeam/AdGuardDNS/internal/dnsmsg"
	"github.com/AdguardTeam/AdGuardDNS/internal/dnsserver"
	"github.com/AdguardTeam/AdGuardDNS/internal/dnssvc"
	"github.com/AdguardTeam/AdGuardDNS/internal/filter"
	"github.com/AdguardTeam/AdGuardDNS/internal/geoip"
	"github.com/AdguardTeam/AdGuardDNS/internal/profiledb"
	"github.com/AdguardTeam/AdGuardDNS/internal/querylog"
	"github.com/AdguardTeam/golibs/logutil/slogutil"
	"github.com/AdguardTeam/golibs/netutil"
	"github.com/miekg/dns"
	"pgregory.net/rapid"
)

// ---------------------------------------------------------------------------
// Model GeoIP.

type vfsPool struct {
	Pfx netip.Prefix
	Loc *geoip.Location
}

func vfsL(c geoip.Country, asn geoip.ASN) *geoip.Location {
	return &geoip.Location{Country: c, ASN: asn}
}

// vfsPools are the client address pools (documentation ranges).  Two pools
// share ASN 1 and two share ASN 2 so that "same ASN, other subnet" exists; two
// pools have no location at all.
var vfsPools = []vfsPool{
	{netip.MustParsePrefix("192.0.2.0/25"), vfsL("US", 1)},
	{netip.MustParsePrefix("192.0.2.128/25"), vfsL("DE", 2)},
	{netip.MustParsePrefix("198.51.100.0/25"), vfsL("US", 3)},
	{netip.MustParsePrefix("198.51.100.128/25"), nil},
	{netip.MustParsePrefix("203.0.113.0/25"), vfsL("FR", 1)},
	{netip.MustParsePrefix("203.0.113.128/25"), vfsL("FR", 4)},
	{netip.MustParsePrefix("2001:db8:1::/48"), vfsL("DE", 2)},
	{netip.MustParsePrefix("2001:db8:2::/48"), vfsL("US", 5)},
	{netip.MustParsePrefix("2001:db8:3::/48"), nil},
	// A location whose ASN is not known (country database only).
	{netip.MustParsePrefix("100.64.0.0/25"), vfsL("JP", 0)},
}

var vfsASNs = []geoip.ASN{1, 2, 3, 4, 5, 9}

func vfsLocOf(ip netip.Addr) *geoip.Location {
	for _, p := range vfsPools {
		if p.Pfx.Contains(ip) {
			return p.Loc
		}
	}

	return nil
}

// vfsAdd returns base + n for an IPv4 address, or base with the low 16 bits set
// to n and the 4th hextet set to sub for IPv6.
func vfsAdd(base netip.Addr, sub uint16, n uint16) netip.Addr {
	if base.Is4() {
		b := base.As4()
		b[3] += byte(n)

		return netip.AddrFrom4(b)
	}

	b := base.As16()
	b[6], b[7] = byte(sub>>8), byte(sub)
	b[14], b[15] = byte(n>>8), byte(n)

	return netip.AddrFrom16(b)
}

// vfsHosts4 / vfsHosts6 are the standard client hosts inside a pool.
var vfsHosts4 = []uint16{1, 2, 3, 4, 5, 63, 64, 65, 66, 100, 101, 102, 126}

type vfsHost6 struct{ sub, n uint16 }

var vfsHosts6 = []vfsHost6{{0, 1}, {0, 2}, {0, 0xffff}, {1, 1}, {1, 0x64}, {1, 0x65}, {2, 1}}

// vfsClients returns every standard client address of pool i.
func vfsClients(i int) (res []netip.Addr) {
	base := vfsPools[i].Pfx.Addr()
	if base.Is4() {
		for _, h := range vfsHosts4 {
			res = append(res, vfsAdd(base, 0, h))
		}

		return res
	}

	for _, h := range vfsHosts6 {
		res = append(res, vfsAdd(base, h.sub, h.n))
	}

	return res
}

// vfsPrefixes returns the prefixes used in access lists that relate to pool i:
// the pool, halves and quarters of it, tiny subnets, single hosts, and the
// covering networks.
func vfsPrefixes(i int) (res []netip.Prefix) {
	p := vfsPools[i].Pfx
	base := p.Addr()
	if base.Is4() {
		return []netip.Prefix{
			p,
			netip.PrefixFrom(base, 26),
			netip.PrefixFrom(vfsAdd(base, 0, 64), 26),
			netip.PrefixFrom(base, 30),
			netip.PrefixFrom(vfsAdd(base, 0, 64), 31),
			netip.PrefixFrom(vfsAdd(base, 0, 1), 32),
			netip.PrefixFrom(vfsAdd(base, 0, 65), 32),
			netip.PrefixFrom(vfsAdd(base, 0, 100), 32),
			netip.PrefixFrom(base, 24).Masked(),
		}
	}

	return []netip.Prefix{
		p,
		netip.PrefixFrom(base, 64),
		netip.PrefixFrom(vfsAdd(base, 1, 0), 64),
		netip.PrefixFrom(vfsAdd(base, 1, 0x64), 127),
		netip.PrefixFrom(vfsAdd(base, 0, 1), 128),
		netip.PrefixFrom(vfsAdd(base, 1, 0x65), 128),
		netip.MustParsePrefix("2001:db8::/32"),
	}
}

// ---------------------------------------------------------------------------
// Names and blocked-name rules (restricted grammar; urlfilter's matching of it
// is trusted, the composition on top of it is checked).

var vfsNames = []string{
	"a.test", "x.a.test", "y.x.a.test", "b.test", "x.b.test", "ab.test", "a.b.test",
	"c.example", "x.c.example", "test", "xa.test", "a.test.example",
	"t", "x.t", "w.y.x.a.test",
}

var vfsRuleTypes = []uint16{dns.TypeA, dns.TypeAAAA, dns.TypeHTTPS, dns.TypeTXT, dns.TypeMX}

// vfsRootTypes are the question types asked for the root name (the classic
// amplification queries) and used in catch-all typed rules.
var vfsRootTypes = []uint16{dns.TypeNS, dns.TypeANY, dns.TypeDNSKEY, dns.TypeA, dns.TypeSOA}

// Special rule targets (vfsOpts.Root): the catch-all pattern, which needs a
// $dnstype modifier ("*$dnstype=ANY"; a bare "*" is ignored by urlfilter), and
// the root name ("||.^").  Verified against the real engines: both match a
// query for "." when the engine is given the host ".".
const (
	vfsTargetAny  = "*"
	vfsTargetRoot = "."
)

const (
	vfsRuleHost = iota
	vfsRuleDomain
	vfsRuleException
)

type vfsRule struct {
	Kind    int
	Target  string
	Type    uint16 // 0 = any
	NegType bool
	Upper   bool
}

// Text renders the rule in the AdBlock / hosts syntax accepted by the access
// settings (doc/configuration.md: "The list of domains or AdBlock rules").
func (r vfsRule) Text() string {
	tgt := r.Target
	if r.Upper {
		tgt = strings.ToUpper(tgt)
	}

	if r.Kind == vfsRuleHost {
		return tgt
	}

	s := "||" + tgt + "^"
	if r.Target == vfsTargetAny {
		s = "*"
	}

	if r.Kind == vfsRuleException {
		s = "@@" + s
	}

	if r.Type != 0 {
		neg := ""
		if r.NegType {
			neg = "~"
		}

		s += "$dnstype=" + neg + dns.TypeToString[r.Type]
	}

	return s
}

// Matches is the reference matcher of the restricted grammar: a plain domain
// line matches exactly that host, ||d^ matches d and its subdomains, $dnstype
// restricts by question type.
func (r vfsRule) Matches(host string, qt uint16) bool {
	if r.Kind == vfsRuleHost {
		return host == r.Target
	}

	if r.Target == vfsTargetAny {
		// every name, the root included
	} else if r.Target == vfsTargetRoot {
		if host != vfsTargetRoot {
			return false
		}
	} else if host != r.Target && !strings.HasSuffix(host, "."+r.Target) {
		return false
	}

	switch {
	case r.Type == 0:
		return true
	case r.NegType:
		return qt != r.Type
	default:
		return qt == r.Type
	}
}

// vfsRulesBlock is the reference verdict of a rule list: blocked iff a
// blocking rule matches and no exception rule matches.
func vfsRulesBlock(rules []vfsRule, host string, qt uint16) (blocked, excepted bool) {
	var anyBlock, anyExc bool
	for _, r := range rules {
		if !r.Matches(host, qt) {
			continue
		}

		if r.Kind == vfsRuleException {
			anyExc = true
		} else {
			anyBlock = true
		}
	}

	return anyBlock && !anyExc, anyBlock && anyExc
}

func vfsRuleTexts(rules []vfsRule) (res []string) {
	for _, r := range rules {
		res = append(res, r.Text())
	}

	return res
}

// ---------------------------------------------------------------------------
// Configuration of one stack.

type vfsAccessConf struct {
	Empty      bool
	Allowed    []netip.Prefix
	Blocked    []netip.Prefix
	AllowedASN []geoip.ASN
	BlockedASN []geoip.ASN
	Rules      []vfsRule
}

func (a vfsAccessConf) String() string {
	if a.Empty {
		return "access{empty}"
	}

	return fmt.Sprintf("access{allow=%v allowASN=%v block=%v blockASN=%v rules=%q}",
		a.Allowed, a.AllowedASN, a.Blocked, a.BlockedASN, vfsRuleTexts(a.Rules))
}

type vfsDeviceConf struct {
	ID        string
	LinkedIP  netip.Addr
	Dedicated netip.Addr
	Filtering bool
}

type vfsProfileConf struct {
	ID        string
	Access    vfsAccessConf
	QLog      bool
	IPLog     bool
	Filtering bool
	CustomRL  bool
	Devices   []vfsDeviceConf
}

func (p vfsProfileConf) String() string {
	return fmt.Sprintf("profile{%s qlog=%t iplog=%t flt=%t customRL=%t %s devices=%+v}",
		p.ID, p.QLog, p.IPLog, p.Filtering, p.CustomRL, p.Access, p.Devices)
}

type vfsConfig struct {
	Focus       []int
	GlobalNets  []netip.Prefix
	GlobalRules []vfsRule
	Profiles    []vfsProfileConf
	ECSCache    bool
}

func (c *vfsConfig) String() string {
	return fmt.Sprintf("config{globalNets=%v globalRules=%q ecsCache=%t profiles=%v}",
		c.GlobalNets, vfsRuleTexts(c.GlobalRules), c.ECSCache, c.Profiles)
}

// vfsOpts biases the generators.
type vfsOpts struct {
	// AccessHeavy: many access entries (C10); otherwise most requests pass.
	AccessHeavy bool
	// Drops: also generate rate-limit drops and unknown dedicated addresses.
	Drops bool
	// Malformed: also generate requests that are rejected for their form
	// before any later stage: a malformed ECS option on the wire (FORMERR) and,
	// on DoT, an invalid device ID in the TLS server name (handler error).
	Malformed bool
	// Root: also ask for the root name "." (NS, ANY, DNSKEY, A, SOA) and
	// generate rules that can match it: "||.^[$dnstype=..]" and the catch-all
	// "*$dnstype=[~]T", as blocking rules and as exceptions.
	Root bool
}

func vfsDrawRule(t *rapid.T, label string, allowException, root bool) (r vfsRule) {
	kinds := []int{vfsRuleHost, vfsRuleDomain, vfsRuleDomain, vfsRuleDomain}
	if allowException {
		kinds = append(kinds, vfsRuleException)
	}

	r.Kind = rapid.SampledFrom(kinds).Draw(t, label+"Kind")
	r.Upper = rapid.IntRange(0, 4).Draw(t, label+"Upper") == 0
	if root && rapid.IntRange(0, 3).Draw(t, label+"Special") == 0 {
		if r.Kind == vfsRuleHost {
			r.Kind = vfsRuleDomain
		}

		types := append(append([]uint16{}, vfsRootTypes...), dns.TypeAAAA, dns.TypeTXT)
		if rapid.Bool().Draw(t, label+"CatchAll") {
			r.Target = vfsTargetAny
			r.Type = rapid.SampledFrom(types).Draw(t, label+"Type")
			r.NegType = rapid.IntRange(0, 4).Draw(t, label+"Neg") == 0
		} else {
			r.Target = vfsTargetRoot
			if rapid.IntRange(0, 2).Draw(t, label+"Typed") == 0 {
				r.Type = rapid.SampledFrom(types).Draw(t, label+"Type")
				r.NegType = rapid.IntRange(0, 3).Draw(t, label+"Neg") == 0
			}
		}

		return r
	}

	r.Target = rapid.SampledFrom(vfsNames).Draw(t, label+"Target")
	if r.Kind == vfsRuleHost && (r.Target == "t" || strings.HasSuffix(r.Target, ".t")) {
		// urlfilter does not take a line whose top-level label has one letter
		// for a plain domain: it becomes a substring pattern, which the
		// reference matcher does not model.  Use the ||d^ form for these.
		r.Kind = vfsRuleDomain
	}
	if r.Kind != vfsRuleHost && rapid.IntRange(0, 2).Draw(t, label+"Typed") == 0 {
		r.Type = rapid.SampledFrom(vfsRuleTypes).Draw(t, label+"Type")
		r.NegType = rapid.IntRange(0, 3).Draw(t, label+"Neg") == 0
	}

	return r
}

func vfsDrawRules(t *rapid.T, label string, maxN int, root bool) (rules []vfsRule) {
	n := rapid.IntRange(0, maxN).Draw(t, label+"N")
	for i := 0; i < n; i++ {
		// An exception only makes sense next to a blocking rule; draw it
		// related to an earlier rule half of the time.
		r := vfsDrawRule(t, fmt.Sprintf("%s%d", label, i), len(rules) > 0, root)
		special := r.Target == vfsTargetAny || r.Target == vfsTargetRoot
		if r.Kind == vfsRuleException && !special && rapid.Bool().Draw(t, fmt.Sprintf("%s%dRel", label, i)) {
			prev := rules[rapid.IntRange(0, len(rules)-1).Draw(t, fmt.Sprintf("%s%dPrev", label, i))]
			how := rapid.IntRange(0, 2).Draw(t, fmt.Sprintf("%s%dHow", label, i))
			if prev.Target == vfsTargetAny || prev.Target == vfsTargetRoot {
				// Nothing to derive from a special target: a plain exception.
				how = -1
			}

			switch how {
			case -1:
			case 0:
				r.Target = prev.Target
			case 1:
				r.Target = "x." + prev.Target
			default:
				if i := strings.IndexByte(prev.Target, '.'); i >= 0 {
					r.Target = prev.Target[i+1:]
				}
			}
		}

		rules = append(rules, r)
	}

	return rules
}

func vfsDrawNets(t *rapid.T, label string, focus []int, maxN int, related []netip.Prefix) (nets []netip.Prefix) {
	n := rapid.IntRange(0, maxN).Draw(t, label+"N")
	for i := 0; i < n; i++ {
		l := fmt.Sprintf("%s%d", label, i)
		if len(related) > 0 && rapid.Bool().Draw(t, l+"Rel") {
			// A prefix from the same pool as a related (blocked) one: equal,
			// narrower, wider or disjoint.
			rel := related[rapid.IntRange(0, len(related)-1).Draw(t, l+"RelIdx")]
			for pi := range vfsPools {
				if vfsPools[pi].Pfx.Contains(rel.Addr()) {
					nets = append(nets, rapid.SampledFrom(vfsPrefixes(pi)).Draw(t, l+"RelPfx"))

					break
				}
			}

			continue
		}

		if rapid.IntRange(0, 24).Draw(t, l+"Wide") == 0 {
			nets = append(nets, rapid.SampledFrom([]netip.Prefix{
				netip.MustParsePrefix("0.0.0.0/0"), netip.MustParsePrefix("::/0"),
			}).Draw(t, l+"WidePfx"))

			continue
		}

		pi := rapid.SampledFrom(focus).Draw(t, l+"Pool")
		nets = append(nets, rapid.SampledFrom(vfsPrefixes(pi)).Draw(t, l+"Pfx"))
	}

	return nets
}

func vfsDrawASNs(t *rapid.T, label string, focus []int, maxN int, related []geoip.ASN) (asns []geoip.ASN) {
	n := rapid.IntRange(0, maxN).Draw(t, label+"N")
	for i := 0; i < n; i++ {
		l := fmt.Sprintf("%s%d", label, i)
		if len(related) > 0 && rapid.Bool().Draw(t, l+"Rel") {
			asns = append(asns, related[rapid.IntRange(0, len(related)-1).Draw(t, l+"RelIdx")])

			continue
		}

		if rapid.IntRange(0, 3).Draw(t, l+"Any") == 0 {
			asns = append(asns, rapid.SampledFrom(vfsASNs).Draw(t, l+"ASN"))

			continue
		}

		pi := rapid.SampledFrom(focus).Draw(t, l+"Pool")
		if loc := vfsPools[pi].Loc; loc != nil && loc.ASN != 0 {
			asns = append(asns, loc.ASN)
		} else {
			asns = append(asns, 9)
		}
	}

	return asns
}

func vfsDrawConfig(t *rapid.T, o vfsOpts) (c *vfsConfig) {
	c = &vfsConfig{}
	nFocus := rapid.IntRange(2, 3).Draw(t, "nFocus")
	seen := map[int]bool{}
	for len(c.Focus) < nFocus {
		// Constructive: take the next free pool index after the drawn one.
		pi := rapid.IntRange(0, len(vfsPools)-1).Draw(t, "focus")
		for seen[pi] {
			pi = (pi + 1) % len(vfsPools)
		}

		seen[pi] = true
		c.Focus = append(c.Focus, pi)
	}

	c.ECSCache = rapid.Bool().Draw(t, "ecsCache")

	heavy := 1
	if !o.AccessHeavy {
		heavy = 0
	}

	if rapid.IntRange(0, 3-heavy).Draw(t, "globalNetsOn") == 0 {
		c.GlobalNets = vfsDrawNets(t, "gNet", c.Focus, 1, nil)
		for i, n := range c.GlobalNets {
			if n.Bits() == 0 {
				// keep the rest of the history alive
				c.GlobalNets[i] = vfsPrefixes(c.Focus[0])[1]
			}
		}
	}

	if rapid.IntRange(0, 3-2*heavy).Draw(t, "globalRulesOn") == 0 {
		c.GlobalRules = vfsDrawRules(t, "gRule", 1+heavy, o.Root)
	}

	nProf := rapid.IntRange(1, 3).Draw(t, "nProf")
	devIdx := 0
	for pi := 0; pi < nProf; pi++ {
		l := fmt.Sprintf("p%d", pi)
		p := vfsProfileConf{
			ID:        fmt.Sprintf("prof%d", pi),
			QLog:      rapid.Bool().Draw(t, l+"QLog"),
			IPLog:     rapid.Bool().Draw(t, l+"IPLog"),
			Filtering: rapid.IntRange(0, 4).Draw(t, l+"Flt") != 0,
			CustomRL:  rapid.IntRange(0, 2).Draw(t, l+"RL") == 0,
		}

		emptyOdds := 4
		if !o.AccessHeavy {
			emptyOdds = 1
		}

		if rapid.IntRange(0, emptyOdds).Draw(t, l+"AccessEmpty") != 0 {
			p.Access.Empty = true
		} else {
			a := &p.Access
			a.Blocked = vfsDrawNets(t, l+"Blk", c.Focus, 2+heavy, nil)
			a.Allowed = vfsDrawNets(t, l+"Alw", c.Focus, 1+heavy, a.Blocked)
			a.BlockedASN = vfsDrawASNs(t, l+"BlkASN", c.Focus, 1+heavy, nil)
			// Allowed ASNs related to what is blocked: a blocked ASN itself,
			// or the ASN of a pool that a blocked subnet lies in.
			rel := append([]geoip.ASN{}, a.BlockedASN...)
			for _, b := range a.Blocked {
				if loc := vfsLocOf(b.Addr()); loc != nil && loc.ASN != 0 && b.Bits() > 0 {
					rel = append(rel, loc.ASN)
				}
			}

			a.AllowedASN = vfsDrawASNs(t, l+"AlwASN", c.Focus, 1+heavy, rel)
			a.Rules = vfsDrawRules(t, l+"Rule", 2+heavy, o.Root)
		}

		nDev := rapid.IntRange(1, 2).Draw(t, l+"nDev")
		for di := 0; di < nDev; di++ {
			dl := fmt.Sprintf("%sd%d", l, di)
			d := vfsDeviceConf{
				ID:        fmt.Sprintf("dev%d%c", pi, 'a'+di),
				Filtering: rapid.IntRange(0, 4).Draw(t, dl+"Flt") != 0,
			}

			if rapid.Bool().Draw(t, dl+"Linked") {
				// Unique per device: host 100+devIdx (v4) or {1, 0x64+devIdx}
				// (v6) of a focus pool.  The ordinary client hosts include
				// these addresses on purpose.
				fp := rapid.SampledFrom(c.Focus).Draw(t, dl+"LinkedPool")
				d.LinkedIP = vfsAdd(vfsPools[fp].Pfx.Addr(), 1, uint16(100+devIdx))
				for _, q := range c.Profiles {
					for _, qd := range q.Devices {
						if qd.LinkedIP == d.LinkedIP {
							d.LinkedIP = netip.Addr{}
						}
					}
				}

				for _, qd := range p.Devices {
					if qd.LinkedIP == d.LinkedIP {
						d.LinkedIP = netip.Addr{}
					}
				}
			}

			if rapid.Bool().Draw(t, dl+"Dedicated") {
				d.Dedicated = netip.AddrFrom4([4]byte{10, 0, 1, byte(10 + devIdx)})
			}

			devIdx++
			p.Devices = append(p.Devices, d)
		}

		c.Profiles = append(c.Profiles, p)
	}

	return c
}

// ---------------------------------------------------------------------------
// Recorders.

type vfsBill struct {
	Dev   agd.DeviceID
	Ctry  geoip.Country
	ASN   geoip.ASN
	Start time.Time
	Proto agd.Protocol
}

type vfsRuleStatEv struct {
	ID   filter.ID
	Text filter.RuleText
}

// vfsTrace is the set of events of one request.
type vfsTrace struct {
	Upstream    []string
	ForConfig   int
	FilterReq   int
	FilterResp  int
	QLog        []*querylog.Entry
	Bill        []vfsBill
	RuleStat    []vfsRuleStatEv
	DNSDB       int
	DNSCheck    int
	HashMatch   int
	RLCheck     int
	RLCount     int
	ProfRLCheck int
	ProfRLCount int
	Writes      []*dns.Msg
	Errs        []string
	Err         error
}

// Downstream is the number of events on stages after the access check (rate
// limiters included).
func (tr *vfsTrace) Downstream() int {
	return len(tr.Upstream) + tr.ForConfig + tr.FilterReq + tr.FilterResp + len(tr.QLog) + len(tr.Bill) +
		len(tr.RuleStat) + tr.DNSDB + tr.DNSCheck + tr.HashMatch + tr.RLCheck + tr.RLCount + tr.ProfRLCheck + tr.ProfRLCount
}

func (tr *vfsTrace) String() string {
	var w []string
	for _, m := range tr.Writes {
		w = append(w, fmt.Sprintf("{id=%d rcode=%d q=%v an=%d}", m.Id, m.Rcode, m.Question, len(m.Answer)))
	}

	var ql []string
	for _, e := range tr.QLog {
		ql = append(ql, fmt.Sprintf("{%s %s %s q=%d r=%d ip=%v}", e.ProfileID, e.DeviceID, e.DomainFQDN, e.RequestType, e.ResponseCode, e.RemoteIP))
	}

	return fmt.Sprintf("trace{err=%v writes=%v upstream=%q forConfig=%d fltReq=%d fltResp=%d qlog=%v bill=%+v ruleStat=%+v dnsdb=%d dnscheck=%d hash=%d rl=%d/%d profRL=%d/%d errs=%q}",
		tr.Err, w, tr.Upstream, tr.ForConfig, tr.FilterReq, tr.FilterResp, ql, tr.Bill, tr.RuleStat, tr.DNSDB, tr.DNSCheck, tr.HashMatch,
		tr.RLCheck, tr.RLCount, tr.ProfRLCheck, tr.ProfRLCount, tr.Errs)
}

// vfsLive is a request in flight: its events and the scripted behaviour of
// the fakes for it.  Every fake attributes its event to the request whose ID
// is in the context it was called with, so requests served concurrently are
// told apart, and an event that carries no or a foreign request ID is kept as
// an orphan (and fails the case).
type vfsLive struct {
	tr *vfsTrace
	sc vfsScript
}

func (s *vfsStack) on(ctx context.Context, f func(tr *vfsTrace, sc *vfsScript)) {
	s.mu.Lock()
	defer s.mu.Unlock()

	id, ok := agd.RequestIDFromContext(ctx)
	l := s.live[id]
	if !ok || l == nil {
		f(s.orphan, &vfsScript{})

		return
	}

	f(l.tr, &l.sc)
}

// Filtering outcomes scripted per request.
const (
	vfsOutNone = iota
	vfsOutReqBlocked
	vfsOutRespBlocked
	vfsOutReqAllowed
	vfsOutRespAllowed
	vfsOutRewritten
	vfsOutCNAME
	vfsOutcomes
)

var vfsOutcomeNames = [...]string{"none", "req-blocked", "resp-blocked", "req-allowed", "resp-allowed", "rewritten", "cname-rewritten"}

// Rate-limit decisions scripted per request.
const (
	vfsRLPass = iota
	vfsRLDrop
	vfsRLAllowlisted // global only
	vfsRLUseGlobal   // profile only
)

var vfsRLNames = [...]string{"pass", "drop", "allowlisted", "use-global"}

// vfsScript is what the fakes do for the request being served.
type vfsScript struct {
	Outcome int
	List    filter.ID
	Rule    filter.RuleText

	// RespToo, if not vfsOutNone, is what the response filter reports in
	// addition to a request-stage result (request blocked / allowed /
	// rewritten): vfsOutRespBlocked or vfsOutRespAllowed, with its own list
	// and rule.  The main middleware runs the response filters also for
	// requests that were already decided at the request stage; the
	// request-stage verdict takes precedence.
	RespToo  int
	RespList filter.ID
	RespRule filter.RuleText

	// UpRcode, if not 0, is the (extended) response code the upstream gives
	// to an EDNS query: codes above 15 need the OPT record of the response to
	// carry their upper bits.
	UpRcode int

	GlobalRL int
	ProfRL   int
}

const vfsCNAMETarget = "cname-target.vfs.example."

type vfsProfRL struct {
	s *vfsStack
}

// type check
var _ agd.Ratelimiter = (*vfsProfRL)(nil)

func (r *vfsProfRL) Check(ctx context.Context, _ *dns.Msg, _ netip.Addr) (res agd.RatelimitResult) {
	res = agd.RatelimitResultPass
	r.s.on(ctx, func(tr *vfsTrace, sc *vfsScript) {
		tr.ProfRLCheck++
		switch sc.ProfRL {
		case vfsRLDrop:
			res = agd.RatelimitResultDrop
		case vfsRLUseGlobal:
			res = agd.RatelimitResultUseGlobal
		}
	})

	return res
}

func (r *vfsProfRL) Config() (conf *agd.RatelimitConfig) {
	return &agd.RatelimitConfig{RPS: 100, Enabled: true}
}

func (r *vfsProfRL) CountResponses(ctx context.Context, _ *dns.Msg, _ netip.Addr) {
	r.s.on(ctx, func(tr *vfsTrace, _ *vfsScript) { tr.ProfRLCount++ })
}

type vfsRW struct {
	s     *vfsStack
	tr    *vfsTrace
	local net.Addr
	raddr net.Addr
}

// type check
var _ dnsserver.ResponseWriter = (*vfsRW)(nil)

func (w *vfsRW) LocalAddr() net.Addr  { return w.local }
func (w *vfsRW) RemoteAddr() net.Addr { return w.raddr }
func (w *vfsRW) WriteMsg(_ context.Context, _, resp *dns.Msg) (err error) {
	// The writer belongs to its request, whatever the context says.
	w.s.mu.Lock()
	defer w.s.mu.Unlock()

	w.tr.Writes = append(w.tr.Writes, resp.Copy())

	return nil
}

// ---------------------------------------------------------------------------
// The stack.

const (
	vfsSrvDoT   = "dot"
	vfsSrvDNS   = "dns"
	vfsSrvDNSIf = "dnsif"

	vfsDeviceDomain = "d.vfs.example"
)

var (
	vfsDoTAddr = netip.MustParseAddrPort("10.0.0.1:853")
	vfsDNSAddr = netip.MustParseAddrPort("10.0.0.1:53")
	vfsIfPfx   = netip.MustParsePrefix("10.0.1.0/24")
)

type vfsProfile struct {
	conf *vfsProfileConf
	prof *agd.Profile
	devs []*agd.Device
}

type vfsStack struct {
	conf     *vfsConfig
	mu       sync.Mutex
	live     map[agd.RequestID]*vfsLive
	orphan   *vfsTrace
	handlers map[string]dnsserver.Handler
	servers  map[string]*agd.Server
	profiles []*vfsProfile

	byDevID     map[agd.DeviceID][2]int
	byLinked    map[netip.Addr][2]int
	byDedicated map[netip.Addr][2]int

	// qlogSink, if set, also receives every entry (C15 funnels them through
	// the real querylog.FileSystem).
	qlogSink func(e *querylog.Entry) error

	// reqFilter, if set, is consulted by the scripted filter for requests
	// whose scripted outcome is "none" (C15 puts a real hashprefix.Filter
	// there, as the composite filter of the real storage does).
	reqFilter func(ctx context.Context, r *filter.Request) (filter.Result, error)
}

func (s *vfsStack) lookup(idx [2]int, ok bool) (*agd.Profile, *agd.Device, error) {
	if !ok {
		return nil, nil, profiledb.ErrDeviceNotFound
	}

	p := s.profiles[idx[0]]

	return p.prof, p.devs[idx[1]], nil
}

func vfsUpstream(s *vfsStack) dnsserver.Handler {
	return dnsserver.HandlerFunc(func(ctx context.Context, rw dnsserver.ResponseWriter, req *dns.Msg) (err error) {
		q := req.Question[0]
		upRcode := 0
		s.on(ctx, func(tr *vfsTrace, sc *vfsScript) {
			tr.Upstream = append(tr.Upstream, strings.ToLower(q.Name))
			upRcode = sc.UpRcode
		})

		resp := (&dns.Msg{}).SetReply(req)
		resp.RecursionAvailable = true
		h := uint32(0)
		for _, c := range []byte(strings.ToLower(q.Name)) {
			h = h*31 + uint32(c)
		}

		hdr := dns.RR_Header{Name: q.Name, Rrtype: q.Qtype, Class: dns.ClassINET, Ttl: 300}
		soa := &dns.SOA{
			Hdr: dns.RR_Header{Name: "vfs.example.", Rrtype: dns.TypeSOA, Class: dns.ClassINET, Ttl: 300},
			Ns:  "ns.vfs.example.", Mbox: "m.vfs.example.", Serial: 1, Minttl: 300,
		}

		switch {
		case upRcode != 0 && req.IsEdns0() != nil:
			// BADVERS, BADKEY, BADCOOKIE and the like: no data, the OPT record
			// below carries the upper bits of the code.
			resp.Rcode = upRcode
		case strings.HasPrefix(strings.ToLower(q.Name), "y."):
			resp.Rcode = dns.RcodeNameError
			resp.Ns = []dns.RR{soa}
		case q.Qtype == dns.TypeA:
			resp.Answer = []dns.RR{&dns.A{Hdr: hdr, A: net.IP{198, 18, byte(h >> 8), byte(h)}}}
		case q.Qtype == dns.TypeAAAA:
			resp.Answer = []dns.RR{&dns.AAAA{Hdr: hdr, AAAA: net.IP{0x20, 1, 0xd, 0xb8, 0xff, 0xff, 0, 0, 0, 0, 0, 0, 0, 0, byte(h >> 8), byte(h)}}}
		case q.Qtype == dns.TypeTXT:
			resp.Answer = []dns.RR{&dns.TXT{Hdr: hdr, Txt: []string{"vfs"}}}
		default:
			resp.Ns = []dns.RR{soa}
		}

		if opt := req.IsEdns0(); opt != nil {
			resp.SetEdns0(1232, opt.Do())
			for _, o := range opt.Option {
				if e, ok := o.(*dns.EDNS0_SUBNET); ok {
					resp.IsEdns0().Option = append(resp.IsEdns0().Option, &dns.EDNS0_SUBNET{
						Code: dns.EDNS0SUBNET, Family: e.Family, SourceNetmask: e.SourceNetmask, SourceScope: 0, Address: e.Address,
					})
				}
			}
		}

		return rw.WriteMsg(ctx, req, resp)
	})
}

func vfsNewStack(tb testing.TB, conf *vfsConfig) (s *vfsStack) {
	return vfsNewStackGeo(tb, conf, nil)
}

// vfsNewStackGeo is vfsNewStack with the given GeoIP database instead of the
// model one (nil = model).
func vfsNewStackGeo(tb testing.TB, conf *vfsConfig, realGeo geoip.Interface) (s *vfsStack) {
	s = &vfsStack{
		conf:        conf,
		live:        map[agd.RequestID]*vfsLive{},
		orphan:      &vfsTrace{},
		handlers:    map[string]dnsserver.Handler{},
		servers:     map[string]*agd.Server{},
		byDevID:     map[agd.DeviceID][2]int{},
		byLinked:    map[netip.Addr][2]int{},
		byDedicated: map[netip.Addr][2]int{},
	}
	global, err := access.NewGlobal(vfsRuleTexts(conf.GlobalRules), conf.GlobalNets)
	if err != nil {
		tb.Fatalf("harness: access.NewGlobal(%q, %v): %v", vfsRuleTexts(conf.GlobalRules), conf.GlobalNets, err)
	}

	for pi := range conf.Profiles {
		pc := &conf.Profiles[pi]
		var acc access.Profile = access.EmptyProfile{}
		if !pc.Access.Empty {
			acc = access.NewDefaultProfile(&access.ProfileConfig{
				AllowedNets:          pc.Access.Allowed,
				BlockedNets:          pc.Access.Blocked,
				AllowedASN:           pc.Access.AllowedASN,
				BlockedASN:           pc.Access.BlockedASN,
				BlocklistDomainRules: vfsRuleTexts(pc.Access.Rules),
			})
		}

		var rl agd.Ratelimiter = agd.GlobalRatelimiter{}
		if pc.CustomRL {
			rl = &vfsProfRL{s: s}
		}

		vp := &vfsProfile{conf: pc}
		vp.prof = &agd.Profile{
			FilterConfig: &filter.ConfigClient{
				Custom:       &filter.ConfigCustom{},
				Parental:     &filter.ConfigParental{},
				RuleList:     &filter.ConfigRuleList{},
				SafeBrowsing: &filter.ConfigSafeBrowsing{},
			},
			Access:              acc,
			BlockingMode:        &dnsmsg.BlockingModeNullIP{},
			Ratelimiter:         rl,
			ID:                  agd.ProfileID(pc.ID),
			FilteredResponseTTL: agdtest.FilteredResponseTTL,
			FilteringEnabled:    pc.Filtering,
			IPLogEnabled:        pc.IPLog,
			QueryLogEnabled:     pc.QLog,
		}

		for di, dc := range pc.Devices {
			d := &agd.Device{
				Auth:             &agd.AuthSettings{Enabled: false, PasswordHash: agdpasswd.AllowAuthenticator{}},
				ID:               agd.DeviceID(dc.ID),
				LinkedIP:         dc.LinkedIP,
				Name:             agd.DeviceName("name-" + dc.ID),
				FilteringEnabled: dc.Filtering,
			}

			idx := [2]int{pi, di}
			s.byDevID[d.ID] = idx
			if dc.LinkedIP.IsValid() {
				s.byLinked[dc.LinkedIP] = idx
			}

			if dc.Dedicated.IsValid() {
				d.DedicatedIPs = []netip.Addr{dc.Dedicated}
				s.byDedicated[dc.Dedicated] = idx
			}

			vp.prof.DeviceIDs = append(vp.prof.DeviceIDs, d.ID)
			vp.devs = append(vp.devs, d)
		}

		s.profiles = append(s.profiles, vp)
	}

	profDB := agdtest.NewProfileDB()
	profDB.OnProfileByDeviceID = func(_ context.Context, id agd.DeviceID) (*agd.Profile, *agd.Device, error) {
		idx, ok := s.byDevID[id]

		return s.lookup(idx, ok)
	}
	profDB.OnProfileByLinkedIP = func(_ context.Context, ip netip.Addr) (*agd.Profile, *agd.Device, error) {
		idx, ok := s.byLinked[ip]

		return s.lookup(idx, ok)
	}
	profDB.OnProfileByDedicatedIP = func(_ context.Context, ip netip.Addr) (*agd.Profile, *agd.Device, error) {
		idx, ok := s.byDedicated[ip]

		return s.lookup(idx, ok)
	}

	var geoDB geoip.Interface = realGeo
	geo := agdtest.NewGeoIP()
	if realGeo == nil {
		geoDB = geo
	}

	geo.OnData = func(_ string, ip netip.Addr) (*geoip.Location, error) {
		l := vfsLocOf(ip)
		if l == nil {
			return nil, nil
		}

		cp := *l

		return &cp, nil
	}
	geo.OnSubnetByLocation = func(_ *geoip.Location, fam netutil.AddrFamily) (netip.Prefix, error) {
		return netutil.ZeroPrefix(fam), nil
	}

	scripted := &agdtest.Filter{
		OnFilterRequest: func(ctx context.Context, r *filter.Request) (filter.Result, error) {
			var sc vfsScript
			s.on(ctx, func(tr *vfsTrace, scp *vfsScript) { tr.FilterReq++; sc = *scp })
			if sc.Outcome == vfsOutNone && s.reqFilter != nil {
				return s.reqFilter(ctx, r)
			}

			switch sc.Outcome {
			case vfsOutReqBlocked:
				return &filter.ResultBlocked{List: sc.List, Rule: sc.Rule}, nil
			case vfsOutReqAllowed:
				return &filter.ResultAllowed{List: sc.List, Rule: sc.Rule}, nil
			case vfsOutRewritten:
				resp := (&dns.Msg{}).SetReply(r.DNS)
				resp.RecursionAvailable = true
				if r.DNS.Question[0].Qtype == dns.TypeA {
					resp.Answer = []dns.RR{&dns.A{
						Hdr: dns.RR_Header{Name: r.DNS.Question[0].Name, Rrtype: dns.TypeA, Class: dns.ClassINET, Ttl: 10},
						A:   net.IP{198, 18, 255, 1},
					}}
				}

				return &filter.ResultModifiedResponse{Msg: resp, List: sc.List, Rule: sc.Rule}, nil
			case vfsOutCNAME:
				mod := dnsmsg.Clone(r.DNS)
				mod.Question[0].Name = vfsCNAMETarget

				return &filter.ResultModifiedRequest{Msg: mod, List: sc.List, Rule: sc.Rule}, nil
			default:
				return nil, nil
			}
		},
		OnFilterResponse: func(ctx context.Context, _ *filter.Response) (filter.Result, error) {
			var sc vfsScript
			s.on(ctx, func(tr *vfsTrace, scp *vfsScript) { tr.FilterResp++; sc = *scp })
			switch sc.Outcome {
			case vfsOutRespBlocked:
				return &filter.ResultBlocked{List: sc.List, Rule: sc.Rule}, nil
			case vfsOutRespAllowed:
				return &filter.ResultAllowed{List: sc.List, Rule: sc.Rule}, nil
			}

			switch sc.RespToo {
			case vfsOutRespBlocked:
				return &filter.ResultBlocked{List: sc.RespList, Rule: sc.RespRule}, nil
			case vfsOutRespAllowed:
				return &filter.ResultAllowed{List: sc.RespList, Rule: sc.RespRule}, nil
			default:
				return nil, nil
			}
		},
	}
	empty := &agdtest.Filter{
		OnFilterRequest: func(ctx context.Context, _ *filter.Request) (filter.Result, error) {
			s.on(ctx, func(tr *vfsTrace, _ *vfsScript) { tr.FilterReq++ })

			return nil, nil
		},
		OnFilterResponse: func(ctx context.Context, _ *filter.Response) (filter.Result, error) {
			s.on(ctx, func(tr *vfsTrace, _ *vfsScript) { tr.FilterResp++ })

			return nil, nil
		},
	}
	fltStrg := &agdtest.FilterStorage{
		OnForConfig: func(ctx context.Context, c filter.Config) filter.Interface {
			s.on(ctx, func(tr *vfsTrace, _ *vfsScript) { tr.ForConfig++ })
			if c == nil {
				// Filtering is disabled for the profile or the device.
				return empty
			}

			return scripted
		},
		OnHasListID: func(_ filter.ID) bool { return true },
	}

	rl := agdtest.NewRateLimit()
	rl.OnIsRateLimited = func(ctx context.Context, _ *dns.Msg, _ netip.Addr) (drop, allowlisted bool, err error) {
		s.on(ctx, func(tr *vfsTrace, sc *vfsScript) {
			tr.RLCheck++
			drop, allowlisted = sc.GlobalRL == vfsRLDrop, sc.GlobalRL == vfsRLAllowlisted
		})

		return drop, allowlisted, nil
	}
	rl.OnCountResponses = func(ctx context.Context, _ *dns.Msg, _ netip.Addr) {
		s.on(ctx, func(tr *vfsTrace, _ *vfsScript) { tr.RLCount++ })
	}

	fltGrp := &agd.FilteringGroup{
		FilterConfig: &filter.ConfigGroup{
			Parental:     &filter.ConfigParental{},
			RuleList:     &filter.ConfigRuleList{},
			SafeBrowsing: &filter.ConfigSafeBrowsing{},
		},
		ID: "vfs_fg",
	}

	mk := func(name agd.ServerName, proto agd.Protocol, bd *agd.ServerBindData) *agd.Server {
		srv := &agd.Server{Name: name, Protocol: proto, ReadTimeout: time.Second, WriteTimeout: time.Second, LinkedIPEnabled: proto == agd.ProtoDNS}
		srv.SetBindData([]*agd.ServerBindData{bd})

		return srv
	}
	s.servers[vfsSrvDoT] = mk("vfs_dot", agd.ProtoDoT, &agd.ServerBindData{AddrPort: vfsDoTAddr})
	s.servers[vfsSrvDNS] = mk("vfs_dns", agd.ProtoDNS, &agd.ServerBindData{AddrPort: vfsDNSAddr})
	s.servers[vfsSrvDNSIf] = mk("vfs_dnsif", agd.ProtoDNS, &agd.ServerBindData{
		PrefixAddr: &agdnet.PrefixNetAddr{Prefix: vfsIfPfx, Net: "udp", Port: 53},
	})

	srvGrp := &agd.ServerGroup{
		DDR:             &agd.DDR{Enabled: false},
		DeviceDomains:   []string{vfsDeviceDomain},
		Name:            "vfs_sg",
		FilteringGroup:  fltGrp.ID,
		Servers:         []*agd.Server{s.servers[vfsSrvDoT], s.servers[vfsSrvDNS], s.servers[vfsSrvDNSIf]},
		ProfilesEnabled: true,
	}

	cacheConf := &dnssvc.CacheConfig{Type: dnssvc.CacheTypeNone}
	if conf.ECSCache {
		cacheConf = &dnssvc.CacheConfig{Type: dnssvc.CacheTypeECS, ECSCount: 100, NoECSCount: 100}
	}

	handlers, err := dnssvc.NewHandlers(context.Background(), &dnssvc.HandlersConfig{
		BaseLogger:       slogutil.NewDiscardLogger(),
		Cloner:           agdtest.NewCloner(),
		Cache:            cacheConf,
		HumanIDParser:    agd.NewHumanIDParser(),
		Messages:         agdtest.NewConstructor(tb),
		StructuredErrors: agdtest.NewSDEConfig(true),
		AccessManager:    global,
		BillStat: &agdtest.BillStatRecorder{
			OnRecord: func(ctx context.Context, id agd.DeviceID, c geoip.Country, a geoip.ASN, start time.Time, p agd.Protocol) {
				s.on(ctx, func(tr *vfsTrace, _ *vfsScript) {
					tr.Bill = append(tr.Bill, vfsBill{Dev: id, Ctry: c, ASN: a, Start: start, Proto: p})
				})
			},
		},
		CacheManager: agdcache.EmptyManager{},
		DNSCheck: &agdtest.DNSCheck{
			OnCheck: func(ctx context.Context, _ *dns.Msg, _ *agd.RequestInfo) (*dns.Msg, error) {
				s.on(ctx, func(tr *vfsTrace, _ *vfsScript) { tr.DNSCheck++ })

				return nil, nil
			},
		},
		DNSDB: &agdtest.DNSDB{
			OnRecord: func(ctx context.Context, _ *dns.Msg, _ *agd.RequestInfo) {
				s.on(ctx, func(tr *vfsTrace, _ *vfsScript) { tr.DNSDB++ })
			},
		},
		ErrColl: &agdtest.ErrorCollector{
			OnCollect: func(ctx context.Context, err error) {
				s.on(ctx, func(tr *vfsTrace, _ *vfsScript) { tr.Errs = append(tr.Errs, err.Error()) })
			},
		},
		FilterStorage: fltStrg,
		GeoIP:         geoDB,
		Handler:       vfsUpstream(s),
		HashMatcher: &agdtest.HashMatcher{
			OnMatchByPrefix: func(ctx context.Context, _ string) ([]string, bool, error) {
				s.on(ctx, func(tr *vfsTrace, _ *vfsScript) { tr.HashMatch++ })

				return nil, false, nil
			},
		},
		ProfileDB:            profDB,
		PrometheusRegisterer: agdtest.NewTestPrometheusRegisterer(),
		QueryLog: &agdtest.QueryLog{
			OnWrite: func(ctx context.Context, e *querylog.Entry) error {
				cp := *e
				s.on(ctx, func(tr *vfsTrace, _ *vfsScript) { tr.QLog = append(tr.QLog, &cp) })
				if s.qlogSink != nil {
					return s.qlogSink(e)
				}

				return nil
			},
		},
		RateLimit: rl,
		RuleStat: &agdtest.RuleStat{
			OnCollect: func(ctx context.Context, id filter.ID, text filter.RuleText) {
				s.on(ctx, func(tr *vfsTrace, _ *vfsScript) { tr.RuleStat = append(tr.RuleStat, vfsRuleStatEv{ID: id, Text: text}) })
			},
		},
		MetricsNamespace: "vfs",
		FilteringGroups:  map[agd.FilteringGroupID]*agd.FilteringGroup{fltGrp.ID: fltGrp},
		ServerGroups:     []*agd.ServerGroup{srvGrp},
		EDEEnabled:       true,
	})
	if err != nil {
		tb.Fatalf("harness: dnssvc.NewHandlers: %v", err)
	}

	for k, h := range handlers {
		for name, srv := range s.servers {
			if k.Server == srv {
				s.handlers[name] = h
			}
		}
	}

	if len(s.handlers) != 3 {
		tb.Fatalf("harness: %d handlers, want 3", len(s.handlers))
	}

	return s
}

// ---------------------------------------------------------------------------
// Requests.

type vfsRequest struct {
	Server   string
	Client   netip.Addr
	Client16 bool // IPv4 client address given in the 16-byte form
	Local    netip.AddrPort
	SNI      string
	CPEID    string
	Name     string // as sent (mixed case, FQDN)
	QType    uint16
	QClass   uint16
	ID       uint16
	EDNS     bool
	DO       bool
	ECS      netip.Prefix
	ECSFirst bool   // the ECS option precedes the CPE-ID option
	Canceled bool   // the caller's context is already cancelled
	NearMiss string // the one component changed relative to the previous request, if derived from it
	BadECS   bool   // malformed ECS option on the wire (stray host bits)
	BadSNI   bool   // invalid device ID under the device domain
	Script   vfsScript
	ReqID    agd.RequestID
	Start    time.Time

	// By construction:
	IDMode           string
	Prof, Dev        int // -1 = anonymous
	UnknownDedicated bool
}

// Host is the question name as rules see it: lower case without the final
// dot; the root name stays ".".
func (r *vfsRequest) Host() string {
	if r.Name == "." {
		return "."
	}

	return strings.ToLower(strings.TrimSuffix(r.Name, "."))
}

func (r *vfsRequest) Debug() bool { return r.QClass == dns.ClassCHAOS }

func (r *vfsRequest) String() string {
	return fmt.Sprintf("req{%s client=%s(16=%t) local=%s sni=%q cpe=%q id=%s prof=%d dev=%d unknownDedicated=%t q=%s/%s/%s ecs=%v badECS=%t ecsFirst=%t canceled=%t nearMiss=%q outcome=%s rl=%s/%s}",
		r.Server, r.Client, r.Client16, r.Local, r.SNI, r.CPEID, r.IDMode, r.Prof, r.Dev, r.UnknownDedicated,
		r.Name, dns.TypeToString[r.QType], dns.ClassToString[r.QClass], r.ECS, r.BadECS, r.ECSFirst, r.Canceled, r.NearMiss,
		r.Script.Describe(), vfsRLNames[r.Script.GlobalRL], vfsRLNames[r.Script.ProfRL])
}

// Describe names the scripted filtering results of both stages.
func (sc vfsScript) Describe() string {
	s := vfsOutcomeNames[sc.Outcome]
	if sc.Outcome != vfsOutNone {
		s += fmt.Sprintf("(%s %q)", sc.List, sc.Rule)
	}

	if sc.RespToo != vfsOutNone {
		s += fmt.Sprintf("+%s(%s %q)", vfsOutcomeNames[sc.RespToo], sc.RespList, sc.RespRule)
	}

	if sc.UpRcode != 0 {
		s += fmt.Sprintf(" upstream-rcode=%d", sc.UpRcode)
	}

	return s
}

// vfsAddrsIn returns standard client addresses contained in pfx.
func vfsAddrsIn(pfx netip.Prefix) (res []netip.Addr) {
	for i := range vfsPools {
		for _, a := range vfsClients(i) {
			if pfx.Contains(a) {
				res = append(res, a)
			}
		}
	}

	return res
}

func vfsMixCase(t *rapid.T, s string) string {
	mode := rapid.IntRange(0, 3).Draw(t, "caseMode")
	switch mode {
	case 0, 1:
		return s
	case 2:
		return strings.ToUpper(s)
	}

	b := []byte(s)
	mask := rapid.Uint64().Draw(t, "caseMask")
	for i := range b {
		if mask>>(uint(i)%64)&1 == 1 && b[i] >= 'a' && b[i] <= 'z' {
			b[i] -= 'a' - 'A'
		}
	}

	return string(b)
}

// vfsRuleTextPool: list IDs and rule texts reported by the scripted filter;
// some need JSON escaping.
var vfsLists = []filter.ID{"adguard_dns_filter", "custom", "blocked_service", "safe_browsing", "flt_1"}

var vfsRuleTextPool = []filter.RuleText{
	"||blocked.example^", "@@||allowed.example^", "||a.test^$dnsrewrite=NOERROR;A;1.2.3.4",
	`||quote"back\slash^`, "||tab\there^", "/re[gG]ex<>&/", "||юникод.example^", "example_service",
	filter.RuleText("||long." + strings.Repeat("l", 300) + ".example^"),
}

// vfsDrawRequest draws the next request against s.
// resolve derives, from what the request presents, which profile and device it
// belongs to (by construction of the documented identification order: device
// ID from the TLS server name / CPE-ID option first, then the dedicated local
// address on the interface-bound server, then the linked client address).
func (r *vfsRequest) resolve(s *vfsStack) {
	r.Prof, r.Dev, r.UnknownDedicated = -1, -1, false
	set := func(idx [2]int, ok bool) {
		if ok {
			r.Prof, r.Dev = idx[0], idx[1]
		}
	}

	switch {
	case r.BadSNI:
	case r.Server == vfsSrvDoT:
		if id, ok := strings.CutSuffix(strings.ToLower(r.SNI), "."+vfsDeviceDomain); ok {
			idx, found := s.byDevID[agd.DeviceID(id)]
			set(idx, found)
		}
	case r.CPEID != "":
		idx, found := s.byDevID[agd.DeviceID(r.CPEID)]
		set(idx, found)
	case r.Server == vfsSrvDNSIf:
		idx, found := s.byDedicated[r.Local.Addr()]
		set(idx, found)
		r.UnknownDedicated = !found
	default:
		idx, found := s.byLinked[r.Client]
		set(idx, found)
	}
}

// vfsNearMiss returns a copy of prev with exactly one component changed that
// the code must distinguish, or nil if the drawn change does not apply.
func vfsNearMiss(t *rapid.T, s *vfsStack, o vfsOpts, prev *vfsRequest) (r *vfsRequest) {
	cp := *prev
	r = &cp
	r.ID = uint16(rapid.IntRange(0, 65535).Draw(t, "nmMsgID"))
	r.Canceled = false
	kind := rapid.SampledFrom([]string{"client", "client", "qtype", "qtype", "case", "label", "label", "anon", "anon", "anon", "device", "device", "device", "device", "class", "ecs"}).Draw(t, "nmKind")
	r.NearMiss = kind
	switch kind {
	case "client":
		// A neighbour in the same pool (often across a prefix boundary).
		if prev.IDMode == "dns-linked" {
			return nil
		}

		for pi := range vfsPools {
			if !vfsPools[pi].Pfx.Contains(prev.Client) {
				continue
			}

			cl := vfsClients(pi)
			for i, a := range cl {
				if a == prev.Client {
					d := rapid.SampledFrom([]int{-1, 1}).Draw(t, "nmClientDir")
					r.Client = cl[(i+d+len(cl))%len(cl)]

					break
				}
			}
		}

		if r.Client == prev.Client {
			return nil
		}
	case "qtype":
		types := vfsRuleTypes
		if o.Root {
			types = append(append([]uint16{}, vfsRuleTypes...), vfsRootTypes...)
		}

		r.QType = rapid.SampledFrom(types).Draw(t, "nmQType")
		if r.QType == prev.QType {
			return nil
		}
	case "case":
		if up := strings.ToUpper(prev.Name); up != prev.Name {
			r.Name = up
		} else if low := strings.ToLower(prev.Name); low != prev.Name {
			r.Name = low
		} else {
			return nil
		}
	case "label":
		// One label more or one label less.
		host := strings.TrimSuffix(prev.Name, ".")
		switch {
		case host == "":
			r.Name = "test."
		case rapid.Bool().Draw(t, "nmLabelAdd"):
			r.Name = "x." + prev.Name
		default:
			_, rest, ok := strings.Cut(host, ".")
			if !ok {
				if !o.Root {
					return nil
				}

				rest = ""
			}

			r.Name = rest + "."
			if rest == "" {
				r.QType = rapid.SampledFrom(vfsRootTypes).Draw(t, "nmRootQType")
			}
		}
	case "anon":
		// The same client without the identification.
		if prev.Prof < 0 || prev.Server == vfsSrvDNSIf || prev.IDMode == "dns-linked" {
			return nil
		}

		r.SNI, r.CPEID, r.IDMode = "", "", prev.IDMode+"-dropped"
	case "device":
		// The same request as another device (of the same or another
		// profile).
		if prev.IDMode != "dot-sni" && prev.IDMode != "dns-cpe" {
			return nil
		}

		var ids []string
		for _, p := range s.conf.Profiles {
			for _, d := range p.Devices {
				if d.ID != prev.CPEID && d.ID+"."+vfsDeviceDomain != prev.SNI {
					ids = append(ids, d.ID)
				}
			}
		}

		if len(ids) == 0 {
			return nil
		}

		id := rapid.SampledFrom(ids).Draw(t, "nmDevice")
		if prev.IDMode == "dot-sni" {
			r.SNI = id + "." + vfsDeviceDomain
		} else {
			r.CPEID = id
		}
	case "class":
		if prev.QClass == dns.ClassINET {
			r.QClass = dns.ClassCHAOS
		} else {
			r.QClass = dns.ClassINET
		}
	case "ecs":
		if prev.BadECS {
			return nil
		}

		if prev.ECS.IsValid() {
			r.ECS = netip.Prefix{}
		} else {
			ep := rapid.IntRange(0, len(vfsPools)-1).Draw(t, "nmECSPool")
			base := vfsPools[ep].Pfx.Addr()
			if base.Is4() {
				r.ECS = netip.PrefixFrom(base, 24).Masked()
			} else {
				r.ECS = netip.PrefixFrom(base, 48)
			}

			r.EDNS = true
		}
	}

	r.resolve(s)

	return r
}

func vfsDrawRequest(t *rapid.T, s *vfsStack, o vfsOpts, prev *vfsRequest) (r *vfsRequest) {
	conf := s.conf
	if prev != nil && rapid.IntRange(0, 2).Draw(t, "nearMiss") == 0 {
		if r = vfsNearMiss(t, s, o, prev); r != nil {
			return r
		}
	}

	r = &vfsRequest{Prof: -1, Dev: -1}

	// Which profile/device the client will try to be.
	pi := rapid.IntRange(0, len(conf.Profiles)-1).Draw(t, "tryProf")
	pc := &conf.Profiles[pi]
	di := rapid.IntRange(0, len(pc.Devices)-1).Draw(t, "tryDev")
	dc := pc.Devices[di]

	modes := []string{"dot-none", "dot-other-sni", "dot-sni", "dot-sni", "dot-sni", "dot-sni-unknown", "dns-none", "dns-cpe", "dns-cpe", "dns-cpe-unknown"}
	if dc.LinkedIP.IsValid() {
		modes = append(modes, "dns-linked", "dns-linked")
	}

	if dc.Dedicated.IsValid() {
		modes = append(modes, "dnsif-dedicated", "dnsif-dedicated")
	}

	if o.Drops {
		modes = append(modes, "dnsif-unknown")
	}

	if o.Malformed {
		modes = append(modes, "dot-bad-sni", "dot-bad-sni")
	}

	r.IDMode = rapid.SampledFrom(modes).Draw(t, "idMode")
	switch r.IDMode {
	case "dot-none":
		r.Server, r.Local = vfsSrvDoT, vfsDoTAddr
	case "dot-other-sni":
		r.Server, r.Local, r.SNI = vfsSrvDoT, vfsDoTAddr, "dns.vfs.example"
	case "dot-sni":
		r.Server, r.Local, r.SNI = vfsSrvDoT, vfsDoTAddr, dc.ID+"."+vfsDeviceDomain
	case "dot-sni-unknown":
		r.Server, r.Local, r.SNI = vfsSrvDoT, vfsDoTAddr, "nodev."+vfsDeviceDomain
	case "dot-bad-sni":
		// Not a valid device ID: the device finder reports an error and no
		// profile is recognised.
		r.Server, r.Local, r.SNI, r.BadSNI = vfsSrvDoT, vfsDoTAddr, "!!bad!!."+vfsDeviceDomain, true
	case "dns-none":
		r.Server, r.Local = vfsSrvDNS, vfsDNSAddr
	case "dns-cpe":
		r.Server, r.Local, r.CPEID = vfsSrvDNS, vfsDNSAddr, dc.ID
	case "dns-cpe-unknown":
		r.Server, r.Local, r.CPEID = vfsSrvDNS, vfsDNSAddr, "nodev"
	case "dns-linked":
		r.Server, r.Local = vfsSrvDNS, vfsDNSAddr
	case "dnsif-dedicated":
		r.Server, r.Local = vfsSrvDNSIf, netip.AddrPortFrom(dc.Dedicated, 53)
	case "dnsif-unknown":
		r.Server, r.Local = vfsSrvDNSIf, netip.AddrPortFrom(netip.AddrFrom4([4]byte{10, 0, 1, 200}), 53)
	}

	// Client address.
	var interesting []netip.Prefix
	interesting = append(interesting, conf.GlobalNets...)
	interesting = append(interesting, pc.Access.Allowed...)
	interesting = append(interesting, pc.Access.Blocked...)
	switch {
	case r.IDMode == "dns-linked":
		r.Client = dc.LinkedIP
	case len(interesting) > 0 && rapid.IntRange(0, 2).Draw(t, "clientFromNets") > 0:
		pfx := interesting[rapid.IntRange(0, len(interesting)-1).Draw(t, "clientNet")]
		cands := vfsAddrsIn(pfx)
		if pfx.Bits() >= 24 {
			// first address of the prefix: not necessarily a standard host
			cands = append(cands, pfx.Masked().Addr())
		}

		r.Client = rapid.SampledFrom(cands).Draw(t, "clientInNet")
	default:
		pool := rapid.IntRange(0, len(vfsPools)-1).Draw(t, "clientPool")
		if rapid.IntRange(0, 3).Draw(t, "clientFocus") > 0 {
			pool = rapid.SampledFrom(conf.Focus).Draw(t, "clientFocusPool")
		}

		r.Client = rapid.SampledFrom(vfsClients(pool)).Draw(t, "clientHost")
	}

	r.Client16 = r.Client.Is4() && rapid.IntRange(0, 3).Draw(t, "client16") == 0

	r.resolve(s)

	// Question.
	var targets []string
	var specialTypes []uint16
	for _, ru := range append(append([]vfsRule{}, conf.GlobalRules...), pc.Access.Rules...) {
		if ru.Target == vfsTargetAny || ru.Target == vfsTargetRoot {
			if ru.Type != 0 {
				specialTypes = append(specialTypes, ru.Type)
			}

			continue
		}

		targets = append(targets, ru.Target)
	}

	host := ""
	rootOdds := 9
	if len(specialTypes) > 0 {
		rootOdds = 3
	}

	if o.Root && rapid.IntRange(0, rootOdds).Draw(t, "rootName") == 0 {
		host = ""
	} else if len(targets) > 0 && rapid.IntRange(0, 2).Draw(t, "nameFromRules") > 0 {
		tgt := targets[rapid.IntRange(0, len(targets)-1).Draw(t, "nameTarget")]
		switch rapid.IntRange(0, 5).Draw(t, "nameRel") {
		case 0, 1, 2:
			host = tgt
		case 3:
			host = "x." + tgt
		case 4:
			host = "x" + tgt // sibling that only shares a suffix string
		default:
			host = tgt + ".example" // the target as a prefix
		}
	} else {
		host = rapid.SampledFrom(vfsNames).Draw(t, "name")
	}

	r.Name = vfsMixCase(t, host+".")
	switch {
	case host == "":
		// The root name.
		r.QType = rapid.SampledFrom(vfsRootTypes).Draw(t, "rootQType")
	case o.Root && len(specialTypes) > 0 && rapid.IntRange(0, 2).Draw(t, "qtypeFromRules") == 0:
		r.QType = rapid.SampledFrom(specialTypes).Draw(t, "qtypeSpecial")
	case o.Root:
		r.QType = rapid.SampledFrom(append(append([]uint16{}, vfsRuleTypes...), dns.TypeNS, dns.TypeANY)).Draw(t, "qtype")
	default:
		r.QType = rapid.SampledFrom(vfsRuleTypes).Draw(t, "qtype")
	}
	r.QClass = dns.ClassINET
	if rapid.IntRange(0, 9).Draw(t, "chaos") == 0 {
		r.QClass = dns.ClassCHAOS
	}

	r.ID = uint16(rapid.IntRange(0, 65535).Draw(t, "msgID"))
	r.DO = rapid.IntRange(0, 5).Draw(t, "do") == 0
	r.EDNS = r.DO || r.CPEID != "" || rapid.IntRange(0, 2).Draw(t, "edns") == 0
	if rapid.IntRange(0, 5).Draw(t, "ecs") == 0 {
		// A well-formed ECS option naming another network (often one with a
		// different ASN than the client's).
		ep := rapid.IntRange(0, len(vfsPools)-1).Draw(t, "ecsPool")
		base := vfsPools[ep].Pfx.Addr()
		if base.Is4() {
			r.ECS = netip.PrefixFrom(base, 24).Masked()
		} else {
			r.ECS = netip.PrefixFrom(base, 48)
		}

		r.EDNS = true
	}

	if o.Malformed && rapid.IntRange(0, 6).Draw(t, "badECS") == 0 {
		r.BadECS, r.ECS, r.EDNS = true, netip.Prefix{}, true
	}

	r.ECSFirst = rapid.Bool().Draw(t, "ecsFirst")
	r.Canceled = o.Malformed && rapid.IntRange(0, 19).Draw(t, "canceled") == 0

	// Scripted downstream behaviour.
	r.Script.Outcome = rapid.SampledFrom([]int{
		vfsOutNone, vfsOutNone, vfsOutNone, vfsOutReqBlocked, vfsOutRespBlocked, vfsOutReqAllowed, vfsOutRespAllowed, vfsOutRewritten, vfsOutCNAME,
	}).Draw(t, "outcome")
	if r.Script.Outcome != vfsOutNone {
		r.Script.List = rapid.SampledFrom(vfsLists).Draw(t, "list")
		r.Script.Rule = rapid.SampledFrom(vfsRuleTextPool).Draw(t, "rule")
	}

	switch r.Script.Outcome {
	case vfsOutReqBlocked, vfsOutReqAllowed, vfsOutRewritten:
		// Both stages: the upstream answer of a request-decided query also
		// matches a response-stage rule (another one, or the very same).
		r.Script.RespToo = rapid.SampledFrom([]int{vfsOutNone, vfsOutRespBlocked, vfsOutRespBlocked, vfsOutRespAllowed}).Draw(t, "respToo")
		if r.Script.RespToo != vfsOutNone {
			r.Script.RespList, r.Script.RespRule = r.Script.List, r.Script.Rule
			if rapid.Bool().Draw(t, "respOtherRule") {
				r.Script.RespList = rapid.SampledFrom(vfsLists).Draw(t, "respList")
				r.Script.RespRule = rapid.SampledFrom(vfsRuleTextPool).Draw(t, "respRule")
			}
		}
	}

	if r.EDNS && rapid.IntRange(0, 7).Draw(t, "extendedRcode") == 0 {
		r.Script.UpRcode = rapid.SampledFrom([]int{16, 17, 18, 22, 23, 3841}).Draw(t, "upRcode")
	}

	gl := []int{vfsRLPass, vfsRLPass, vfsRLPass, vfsRLAllowlisted}
	pl := []int{vfsRLPass, vfsRLPass, vfsRLUseGlobal}
	if o.Drops {
		gl = append(gl, vfsRLDrop)
		pl = append(pl, vfsRLDrop)
	}

	r.Script.GlobalRL = rapid.SampledFrom(gl).Draw(t, "globalRL")
	r.Script.ProfRL = rapid.SampledFrom(pl).Draw(t, "profRL")

	return r
}

// RateLimited tells, from the scripted limiter decisions, whether the request
// is dropped by rate limiting (plain DNS only; a profile's own limiter decides
// first, "use global" defers to the global one).
func (r *vfsRequest) RateLimited(conf *vfsConfig) (dropped bool, by string) {
	if r.Server == vfsSrvDoT {
		return false, ""
	}

	if r.Prof >= 0 && conf.Profiles[r.Prof].CustomRL {
		switch r.Script.ProfRL {
		case vfsRLDrop:
			return true, "profile"
		case vfsRLPass:
			return false, ""
		}
	}

	if r.Script.GlobalRL == vfsRLDrop {
		return true, "global"
	}

	return false, ""
}

// vfsVerdict is the reference access decision, straight from the property
// statement.
type vfsVerdict struct {
	Blocked bool

	GlobalNet, GlobalName bool
	ProfNets, ProfName    bool

	InAllowedNet, InBlockedNet bool
	InAllowedASN, InBlockedASN bool
	GlobalExcepted             bool
	ProfExcepted               bool
}

func vfsContains(nets []netip.Prefix, ip netip.Addr) bool {
	for _, n := range nets {
		if n.Contains(ip) {
			return true
		}
	}

	return false
}

func vfsHasASN(asns []geoip.ASN, l *geoip.Location) bool {
	if l == nil {
		return false
	}

	for _, a := range asns {
		if a == l.ASN {
			return true
		}
	}

	return false
}

func vfsAccessVerdict(conf *vfsConfig, r *vfsRequest) (v vfsVerdict) {
	return vfsAccessVerdictLoc(conf, r, vfsLocOf(r.Client))
}

// vfsAccessVerdictLoc is the reference access decision for a client whose
// location is loc (nil = unknown).
func vfsAccessVerdictLoc(conf *vfsConfig, r *vfsRequest, loc *geoip.Location) (v vfsVerdict) {
	host := r.Host()
	v.GlobalNet = vfsContains(conf.GlobalNets, r.Client)
	v.GlobalName, v.GlobalExcepted = vfsRulesBlock(conf.GlobalRules, host, r.QType)
	if r.Prof >= 0 && !conf.Profiles[r.Prof].Access.Empty {
		a := conf.Profiles[r.Prof].Access
		v.InAllowedNet = vfsContains(a.Allowed, r.Client)
		v.InBlockedNet = vfsContains(a.Blocked, r.Client)
		v.InAllowedASN = vfsHasASN(a.AllowedASN, loc)
		v.InBlockedASN = vfsHasASN(a.BlockedASN, loc)
		v.ProfNets = (v.InBlockedNet || v.InBlockedASN) && !(v.InAllowedNet || v.InAllowedASN)
		v.ProfName, v.ProfExcepted = vfsRulesBlock(a.Rules, host, r.QType)
	}

	v.Blocked = v.GlobalNet || v.GlobalName || v.ProfNets || v.ProfName

	return v
}

// serve sends r through the handler of its server and returns the events it
// caused.
// vfsPrepared is a request ready to be handed to the handler.
type vfsPrepared struct {
	r   *vfsRequest
	ctx context.Context
	req *dns.Msg
	rw  *vfsRW
	tr  *vfsTrace
}

// prepare builds the message (through the wire), the addresses and the context
// of r.
func (s *vfsStack) prepare(t *rapid.T, r *vfsRequest) (p *vfsPrepared) {
	m := &dns.Msg{}
	m.Id = r.ID
	m.RecursionDesired = true
	m.Question = []dns.Question{{Name: r.Name, Qtype: r.QType, Qclass: r.QClass}}
	if r.EDNS {
		m.SetEdns0(1232, r.DO)
		opt := m.IsEdns0()
		var cpe, ecs []dns.EDNS0
		if r.CPEID != "" {
			cpe = append(cpe, &dns.EDNS0_LOCAL{Code: 65074, Data: []byte(r.CPEID)})
		}

		if r.BadECS {
			// Raw payload (miekg's packer would mask the stray host bits
			// away): family, source length 23, scope 0, and an address whose
			// 24th bit is set.
			data := []byte{0, 1, 23, 0, 192, 0, 3}
			if r.Client.Is6() {
				data = []byte{0, 2, 47, 0, 0x20, 1, 0xd, 0xb8, 0, 1}
			}

			ecs = append(ecs, &dns.EDNS0_LOCAL{Code: dns.EDNS0SUBNET, Data: data})
		}

		if r.ECS.IsValid() {
			fam := uint16(1)
			if r.ECS.Addr().Is6() {
				fam = 2
			}

			ecs = append(ecs, &dns.EDNS0_SUBNET{
				Code: dns.EDNS0SUBNET, Family: fam, SourceNetmask: uint8(r.ECS.Bits()), Address: r.ECS.Addr().AsSlice(),
			})
		}

		if r.ECSFirst {
			opt.Option = append(append(opt.Option, ecs...), cpe...)
		} else {
			opt.Option = append(append(opt.Option, cpe...), ecs...)
		}
	}

	b, err := m.Pack()
	if err != nil {
		t.Fatalf("harness: packing %s: %v", r, err)
	}

	req := &dns.Msg{}
	if err = req.Unpack(b); err != nil {
		t.Fatalf("harness: unpacking %s: %v", r, err)
	}

	ipb := r.Client.AsSlice()
	if r.Client16 {
		ipb = net.IP(ipb).To16()
	}

	var raddr, laddr net.Addr
	srv := s.servers[r.Server]
	if srv.Protocol == agd.ProtoDoT {
		raddr = &net.TCPAddr{IP: ipb, Port: 40000 + int(r.ID%1000)}
		laddr = net.TCPAddrFromAddrPort(r.Local)
	} else {
		raddr = &net.UDPAddr{IP: ipb, Port: 40000 + int(r.ID%1000)}
		laddr = net.UDPAddrFromAddrPort(r.Local)
	}

	r.ReqID = agd.NewRequestID()
	r.Start = time.Now()

	ctx := context.Background()
	ctx = dnsserver.ContextWithServerInfo(ctx, &dnsserver.ServerInfo{Name: string(srv.Name), Addr: r.Local.String(), Proto: srv.Protocol})
	ctx = dnsserver.ContextWithRequestInfo(ctx, &dnsserver.RequestInfo{StartTime: r.Start, TLSServerName: r.SNI})
	ctx = agd.WithRequestID(ctx, r.ReqID)
	if r.Canceled {
		var cancel context.CancelFunc
		ctx, cancel = context.WithCancel(ctx)
		cancel()
	}

	tr := &vfsTrace{}

	return &vfsPrepared{r: r, ctx: ctx, req: req, tr: tr, rw: &vfsRW{s: s, tr: tr, local: laddr, raddr: raddr}}
}

// run hands p to the handler of its server and returns the events it caused.
// It may be called from several goroutines at once.
func (s *vfsStack) run(p *vfsPrepared) (tr *vfsTrace) {
	s.mu.Lock()
	s.live[p.r.ReqID] = &vfsLive{tr: p.tr, sc: p.r.Script}
	s.mu.Unlock()

	err := s.handlers[p.r.Server].ServeDNS(p.ctx, p.rw, p.req)

	s.mu.Lock()
	delete(s.live, p.r.ReqID)
	p.tr.Err = err
	s.mu.Unlock()

	return p.tr
}

// serve sends r through the handler of its server and returns the events it
// caused.
func (s *vfsStack) serve(t *rapid.T, r *vfsRequest) (tr *vfsTrace) {
	return s.run(s.prepare(t, r))
}

// serveConcurrently serves all of rs at the same time (start barrier) and
// returns their traces in the same order.
func (s *vfsStack) serveConcurrently(t *rapid.T, rs []*vfsRequest) (trs []*vfsTrace) {
	ps := make([]*vfsPrepared, len(rs))
	for i, r := range rs {
		ps[i] = s.prepare(t, r)
	}

	trs = make([]*vfsTrace, len(rs))
	panics := make([]any, len(rs))
	start := make(chan struct{})
	wg := sync.WaitGroup{}
	for i := range ps {
		wg.Add(1)
		go func(i int) {
			defer wg.Done()
			defer func() { panics[i] = recover() }()
			<-start
			trs[i] = s.run(ps[i])
		}(i)
	}

	close(start)
	wg.Wait()
	for i, p := range panics {
		if p != nil {
			t.Fatalf("panic while serving %s concurrently: %v", rs[i], p)
		}
	}

	return trs
}

// Orphans is the number of events that carried no request ID or the ID of a
// request that was not in flight.
func (s *vfsStack) Orphans() (n int, desc string) {
	s.mu.Lock()
	defer s.mu.Unlock()

	return s.orphan.Downstream() + len(s.orphan.Writes), s.orphan.String()
}
