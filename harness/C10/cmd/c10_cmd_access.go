//go:build verif

package cmd

// C10, configuration plumbing: a generated `access:` section is parsed and
// validated by the package's own code and turned into the global access
// manager by builder.initAccess (access.NewGlobal over the two lists).  The
// lists hold plain domains, `||domain^` rules and rules with a `$dnstype`
// modifier over names that share prefixes and suffixes, and IPv4 / IPv6
// addresses and CIDRs with unaligned lengths, written unmasked.  Every name
// probe (the rule's name, a subdomain, a name that only shares a suffix
// without a label boundary, a parent, an unrelated name; several question
// types) and every address probe (first, last and inner addresses of each
// subnet and the nearest addresses outside it) is judged by a reference
// evaluated over the values in the YAML text.

import (
	"context"
	"fmt"
	"net/netip"
	"os"
	"path/filepath"
	"sort"
	"strings"
	"testing"

	"github.com/AdguardTeam/AdGuardDNS/internal/agdtest"
	"github.com/AdguardTeam/golibs/logutil/slogutil"
	"github.com/miekg/dns"
	"pgregory.net/rapid"
	"verif.local/harness/vstat"
)

// Rule kinds.
const (
	vc10cmdPlain = iota
	vc10cmdDomain
)

// vc10cmdRule is one entry of blocked_question_domains.
type vc10cmdRule struct {
	Kind    int
	Target  string
	Type    uint16 // 0 = any
	NegType bool
	Upper   bool
}

func (r vc10cmdRule) text() string {
	tgt := r.Target
	if r.Upper {
		tgt = strings.ToUpper(tgt)
	}

	if r.Kind == vc10cmdPlain {
		// "test.org"
		return tgt
	}

	// "||example.org^$dnstype=AAAA"
	s := "||" + tgt + "^"
	if r.Type != 0 {
		neg := ""
		if r.NegType {
			neg = "~"
		}

		s += "$dnstype=" + neg + dns.TypeToString[r.Type]
	}

	return s
}

// matches is the reference: 1 = the rule blocks the question, 0 = it does not,
// -1 = the documentation does not decide (a plain domain and a name that
// merely contains it).
func (r vc10cmdRule) matches(host string, qt uint16) int {
	if r.Kind == vc10cmdPlain {
		switch {
		case host == r.Target:
			return 1
		case strings.Contains(host, r.Target):
			return -1
		default:
			return 0
		}
	}

	if host != r.Target && !strings.HasSuffix(host, "."+r.Target) {
		return 0
	}

	switch {
	case r.Type == 0:
		return 1
	case r.NegType == (qt != r.Type):
		return 1
	default:
		return 0
	}
}

var vc10cmdNames = []string{
	"a.test", "x.a.test", "y.x.a.test", "b.test", "x.b.test", "ab.test", "a.b.test",
	"c.example", "x.c.example", "xa.test", "a.test.example", "blocked.example.org", "example.org",
}

var vc10cmdTypes = []uint16{dns.TypeA, dns.TypeAAAA, dns.TypeHTTPS, dns.TypeTXT}

// vc10cmdNet is one entry of blocked_client_subnets as written.
type vc10cmdNet struct {
	Addr netip.Addr
	Bits int // -1: written as a bare address
	text string
}

func (n vc10cmdNet) bits() int {
	if n.Bits < 0 {
		return n.Addr.BitLen()
	}

	return n.Bits
}

// vc10cmdSame reports whether a and b agree in their first bits bits.
func vc10cmdSame(a, b netip.Addr, bits int) bool {
	if a.BitLen() != b.BitLen() {
		return false
	}

	as, bs := a.AsSlice(), b.AsSlice()
	for i := range as {
		switch {
		case bits >= 8*(i+1):
			if as[i] != bs[i] {
				return false
			}
		case bits <= 8*i:
		default:
			m := ^byte(0xff >> (bits - 8*i))
			if as[i]&m != bs[i]&m {
				return false
			}
		}
	}

	return true
}

func vc10cmdFlip(ip netip.Addr, pos int) netip.Addr {
	b := ip.AsSlice()
	if pos >= 0 && pos < 8*len(b) {
		b[pos/8] ^= 0x80 >> (pos % 8)
	}

	out, _ := netip.AddrFromSlice(b)

	return out
}

// vc10cmdFill sets all bits of ip from position from on to v.
func vc10cmdFill(ip netip.Addr, from int, v bool) netip.Addr {
	b := ip.AsSlice()
	for pos := from; pos < 8*len(b); pos++ {
		if v {
			b[pos/8] |= 0x80 >> (pos % 8)
		} else {
			b[pos/8] &^= 0x80 >> (pos % 8)
		}
	}

	out, _ := netip.AddrFromSlice(b)

	return out
}

func TestVerifC10CmdAccess(t *testing.T) {
	st := vstat.New("C10", "cmd.access-config",
		"rapid: an `access:` YAML section with 0-4 blocked_question_domains (plain domains, ||domain^ rules, rules with $dnstype=T / $dnstype=~T, some upper-cased, over names sharing prefixes and suffixes) and 0-4 blocked_client_subnets (IPv4 and IPv6, bare addresses and CIDRs with lengths 7..32 / 29..128 not aligned to octets, written unmasked) -> parseConfig, validate, builder.initAccess; every probe (name x question type; first / last / inner address of each subnet and the nearest outside neighbours, other family) judged by a reference over the YAML values; non-trivial = a probe that a rule or subnet blocks, or a near miss that none blocks; distinct by lists and probe",
		"name-blocked-by-plain-domain", "name-blocked-by-domain-rule", "subdomain-blocked-by-domain-rule", "name-blocked-by-dnstype-rule", "dnstype-rule-other-type-not-blocked",
		"negated-dnstype-rule", "suffix-sharing-name-not-blocked", "v4-address-in-unaligned-subnet", "v6-address-in-unaligned-subnet", "address-just-outside-subnet",
		"bare-address-entry", "unmasked-cidr-entry", "empty-lists", "last-entry-of-list-decides")
	st.Finish(t)

	dir := t.TempDir()
	logger := slogutil.NewDiscardLogger()
	errColl := agdtest.NewErrorCollector()
	errColl.OnCollect = func(context.Context, error) {}
	caseNo := 0
	ctx := context.Background()

	rapid.Check(t, func(rt *rapid.T) {
		caseNo++

		// Rules over distinct targets.
		var rules []vc10cmdRule
		targets := rapid.Permutation(vc10cmdNames).Draw(rt, "targets")
		for i, n := 0, rapid.IntRange(0, 4).Draw(rt, "rules"); i < n; i++ {
			r := vc10cmdRule{
				Kind:   rapid.SampledFrom([]int{vc10cmdPlain, vc10cmdDomain, vc10cmdDomain, vc10cmdDomain}).Draw(rt, "kind"),
				Target: targets[i],
				Upper:  rapid.IntRange(0, 4).Draw(rt, "upper") == 0,
			}
			if r.Kind == vc10cmdDomain && rapid.Bool().Draw(rt, "typed") {
				r.Type = rapid.SampledFrom(vc10cmdTypes).Draw(rt, "type")
				r.NegType = rapid.IntRange(0, 3).Draw(rt, "neg") == 0
			}

			rules = append(rules, r)
		}

		// Subnets.
		var nets []vc10cmdNet
		for i, n := 0, rapid.IntRange(0, 4).Draw(rt, "subnets"); i < n; i++ {
			var nw vc10cmdNet
			if rapid.Bool().Draw(rt, "v6") {
				var b [16]byte
				copy(b[:], []byte{0x20, 0x01, 0x0d, 0xb8})
				for j := 4; j < 16; j++ {
					b[j] = rapid.Byte().Draw(rt, "octet")
				}

				nw.Addr = netip.AddrFrom16(b)
				nw.Bits = rapid.SampledFrom([]int{-1, 29, 47, 61, 64, 127, 128, 33, 121}).Draw(rt, "bits6")
			} else {
				nw.Addr = netip.AddrFrom4([4]byte{
					rapid.SampledFrom([]byte{198, 203, 192, 10}).Draw(rt, "o0"), rapid.Byte().Draw(rt, "o1"), rapid.Byte().Draw(rt, "o2"), rapid.Byte().Draw(rt, "o3"),
				})
				nw.Bits = rapid.SampledFrom([]int{-1, 7, 13, 21, 24, 27, 30, 31, 32, 9}).Draw(rt, "bits4")
			}

			if nw.Bits < 0 {
				nw.text = nw.Addr.String()
			} else {
				// As written by a person: not masked.
				nw.text = fmt.Sprintf("%s/%d", nw.Addr, nw.Bits)
			}

			nets = append(nets, nw)
		}

		var y strings.Builder
		y.WriteString("access:\n    blocked_question_domains:")
		if len(rules) == 0 {
			y.WriteString(" []\n")
		} else {
			y.WriteString("\n")
			for _, r := range rules {
				fmt.Fprintf(&y, "      - '%s'\n", r.text())
			}
		}

		y.WriteString("    blocked_client_subnets:")
		if len(nets) == 0 {
			y.WriteString(" []\n")
		} else {
			y.WriteString("\n")
			for _, n := range nets {
				fmt.Fprintf(&y, "      - '%s'\n", n.text)
			}
		}

		text := y.String()
		path := filepath.Join(dir, fmt.Sprintf("c%d.yaml", caseNo))
		if err := os.WriteFile(path, []byte(text), 0o600); err != nil {
			rt.Fatalf("harness: %v", err)
		}
		defer func() { _ = os.Remove(path) }()

		conf, err := parseConfig(path)
		if err != nil || conf.Access == nil {
			rt.Fatalf("the generated access section was not parsed: %v\n%s", err, text)
		}

		if err = conf.Access.validate(); err != nil {
			rt.Fatalf("a valid access section was rejected: %v\n%s", err, text)
		}

		b := &builder{baseLogger: logger, logger: logger, conf: conf, errColl: errColl}
		if err = b.initAccess(ctx); err != nil || b.access == nil {
			rt.Fatalf("builder.initAccess failed on a valid access section: %v\n%s", err, text)
		}

		classes := map[string]bool{}
		if len(rules) == 0 && len(nets) == 0 {
			classes["empty-lists"] = true
		}

		ntKeys := []string{}

		// Name probes.
		hosts := map[string]bool{"unrelated.invalid": true, "org": true}
		for _, r := range rules {
			hosts[r.Target] = true
			hosts["sub."+r.Target] = true
			hosts["x"+r.Target] = true
			if _, parent, ok := strings.Cut(r.Target, "."); ok {
				hosts[parent] = true
			}
		}

		for _, n := range vc10cmdNames {
			if rapid.IntRange(0, 3).Draw(rt, "extraHost") == 0 {
				hosts[n] = true
			}
		}

		hostList := make([]string, 0, len(hosts))
		for h := range hosts {
			hostList = append(hostList, h)
		}

		sort.Strings(hostList)
		for _, h := range hostList {
			for _, qt := range vc10cmdTypes {
				want, undecided := false, false
				decider := -1
				for i, r := range rules {
					switch r.matches(h, qt) {
					case 1:
						if !want {
							decider = i
						}

						want = true
					case -1:
						undecided = true
					}
				}

				if undecided && !want {
					continue
				}

				got := b.access.IsBlockedHost(h, qt)
				if got != want {
					rt.Fatalf("global access built from the configuration says blocked=%t for %s %s; the configured rules say %t\n%s", got, dns.TypeToString[qt], h, want, text)
				}

				if want {
					r := rules[decider]
					nMatch := 0
					for _, o := range rules {
						if o.matches(h, qt) == 1 {
							nMatch++
						}
					}

					if nMatch == 1 && decider == len(rules)-1 && len(rules) > 1 {
						classes["last-entry-of-list-decides"] = true
					}

					switch {
					case r.Kind == vc10cmdPlain:
						classes["name-blocked-by-plain-domain"] = true
					case r.Type != 0 && r.NegType:
						classes["negated-dnstype-rule"] = true
					case r.Type != 0:
						classes["name-blocked-by-dnstype-rule"] = true
					case h != r.Target:
						classes["subdomain-blocked-by-domain-rule"] = true
					default:
						classes["name-blocked-by-domain-rule"] = true
					}

					ntKeys = append(ntKeys, fmt.Sprintf("%s/%d", h, qt))
				} else {
					for _, r := range rules {
						if r.Kind == vc10cmdDomain && h == "x"+r.Target {
							classes["suffix-sharing-name-not-blocked"] = true
							ntKeys = append(ntKeys, fmt.Sprintf("!%s/%d", h, qt))
						}

						if r.Kind == vc10cmdDomain && r.Type != 0 && !r.NegType && h == r.Target && qt != r.Type {
							classes["dnstype-rule-other-type-not-blocked"] = true
							ntKeys = append(ntKeys, fmt.Sprintf("!%s/%d", h, qt))
						}
					}
				}
			}
		}

		// Address probes.
		probes := []netip.Addr{netip.MustParseAddr("192.0.2.1"), netip.MustParseAddr("2001:db8::1"), netip.MustParseAddr("0.0.0.0"), netip.MustParseAddr("::")}
		for _, n := range nets {
			bits := n.bits()
			probes = append(probes,
				n.Addr,
				vc10cmdFill(n.Addr, bits, false),
				vc10cmdFill(n.Addr, bits, true),
				vc10cmdFlip(n.Addr, bits-1),
				vc10cmdFill(vc10cmdFlip(n.Addr, bits-1), bits, true),
				vc10cmdFlip(n.Addr, bits),
				vc10cmdFlip(n.Addr, n.Addr.BitLen()-1),
				vc10cmdFlip(n.Addr, 0),
			)
			if n.Bits < 0 {
				classes["bare-address-entry"] = true
			} else if vc10cmdFill(n.Addr, bits, false) != n.Addr {
				classes["unmasked-cidr-entry"] = true
			}
		}

		for _, ip := range probes {
			want := false
			decider, nMatch := -1, 0
			for i, n := range nets {
				if vc10cmdSame(ip, n.Addr, n.bits()) {
					if !want {
						decider = i
					}

					want = true
					nMatch++
				}
			}

			got := b.access.IsBlockedIP(ip)
			if got != want {
				rt.Fatalf("global access built from the configuration says blocked=%t for client %s; the configured subnets say %t\n%s", got, ip, want, text)
			}

			if want {
				n := nets[decider]
				if nMatch == 1 && decider == len(nets)-1 && len(nets) > 1 {
					classes["last-entry-of-list-decides"] = true
				}

				if n.Bits >= 0 && n.Bits%8 != 0 {
					if ip.Is4() {
						classes["v4-address-in-unaligned-subnet"] = true
					} else {
						classes["v6-address-in-unaligned-subnet"] = true
					}
				}

				ntKeys = append(ntKeys, ip.String())
			} else {
				for _, n := range nets {
					if n.bits() > 0 && vc10cmdSame(ip, n.Addr, n.bits()-1) {
						classes["address-just-outside-subnet"] = true
						ntKeys = append(ntKeys, "!"+ip.String())
					}
				}
			}
		}

		var cl []string
		for c := range classes {
			cl = append(cl, c)
		}

		sort.Strings(cl)
		nt := ""
		if len(ntKeys) > 0 {
			nt = text + "|" + strings.Join(ntKeys, ",")
		}

		st.Case(nt, cl...)
		if len(ntKeys) > 3 && st.WantSample() {
			st.Sample(map[string]any{"yaml": strings.Split(text, "\n"), "deciding_probes": ntKeys, "classes": cl})
		}
	})
}
