//go:build verif

package geoip_test

// C10 / C05, the country scan of the GeoIP database: generated small MaxMind
// DB files (own minimal writer) are loaded with the real geoip.File, and for
// every country the subnet that SubnetByLocation chooses must lie in a network
// whose OWN record names that country (or be the zero prefix); Data(ip) of an
// address in a network without a country key has no country.

import (
	"context"
	"encoding/binary"
	"fmt"
	"net/netip"
	"os"
	"path/filepath"
	"sort"
	"strings"
	"testing"

	"github.com/AdguardTeam/AdGuardDNS/internal/agdcache"
	"github.com/AdguardTeam/AdGuardDNS/internal/geoip"
	"github.com/AdguardTeam/golibs/container"
	"github.com/AdguardTeam/golibs/logutil/slogutil"
	"github.com/AdguardTeam/golibs/netutil"
	"pgregory.net/rapid"
	"verif.local/harness/vstat"
)

// ---------------------------------------------------------------------------
// A minimal MaxMind DB writer (format: maxmind.github.io/MaxMind-DB): values
// are strings, unsigned integers, maps and arrays; the search tree has 32-bit
// records.

type vc10Pair struct {
	K string
	V any
}

// vc10Map is an ordered map value.
type vc10Map []vc10Pair

func vc10Ctrl(typ, size int) (b []byte) {
	if size >= 29 {
		panic(fmt.Sprintf("vc10 mmdb writer: size %d not supported", size))
	}

	if typ <= 7 {
		return []byte{byte(typ<<5 | size)}
	}

	// Extended type: type 0 in the control byte, the type minus 7 follows.
	return []byte{byte(size), byte(typ - 7)}
}

func vc10Enc(v any) (b []byte) {
	switch v := v.(type) {
	case string:
		return append(vc10Ctrl(2, len(v)), v...)
	case uint16:
		return append(vc10Ctrl(5, 2), byte(v>>8), byte(v))
	case uint32:
		return binary.BigEndian.AppendUint32(vc10Ctrl(6, 4), v)
	case uint64:
		return binary.BigEndian.AppendUint64(vc10Ctrl(9, 8), v)
	case vc10Map:
		b = vc10Ctrl(7, len(v))
		for _, p := range v {
			b = append(b, vc10Enc(p.K)...)
			b = append(b, vc10Enc(p.V)...)
		}

		return b
	case []any:
		b = vc10Ctrl(11, len(v))
		for _, e := range v {
			b = append(b, vc10Enc(e)...)
		}

		return b
	default:
		panic(fmt.Sprintf("vc10 mmdb writer: unsupported value %T", v))
	}
}

type vc10Trie struct {
	kid  [2]*vc10Trie
	leaf bool
	off  uint32 // offset of the record in the data section (leaves)
	num  uint32 // node number (inner nodes)
}

// vc10Net is one network of a generated database.  Kind tells what its record
// contains.
type vc10Net struct {
	Pfx  netip.Prefix
	Kind int
	Ctry string // for vc10KindCountry
}

const (
	vc10KindCountry   = iota // country + continent
	vc10KindNoCountry        // continent and registered_country only: no "country" key
	vc10KindEmpty            // an empty map
)

func (n vc10Net) String() string {
	switch n.Kind {
	case vc10KindCountry:
		return fmt.Sprintf("%s=%s", n.Pfx, n.Ctry)
	case vc10KindNoCountry:
		return fmt.Sprintf("%s=<no country key>", n.Pfx)
	default:
		return fmt.Sprintf("%s=<empty record>", n.Pfx)
	}
}

func (n vc10Net) record() vc10Map {
	switch n.Kind {
	case vc10KindCountry:
		return vc10Map{
			{"continent", vc10Map{{"code", "EU"}}},
			{"country", vc10Map{{"iso_code", n.Ctry}, {"geoname_id", uint32(42)}}},
		}
	case vc10KindNoCountry:
		return vc10Map{
			{"continent", vc10Map{{"code", "AS"}}},
			{"registered_country", vc10Map{{"iso_code", "FR"}}},
		}
	default:
		return vc10Map{}
	}
}

// vc10BuildMMDB serialises an IPv6 database (IPv4 networks live under ::/96)
// with the given disjoint networks.
func vc10BuildMMDB(nets []vc10Net, epoch uint64) (db []byte) {
	root := &vc10Trie{}
	var data []byte
	for _, n := range nets {
		a, bits := n.Pfx.Addr(), n.Pfx.Bits()
		var raw [16]byte
		if a.Is4() {
			a4 := a.As4()
			copy(raw[12:], a4[:])
			bits += 96
		} else {
			raw = a.As16()
		}

		cur := root
		for i := 0; i < bits; i++ {
			bit := raw[i/8] >> (7 - uint(i%8)) & 1
			if cur.leaf {
				panic("vc10 mmdb writer: overlapping networks")
			}

			if cur.kid[bit] == nil {
				cur.kid[bit] = &vc10Trie{}
			}

			cur = cur.kid[bit]
		}

		if cur.kid[0] != nil || cur.kid[1] != nil {
			panic("vc10 mmdb writer: overlapping networks")
		}

		cur.leaf, cur.off = true, uint32(len(data))
		data = append(data, vc10Enc(n.record())...)
	}

	// Number the inner nodes depth first; the root must be node 0.
	var inner []*vc10Trie
	var walk func(t *vc10Trie)
	walk = func(t *vc10Trie) {
		t.num = uint32(len(inner))
		inner = append(inner, t)
		for _, k := range t.kid {
			if k != nil && !k.leaf {
				walk(k)
			}
		}
	}
	walk(root)

	count := uint32(len(inner))
	for _, t := range inner {
		for _, k := range t.kid {
			rec := count // "no data"
			switch {
			case k == nil:
			case k.leaf:
				rec = count + 16 + k.off
			default:
				rec = k.num
			}

			db = binary.BigEndian.AppendUint32(db, rec)
		}
	}

	db = append(db, make([]byte, 16)...)
	db = append(db, data...)
	db = append(db, "\xab\xcd\xefMaxMind.com"...)
	db = append(db, vc10Enc(vc10Map{
		{"binary_format_major_version", uint16(2)},
		{"binary_format_minor_version", uint16(0)},
		{"build_epoch", epoch},
		{"database_type", "GeoIP2-Country"},
		{"description", vc10Map{{"en", "verif generated"}}},
		{"ip_version", uint16(6)},
		{"languages", []any{"en"}},
		{"node_count", count},
		{"record_size", uint16(32)},
	})...)

	return db
}

// ---------------------------------------------------------------------------

var vc10Countries = []string{"US", "DE", "JP"}

func TestVerifC10CountryScan(tt *testing.T) {
	st := vstat.New("C10", "geoip.country-scan",
		"rapid: generated MaxMind country databases (own writer): 3-14 disjoint networks in address order, IPv4 lengths /16../28 and IPv6 /48../64 around the desired /24 and /56, records drawn from {country US/DE/JP, no country key, empty record}; loaded with the real geoip.File (no top ASNs, so the plain country subnets decide); oracle: for every country and family SubnetByLocation returns the zero prefix or a subnet inside a network whose own record names that country, non-zero if the country has a network at least as broad as desired; Data(ip) has the country of the address's own network or none; non-trivial = a network without a country directly follows, in address order, a network with a country; distinct by the table",
		"country-less-network-after-a-network-with-a-country", "country-less-after-country-closer-to-desired-length",
		"empty-record-after-country", "country-with-only-broad-networks", "country-with-only-narrow-networks", "ipv4-and-ipv6")
	st.Finish(tt)

	dir := tt.TempDir()
	if shm, err := os.MkdirTemp("/dev/shm", "c10-verif-"); err == nil {
		dir = shm
		tt.Cleanup(func() { _ = os.RemoveAll(shm) })
	}

	path := filepath.Join(dir, "country.mmdb")
	epoch := uint64(1700000000)

	rapid.Check(tt, func(t *rapid.T) {
		// Disjoint networks by construction: the k-th one lies in its own slot
		// 10.k.0.0/16 or 2001:db8:k::/48; address order = slot order, IPv4
		// (under ::/96) before IPv6.
		var nets []vc10Net
		n4 := rapid.IntRange(0, 7).Draw(t, "n4")
		n6 := rapid.IntRange(0, 7).Draw(t, "n6")
		if n4+n6 < 3 {
			n4 = 3
		}

		drawKind := func(label string, prev *vc10Net) (kind int, ctry string) {
			kinds := []int{vc10KindCountry, vc10KindCountry, vc10KindNoCountry, vc10KindEmpty}
			if prev != nil && prev.Kind == vc10KindCountry {
				// Often a country-less network right after one with a country.
				kinds = append(kinds, vc10KindNoCountry, vc10KindNoCountry, vc10KindEmpty)
			}

			kind = rapid.SampledFrom(kinds).Draw(t, label+"Kind")
			if kind == vc10KindCountry {
				ctry = rapid.SampledFrom(vc10Countries).Draw(t, label+"Ctry")
			}

			return kind, ctry
		}

		for k := 0; k < n4; k++ {
			l := fmt.Sprintf("v4n%d", k)
			bits := rapid.SampledFrom([]int{16, 20, 23, 24, 24, 25, 28}).Draw(t, l+"Bits")
			sub := rapid.IntRange(0, 255).Draw(t, l+"Third")
			pfx := netip.PrefixFrom(netip.AddrFrom4([4]byte{10, byte(k + 1), byte(sub), 0}), bits).Masked()
			var prev *vc10Net
			if len(nets) > 0 {
				prev = &nets[len(nets)-1]
			}

			kind, ctry := drawKind(l, prev)
			nets = append(nets, vc10Net{Pfx: pfx, Kind: kind, Ctry: ctry})
		}

		for k := 0; k < n6; k++ {
			l := fmt.Sprintf("v6n%d", k)
			bits := rapid.SampledFrom([]int{48, 52, 55, 56, 56, 57, 64}).Draw(t, l+"Bits")
			sub := rapid.IntRange(0, 255).Draw(t, l+"Fourth")
			pfx := netip.PrefixFrom(netip.AddrFrom16([16]byte{0x20, 1, 0xd, 0xb8, 0, byte(k + 1), byte(sub), 0}), bits).Masked()
			var prev *vc10Net
			if k > 0 {
				// The network before the first IPv6 one in the traversal is an
				// IPv4 one of the other family map; only same-family neighbours
				// are compared by the scan's per-family maps, but the decoded
				// record is shared across families.
				prev = &nets[len(nets)-1]
			} else if len(nets) > 0 {
				prev = &nets[len(nets)-1]
			}

			kind, ctry := drawKind(l, prev)
			nets = append(nets, vc10Net{Pfx: pfx, Kind: kind, Ctry: ctry})
		}

		epoch++
		tmp := path + ".tmp"
		if err := os.WriteFile(tmp, vc10BuildMMDB(nets, epoch), 0o600); err != nil {
			t.Fatalf("harness: %v", err)
		}

		if err := os.Rename(tmp, path); err != nil {
			t.Fatalf("harness: %v", err)
		}

		g := geoip.NewFile(&geoip.FileConfig{
			Logger:         slogutil.NewDiscardLogger(),
			CacheManager:   agdcache.EmptyManager{},
			ASNPath:        path,
			CountryPath:    path,
			HostCacheCount: 0,
			IPCacheCount:   100,
			AllTopASNs:     container.NewMapSet[geoip.ASN](),
			CountryTopASNs: map[geoip.Country]geoip.ASN{},
		})

		var table []string
		for _, n := range nets {
			table = append(table, n.String())
		}

		desc := strings.Join(table, ", ")
		if err := g.Refresh(context.Background()); err != nil {
			t.Fatalf("the generated database is not accepted: %v\ntable: %s", err, desc)
		}

		netOf := func(a netip.Addr) *vc10Net {
			for i := range nets {
				if nets[i].Pfx.Contains(a) {
					return &nets[i]
				}
			}

			return nil
		}

		classes := map[string]bool{}
		for i := 1; i < len(nets); i++ {
			if nets[i].Kind != vc10KindCountry && nets[i-1].Kind == vc10KindCountry {
				classes["country-less-network-after-a-network-with-a-country"] = true
				if nets[i].Kind == vc10KindEmpty {
					classes["empty-record-after-country"] = true
				}

				desired := 24
				if nets[i].Pfx.Addr().Is6() {
					desired = 56
				}

				d := func(b int) int {
					if b < desired {
						return desired - b
					}

					return b - desired
				}
				if nets[i].Pfx.Addr().Is4() == nets[i-1].Pfx.Addr().Is4() && d(nets[i].Pfx.Bits()) <= d(nets[i-1].Pfx.Bits()) {
					classes["country-less-after-country-closer-to-desired-length"] = true
				}
			}
		}

		if n4 > 0 && n6 > 0 {
			classes["ipv4-and-ipv6"] = true
		}

		// Every country, both families.
		for _, c := range append(append([]string{}, vc10Countries...), "BT") {
			for _, fam := range []netutil.AddrFamily{netutil.AddrFamilyIPv4, netutil.AddrFamilyIPv6} {
				desired := 24
				if fam == netutil.AddrFamilyIPv6 {
					desired = 56
				}

				var own []vc10Net
				broadEnough := false
				for _, n := range nets {
					if n.Kind == vc10KindCountry && n.Ctry == c && n.Pfx.Addr().Is4() == (fam == netutil.AddrFamilyIPv4) {
						own = append(own, n)
						broadEnough = broadEnough || n.Pfx.Bits() <= desired
					}
				}

				got, err := g.SubnetByLocation(&geoip.Location{Country: geoip.Country(c)}, fam)
				if err != nil {
					t.Fatalf("SubnetByLocation(%s, %v): %v\ntable: %s", c, fam, err, desc)
				}

				if got == netutil.ZeroPrefix(fam) {
					if broadEnough {
						t.Fatalf("country %s (%v) has a network at least as broad as /%d but no subnet was chosen\ntable: %s", c, fam, desired, desc)
					}

					if len(own) > 0 {
						classes["country-with-only-narrow-networks"] = true
					}

					continue
				}

				home := netOf(got.Addr())
				if home == nil || home.Kind != vc10KindCountry || home.Ctry != c {
					t.Fatalf("the subnet chosen for country %s (%v) is %s, which lies in %v: not a network whose record names %s\ntable: %s", c, fam, got, home, c, desc)
				}

				if got.Bits() != desired && got.Bits() != home.Pfx.Bits() {
					t.Fatalf("the subnet chosen for country %s (%v) is %s: neither /%d nor the network %s itself\ntable: %s", c, fam, got, desired, home.Pfx, desc)
				}

				if home.Pfx.Bits() < desired {
					classes["country-with-only-broad-networks"] = true
				}
			}
		}

		// Data() of one address per network, and of an address in none.
		for _, n := range nets {
			a := n.Pfx.Addr().Next()
			if !n.Pfx.Contains(a) {
				a = n.Pfx.Addr()
			}

			l, err := g.Data("", a)
			if err != nil {
				t.Fatalf("Data(%s): %v\ntable: %s", a, err, desc)
			}

			want := ""
			if n.Kind == vc10KindCountry {
				want = n.Ctry
			}

			got := ""
			if l != nil {
				got = string(l.Country)
			}

			if got != want {
				t.Fatalf("Data(%s) reports country %q, the record of its network %v says %q\ntable: %s", a, got, n, want, desc)
			}
		}

		if l, err := g.Data("", netip.MustParseAddr("10.200.0.1")); err != nil || (l != nil && l.Country != "") {
			t.Fatalf("Data of an address in no network: %+v, %v\ntable: %s", l, err, desc)
		}

		var cl []string
		for c := range classes {
			cl = append(cl, c)
		}

		sort.Strings(cl)
		nt := ""
		if classes["country-less-network-after-a-network-with-a-country"] {
			nt = desc
		}

		st.Case(nt, cl...)
		if st.WantSample() {
			st.Sample(map[string]any{"table": table})
		}
	})
}
