//go:build verif

package profiledb_test

// C10 across a restart: generated profile access settings (any mix of
// allowed/blocked subnets, ASNs and blocked-name rules, including names-only,
// subnets-only and empty) go through what a restart does -- a profile database
// with a file cache fed by a scripted storage, then a second instance started
// from the .pb file with a storage that returns nothing new -- and the access
// decision of the RELOADED profile must equal the reference predicate of the
// statement for generated (client address, ASN, question) triples.

import (
	"context"
	"fmt"
	"net/netip"
	"os"
	"path/filepath"
	"strings"
	"testing"
	"time"

	"github.com/AdguardTeam/AdGuardDNS/internal/access"
	"github.com/AdguardTeam/AdGuardDNS/internal/agd"
	"github.com/AdguardTeam/AdGuardDNS/internal/agdtest"
	"github.com/AdguardTeam/AdGuardDNS/internal/geoip"
	"github.com/AdguardTeam/AdGuardDNS/internal/profiledb"
	"github.com/AdguardTeam/AdGuardDNS/internal/profiledb/internal/profiledbtest"
	"github.com/AdguardTeam/golibs/logutil/slogutil"
	"github.com/miekg/dns"
	"pgregory.net/rapid"
	"verif.local/harness/vstat"
)

var (
	vc10rNets = []netip.Prefix{
		netip.MustParsePrefix("192.0.2.0/25"), netip.MustParsePrefix("192.0.2.0/26"), netip.MustParsePrefix("192.0.2.64/26"),
		netip.MustParsePrefix("192.0.2.1/32"), netip.MustParsePrefix("192.0.2.128/25"), netip.MustParsePrefix("2001:db8:1::/48"),
		netip.MustParsePrefix("2001:db8:1::/64"), netip.MustParsePrefix("2001:db8:1::1/128"),
	}
	vc10rClients = []netip.Addr{
		netip.MustParseAddr("192.0.2.1"), netip.MustParseAddr("192.0.2.2"), netip.MustParseAddr("192.0.2.65"), netip.MustParseAddr("192.0.2.129"),
		netip.MustParseAddr("198.51.100.1"), netip.MustParseAddr("2001:db8:1::1"), netip.MustParseAddr("2001:db8:1:1::1"), netip.MustParseAddr("2001:db8:2::1"),
	}
	vc10rASNs  = []geoip.ASN{1, 2, 3, 64512}
	vc10rNames = []string{"a.test", "x.a.test", "b.test", "ab.test", "c.example"}
	vc10rTypes = []uint16{dns.TypeA, dns.TypeAAAA, dns.TypeHTTPS, dns.TypeTXT}
)

// vc10rRule is a blocked-name rule of the restricted grammar: a plain domain
// (exact host), ||d^ (d and its subdomains), optionally with $dnstype, or an
// @@||d^ exception.
type vc10rRule struct {
	Kind   int // 0 host, 1 domain, 2 exception
	Target string
	Type   uint16
}

func (r vc10rRule) Text() string {
	if r.Kind == 0 {
		return r.Target
	}

	s := "||" + r.Target + "^"
	if r.Kind == 2 {
		s = "@@" + s
	}

	if r.Type != 0 {
		s += "$dnstype=" + dns.TypeToString[r.Type]
	}

	return s
}

func (r vc10rRule) Matches(host string, qt uint16) bool {
	if r.Kind == 0 {
		return host == r.Target
	}

	return (host == r.Target || strings.HasSuffix(host, "."+r.Target)) && (r.Type == 0 || r.Type == qt)
}

func TestVerifC10AccessAfterRestart(tt *testing.T) {
	st := vstat.New("C10", "profiledb.access-after-restart",
		"rapid: profile access settings (0-2 allowed / 0-2 blocked subnets, 0-2 allowed / 0-2 blocked ASNs, 0-3 blocked-name rules incl. $dnstype and exceptions; names-only, subnets-only, ASNs-only, empty and mixed shapes) stored by a real profile database with a .pb file cache and reloaded by a second instance whose storage returns nothing new; 6-12 generated (client address, ASN or none, question) triples per case judged on the reloaded profile (and on the first instance) against the reference predicate of the statement; non-trivial = a triple the settings reject, judged after the restart; distinct by (settings, triple)",
		"names-only-after-restart", "subnets-only-after-restart", "asns-only-after-restart", "empty-after-restart", "mixed-after-restart",
		"rejected-by-name-after-restart", "rejected-by-subnet-after-restart", "rejected-by-asn-after-restart", "allowed-overrides-after-restart", "passes-after-restart")
	st.Finish(tt)

	dir := tt.TempDir()
	if shm, err := os.MkdirTemp("/dev/shm", "c10-verif-"); err == nil {
		dir = shm
		tt.Cleanup(func() { _ = os.RemoveAll(shm) })
	}

	newDB := func(t *rapid.T, path string, resp *profiledb.StorageProfilesResponse) *profiledb.Default {
		ps := &agdtest.ProfileStorage{
			OnCreateAutoDevice: func(context.Context, *profiledb.StorageCreateAutoDeviceRequest) (*profiledb.StorageCreateAutoDeviceResponse, error) {
				panic("not implemented")
			},
			OnProfiles: func(context.Context, *profiledb.StorageProfilesRequest) (*profiledb.StorageProfilesResponse, error) {
				return resp, nil
			},
		}

		db, err := profiledb.New(&profiledb.Config{
			Logger:               slogutil.NewDiscardLogger(),
			Storage:              ps,
			ErrColl:              agdtest.NewErrorCollector(),
			Metrics:              profiledb.EmptyMetrics{},
			CacheFilePath:        path,
			FullSyncIvl:          time.Hour,
			FullSyncRetryIvl:     time.Hour,
			ResponseSizeEstimate: profiledbtest.RespSzEst,
		})
		if err != nil {
			t.Fatalf("harness: profiledb.New: %v", err)
		}

		if err = db.Refresh(context.Background()); err != nil {
			t.Fatalf("harness: Refresh: %v", err)
		}

		return db
	}

	caseNo := 0

	rapid.Check(tt, func(t *rapid.T) {
		// The shape first, so that every shape is frequent.
		shape := rapid.SampledFrom([]string{"names-only", "names-only", "subnets-only", "asns-only", "empty", "mixed", "mixed"}).Draw(t, "shape")
		nets := func(label string, maxN int) (res []netip.Prefix) {
			for i, n := 0, rapid.IntRange(0, maxN).Draw(t, label+"N"); i < n; i++ {
				res = append(res, rapid.SampledFrom(vc10rNets).Draw(t, fmt.Sprintf("%s%d", label, i)))
			}

			return res
		}
		asns := func(label string, maxN int) (res []geoip.ASN) {
			for i, n := 0, rapid.IntRange(0, maxN).Draw(t, label+"N"); i < n; i++ {
				res = append(res, rapid.SampledFrom(vc10rASNs).Draw(t, fmt.Sprintf("%s%d", label, i)))
			}

			return res
		}

		conf := &access.ProfileConfig{}
		var rules []vc10rRule
		if shape == "names-only" || shape == "mixed" {
			for i, n := 0, rapid.IntRange(1, 3).Draw(t, "rulesN"); i < n; i++ {
				l := fmt.Sprintf("rule%d", i)
				r := vc10rRule{Kind: rapid.SampledFrom([]int{0, 1, 1, 1}).Draw(t, l+"Kind"), Target: rapid.SampledFrom(vc10rNames).Draw(t, l+"Target")}
				if i > 0 && rapid.IntRange(0, 3).Draw(t, l+"Exc") == 0 {
					r.Kind, r.Target = 2, "x."+rules[0].Target
				}

				if r.Kind != 0 && rapid.IntRange(0, 3).Draw(t, l+"Typed") == 0 {
					r.Type = rapid.SampledFrom(vc10rTypes).Draw(t, l+"Type")
				}

				rules = append(rules, r)
				conf.BlocklistDomainRules = append(conf.BlocklistDomainRules, r.Text())
			}
		}

		if shape == "subnets-only" || shape == "mixed" {
			conf.BlockedNets = append(nets("blk", 1), rapid.SampledFrom(vc10rNets).Draw(t, "blkFirst"))
			conf.AllowedNets = nets("alw", 2)
		}

		if shape == "asns-only" || shape == "mixed" {
			conf.BlockedASN = append(asns("blkASN", 1), rapid.SampledFrom(vc10rASNs).Draw(t, "blkASNFirst"))
			conf.AllowedASN = asns("alwASN", 2)
		}

		desc := fmt.Sprintf("access{allow=%v allowASN=%v block=%v blockASN=%v rules=%q}", conf.AllowedNets, conf.AllowedASN, conf.BlockedNets, conf.BlockedASN, conf.BlocklistDomainRules)

		prof, dev := profiledbtest.NewProfile(tt)
		prof.Access = access.NewDefaultProfile(conf)

		caseNo++
		path := filepath.Join(dir, fmt.Sprintf("profiles-%d.pb", caseNo))
		defer func() { _ = os.Remove(path) }()

		first := newDB(t, path, &profiledb.StorageProfilesResponse{
			SyncTime: time.Now().Round(0).UTC(),
			Profiles: []*agd.Profile{prof},
			Devices:  []*agd.Device{dev},
		})
		second := newDB(t, path, &profiledb.StorageProfilesResponse{})

		stages := []struct {
			name string
			db   *profiledb.Default
		}{{"before the restart", first}, {"after the restart from the file cache", second}}

		triples := rapid.IntRange(6, 12).Draw(t, "triples")
		for i := 0; i < triples; i++ {
			client := rapid.SampledFrom(vc10rClients).Draw(t, "client")
			var loc *geoip.Location
			if rapid.IntRange(0, 3).Draw(t, "located") > 0 {
				loc = &geoip.Location{Country: "US", ASN: rapid.SampledFrom(vc10rASNs).Draw(t, "clientASN")}
			}

			host := rapid.SampledFrom(vc10rNames).Draw(t, "host")
			if len(rules) > 0 && rapid.Bool().Draw(t, "hostFromRule") {
				host = rapid.SampledFrom([]string{"", "x.", "y.x."}).Draw(t, "hostPrefix") + rules[rapid.IntRange(0, len(rules)-1).Draw(t, "hostRule")].Target
			}

			qt := rapid.SampledFrom(vc10rTypes).Draw(t, "qtype")
			name := host + "."
			if rapid.IntRange(0, 3).Draw(t, "upper") == 0 {
				name = strings.ToUpper(name)
			}

			// The reference predicate.
			has := func(ps []netip.Prefix) bool {
				for _, p := range ps {
					if p.Contains(client) {
						return true
					}
				}

				return false
			}
			hasASN := func(as []geoip.ASN) bool {
				for _, a := range as {
					if loc != nil && a == loc.ASN {
						return true
					}
				}

				return false
			}
			inBlkNet, inBlkASN := has(conf.BlockedNets), hasASN(conf.BlockedASN)
			allowed := has(conf.AllowedNets) || hasASN(conf.AllowedASN)
			byNets := (inBlkNet || inBlkASN) && !allowed
			anyBlock, anyExc := false, false
			for _, r := range rules {
				if r.Matches(host, qt) {
					if r.Kind == 2 {
						anyExc = true
					} else {
						anyBlock = true
					}
				}
			}

			byName := anyBlock && !anyExc
			want := byNets || byName

			req := &dns.Msg{}
			req.SetQuestion(name, qt)
			for _, sg := range stages {
				p, _, err := sg.db.ProfileByDeviceID(context.Background(), dev.ID)
				if err != nil || p == nil || p.Access == nil {
					t.Fatalf("%s: profile of device %s: %v, %v\n%s", sg.name, dev.ID, p, err, desc)
				}

				if got := p.Access.IsBlocked(req, netip.AddrPortFrom(client, 12345), loc); got != want {
					t.Fatalf("%s: client %s (location %+v) asking %s %s: the profile's access settings say blocked=%t, the generated settings say %t (by subnet/ASN %t, by name %t)\n%s",
						sg.name, client, loc, name, dns.TypeToString[qt], got, want, byNets, byName, desc)
				}
			}

			classes := []string{shape + "-after-restart"}
			nt := ""
			switch {
			case byName:
				classes = append(classes, "rejected-by-name-after-restart")
			case byNets && inBlkNet:
				classes = append(classes, "rejected-by-subnet-after-restart")
			case byNets:
				classes = append(classes, "rejected-by-asn-after-restart")
			case (inBlkNet || inBlkASN) && allowed:
				classes = append(classes, "allowed-overrides-after-restart")
			default:
				classes = append(classes, "passes-after-restart")
			}

			if want {
				nt = fmt.Sprintf("%s|%s|%v|%s|%d", desc, client, loc, host, qt)
			}

			st.Case(nt, classes...)
		}

		if st.WantSample() {
			st.Sample(map[string]any{"settings": desc, "shape": shape})
		}
	})
}
