//go:build verif

package dnssvc_test

// C10: access-blocked clients and names are dropped silently and leave no
// trace.  Full handler stack (dnssvc.NewHandlers) with the real access.Global
// and access.DefaultProfile; reference predicate straight from the property
// statement; zero-event recorder on every stage after the access check.

import (
	"fmt"
	"strings"
	"testing"

	"github.com/miekg/dns"
	"pgregory.net/rapid"
	"verif.local/harness/vstat"
)

func TestVerifC10Access(tt *testing.T) {
	st := vstat.New("C10", "dnssvc.access",
		"rapid: global blocked subnets/name rules x 1-3 profiles (allowed/blocked nets and ASNs drawn from nested prefixes of shared pools, name rules incl. $dnstype, exceptions) x histories of 3-10 requests (DoT by SNI, plain DNS by CPE-ID / linked IP / dedicated address, anonymous) on one stack with ECS cache on/off; non-trivial = request is access-blocked, or the client matches both an allow and a block entry; distinct by (verdict flags, server, client, ASN, host, qtype, profile access config)",
		"blocked-global-net", "blocked-global-name", "blocked-profile-net", "blocked-profile-asn", "blocked-profile-name",
		"allow-net-over-block-net", "allow-net-over-block-asn", "allow-asn-over-block-net", "allow-asn-over-block-asn",
		"passed-profile", "passed-anon", "blocked-after-cached", "typed-rule-other-qtype-passes", "exception-rule-passes",
		"blocked-subdomain-of-rule", "anon-ignores-profile-rules",
		"blocked-with-malformed-ecs", "blocked-by-profile-with-malformed-ecs", "blocked-with-bad-device-id",
		"passed-malformed-ecs-formerr", "passed-bad-device-id",
		"blocked-root-name", "blocked-root-by-profile-rule", "blocked-by-catch-all-typed-rule", "root-name-passes",
		"near-miss-verdict-flips", "flip-by-client", "flip-by-qtype", "flip-by-label", "flip-by-anon", "flip-by-device",
		"concurrent-blocked", "concurrent-passed", "blocked-with-canceled-context")
	st.Finish(tt)

	opts := vfsOpts{AccessHeavy: true, Malformed: true, Root: true}

	rapid.Check(tt, func(t *rapid.T) {
		conf := vfsDrawConfig(t, opts)
		s := vfsNewStack(tt, conf)
		var hist []string
		answered := map[string]bool{}

		// judge decides one served request; prev is the verdict of the request
		// it was derived from as a near miss, if any.
		judge := func(r *vfsRequest, tr *vfsTrace, prev *vfsVerdict, mode string) (v vfsVerdict) {
			v = vfsAccessVerdict(conf, r)
			hist = append(hist, fmt.Sprintf("%s%s -> %s", mode, r, tr))

			fail := func(format string, args ...any) {
				t.Fatalf("%s\n%s\nverdict %+v\nhistory:\n  %s", fmt.Sprintf(format, args...), conf, v, strings.Join(hist, "\n  "))
			}

			host, qk := r.Host(), fmt.Sprintf("%s|%d", r.Host(), r.QType)
			rules := append([]vfsRule{}, conf.GlobalRules...)
			if r.Prof >= 0 {
				rules = append(rules, conf.Profiles[r.Prof].Access.Rules...)
			}

			classes := []string{"srv-" + r.Server, "id-" + r.IDMode}
			if conf.ECSCache {
				classes = append(classes, "cache-ecs")
			} else {
				classes = append(classes, "cache-none")
			}

			// Finding c10-global-name-rule-root: the middleware hands the global
			// access manager agdnet.NormalizeDomain(q.Name), which is "" for
			// the root name, and urlfilter never matches an empty host name;
			// so a global blocked-name rule that matches "." ("||.^",
			// "*$dnstype=ANY") does not reject a query for the root, although
			// the same rule in a profile does (NormalizeQueryDomain).
			if v.Blocked && host == "." && v.GlobalName && !v.GlobalNet && !v.ProfNets && !v.ProfName &&
				(len(tr.Writes) != 0 || tr.Downstream() != 0 || tr.Err != nil) {
				if st.Known("c10-global-name-rule-root") {
					st.Class("known-global-name-rule-root")
					if !r.BadECS && !r.BadSNI && !r.Canceled {
						answered[qk] = true
					}

					return v
				}

				fail("query for the root name matches a global blocked-name rule but was answered / reached a later stage")
			}

			if v.Blocked {
				if host == "." {
					classes = append(classes, "blocked-root-name")
					if v.ProfName {
						classes = append(classes, "blocked-root-by-profile-rule")
					}
				}

				if v.GlobalName || v.ProfName {
					for _, ru := range rules {
						if ru.Target == vfsTargetAny && ru.Kind == vfsRuleDomain && ru.Matches(host, r.QType) {
							classes = append(classes, "blocked-by-catch-all-typed-rule")

							break
						}
					}
				}

				// The caller (ServerBase.serveDNSMsgInternal) answers SERVFAIL
				// when the handler returns an error, so "no response at all"
				// needs a nil error as well as no write.
				if tr.Err != nil {
					fail("access-blocked request: handler returned error %v (the server would answer SERVFAIL)", tr.Err)
				}

				if len(tr.Writes) != 0 {
					fail("access-blocked request got a response")
				}

				if n := tr.Downstream(); n != 0 {
					fail("access-blocked request reached a later stage (%d events)", n)
				}

				if v.GlobalNet {
					classes = append(classes, "blocked-global-net")
				}

				if v.GlobalName {
					classes = append(classes, "blocked-global-name")
				}

				if v.ProfNets && v.InBlockedNet {
					classes = append(classes, "blocked-profile-net")
				}

				if v.ProfNets && v.InBlockedASN {
					classes = append(classes, "blocked-profile-asn")
				}

				if v.ProfName {
					classes = append(classes, "blocked-profile-name")
				}

				if answered[qk] && conf.ECSCache {
					classes = append(classes, "blocked-after-cached")
				}

				if v.GlobalName || v.ProfName {
					sub := false
					for _, ru := range conf.GlobalRules {
						sub = sub || (ru.Kind == vfsRuleDomain && ru.Target != vfsTargetAny && ru.Matches(host, r.QType) && host != ru.Target)
					}

					if r.Prof >= 0 {
						for _, ru := range conf.Profiles[r.Prof].Access.Rules {
							sub = sub || (ru.Kind == vfsRuleDomain && ru.Target != vfsTargetAny && ru.Matches(host, r.QType) && host != ru.Target)
						}
					}

					if sub {
						classes = append(classes, "blocked-subdomain-of-rule")
					}
				}

				if r.Debug() {
					classes = append(classes, "blocked-debug-class")
				}

				if r.BadECS {
					classes = append(classes, "blocked-with-malformed-ecs")
					if !v.GlobalNet && !v.GlobalName {
						classes = append(classes, "blocked-by-profile-with-malformed-ecs")
					}
				}

				if r.BadSNI {
					classes = append(classes, "blocked-with-bad-device-id")
				}

				if r.Canceled {
					classes = append(classes, "blocked-with-canceled-context")
				}
			} else if r.BadSNI || r.Canceled {
				// Not access-blocked, invalid device ID or a context that the
				// caller has already cancelled: the documented error treatment
				// (the handler returns an error and the server answers
				// SERVFAIL); only "at most one response" is judged.
				responses := len(tr.Writes)
				if tr.Err != nil {
					responses++
				}

				if responses > 1 {
					fail("bad device ID / cancelled context: %d responses (handler writes %d, error %v makes the server add SERVFAIL)", responses, len(tr.Writes), tr.Err)
				}

				if r.BadSNI {
					classes = append(classes, "passed-bad-device-id")
				}

				if r.Canceled {
					classes = append(classes, "passed-canceled-context")
				}
			} else if r.BadECS {
				// Not access-blocked, malformed ECS: exactly one response, a
				// FORMERR, and nothing downstream.
				if tr.Err != nil {
					fail("malformed ECS: handler error %v (the server would add a SERVFAIL)", tr.Err)
				}

				if len(tr.Writes) != 1 || tr.Writes[0].Rcode != dns.RcodeFormatError || tr.Writes[0].Id != r.ID {
					fail("malformed ECS: want exactly one FORMERR response")
				}

				if n := tr.Downstream(); n != 0 {
					fail("malformed ECS: request reached a later stage (%d events)", n)
				}

				classes = append(classes, "passed-malformed-ecs-formerr")
			} else {
				if tr.Err != nil {
					fail("request that no rule rejects: handler error %v", tr.Err)
				}

				if len(tr.Writes) != 1 {
					fail("request that no rule rejects: %d responses, want exactly one", len(tr.Writes))
				}

				resp := tr.Writes[0]
				if resp.Id != r.ID || !resp.Response || len(resp.Question) != 1 ||
					!strings.EqualFold(resp.Question[0].Name, r.Name) || resp.Question[0].Qtype != r.QType {
					fail("request that no rule rejects: response does not belong to the request: %v", resp)
				}

				// Processed normally: filtered (a filter was selected and
				// applied to the request) and resolved or served from cache;
				// billed iff attributed to a profile (not checked for the
				// debug class, which the statement does not cover).
				if tr.ForConfig != 1 || tr.FilterReq != 1 {
					fail("request that no rule rejects was not filtered (ForConfig=%d FilterRequest=%d)", tr.ForConfig, tr.FilterReq)
				}

				if len(tr.Upstream) > 1 || (len(tr.Upstream) == 0 && !conf.ECSCache) {
					fail("request that no rule rejects: %d upstream calls", len(tr.Upstream))
				}

				if !r.Debug() {
					wantBill := 0
					if r.Prof >= 0 {
						wantBill = 1
					}

					if len(tr.Bill) != wantBill {
						fail("request that no rule rejects: %d billing records, want %d", len(tr.Bill), wantBill)
					}
				}

				answered[qk] = true
				if host == "." {
					classes = append(classes, "root-name-passes")
					if v.GlobalExcepted || v.ProfExcepted {
						classes = append(classes, "root-excepted-passes")
					}
				}

				if r.Prof >= 0 {
					classes = append(classes, "passed-profile")
				} else {
					classes = append(classes, "passed-anon")
				}

				blockedAny := v.InBlockedNet || v.InBlockedASN
				if blockedAny && v.InAllowedNet && v.InBlockedNet {
					classes = append(classes, "allow-net-over-block-net")
				}

				if blockedAny && v.InAllowedNet && v.InBlockedASN {
					classes = append(classes, "allow-net-over-block-asn")
				}

				if blockedAny && v.InAllowedASN && v.InBlockedNet {
					classes = append(classes, "allow-asn-over-block-net")
				}

				if blockedAny && v.InAllowedASN && v.InBlockedASN {
					classes = append(classes, "allow-asn-over-block-asn")
				}

				if v.GlobalExcepted || v.ProfExcepted {
					classes = append(classes, "exception-rule-passes")
				}

				// A typed rule for this very name that does not apply to this
				// question type.
				typedMiss := false

				for _, ru := range rules {
					if ru.Kind == vfsRuleDomain && ru.Type != 0 && !ru.Matches(host, r.QType) {
						any := ru
						any.Type = 0
						typedMiss = typedMiss || any.Matches(host, r.QType)
					}
				}

				if typedMiss {
					classes = append(classes, "typed-rule-other-qtype-passes")
				}

				if r.Prof < 0 {
					// Some profile would have rejected this client or name,
					// but the request is not attributed to it.
					for pi := range conf.Profiles {
						alt := *r
						alt.Prof = pi
						if vfsAccessVerdict(conf, &alt).Blocked {
							classes = append(classes, "anon-ignores-profile-rules")

							break
						}
					}
				}
			}

			nt := ""
			both := (v.InAllowedNet || v.InAllowedASN) && (v.InBlockedNet || v.InBlockedASN)
			if v.Blocked || both {
				asn := -1
				if l := vfsLocOf(r.Client); l != nil {
					asn = int(l.ASN)
				}

				acc := ""
				if r.Prof >= 0 {
					acc = conf.Profiles[r.Prof].Access.String()
				}

				nt = fmt.Sprintf("%+v|%s|%s|%d|%s|%d|%v|%q|%s|%t|%t", v, r.Server, r.Client, asn, host, r.QType, conf.GlobalNets, vfsRuleTexts(conf.GlobalRules), acc, r.BadECS, r.BadSNI)
			}

			if mode != "" {
				classes = append(classes, "concurrent")
				if v.Blocked {
					classes = append(classes, "concurrent-blocked")
				} else {
					classes = append(classes, "concurrent-passed")
				}
			}

			if r.NearMiss != "" && prev != nil {
				classes = append(classes, "near-miss-"+r.NearMiss)
				if prev.Blocked != v.Blocked {
					classes = append(classes, "near-miss-verdict-flips", "flip-by-"+r.NearMiss)
				}
			}

			st.Case(nt, classes...)

			return v
		}

		// A sequential history; a third of the requests are near misses of
		// their predecessor (exactly one component changed).
		steps := rapid.IntRange(3, 10).Draw(t, "steps")
		var prevReq *vfsRequest
		var prevV *vfsVerdict
		for i := 0; i < steps; i++ {
			r := vfsDrawRequest(t, s, opts, prevReq)
			v := judge(r, s.serve(t, r), prevV, "")
			prevReq, prevV = r, &v
		}

		// Then a batch served concurrently on the same stack (shared pools of
		// request infos, filtering contexts and messages): every request is
		// judged by its own events.
		if rapid.Bool().Draw(t, "concurrentBatch") {
			n := rapid.IntRange(2, 6).Draw(t, "batch")
			var batch []*vfsRequest
			for i := 0; i < n; i++ {
				var p *vfsRequest
				if len(batch) > 0 {
					p = batch[len(batch)-1]
				}

				batch = append(batch, vfsDrawRequest(t, s, opts, p))
			}

			for i, tr := range s.serveConcurrently(t, batch) {
				judge(batch[i], tr, nil, "[concurrent] ")
			}
		}

		if n, desc := s.Orphans(); n != 0 {
			t.Fatalf("%d downstream events carried no request ID or the ID of a request not in flight: %s\n%s\nhistory:\n  %s", n, desc, conf, strings.Join(hist, "\n  "))
		}

		if st.WantSample() && len(hist) > 3 {
			st.Sample(map[string]any{"config": conf.String(), "history": hist})
		}
	})
}

var _ = dns.TypeA
