//go:build verif

package dnssvc_test

// C10, ASN clauses decided with the REAL geoip.File (test databases) and the
// ECS cache in the stack: the location the access check sees is the database's
// own cached object, and earlier requests from the same /24 (/56) block have
// gone through the ECS cache's subnet lookup before the judged one.

import (
	"fmt"
	"strings"
	"testing"

	"github.com/AdguardTeam/AdGuardDNS/internal/geoip"
	"pgregory.net/rapid"
	"verif.local/harness/vstat"
)

// vc10KnownASNOverwrite is the finding "geoip.File.SubnetByLocation overwrites
// the ASN of the location it is given with the country's top ASN"; it shows in
// the stack only if a caller hands it a location object shared with the
// database's per-block cache.
const vc10KnownASNOverwrite = "geoip-subnet-lookup-overwrites-cached-asn"

func TestVerifC10RealGeoIP(tt *testing.T) {
	st := vstat.New("C10", "dnssvc.access-realgeoip",
		"rapid: real geoip.File on the test MMDBs + ECS cache in the full stack; 1-2 profiles with allowed/blocked ASNs (the clients' real ASNs and their countries' top ASNs) and subnets around the known addresses; histories of 2-6 requests mixing anonymous and profile clients from the same address / same /24 or /56 block / other blocks, some naming a known block in an ECS option, then optionally a concurrent batch from one block; reference location from fresh database instances asked one Data() question each; non-trivial = an ASN entry decides the verdict of a request judged after an earlier request of the same block went through the cache; distinct by (client, profile access config, verdict, earlier requests of the block)",
		"judged-after-cache-lookup-same-block", "asn-rule-decides", "asn-rule-decides-after-cache-lookup",
		"verdict-would-differ-with-country-top-asn", "profile-after-anonymous-same-block", "ecs-named-client-block-earlier",
		"blocked-by-asn", "allowed-asn-overrides", "concurrent-same-block",
		"colliding-v4-v6-pair-both-orders", "colliding-pair-v4-after-v6", "colliding-pair-v6-after-v4", "colliding-pair-asn-rule-decides")
	st.Finish(tt)

	w := vfsRealWorldNew(tt)

	rapid.Check(tt, func(t *rapid.T) {
		conf := vfsRealDrawConfig(t, w)
		s := vfsNewStackGeo(tt, conf, vfsRealGeoNew(tt))
		var hist []string

		// touched[block] = how the block's location went through the ECS cache
		// earlier in this history ("client" / "ecs" / "anon-client").
		touched := map[int][]string{}
		var used []int

		// looked[block]: the database was asked about the block (as a client's
		// or as an ECS option's), whatever became of the request.
		looked := map[int]bool{}

		judge := func(r *vfsRequest, bi int, tr *vfsTrace, mode string) {
			loc := w.Loc(r.Client)
			v := vfsAccessVerdictLoc(conf, r, loc)
			hist = append(hist, fmt.Sprintf("%s%s loc=%+v -> %s", mode, r, loc, tr))
			fail := func(format string, args ...any) {
				t.Fatalf("%s\n%s\nverdict %+v\nhistory:\n  %s", fmt.Sprintf(format, args...), conf, v, strings.Join(hist, "\n  "))
			}

			// What the verdict would be if the client's ASN were replaced by
			// its country's top ASN (the suspected overwrite).
			var alt *geoip.Location
			if loc != nil {
				alt = &geoip.Location{Country: loc.Country, ASN: geoip.DefaultCountryTopASNs[loc.Country]}
			}

			vAlt := vfsAccessVerdictLoc(conf, r, alt)
			vNoASN := vfsAccessVerdictLoc(conf, r, nil)

			silent := tr.Err == nil && len(tr.Writes) == 0 && tr.Downstream() == 0
			answered := tr.Err == nil && len(tr.Writes) == 1 && tr.Writes[0].Id == r.ID && tr.ForConfig == 1 && len(tr.Upstream) <= 1

			ok := (v.Blocked && silent) || (!v.Blocked && answered)
			if !ok {
				// (In a concurrent batch the other members touch the block at
				// the same time.)
				explained := (len(touched[bi]) > 0 || mode != "") && vAlt.Blocked != v.Blocked && ((vAlt.Blocked && silent) || (!vAlt.Blocked && answered))
				if explained && st.Known(vc10KnownASNOverwrite) {
					st.Class("known-asn-overwritten")
				} else if v.Blocked {
					fail("access-blocked request (reference location %+v) was not dropped silently; block touched earlier by %v", loc, touched[bi])
				} else {
					fail("request that no rule rejects (reference location %+v) was not answered normally; block touched earlier by %v", loc, touched[bi])
				}
			}

			classes := []string{"id-" + r.IDMode}
			after := len(touched[bi]) > 0
			if after {
				classes = append(classes, "judged-after-cache-lookup-same-block")
				for _, how := range touched[bi] {
					if how == "ecs" {
						classes = append(classes, "ecs-named-client-block-earlier")
					}

					if how == "anon-client" && r.Prof >= 0 {
						classes = append(classes, "profile-after-anonymous-same-block")
					}
				}
			}

			decides := vNoASN.Blocked != v.Blocked
			nt := ""
			if decides {
				classes = append(classes, "asn-rule-decides")
				if v.Blocked {
					classes = append(classes, "blocked-by-asn")
				} else {
					classes = append(classes, "allowed-asn-overrides")
				}

				if after {
					classes = append(classes, "asn-rule-decides-after-cache-lookup")
					nt = fmt.Sprintf("%s|%s|%+v|%v", r.Client, conf.Profiles[r.Prof].Access, v, touched[bi])
				}
			}

			if vAlt.Blocked != v.Blocked && after {
				classes = append(classes, "verdict-would-differ-with-country-top-asn")
			}

			if mode != "" {
				classes = append(classes, "concurrent-same-block")
			}

			// The constructed block of the other family with the same leading
			// octets was looked up first, and its location is another one.
			if p, has := w.Partner[bi]; has && looked[p] && !vfsLocEq(w.Loc(w.Blocks[p][0]), loc) {
				classes = append(classes, "colliding-v4-v6-pair-both-orders")
				if r.Client.Is4() {
					classes = append(classes, "colliding-pair-v4-after-v6")
				} else {
					classes = append(classes, "colliding-pair-v6-after-v4")
				}

				if decides {
					classes = append(classes, "colliding-pair-asn-rule-decides")
				}
			}

			looked[bi] = true
			if ei := vfsRealECSBlock(w, r); ei >= 0 {
				looked[ei] = true
			}

			// An answered request (whatever the reference says) went through
			// the ECS cache: it looked up a
			// subnet for the location of the ECS block if the option is there
			// and its country is known, else for the client's.
			if answered {
				how := "client"
				if r.Prof < 0 {
					how = "anon-client"
				}

				touched[bi] = append(touched[bi], how)
				if ei := vfsRealECSBlock(w, r); ei >= 0 {
					touched[ei] = append(touched[ei], "ecs")
				}
			}

			st.Case(nt, classes...)
		}

		steps := rapid.IntRange(2, 6).Draw(t, "steps")
		for i := 0; i < steps; i++ {
			r, bi := vfsRealDrawRequest(t, s, w, used, -1)
			judge(r, bi, s.serve(t, r), "")
			used = append(used, bi)
			if ei := vfsRealECSBlock(w, r); ei >= 0 {
				used = append(used, ei)
			}
		}

		// Requests from one block at the same time (under -race: the location
		// object of the block is shared by all of them).  If the overwrite is
		// a recorded finding the batch is skipped: the data race on
		// Location.ASN is the same defect and cannot be excluded case by case.
		if rapid.Bool().Draw(t, "concurrentBatch") {
			skip := false
			for _, how := range touched {
				skip = skip || len(how) > 0
			}

			if !(skip && st.Known(vc10KnownASNOverwrite)) {
				bi := rapid.SampledFrom(used).Draw(t, "batchBlock")
				n := rapid.IntRange(2, 5).Draw(t, "batch")
				var batch []*vfsRequest
				for i := 0; i < n; i++ {
					r, _ := vfsRealDrawRequest(t, s, w, used, bi)
					batch = append(batch, r)
				}

				for i, tr := range s.serveConcurrently(t, batch) {
					judge(batch[i], bi, tr, "[concurrent] ")
				}
			}
		}

		if n, desc := s.Orphans(); n != 0 {
			t.Fatalf("%d downstream events carried no request ID or the ID of a request not in flight: %s\nhistory:\n  %s", n, desc, strings.Join(hist, "\n  "))
		}

		if st.WantSample() && len(hist) > 2 {
			st.Sample(map[string]any{"config": conf.String(), "history": hist})
		}
	})
}
