//go:build verif

package dnssvc_test

// C10, ASN clauses across database refreshes: the stack's real geoip.File
// reads two files that the history replaces (none, the ASN one, the country
// one, or both) before calling Refresh; clients looked up before a refresh
// come again after it.  Reference after every refresh: a freshly constructed
// geoip.File over the databases that are current.

import (
	"context"
	"fmt"
	"net/netip"
	"os"
	"path/filepath"
	"strings"
	"testing"

	"github.com/AdguardTeam/AdGuardDNS/internal/geoip"
	"github.com/miekg/dns"
	"pgregory.net/rapid"
	"verif.local/harness/vstat"
)

func TestVerifC10RealGeoIPRefresh(tt *testing.T) {
	st := vstat.New("C10", "dnssvc.access-realgeoip-refresh",
		"rapid: real geoip.File over two replaceable database files (ASN role: ISP or City test database; country role: City, Country or ISP test database; every written copy has its own build epoch) + ECS cache in the full stack; 1-2 profiles with allowed/blocked real ASNs; histories of 4-10 steps: requests from known addresses (often ones asked before) and Refresh steps after replacing none / the ASN file / the country file / both; reference = fresh geoip.File over the current databases; non-trivial = request of a client that was looked up before a refresh that changed its ASN; distinct by (client, database variants before and after, what was replaced, verdict)",
		"refresh-with-one-database-changed-after-warm-lookup", "refresh-asn-only-after-warm-lookup", "refresh-country-only-after-warm-lookup",
		"refresh-both-after-warm-lookup", "refresh-none-after-warm-lookup", "asn-changed-by-refresh-after-warm-lookup",
		"verdict-changed-by-refresh-after-warm-lookup", "same-data-new-build-epoch")
	st.Finish(tt)

	w := vfsRealWorldNew(tt)
	ref := &vfsGeoRef{tb: tt, memo: map[string]*geoip.Location{}}

	dir := tt.TempDir()
	if shm, err := os.MkdirTemp("/dev/shm", "c10-verif-"); err == nil {
		dir = shm
		tt.Cleanup(func() { _ = os.RemoveAll(shm) })
	}

	// One address per block: after a refresh every block is looked up anew,
	// and neighbours need not agree under the other database variants.
	var addrs []netip.Addr
	for bi := 0; bi < w.NBase; bi++ {
		addrs = append(addrs, w.Blocks[bi][0])
	}

	rapid.Check(tt, func(t *rapid.T) {
		conf := vfsRealDrawConfig(t, w)

		// A target client whose ASN (under the ISP database) the first profile
		// blocks or allows, so that replacing the ASN database changes
		// verdicts.
		var targets []netip.Addr
		for _, a := range addrs {
			if l := ref.Loc(0, 0, a); l != nil && l.ASN != 0 {
				targets = append(targets, a)
			}
		}

		target := rapid.SampledFrom(targets).Draw(t, "target")
		if rapid.IntRange(0, 3).Draw(t, "targetRule") > 0 {
			acc := &conf.Profiles[0].Access
			acc.Empty = false
			if rapid.IntRange(0, 2).Draw(t, "targetAllow") == 0 {
				acc.AllowedASN = append(acc.AllowedASN, ref.Loc(0, 0, target).ASN)
				acc.Blocked = append(acc.Blocked, vfsRealBlock(target))
			} else {
				acc.BlockedASN = append(acc.BlockedASN, ref.Loc(0, 0, target).ASN)
			}
		}

		files := &vfsGeoFiles{ASNPath: filepath.Join(dir, "asn.mmdb"), CtryPath: filepath.Join(dir, "country.mmdb")}
		files.write(tt, true, rapid.IntRange(0, len(vfsGeoASNVariants)-1).Draw(t, "asn0"))
		files.write(tt, false, rapid.IntRange(0, len(vfsGeoCtryVariants)-1).Draw(t, "ctry0"))
		geo := vfsRealGeoFromFiles(tt, files.ASNPath, files.CtryPath)
		s := vfsNewStackGeo(tt, conf, geo)

		var hist []string
		type seen struct {
			asnVar, ctryVar int
			blocked         bool
			refreshes       []string // what the refreshes since the lookup replaced
		}
		warm := map[netip.Addr]*seen{}
		var asked []*vfsRequest

		steps := rapid.IntRange(4, 10).Draw(t, "steps")
		for i := 0; i < steps; i++ {
			if i > 0 && rapid.IntRange(0, 3).Draw(t, "refresh") == 0 {
				kind := rapid.SampledFrom([]string{"none", "asn", "asn", "country", "both"}).Draw(t, "refreshKind")
				other := func(cur, n int, label string) int {
					// Mostly another data variant; sometimes the same data with
					// a new build epoch.
					if rapid.IntRange(0, 3).Draw(t, label+"Same") == 0 {
						return cur
					}

					return (cur + 1 + rapid.IntRange(0, n-2).Draw(t, label)) % n
				}

				desc := kind
				if kind == "asn" || kind == "both" {
					nv := other(files.ASN, len(vfsGeoASNVariants), "asnVariant")
					desc += fmt.Sprintf(" asn:%s->%s", vfsGeoASNVariants[files.ASN], vfsGeoASNVariants[nv])
					files.write(tt, true, nv)
				}

				if kind == "country" || kind == "both" {
					nv := other(files.Ctry, len(vfsGeoCtryVariants), "ctryVariant")
					desc += fmt.Sprintf(" country:%s->%s", vfsGeoCtryVariants[files.Ctry], vfsGeoCtryVariants[nv])
					files.write(tt, false, nv)
				}

				if err := geo.Refresh(context.Background()); err != nil {
					t.Fatalf("harness: Refresh after %s: %v\nhistory:\n  %s", desc, err, strings.Join(hist, "\n  "))
				}

				hist = append(hist, "REFRESH "+desc)
				for _, sn := range warm {
					sn.refreshes = append(sn.refreshes, kind)
				}

				continue
			}

			// A request.
			r, _ := vfsRealDrawRequest(t, s, w, nil, 0)
			r.ECS = netip.Prefix{}
			if len(asked) > 0 && rapid.IntRange(0, 2).Draw(t, "again") > 0 {
				// An earlier client again; mostly the very same request (same
				// profile), so that only the databases have changed.
				prev := asked[rapid.IntRange(0, len(asked)-1).Draw(t, "againWhich")]
				if rapid.IntRange(0, 3).Draw(t, "againSame") > 0 {
					cp := *prev
					cp.ID = r.ID
					r = &cp
				}

				r.Client = prev.Client
			} else {
				r.Client = rapid.SampledFrom(addrs).Draw(t, "freshClient")
				if rapid.Bool().Draw(t, "targetClient") {
					r.Client = target
				}
			}

			r.Client16 = r.Client.Is4() && r.Client16
			r.QClass = dns.ClassINET
			asked = append(asked, r)

			loc := ref.Loc(files.ASN, files.Ctry, r.Client)
			v := vfsAccessVerdictLoc(conf, r, loc)
			tr := s.serve(t, r)
			hist = append(hist, fmt.Sprintf("%s loc=%+v (asn db %s, country db %s) -> %s", r, loc, vfsGeoASNVariants[files.ASN], vfsGeoCtryVariants[files.Ctry], tr))

			silent := tr.Err == nil && len(tr.Writes) == 0 && tr.Downstream() == 0
			answered := tr.Err == nil && len(tr.Writes) == 1 && tr.Writes[0].Id == r.ID && tr.ForConfig == 1 && len(tr.Upstream) <= 1
			if (v.Blocked && !silent) || (!v.Blocked && !answered) {
				before := "never"
				if sn := warm[r.Client]; sn != nil {
					before = fmt.Sprintf("under asn db %s / country db %s, refreshes since: %v", vfsGeoASNVariants[sn.asnVar], vfsGeoCtryVariants[sn.ctryVar], sn.refreshes)
				}

				what := "request that no rule rejects was not answered normally"
				if v.Blocked {
					what = "access-blocked request was not dropped silently"
				}

				t.Fatalf("%s: a fresh database over the current files gives the client %+v (client looked up before: %s)\n%s\nverdict %+v\nhistory:\n  %s",
					what, loc, before, conf, v, strings.Join(hist, "\n  "))
			}

			var classes []string
			nt := ""
			if sn := warm[r.Client]; sn != nil && len(sn.refreshes) > 0 {
				changedOne, last := false, sn.refreshes[len(sn.refreshes)-1]
				for _, k := range sn.refreshes {
					changedOne = changedOne || k == "asn" || k == "country"
				}

				if changedOne {
					classes = append(classes, "refresh-with-one-database-changed-after-warm-lookup")
				}

				classes = append(classes, "refresh-"+map[string]string{"asn": "asn-only", "country": "country-only", "both": "both", "none": "none"}[last]+"-after-warm-lookup")
				old := ref.Loc(sn.asnVar, sn.ctryVar, r.Client)
				oldASN, newASN := geoip.ASN(0), geoip.ASN(0)
				if old != nil {
					oldASN = old.ASN
				}

				if loc != nil {
					newASN = loc.ASN
				}

				if oldASN != newASN {
					classes = append(classes, "asn-changed-by-refresh-after-warm-lookup")
					nt = fmt.Sprintf("%s|%d->%d|%v|%t", r.Client, oldASN, newASN, sn.refreshes, v.Blocked)
				} else if sn.asnVar == files.ASN && sn.ctryVar == files.Ctry {
					classes = append(classes, "same-data-new-build-epoch")
				}

				if vfsAccessVerdictLoc(conf, r, old).Blocked != v.Blocked {
					classes = append(classes, "verdict-changed-by-refresh-after-warm-lookup")
				}
			}

			warm[r.Client] = &seen{asnVar: files.ASN, ctryVar: files.Ctry, blocked: v.Blocked}
			st.Case(nt, classes...)
		}

		if st.WantSample() && len(hist) > 3 {
			st.Sample(map[string]any{"config": conf.String(), "history": hist})
		}
	})
}
