// Package vc09model is the reference of property C09 for a rate limiter whose
// clock moves: the set of per-subnet states that the statement and the
// documentation allow, evaluated with interval arithmetic over measured
// instants.  It is shared by the harness units of C09 (packages ratelimit and
// cmd of the repository) and depends on the standard library only.
package vc09model

import (
	"fmt"
	"slices"
	"sort"
	"strings"
)

// Instant is an instant of the harness clock known up to an interval.
type Instant struct{ Lo, Hi int64 }

// KeyState is one state of one subnet that the statement allows after the
// history so far.
type KeyState struct {
	HasCtr     bool
	CtrCreated Instant
	Log        []Instant // the last limit events that went into the window, oldest first

	// HitTimes are the over-limit hits that may still count towards backoff
	// (at most the last count of them), oldest first; HitFirst is the first hit
	// since the hits were last forgotten altogether.
	HitTimes  []Instant
	HitFirst  Instant
	InBackoff bool
	Reach     Instant // when the hits reached the backoff count

	// StrictLate is set when this explanation needs the subnet's window to have
	// been forgotten (window object older than the backoff period) although
	// events within the interval were in it.
	StrictLate bool
}

func (s *KeyState) clone() *KeyState {
	c := *s
	c.Log = append([]Instant(nil), s.Log...)
	c.HitTimes = append([]Instant(nil), s.HitTimes...)

	return &c
}

func (s *KeyState) id() string { return fmt.Sprintf("%+v", *s) }

type Limits struct {
	Lim      int
	Count    int
	Ivl      int64
	Period   int64
	Duration int64
	// hitSpan is the time within which over-limit hits are counted together:
	// the backoff period by the documentation.
	HitSpan int64
}

type Succ struct {
	St   *KeyState
	Drop bool
	Why  string
}

// Cmp compares now-then with d given an extra slack: mayLE reports that
// now-then <= d is possible, mayGT that now-then > d is possible.
func Cmp(now, then Instant, d, slack int64) (mayLE, mayGT bool) {
	minDiff := now.Lo - then.Hi - slack
	maxDiff := now.Hi - then.Lo + slack

	return minDiff <= d, maxDiff > d
}

// Step returns every (state, verdict) the statement allows for an event at
// T in state s.
//
// What is fixed by the statement and the documentation, and asserted:
//
//   - events count for exactly the interval (boundary inclusive); every event
//     that reached the window counts, dropped or not;
//   - over-limit hits are counted together only within the backoff period
//     ("the time during which to count the number of requests that a client
//     has sent over the RPS"): hits further apart than hitSpan never add up;
//   - once count hits lie within that span the subnet is in backoff, at least
//     while the first of them is at most min(period, duration) old and at most
//     until backoff_duration after the count was reached;
//   - a subnet in backoff is dropped and such a query is not a countable event,
//     neither for the window nor for the hit count (requests "aren't allowed
//     from client's subnet until backoff_duration ends", so once it has ended
//     the subnet is served again however hard it retried meanwhile).
//
// What is left open and therefore allowed either way: whether all hits are
// forgotten at once when the first of them is older than min(period, duration)
// (the code does that) or slide out one by one; whether backoff ends
// backoff_duration after the first hit or after the count was reached; whether
// the subnet's window is forgotten once the window object is older than the
// backoff period (the code does forget it; see the StrictLate class).
func Step(s *KeyState, T Instant, lm *Limits, slack int64) (out []Succ) {
	type hitOpt struct {
		s   *KeyState
		why string
	}

	var hitOpts []hitOpt
	if len(s.HitTimes) == 0 && !s.InBackoff {
		hitOpts = []hitOpt{{s, ""}}
	} else {
		if _, mayOlder := Cmp(T, s.HitFirst, min(lm.Period, lm.Duration), slack); mayOlder {
			c := s.clone()
			c.HitTimes, c.HitFirst, c.InBackoff, c.Reach = nil, Instant{}, false, Instant{}
			hitOpts = append(hitOpts, hitOpt{c, "all hits forgotten"})
		}

		stillMay, endedMay := true, false
		if s.InBackoff {
			stillMay, endedMay = Cmp(T, s.Reach, lm.Duration, slack)
		}

		if s.InBackoff && stillMay {
			out = append(out, Succ{s, true, "in backoff"})
		}

		if !s.InBackoff || endedMay {
			// Hits that can no longer be within the span of any later hit are
			// dropped from the state.
			c := s.clone()
			c.InBackoff, c.Reach = false, Instant{}
			kept := c.HitTimes[:0]
			for _, h := range c.HitTimes {
				if mayLE, _ := Cmp(T, h, lm.HitSpan, slack); mayLE {
					kept = append(kept, h)
				}
			}

			c.HitTimes = kept
			why := "hits kept"
			if s.InBackoff {
				why = "backoff ended; hits kept"
			}

			if len(c.HitTimes) == 0 {
				c.HitTimes, c.HitFirst = nil, Instant{}
			}

			hitOpts = append(hitOpts, hitOpt{c, why})
		}
	}

	for _, ho := range hitOpts {
		s1 := ho.s

		type ctrOpt struct {
			s     *KeyState
			reset bool
		}

		ctrOpts := []ctrOpt{{s1, false}}
		if s1.HasCtr {
			if _, mayGT := Cmp(T, s1.CtrCreated, lm.Period, slack); mayGT {
				c := s1.clone()
				c.HasCtr, c.Log = false, nil
				ctrOpts = append(ctrOpts, ctrOpt{c, true})
			}
		}

		// keptDefAbove: what the kept window says, for the StrictLate mark.
		keptDefAbove := false
		for _, co := range ctrOpts {
			s2 := co.s
			var mayAbove, mayBelow bool
			switch {
			case lm.Lim == 0:
				mayAbove = true
			case len(s2.Log) < lm.Lim:
				mayBelow = true
			default:
				mayAbove, mayBelow = Cmp(T, s2.Log[len(s2.Log)-lm.Lim], lm.Ivl, slack)
			}

			if !co.reset {
				keptDefAbove = mayAbove && !mayBelow
			}

			for _, above := range []bool{true, false} {
				if (above && !mayAbove) || (!above && !mayBelow) {
					continue
				}

				s3 := s2.clone()
				if !s3.HasCtr {
					s3.HasCtr, s3.CtrCreated = true, T
				}

				s3.Log = append(s3.Log, T)
				if keep := max(lm.Lim, 1); len(s3.Log) > keep {
					s3.Log = s3.Log[len(s3.Log)-keep:]
				}

				why := ho.why
				if co.reset {
					why += "; window object expired"
					if !above && keptDefAbove {
						s3.StrictLate = true
					}
				}

				if !above {
					out = append(out, Succ{s3, false, why + "; below the limit"})

					continue
				}

				// An over-limit hit.  How many earlier hits are within the span?
				nDef, nPoss := 1, 1
				for _, h := range s3.HitTimes {
					mayLE, mayGT := Cmp(T, h, lm.HitSpan, slack)
					if mayLE {
						nPoss++
						if !mayGT {
							nDef++
						}
					}
				}

				if len(s3.HitTimes) == 0 {
					s3.HitFirst = T
				}

				s3.HitTimes = append(s3.HitTimes, T)
				if keep := max(lm.Count, 1); len(s3.HitTimes) > keep {
					s3.HitTimes = s3.HitTimes[len(s3.HitTimes)-keep:]
				}

				why += "; limit reached within the interval"
				if nDef < lm.Count {
					out = append(out, Succ{s3, true, why})
				}

				if nPoss >= lm.Count {
					s4 := s3.clone()
					s4.InBackoff, s4.Reach = true, T
					out = append(out, Succ{s4, true, why + "; backoff count reached"})
				}
			}
		}
	}

	return out
}

// KeySet is the set of allowed states of one subnet.
type KeySet struct {
	States []*KeyState
	Lost   bool // too many states: the subnet is no longer judged
}

const MaxStates = 96

// Apply advances the set by one event.  observed is nil for events whose
// verdict nobody sees (extra events of a large response).
func (ks *KeySet) Apply(T Instant, lm *Limits, slack int64, observed *bool) (ok bool, allowed string) {
	if ks.Lost {
		return true, ""
	}

	seen := map[string]bool{}
	var next []*KeyState
	var verdicts []string
	for _, s := range ks.States {
		for _, su := range Step(s, T, lm, slack) {
			verdicts = append(verdicts, fmt.Sprintf("drop=%t (%s)", su.Drop, strings.TrimPrefix(su.Why, "; ")))
			if observed != nil && su.Drop != *observed {
				continue
			}

			id := su.St.id()
			if !seen[id] {
				seen[id] = true
				next = append(next, su.St)
			}
		}
	}

	if len(next) == 0 {
		sort.Strings(verdicts)
		verdicts = slices.Compact(verdicts)

		return false, strings.Join(verdicts, " | ")
	}

	if len(next) > MaxStates {
		ks.Lost = true
		ks.States = nil

		return true, ""
	}

	ks.States = next

	return true, ""
}

func (ks *KeySet) AllStrictLate() bool {
	if ks.Lost || len(ks.States) == 0 {
		return false
	}

	for _, s := range ks.States {
		if !s.StrictLate {
			return false
		}
	}

	return true
}

func (ks *KeySet) ClearStrictLate() {
	for _, s := range ks.States {
		s.StrictLate = false
	}
}
