//go:build verif

package ratelimit

// C09 (a): RequestCounter is an exact sliding-window log.  See
// /verif/DESIGN.md, section 3, C09.

import (
	"strconv"
	"strings"
	"testing"
	"time"

	"pgregory.net/rapid"
	"verif.local/harness/vstat"
)

// vc09Window is the reference: a log of every event; an event at ts is above
// the limit iff at least num earlier events lie within [ts-ivl, ts].
type vc09Window struct {
	log []int64
	num int
	ivl int64
}

// add returns the verdict for an event at ts and records it.  Timestamps are
// non-decreasing, so the events within the window are a suffix of the log.
func (w *vc09Window) add(ts int64) (above bool) {
	n := 0
	for i := len(w.log) - 1; i >= 0 && n < w.num; i-- {
		if ts-w.log[i] > w.ivl {
			break
		}

		n++
	}

	w.log = append(w.log, ts)

	return n >= w.num
}

// vc09RunSeq feeds the gap sequence to a fresh counter and to the reference and
// reports the first disagreement.  The returned pattern has one byte per event:
// 'D' above the limit, 'p' not.
func vc09RunSeq(num uint, ivl time.Duration, t0 int64, gaps []int64, pat []byte) (bad int, got bool, outPat []byte) {
	r := NewRequestCounter(num, ivl)
	w := &vc09Window{num: int(num), ivl: int64(ivl)}
	ts := t0
	outPat = pat[:0]
	bad = -1
	for i, g := range gaps {
		ts += g
		want := w.add(ts)
		have := r.Add(time.Unix(0, ts))
		if have != want && bad < 0 {
			bad, got = i, have
		}

		if want {
			outPat = append(outPat, 'D')
		} else {
			outPat = append(outPat, 'p')
		}
	}

	return bad, got, outPat
}

// vc09Slid tells whether the result pattern contains an above-limit event
// followed, later, by one that is not: the window slid.
func vc09Slid(pat []byte) bool {
	i := strings.IndexByte(string(pat), 'D')

	return i >= 0 && strings.IndexByte(string(pat[i:]), 'p') >= 0
}

func vc09Alphabet(ivl int64) (a []int64) {
	seen := map[int64]bool{}
	for _, g := range []int64{0, 1, ivl / 2, ivl - 1, ivl, ivl + 1} {
		if g >= 0 && !seen[g] {
			seen[g] = true
			a = append(a, g)
		}
	}

	return a
}

func vc09SeqKey(num uint, ivl time.Duration, t0 int64, gaps []int64) string {
	var b strings.Builder
	b.WriteString(strconv.FormatUint(uint64(num), 10))
	b.WriteByte('/')
	b.WriteString(strconv.FormatInt(int64(ivl), 10))
	b.WriteByte('/')
	b.WriteString(strconv.FormatInt(t0, 10))
	for _, g := range gaps {
		b.WriteByte(',')
		b.WriteString(strconv.FormatInt(g, 10))
	}

	return b.String()
}

// vc09RealEpoch is a realistic time.Now().UnixNano().
const vc09RealEpoch = int64(1_790_000_000) * int64(time.Second)

func TestVerifC09CounterExhaustive(t *testing.T) {
	st := vstat.New("C09", "ratelimit.counter.exhaustive",
		"bounded-exhaustive: every gap sequence of fixed length over {0,1ns,ivl/2,ivl-1ns,ivl,ivl+1ns} x num 0..3 x first timestamp {1ns, ivl/2+1, realistic now} through RequestCounter.Add vs a sliding-window log; every prefix is checked; non-trivial = an above-limit event is followed by one that is not (the window slid), distinct by (num, ivl, t0, gaps)",
		"slid", "boundary-inclusive", "boundary-just-outside", "burst-equal-timestamps", "near-epoch", "num0")
	st.SetExhaustive()
	st.Finish(t)

	type scope struct {
		ivl time.Duration
		n   int
	}

	// The alphabet is relative to ivl, so 1 ms and 10 s are isomorphic to 1 s
	// up to integer division; 1 ns degenerates to {0,1,2} ns.
	scopes := []scope{{time.Second, vstat.Scale(7, 8)}, {time.Nanosecond, 8}, {time.Millisecond, vstat.Scale(5, 6)}, {10 * time.Second, vstat.Scale(5, 6)}}
	lens := map[string]int{}
	// The statistics keep one hash per distinct non-trivial case; beyond this
	// many the identities are no longer recorded (the driver caps them anyway),
	// only counted.
	const maxRecorded = 300_000
	var slidTotal, recorded int64
	for _, sc := range scopes {
		lens[sc.ivl.String()] = sc.n
		alpha := vc09Alphabet(int64(sc.ivl))
		idx := make([]int, sc.n)
		gaps := make([]int64, sc.n)
		pat := make([]byte, 0, sc.n)
		for {
			var hasEq, hasIn, hasOut bool
			for i, k := range idx {
				gaps[i] = alpha[k]
				hasEq = hasEq || (i > 0 && gaps[i] == 0)
				hasIn = hasIn || gaps[i] == int64(sc.ivl)
				hasOut = hasOut || gaps[i] == int64(sc.ivl)+1
			}

			for num := uint(0); num <= 3; num++ {
				for ti, t0 := range []int64{1, int64(sc.ivl)/2 + 1, vc09RealEpoch} {
					// The first gap is added to t0, so the first timestamp stays positive.
					bad, got, p := vc09RunSeq(num, sc.ivl, t0, gaps, pat)
					nt := ""
					cls := make([]string, 0, 6)
					if vc09Slid(p) {
						slidTotal++
						cls = append(cls, "slid")
						if recorded < maxRecorded {
							recorded++
							nt = vc09SeqKey(num, sc.ivl, t0, gaps)
						}
					}

					if hasEq {
						cls = append(cls, "burst-equal-timestamps")
					}

					if hasIn {
						cls = append(cls, "boundary-inclusive")
					}

					if hasOut {
						cls = append(cls, "boundary-just-outside")
					}

					if ti < 2 {
						cls = append(cls, "near-epoch")
					}

					if num == 0 {
						cls = append(cls, "num0")
					}

					st.Case(nt, cls...)
					if nt != "" && ti == 2 && num == 2 && st.WantSample() {
						st.Sample(map[string]any{"num": num, "ivl": sc.ivl.String(), "t0": t0, "gaps_ns": append([]int64(nil), gaps...), "verdicts": string(p)})
					}

					if bad >= 0 {
						t.Fatalf("RequestCounter(num=%d, ivl=%s): first timestamp base %d, gaps(ns) %v: event #%d: Add reported above=%t, sliding-window log says %t (verdicts by the log: %s)",
							num, sc.ivl, t0, gaps, bad, got, !got, p)
					}
				}
			}

			// next index vector
			i := sc.n - 1
			for ; i >= 0; i-- {
				idx[i]++
				if idx[i] < len(alpha) {
					break
				}

				idx[i] = 0
			}

			if i < 0 {
				break
			}
		}
	}

	st.Extra("sequence_length_by_interval", lens)
	st.Extra("nontrivial_sequences_total", slidTotal)
}

func TestVerifC09CounterRapid(t *testing.T) {
	st := vstat.New("C09", "ratelimit.counter.rapid",
		"rapid: num 0..8 (sometimes up to 40), ivl in {1ns,1ms,1s,10s,uniform}, 1..60 non-decreasing positive timestamps with gaps from {0,1ns,ivl/2,ivl-1ns,ivl,ivl+1ns,ivl/num-ish,uniform}, through RequestCounter.Add vs a sliding-window log; non-trivial = an above-limit event followed by one that is not, distinct by (num, ivl, t0, gaps)",
		"slid", "boundary-inclusive", "boundary-just-outside", "burst-equal-timestamps", "near-epoch", "long-history")
	st.Finish(t)

	rapid.Check(t, func(t *rapid.T) {
		num := uint(rapid.OneOf(rapid.IntRange(0, 8), rapid.IntRange(0, 8), rapid.IntRange(9, 40)).Draw(t, "num"))
		ivl := rapid.OneOf(
			rapid.SampledFrom([]int64{1, int64(time.Millisecond), int64(time.Second), int64(10 * time.Second)}),
			rapid.Int64Range(1, int64(time.Hour)),
		).Draw(t, "ivl")
		t0 := rapid.OneOf(
			rapid.SampledFrom([]int64{1, ivl/2 + 1, ivl, vc09RealEpoch}),
			rapid.Int64Range(1, 2*vc09RealEpoch),
		).Draw(t, "t0")
		n := rapid.OneOf(rapid.IntRange(1, 20), rapid.IntRange(int(num)+1, 2*int(num)+20)).Draw(t, "n")
		per := ivl / int64(num+1)
		gapGen := rapid.OneOf(
			rapid.SampledFrom([]int64{0, 0, 1, ivl / 2, ivl - 1, ivl, ivl + 1, per, per + 1}),
			rapid.Int64Range(0, 2*ivl),
		)
		gaps := make([]int64, n)
		var hasEq, hasIn, hasOut bool
		for i := range gaps {
			gaps[i] = gapGen.Draw(t, "gap")
			hasEq = hasEq || (i > 0 && gaps[i] == 0)
			hasIn = hasIn || gaps[i] == ivl
			hasOut = hasOut || gaps[i] == ivl+1
		}

		gaps[0] = 0
		bad, got, p := vc09RunSeq(num, time.Duration(ivl), t0, gaps, nil)
		nt := ""
		var cls []string
		if vc09Slid(p) {
			nt = vc09SeqKey(num, time.Duration(ivl), t0, gaps)
			cls = append(cls, "slid")
		}

		if hasEq {
			cls = append(cls, "burst-equal-timestamps")
		}

		if hasIn {
			cls = append(cls, "boundary-inclusive")
		}

		if hasOut {
			cls = append(cls, "boundary-just-outside")
		}

		if t0 <= ivl {
			cls = append(cls, "near-epoch")
		}

		if n > 2*(int(num)+1) {
			cls = append(cls, "long-history")
		}

		st.Case(nt, cls...)
		if nt != "" && st.WantSample() {
			st.Sample(map[string]any{"num": num, "ivl_ns": ivl, "t0": t0, "gaps_ns": gaps, "verdicts": string(p)})
		}

		if bad >= 0 {
			t.Fatalf("RequestCounter(num=%d, ivl=%s): first timestamp %d, gaps(ns) %v: event #%d: Add reported above=%t, sliding-window log says %t (verdicts by the log: %s)",
				num, time.Duration(ivl), t0, gaps, bad, got, !got, p)
		}
	})
}
