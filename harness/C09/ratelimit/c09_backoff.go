//go:build verif

package ratelimit

// C09 (b): Backoff is a per-subnet sliding window with backoff, allowlist,
// ANY refusal and response-size weighting.  See /verif/DESIGN.md, section 3,
// C09.
//
// Three drivers share the generators:
//
//   - frozen: intervals of one hour, so time does not move during a case and
//     the reference is an exact per-key counter model;
//   - sliding: the harness owns the clock by rewinding every stored instant
//     (ring timestamps, cache expirations) between events;
//   - realtime (thorough only): the same histories with real sleeps.
//
// The last two use a reference that is evaluated with interval arithmetic over
// the measured before/after instants of every call and that keeps the set of
// all states the statement allows; a verdict is a violation only if no allowed
// state explains it.

import (
	"context"
	"errors"
	"fmt"
	"net/netip"
	"sort"
	"strings"
	"testing"
	"time"

	"github.com/c2h5oh/datasize"
	"github.com/miekg/dns"
	"pgregory.net/rapid"
	"verif.local/harness/vstat"
)

// ---------------------------------------------------------------------------
// generators

// vc09Mask is the reference subnet key: family plus the address with
// everything after the first bits bits cleared.
func vc09Mask(ip netip.Addr, bits int) string {
	b := ip.AsSlice()
	for i := range b {
		switch {
		case bits >= 8*(i+1):
			// whole byte kept
		case bits <= 8*i:
			b[i] = 0
		default:
			b[i] &= ^byte(0xff >> (bits - 8*i))
		}
	}

	return fmt.Sprintf("%d:%x/%d", len(b), b, bits)
}

func vc09FlipBit(b []byte, pos int) {
	if pos >= 0 && pos < 8*len(b) {
		b[pos/8] ^= 0x80 >> (pos % 8)
	}
}

var (
	// The last base of each family is the all-zero address: a subnet key or an
	// allowlist entry that an uninitialised value would match.
	vc09Bases4 = []netip.Addr{netip.MustParseAddr("192.0.2.77"), netip.MustParseAddr("198.51.100.1"), netip.MustParseAddr("203.0.113.254"), netip.MustParseAddr("0.0.0.0")}
	vc09Bases6 = []netip.Addr{netip.MustParseAddr("2001:db8:0:1::1"), netip.MustParseAddr("2001:db8:ffff:ffff:8000::"), netip.MustParseAddr("2001:db8:1:2:3:4:5:6"), netip.MustParseAddr("::")}
)

// vc09DrawAddr builds an address near one of a few bases: bits around the key
// length are flipped so that "same subnet, other host" and "neighbouring
// subnet" are both frequent.
func vc09DrawAddr(t *rapid.T, kl4, kl6 int, p6 int) (ip netip.Addr) {
	is6 := rapid.IntRange(0, 99).Draw(t, "fam") < p6
	bases, kl := vc09Bases4, kl4
	if is6 {
		bases, kl = vc09Bases6, kl6
	}

	// Mostly the first base: floods need many events in one subnet.
	bi := rapid.SampledFrom([]int{0, 0, 0, 0, 0, 0, 1, 1, 2, 3}).Draw(t, "base")
	b := bases[bi].AsSlice()
	nbits := 8 * len(b)
	switch rapid.IntRange(0, 7).Draw(t, "variant") {
	case 0, 1, 2:
		// the base itself
	case 3:
		vc09FlipBit(b, kl) // first host bit: same subnet
	case 4:
		vc09FlipBit(b, nbits-1) // last bit: same subnet unless the key is the full address
	case 5:
		vc09FlipBit(b, kl-1) // last key bit: neighbouring subnet
	case 6:
		vc09FlipBit(b, rapid.IntRange(0, nbits-1).Draw(t, "bit"))
	case 7:
		vc09FlipBit(b, kl)
		vc09FlipBit(b, nbits-1)
	}

	ip, _ = netip.AddrFromSlice(b)

	return ip
}

func vc09DrawPrefixes(t *rapid.T, kl4, kl6 int, label string) (ps []netip.Prefix) {
	n := rapid.SampledFrom([]int{0, 0, 1, 1, 2, 3}).Draw(t, label+"N")
	for i := 0; i < n; i++ {
		ip := vc09DrawAddr(t, kl4, kl6, 35)
		var bits int
		if ip.Is4() {
			bits = rapid.SampledFrom([]int{32, 32, 31, 25, 24, 16}).Draw(t, label+"Bits")
		} else {
			bits = rapid.SampledFrom([]int{128, 128, 127, 65, 64, 48}).Draw(t, label+"Bits")
		}

		// Not masked, as in the documented configuration example.
		ps = append(ps, netip.PrefixFrom(ip, bits))
	}

	return ps
}

// vc09InPrefixes is the reference containment test: same family and equal
// after masking both to the prefix length (done by hand, not by net/netip).
func vc09InPrefixes(ip netip.Addr, lists ...[]netip.Prefix) bool {
	for _, l := range lists {
		for _, p := range l {
			if p.Addr().BitLen() == ip.BitLen() && vc09Mask(p.Addr(), p.Bits()) == vc09Mask(ip, p.Bits()) {
				return true
			}
		}
	}

	return false
}

// vc09Conf is a drawn limiter configuration.
type vc09Conf struct {
	Count     uint
	Lim4      uint
	Lim6      uint
	Ivl4      time.Duration
	Ivl6      time.Duration
	KL4       int
	KL6       int
	Period    time.Duration
	Duration  time.Duration
	Est       uint64
	RefuseANY bool
}

func (c *vc09Conf) String() string {
	return fmt.Sprintf("{backoff count=%d period=%s duration=%s; v4 %d/%s key /%d; v6 %d/%s key /%d; size estimate %d; refuse ANY %t}",
		c.Count, c.Period, c.Duration, c.Lim4, c.Ivl4, c.KL4, c.Lim6, c.Ivl6, c.KL6, c.Est, c.RefuseANY)
}

func (c *vc09Conf) keyOf(ip netip.Addr) (key string, lim int, ivl time.Duration) {
	if ip.Is4() {
		return vc09Mask(ip, c.KL4), int(c.Lim4), c.Ivl4
	}

	return vc09Mask(ip, c.KL6), int(c.Lim6), c.Ivl6
}

func (c *vc09Conf) build(al Allowlist) *Backoff {
	return NewBackoff(&BackoffConfig{
		Allowlist:            al,
		Period:               c.Period,
		Duration:             c.Duration,
		Count:                c.Count,
		ResponseSizeEstimate: datasize.ByteSize(c.Est),
		IPv4Count:            c.Lim4,
		IPv4Interval:         c.Ivl4,
		IPv4SubnetKeyLen:     c.KL4,
		IPv6Count:            c.Lim6,
		IPv6Interval:         c.Ivl6,
		IPv6SubnetKeyLen:     c.KL6,
		RefuseANY:            c.RefuseANY,
	})
}

func vc09DrawConfCommon(t *rapid.T) (c *vc09Conf) {
	c = &vc09Conf{
		Count:     uint(rapid.IntRange(1, 4).Draw(t, "backoffCount")),
		Lim4:      uint(rapid.IntRange(1, 5).Draw(t, "lim4")),
		KL4:       rapid.SampledFrom([]int{24, 24, 32, 31, 25, 16, 8, 1}).Draw(t, "kl4"),
		KL6:       rapid.SampledFrom([]int{64, 64, 48, 56, 65, 127, 128, 32}).Draw(t, "kl6"),
		Est:       uint64(rapid.SampledFrom([]int{60, 100, 512}).Draw(t, "est")),
		RefuseANY: rapid.Bool().Draw(t, "refuseANY"),
	}

	// Different limits for the families, so that a mix-up is visible.
	c.Lim6 = c.Lim4 + uint(rapid.IntRange(1, 3).Draw(t, "lim6delta"))
	if rapid.Bool().Draw(t, "lim6smaller") && c.Lim4 > 1 {
		c.Lim6 = c.Lim4 - 1
	}

	return c
}

func vc09Req(qt uint16) *dns.Msg {
	return &dns.Msg{
		MsgHdr:   dns.MsgHdr{Id: 7, RecursionDesired: true},
		Question: []dns.Question{{Name: "c09.example.", Qtype: qt, Qclass: dns.ClassINET}},
	}
}

// vc09Resp builds a response to req (question copied, no OPT) whose length
// as counted by the limiter, Msg.Len, is exactly size whenever size is at least
// 26 octets above the bare reply; otherwise the bare reply or the reply with
// one empty TXT record.
func vc09Resp(req *dns.Msg, size int) (resp *dns.Msg) {
	resp = (&dns.Msg{}).SetReply(req)
	if resp.Len() >= size {
		return resp
	}

	txt := &dns.TXT{
		Hdr: dns.RR_Header{Name: req.Question[0].Name, Rrtype: dns.TypeTXT, Class: dns.ClassINET, Ttl: 10},
		Txt: []string{""},
	}
	resp.Answer = append(resp.Answer, txt)
	for resp.Len() < size {
		last := len(txt.Txt) - 1
		room := 255 - len(txt.Txt[last])
		if room == 0 {
			txt.Txt = append(txt.Txt, "")

			continue
		}

		txt.Txt[last] += strings.Repeat("x", min(room, size-resp.Len()))
	}

	return resp
}

// vc09ReqPadded is vc09Req with an EDNS(0) padding option of pad octets, so
// that the request can be larger than its response.
func vc09ReqPadded(qt uint16, pad int) (req *dns.Msg) {
	req = vc09Req(qt)
	if pad > 0 {
		opt := &dns.OPT{Hdr: dns.RR_Header{Name: ".", Rrtype: dns.TypeOPT}}
		opt.SetUDPSize(1232)
		opt.Option = append(opt.Option, &dns.EDNS0_PADDING{Padding: make([]byte, pad)})
		req.Extra = append(req.Extra, opt)
	}

	return req
}

func vc09DrawQType(t *rapid.T) uint16 {
	return rapid.SampledFrom([]uint16{dns.TypeA, dns.TypeA, dns.TypeA, dns.TypeAAAA, dns.TypeTXT, dns.TypeANY}).Draw(t, "qtype")
}

func vc09DrawRespSize(t *rapid.T, est uint64) int {
	e := int(est)

	return rapid.SampledFrom([]int{0, 0, 0, e - 1, e, 2*e - 1, 2 * e, 3*e + 1, 6 * e}).Draw(t, "respSize")
}

// ---------------------------------------------------------------------------
// (b1) frozen time: exact counter model

type vc09FrozenKey struct {
	events int
	hits   int
}

type vc09FrozenModel struct {
	c          *vc09Conf
	persistent []netip.Prefix
	dynamic    []netip.Prefix
	keys       map[string]*vc09FrozenKey
}

// event is one countable event of ip with question type qt; it returns the
// verdict the statement prescribes.
func (m *vc09FrozenModel) event(ip netip.Addr, qt uint16) (drop, allowlisted bool, why string) {
	if m.c.RefuseANY && qt == dns.TypeANY {
		return true, false, "ANY refused for everyone"
	}

	if vc09InPrefixes(ip, m.persistent, m.dynamic) {
		return false, true, "allowlisted"
	}

	key, lim, _ := m.c.keyOf(ip)
	k := m.keys[key]
	if k == nil {
		k = &vc09FrozenKey{}
		m.keys[key] = k
	}

	if k.hits >= int(m.c.Count) {
		return true, false, fmt.Sprintf("subnet %s in backoff (%d hits >= %d)", key, k.hits, m.c.Count)
	}

	above := k.events >= lim
	why = fmt.Sprintf("subnet %s had %d events, limit %d", key, k.events, lim)
	k.events++
	if above {
		k.hits++
	}

	return above, false, why
}

// vc09FailingAllowlist is an allowlist whose source can be made to fail.
type vc09FailingAllowlist struct {
	inner *DynamicAllowlist
	err   error
}

func (a *vc09FailingAllowlist) IsAllowed(ctx context.Context, ip netip.Addr) (bool, error) {
	if a.err != nil {
		return false, a.err
	}

	return a.inner.IsAllowed(ctx, ip)
}

// vc09Op is one step of a frozen history, kept for the isolation replay.
type vc09Op struct {
	Kind    string // "init", "req", "update", "bad"
	IP      netip.Addr
	QType   uint16
	Size    int
	Dynamic []netip.Prefix

	drop, allow bool
}

func (o vc09Op) String() string {
	switch o.Kind {
	case "init":
		return fmt.Sprintf("initial dynamic allowlist %v", o.Dynamic)
	case "update":
		return fmt.Sprintf("Update(dynamic=%v)", o.Dynamic)
	case "bad":
		return "IsRateLimited(invalid address, or while the allowlist fails)"
	default:
		return fmt.Sprintf("query %s qtype=%d respsize=%d -> drop=%t allowlisted=%t", o.IP, o.QType, o.Size, o.drop, o.allow)
	}
}

func TestVerifC09BackoffFrozen(t *testing.T) {
	st := vstat.New("C09", "ratelimit.backoff.frozen",
		"rapid histories (query with optional counted response | allowlist Update | invalid address) against Backoff with 1h intervals (time frozen) vs an exact per-subnet counter model, plus replay of one subnet's projection on a fresh limiter (isolation); non-trivial = some query was dropped by the window or by backoff and a later query passed (other subnet, or allowlisted since), distinct by (config, history)",
		"dropped-then-later-pass", "backoff-entered", "dropped-in-backoff", "any-refused", "any-refused-allowlisted", "allowlisted-pass",
		"allowlisted-in-flooded-subnet", "update-flips-verdict", "large-response-counted", "response-exactly-estimate", "response-one-below-estimate", "same-subnet-other-host", "neighbour-subnet-unaffected", "v6", "zero-address", "allowlist-error", "client-ipv4-mapped", "isolation-replay")
	st.Finish(t)

	ctx := context.Background()
	rapid.Check(t, func(t *rapid.T) {
		c := vc09DrawConfCommon(t)
		c.Ivl4, c.Ivl6 = time.Hour, 2*time.Hour
		c.Period = rapid.SampledFrom([]time.Duration{time.Hour, 3 * time.Hour}).Draw(t, "period")
		c.Duration = rapid.SampledFrom([]time.Duration{time.Hour, 3 * time.Hour}).Draw(t, "duration")

		persistent := vc09DrawPrefixes(t, c.KL4, c.KL6, "persistent")
		dynamic := vc09DrawPrefixes(t, c.KL4, c.KL6, "dynamic")
		al := NewDynamicAllowlist(persistent, dynamic)
		fal := &vc09FailingAllowlist{inner: al}
		l := c.build(fal)
		m := &vc09FrozenModel{c: c, persistent: persistent, dynamic: dynamic, keys: map[string]*vc09FrozenKey{}}
		// Client addresses in IPv4-mapped form (::ffff:a.b.c.d) never reach the
		// limiter in the service (both middlewares unmap the remote address),
		// and neither the documentation nor the callers say which family's
		// settings apply to one given directly.  Two readings are followed: m
		// treats it as the IPv6 address it formally is (what the code does), mB
		// as the IPv4 client it stands for (one window with the plain form).  A
		// limiter must follow one of them throughout, and never fail.
		mB := &vc09FrozenModel{c: c, persistent: persistent, dynamic: dynamic, keys: map[string]*vc09FrozenKey{}}
		okA, okB, usedMapped := true, true, false
		mappedCase := rapid.IntRange(0, 3).Draw(t, "mappedCase") == 0

		ops := []vc09Op{{Kind: "init", Dynamic: dynamic}}
		hist := func() string {
			var b strings.Builder
			fmt.Fprintf(&b, "config %s persistent=%v dynamic=%v\n", c, persistent, dynamic)
			for i, o := range ops {
				fmt.Fprintf(&b, "  %2d %s\n", i, o)
			}

			return b.String()
		}

		classes := map[string]bool{}
		sawLimitDrop := false
		nontrivial := false
		firstHost := map[string]netip.Addr{}
		flooded := map[string]bool{}
		lastVerdict := map[netip.Addr]bool{}
		p6 := rapid.SampledFrom([]int{0, 30, 30, 100}).Draw(t, "p6")

		steps := rapid.IntRange(4, 40).Draw(t, "steps")
		for i := 0; i < steps; i++ {
			switch k := rapid.IntRange(0, 19).Draw(t, "op"); {
			case k == 0:
				dynamic = vc09DrawPrefixes(t, c.KL4, c.KL6, "dynamic")
				al.Update(dynamic)
				m.dynamic, mB.dynamic = dynamic, dynamic
				ops = append(ops, vc09Op{Kind: "update", Dynamic: dynamic})
			case k == 2:
				// The allowlist's source fails: the error is reported, nothing is
				// dropped and nothing is counted.
				fal.err = errors.New("scripted allowlist failure")
				ip := vc09DrawAddr(t, c.KL4, c.KL6, p6)
				drop, allow, err := l.IsRateLimited(ctx, vc09Req(dns.TypeA), ip)
				fal.err = nil
				ops = append(ops, vc09Op{Kind: "bad"})
				classes["allowlist-error"] = true
				if err == nil || drop || allow {
					t.Fatalf("allowlist failure for %s not reported (drop=%t allowlisted=%t err=%v)\n%s", ip, drop, allow, err, hist())
				}
			case k == 1:
				drop, allow, err := l.IsRateLimited(ctx, vc09Req(dns.TypeA), netip.Addr{})
				ops = append(ops, vc09Op{Kind: "bad"})
				if err == nil || drop || allow {
					t.Fatalf("invalid address accepted (drop=%t allowlisted=%t err=%v)\n%s", drop, allow, err, hist())
				}
			default:
				ip := vc09DrawAddr(t, c.KL4, c.KL6, p6)
				if mappedCase && ip.Is4() && rapid.IntRange(0, 2).Draw(t, "mapped") == 0 {
					ip = netip.AddrFrom16(ip.As16())
					usedMapped = true
					classes["client-ipv4-mapped"] = true
				}

				qt := vc09DrawQType(t)
				size := vc09DrawRespSize(t, c.Est)
				req := vc09Req(qt)
				key, _, _ := c.keyOf(ip)

				wantDrop, wantAllow, why := m.event(ip, qt)
				wantDropB, wantAllowB, whyB := mB.event(ip.Unmap(), qt)
				drop, allow, err := l.IsRateLimited(ctx, req, ip)
				op := vc09Op{Kind: "req", IP: ip, QType: qt, Size: size, drop: drop, allow: allow}
				ops = append(ops, op)
				if err != nil {
					t.Fatalf("unexpected error %v\n%s", err, hist())
				}

				okA = okA && drop == wantDrop && allow == wantAllow
				okB = okB && drop == wantDropB && allow == wantAllowB
				if !okA && !okB {
					if usedMapped {
						t.Fatalf("query #%d from %s qtype %d: limiter says drop=%t allowlisted=%t; with IPv4-mapped clients taken as IPv6 addresses the statement says drop=%t allowlisted=%t (%s), taken as the IPv4 clients they stand for drop=%t allowlisted=%t (%s); neither reading explains the whole history\n%s",
							len(ops)-1, ip, qt, drop, allow, wantDrop, wantAllow, why, wantDropB, wantAllowB, whyB, hist())
					}

					t.Fatalf("query #%d from %s qtype %d: limiter says drop=%t allowlisted=%t, the statement says drop=%t allowlisted=%t (%s)\n%s",
						len(ops)-1, ip, qt, drop, allow, wantDrop, wantAllow, why, hist())
				}

				// classes
				isANYRefused := c.RefuseANY && qt == dns.TypeANY
				inAL := vc09InPrefixes(ip, persistent, dynamic)
				switch {
				case isANYRefused:
					classes["any-refused"] = true
					if inAL {
						classes["any-refused-allowlisted"] = true
					}
				case allow:
					classes["allowlisted-pass"] = true
					if flooded[key] {
						classes["allowlisted-in-flooded-subnet"] = true
					}
				case drop:
					sawLimitDrop = true
					flooded[key] = true
					if strings.Contains(why, "in backoff") {
						classes["dropped-in-backoff"] = true
					} else if k := m.keys[key]; k != nil && k.hits >= int(c.Count) {
						classes["backoff-entered"] = true
					}
				}

				if !drop && !isANYRefused {
					if sawLimitDrop {
						nontrivial = true
						classes["dropped-then-later-pass"] = true
					}

					if !allow {
						for fk := range flooded {
							if fk != key && fk[:2] == key[:2] {
								classes["neighbour-subnet-unaffected"] = true
							}
						}
					}
				}

				if prev, ok := lastVerdict[ip]; ok && !isANYRefused && prev != allow {
					classes["update-flips-verdict"] = true
				}

				if !isANYRefused {
					lastVerdict[ip] = allow
				}

				if fh, ok := firstHost[key]; !ok {
					firstHost[key] = ip
				} else if fh != ip && !allow && !isANYRefused {
					classes["same-subnet-other-host"] = true
				}

				if ip.Is6() {
					classes["v6"] = true
				}

				if ip.IsUnspecified() {
					classes["zero-address"] = true
				}

				// The caller counts the response of every query that passed and was
				// not allowlisted.
				if !drop && !allow && size > 0 {
					resp := vc09Resp(req, size)
					extra := uint64(resp.Len()) / c.Est
					l.CountResponses(ctx, resp, ip)
					for j := uint64(0); j < extra; j++ {
						m.event(ip, qt)
						mB.event(ip.Unmap(), qt)
					}

					if extra > 0 {
						classes["large-response-counted"] = true
					}

					switch uint64(resp.Len()) % c.Est {
					case 0:
						classes["response-exactly-estimate"] = true
					case c.Est - 1:
						classes["response-one-below-estimate"] = true
					}
				}
			}
		}

		// Isolation: the verdicts of one subnet are a function of that subnet's
		// own events (and of the allowlist) only.
		var keysSeen []string
		for k := range firstHost {
			keysSeen = append(keysSeen, k)
		}

		sort.Strings(keysSeen)
		if usedMapped {
			// Which addresses share a subnet depends on the reading.
			switch {
			case okA && !okB:
				classes["ipv4-mapped-taken-as-ipv6-address"] = true
			case okB && !okA:
				classes["ipv4-mapped-taken-as-ipv4-client"] = true
			}
		} else {
			vc09IsolationReplay(t, st, c, persistent, ops, keysSeen, classes, hist)
		}

		var cl []string
		for k := range classes {
			cl = append(cl, k)
		}

		sort.Strings(cl)
		nt := ""
		if nontrivial {
			nt = hist()
		}

		st.Case(nt, cl...)
		if nontrivial && classes["backoff-entered"] && st.WantSample() {
			st.Sample(strings.Split(hist(), "\n"))
		}
	})
}

// vc09IsolationReplay replays, on a fresh limiter, only the queries of one
// subnet (plus every allowlist update) and requires the same verdicts.
func vc09IsolationReplay(t *rapid.T, st *vstat.Stats, c *vc09Conf, persistent []netip.Prefix, ops []vc09Op, keys []string, classes map[string]bool, hist func() string) {
	if len(keys) < 2 {
		return
	}

	// ops starts with the "init" pseudo-op carrying the initial dynamic list.
	pick := keys[rapid.IntRange(0, len(keys)-1).Draw(t, "isoKey")]
	ctx := context.Background()
	var al *DynamicAllowlist
	var l *Backoff
	for i, o := range ops {
		switch o.Kind {
		case "init":
			al = NewDynamicAllowlist(persistent, o.Dynamic)
			l = c.build(al)
		case "update":
			al.Update(o.Dynamic)
		case "req":
			if k, _, _ := c.keyOf(o.IP); k != pick {
				continue
			}

			req := vc09Req(o.QType)
			drop, allow, err := l.IsRateLimited(ctx, req, o.IP)
			if err != nil || drop != o.drop || allow != o.allow {
				t.Fatalf("isolation: query #%d from %s (subnet %s) got drop=%t allowlisted=%t in the full history but drop=%t allowlisted=%t (err %v) when only this subnet's queries are replayed on a fresh limiter\n%s",
					i, o.IP, pick, o.drop, o.allow, drop, allow, err, hist())
			}

			if !drop && !allow && o.Size > 0 {
				l.CountResponses(ctx, vc09Resp(req, o.Size), o.IP)
			}
		}
	}

	if l != nil {
		classes["isolation-replay"] = true
	}
}
