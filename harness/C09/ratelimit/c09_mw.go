//go:build verif

package ratelimit

// C09 (c, dnsserver part): ratelimit.Middleware turns the limiter's verdict
// into "next handler not called and nothing written", counts responses, and
// honours the protocol gate.  See /verif/DESIGN.md, section 3, C09.

import (
	"context"
	"errors"
	"fmt"
	"net"
	"net/netip"
	"sort"
	"strings"
	"testing"
	"time"

	"github.com/AdguardTeam/AdGuardDNS/internal/dnsserver"
	"github.com/miekg/dns"
	"pgregory.net/rapid"
	"verif.local/harness/vstat"
)

// vc09RW records what is written to the client.
type vc09RW struct {
	local, remote net.Addr
	written       []*dns.Msg
	writeErr      error
	attempts      int
}

func (w *vc09RW) LocalAddr() net.Addr  { return w.local }
func (w *vc09RW) RemoteAddr() net.Addr { return w.remote }
func (w *vc09RW) WriteMsg(_ context.Context, _, resp *dns.Msg) error {
	w.attempts++
	if w.writeErr != nil {
		return w.writeErr
	}

	w.written = append(w.written, resp)

	return nil
}

// vc09Next is the wrapped handler: it records the call and answers as scripted.
type vc09Next struct {
	calls    int
	respSize int // <0: write nothing
	err      error
	lastResp *dns.Msg
	sawAddr  net.Addr
}

func (h *vc09Next) ServeDNS(ctx context.Context, rw dnsserver.ResponseWriter, req *dns.Msg) error {
	h.calls++
	h.sawAddr = rw.RemoteAddr()
	if h.err != nil {
		return h.err
	}

	if h.respSize < 0 {
		h.lastResp = nil

		return nil
	}

	h.lastResp = vc09Resp(req, h.respSize)

	return rw.WriteMsg(ctx, req, h.lastResp)
}

// vc09Scripted is a limiter that answers as scripted and records its calls.
type vc09Scripted struct {
	drop, allow bool
	err         error
	asked       []netip.Addr
	counted     []netip.Addr
	countedMsgs []*dns.Msg
}

func (s *vc09Scripted) IsRateLimited(_ context.Context, _ *dns.Msg, ip netip.Addr) (bool, bool, error) {
	s.asked = append(s.asked, ip)

	return s.drop, s.allow, s.err
}

func (s *vc09Scripted) CountResponses(_ context.Context, resp *dns.Msg, ip netip.Addr) {
	s.counted = append(s.counted, ip)
	s.countedMsgs = append(s.countedMsgs, resp)
}

// vc09Remote builds the client's address; form selects how a v4 address is
// represented (4 bytes or v4-mapped 16 bytes) and UDP or TCP.
func vc09Remote(ip netip.Addr, port int, form int) net.Addr {
	b := ip.AsSlice()
	if ip.Is4() && form&1 == 1 {
		b = net.IP(b).To16()
	}

	if form&2 == 2 {
		return &net.TCPAddr{IP: b, Port: port}
	}

	return &net.UDPAddr{IP: b, Port: port}
}

var vc09AllProtos = []dnsserver.Protocol{dnsserver.ProtoDNS, dnsserver.ProtoDoT, dnsserver.ProtoDoH, dnsserver.ProtoDoQ, dnsserver.ProtoDNSCrypt}

func TestVerifC09MiddlewareScripted(t *testing.T) {
	st := vstat.New("C09", "ratelimit.middleware.scripted",
		"rapid (protocol list x server protocol x client address form/port x scripted limiter verdict x scripted next handler) through ratelimit.Middleware.Wrap; oracle = decision table of the statement (drop => next not called and nothing written; allowlisted => passed through uncounted; pass => response counted once and written once); non-trivial = the limiter was consulted, distinct by the whole tuple",
		"drop-silent", "allowlisted-pass-through", "pass-counted", "pass-no-response", "proto-not-limited", "port0-spoof", "limiter-error", "next-error", "write-error", "request-larger-than-response", "v4-mapped-remote")
	st.Finish(t)

	rapid.Check(t, func(t *rapid.T) {
		var protos []dnsserver.Protocol
		switch rapid.IntRange(0, 3).Draw(t, "protoList") {
		case 0:
			// empty: applies to all protocols
		case 1, 2:
			protos = []dnsserver.Protocol{dnsserver.ProtoDNS}
		case 3:
			protos = []dnsserver.Protocol{dnsserver.ProtoDNS, dnsserver.ProtoDNSCrypt}
		}

		proto := rapid.SampledFrom(vc09AllProtos).Draw(t, "proto")
		enabled := len(protos) == 0
		for _, p := range protos {
			enabled = enabled || p == proto
		}

		ip := vc09DrawAddr(t, 24, 64, 30)
		port := rapid.SampledFrom([]int{0, 1, 53, 5353, 65535, 40000}).Draw(t, "port")
		form := rapid.IntRange(0, 3).Draw(t, "form")
		lim := &vc09Scripted{}
		switch rapid.IntRange(0, 9).Draw(t, "verdict") {
		case 0, 1, 2:
			lim.drop = true
		case 3, 4:
			lim.allow = true
		case 5:
			lim.err = errors.New("scripted limiter error")
		}

		next := &vc09Next{respSize: rapid.SampledFrom([]int{-1, 0, 0, 100, 700}).Draw(t, "respSize")}
		if rapid.IntRange(0, 7).Draw(t, "nextErr") == 0 {
			next.err = errors.New("scripted handler error")
		}

		mw, err := NewMiddleware(&MiddlewareConfig{RateLimit: lim, Protocols: protos})
		if err != nil {
			t.Fatalf("NewMiddleware: %v", err)
		}

		rw := &vc09RW{local: &net.UDPAddr{IP: net.IP{127, 0, 0, 1}, Port: 53}, remote: vc09Remote(ip, port, form)}
		if rapid.IntRange(0, 7).Draw(t, "writeErr") == 0 {
			rw.writeErr = errors.New("scripted write error")
		}

		ctx := dnsserver.ContextWithServerInfo(context.Background(), &dnsserver.ServerInfo{Name: "c09", Addr: "127.0.0.1:53", Proto: proto})
		// The request may be larger than the response (EDNS padding): it is the
		// response that is counted.
		req := vc09ReqPadded(vc09DrawQType(t), rapid.SampledFrom([]int{0, 0, 300, 1500}).Draw(t, "reqPad"))
		gotErr := mw.Wrap(next).ServeDNS(ctx, rw, req)

		desc := fmt.Sprintf("protocols=%v server=%v remote=%s(%T, %d-byte ip) limiter={drop:%t allow:%t err:%v} next={respSize:%d err:%v} reqLen=%d writeErr=%v: got err=%v next.calls=%d written=%d asked=%v counted=%v",
			protos, proto, rw.remote, rw.remote, len(vc09IPBytes(rw.remote)), lim.drop, lim.allow, lim.err, next.respSize, next.err, req.Len(), rw.writeErr, gotErr, next.calls, len(rw.written), lim.asked, lim.counted)
		fail := func(f string, a ...any) { t.Fatalf("%s\n%s", fmt.Sprintf(f, a...), desc) }

		var cls []string
		nt := ""
		switch {
		case !enabled:
			cls = append(cls, "proto-not-limited")
			if len(lim.asked)+len(lim.counted) != 0 {
				fail("limiter used for a protocol that is not rate limited")
			}

			vc09ExpectNext(fail, next, rw, gotErr)
		case port == 0:
			cls = append(cls, "port0-spoof")
			if next.calls != 0 || len(rw.written) != 0 || gotErr != nil || len(lim.counted) != 0 {
				fail("query with source port 0 must be dropped silently")
			}
		default:
			nt = desc[:strings.Index(desc, ": got")]
			if len(lim.asked) != 1 || lim.asked[0] != ip {
				fail("limiter must be asked exactly once about %s", ip)
			}

			if form&1 == 1 && ip.Is4() {
				cls = append(cls, "v4-mapped-remote")
			}

			switch {
			case lim.err != nil:
				cls = append(cls, "limiter-error")
				if gotErr == nil || !errors.Is(gotErr, lim.err) || next.calls != 0 || len(rw.written) != 0 {
					fail("limiter error must be returned, nothing served")
				}
			case lim.drop:
				cls = append(cls, "drop-silent")
				if next.calls != 0 || len(rw.written) != 0 || gotErr != nil || len(lim.counted) != 0 {
					fail("dropped query must not reach the next handler and nothing may be written")
				}
			case lim.allow:
				cls = append(cls, "allowlisted-pass-through")
				if len(lim.counted) != 0 {
					fail("allowlisted client's response must not be counted")
				}

				vc09ExpectNext(fail, next, rw, gotErr)
			default:
				vc09ExpectNext(fail, next, rw, gotErr)
				switch {
				case next.err != nil:
					if len(lim.counted) != 0 {
						fail("no response, nothing to count")
					}
				case next.respSize < 0:
					cls = append(cls, "pass-no-response")
					if len(lim.counted) != 0 {
						fail("no response, nothing to count")
					}
				default:
					cls = append(cls, "pass-counted")
					if len(lim.counted) != 1 || lim.counted[0] != ip || lim.countedMsgs[0].Len() != next.lastResp.Len() {
						fail("the response must be counted exactly once for %s with its own size", ip)
					}

					if req.Len() > next.lastResp.Len() {
						cls = append(cls, "request-larger-than-response")
					}
				}
			}
		}

		if next.err != nil && next.calls > 0 {
			cls = append(cls, "next-error")
		}

		if rw.writeErr != nil && rw.attempts > 0 {
			cls = append(cls, "write-error")
		}

		st.Case(nt, cls...)
	})
}

func vc09IPBytes(a net.Addr) net.IP {
	switch a := a.(type) {
	case *net.UDPAddr:
		return a.IP
	case *net.TCPAddr:
		return a.IP
	}

	return nil
}

// vc09ExpectNext: the query was passed on: the next handler ran exactly once,
// its error (if any) came back, and exactly what it wrote reached the client.
func vc09ExpectNext(fail func(string, ...any), next *vc09Next, rw *vc09RW, gotErr error) {
	if next.calls != 1 {
		fail("next handler must be called exactly once")
	}

	if next.err != nil {
		if !errors.Is(gotErr, next.err) || len(rw.written) != 0 {
			fail("handler error must be returned and nothing written")
		}

		return
	}

	want := 0
	if next.respSize >= 0 {
		want = 1
	}

	if want == 1 && rw.writeErr != nil {
		if !errors.Is(gotErr, rw.writeErr) || rw.attempts != 1 {
			fail("the client writer's error must be returned after exactly one attempt")
		}

		return
	}

	if gotErr != nil {
		fail("unexpected error")
	}

	if len(rw.written) != want || (want == 1 && rw.written[0] != next.lastResp) {
		fail("client must receive exactly the response of the next handler (%d message(s))", want)
	}
}

// TestVerifC09MiddlewareBackoff drives the real Backoff through the middleware:
// what the client observes (response or silence) must follow the per-subnet
// counter model, including the weight of large responses.
func TestVerifC09MiddlewareBackoff(t *testing.T) {
	st := vstat.New("C09", "ratelimit.middleware.backoff",
		"rapid histories of queries (client address, qtype, protocol, response size of the wrapped handler) through ratelimit.Middleware with a real Backoff (1h intervals); oracle = per-subnet counter model on what the client observes; non-trivial = a query got no response and a later one did, distinct by (config, history)",
		"silence-then-later-response", "dropped", "large-response-counted", "request-weighs-more-than-response", "client-ipv4-mapped", "allowlisted-pass", "any-refused", "proto-not-limited")
	st.Finish(t)

	rapid.Check(t, func(t *rapid.T) {
		c := vc09DrawConfCommon(t)
		c.Ivl4, c.Ivl6, c.Period, c.Duration = time.Hour, time.Hour, time.Hour, time.Hour
		persistent := vc09DrawPrefixes(t, c.KL4, c.KL6, "persistent")
		m := &vc09FrozenModel{c: c, persistent: persistent, keys: map[string]*vc09FrozenKey{}}
		mw, _ := NewMiddleware(&MiddlewareConfig{RateLimit: c.build(NewDynamicAllowlist(persistent, nil)), Protocols: []dnsserver.Protocol{dnsserver.ProtoDNS}})

		var lines []string
		hist := func() string {
			return fmt.Sprintf("config %s persistent=%v\n  %s\n", c, persistent, strings.Join(lines, "\n  "))
		}

		classes := map[string]bool{}
		sawSilence, nontrivial := false, false
		p6 := rapid.SampledFrom([]int{0, 30, 100}).Draw(t, "p6")
		steps := rapid.IntRange(3, 30).Draw(t, "steps")
		for i := 0; i < steps; i++ {
			ip := vc09DrawAddr(t, c.KL4, c.KL6, p6)
			qt := vc09DrawQType(t)
			proto := rapid.SampledFrom([]dnsserver.Protocol{dnsserver.ProtoDNS, dnsserver.ProtoDNS, dnsserver.ProtoDNS, dnsserver.ProtoDoT}).Draw(t, "proto")
			next := &vc09Next{respSize: vc09DrawRespSize(t, c.Est)}
			form := rapid.IntRange(0, 3).Draw(t, "form")
			rw := &vc09RW{local: &net.UDPAddr{IP: net.IP{127, 0, 0, 1}, Port: 53}, remote: vc09Remote(ip, 5353, form)}
			if form&1 == 1 && ip.Is4() && proto == dnsserver.ProtoDNS {
				// The remote address is ::ffff:a.b.c.d, as a dual-stack socket
				// reports it; the middleware unmaps it, so it is the same IPv4
				// client as in plain form, with the same window.
				classes["client-ipv4-mapped"] = true
			}

			ctx := dnsserver.ContextWithServerInfo(context.Background(), &dnsserver.ServerInfo{Name: "c09", Addr: "127.0.0.1:53", Proto: proto})
			req := vc09ReqPadded(qt, rapid.SampledFrom([]int{0, 0, 0, int(c.Est), 3 * int(c.Est)}).Draw(t, "reqPad"))
			err := mw.Wrap(next).ServeDNS(ctx, rw, req)
			lines = append(lines, fmt.Sprintf("%2d %v query %s qtype=%d reqlen=%d handler-respsize=%d -> next.calls=%d responses=%d err=%v", i, proto, ip, qt, req.Len(), next.respSize, next.calls, len(rw.written), err))
			if err != nil {
				t.Fatalf("unexpected error\n%s", hist())
			}

			wantDrop, why := false, "protocol is not rate limited"
			if proto == dnsserver.ProtoDNS {
				var allow bool
				wantDrop, allow, why = m.event(ip, qt)
				if !wantDrop && !allow {
					extra := uint64(next.lastRespLen(req)) / c.Est
					for j := uint64(0); j < extra; j++ {
						m.event(ip, qt)
					}

					if extra > 0 {
						classes["large-response-counted"] = true
					}

					if uint64(req.Len())/c.Est > extra {
						classes["request-weighs-more-than-response"] = true
					}
				}

				switch {
				case c.RefuseANY && qt == dns.TypeANY:
					classes["any-refused"] = true
				case allow:
					classes["allowlisted-pass"] = true
				case wantDrop:
					classes["dropped"] = true
				}
			} else {
				classes["proto-not-limited"] = true
			}

			if wantDrop {
				sawSilence = true
				if next.calls != 0 || len(rw.written) != 0 {
					t.Fatalf("query #%d must be dropped without a response (%s) but next.calls=%d responses=%d\n%s", i, why, next.calls, len(rw.written), hist())
				}
			} else {
				if next.calls != 1 || len(rw.written) != 1 {
					t.Fatalf("query #%d must be answered (%s) but next.calls=%d responses=%d\n%s", i, why, next.calls, len(rw.written), hist())
				}

				if sawSilence {
					nontrivial = true
					classes["silence-then-later-response"] = true
				}
			}
		}

		var cl []string
		for k := range classes {
			cl = append(cl, k)
		}

		sort.Strings(cl)
		nt := ""
		if nontrivial {
			nt = hist()
		}

		st.Case(nt, cl...)
	})
}

// lastRespLen is the packed length of the response the handler wrote (or would
// write) for req.
func (h *vc09Next) lastRespLen(req *dns.Msg) int {
	if h.lastResp != nil {
		return h.lastResp.Len()
	}

	return vc09Resp(req, h.respSize).Len()
}
