//go:build verif

package ratelimit

// C09, slow handlers in real time: a query whose (large) response takes a
// noticeable share of the interval to produce.  Every event counts at the
// moment the limiter is called: the query when it arrives, the extra events of
// its response when the response is counted, i.e. after the handler has
// finished.  The contexts carry dnsserver.RequestInfo with the arrival time,
// as behind a real server.
//
// Timeline of a case (interval 1 s): the slow query arrives at t0, its
// response is counted at t0+d; probes are sent between t0+1s and t0+d+1s, when
// the query itself has left the window and the response events have not.  The
// reference is the shared allowed-state model over measured instants (the
// limiter is called somewhere between the start of ServeDNS and the start of
// the handler, the response is counted somewhere between the end of the
// handler and the return of ServeDNS), so a slow machine widens the intervals
// and can make a verdict undecided, never wrong.

import (
	"context"
	"fmt"
	"net"
	"net/netip"
	"sort"
	"strings"
	"testing"
	"time"

	"github.com/AdguardTeam/AdGuardDNS/internal/dnsserver"
	"github.com/miekg/dns"
	"pgregory.net/rapid"
	"verif.local/harness/vstat"
)

func TestVerifC09SlowHandler(t *testing.T) {
	st := vstat.New("C09", "ratelimit.slowhandler",
		"rapid, real time, few cases: through ratelimit.Middleware with a real Backoff (interval 1 s) and contexts carrying dnsserver.RequestInfo{StartTime: arrival}: one query whose handler takes 0/30/40/80 % of the interval before writing a response worth 1..limit extra events, then a burst of probes from the same subnet placed between (arrival + interval) and (response counted + interval), at least 60 ms from both; reference = shared allowed-state model over measured instants with every event at the time the limiter was called; non-trivial = the probes were decided by the response events alone, distinct by (limit, extra events, delay, backoff count)",
		"large-response-counted-after-slow-handler-with-boundary-probe")
	st.Finish(t)

	const (
		ivl  = time.Second
		band = 60 * time.Millisecond
		est  = 100
	)

	rapid.Check(t, func(t *rapid.T) {
		lim := rapid.IntRange(2, 4).Draw(t, "limit")
		extra := rapid.IntRange(1, lim).Draw(t, "extraEvents")
		delay := time.Duration(rapid.SampledFrom([]int{30, 40, 80, 30, 40, 80, 0}).Draw(t, "delayPercent")) * ivl / 100
		count := rapid.SampledFrom([]int{2, 3, 50}).Draw(t, "backoffCount")
		where := rapid.SampledFrom([]int{30, 50, 70}).Draw(t, "probePositionPercent")
		c := &vc09Conf{
			Count: uint(count), Lim4: uint(lim), Lim6: uint(lim) + 1, Ivl4: ivl, Ivl6: 2 * ivl,
			KL4: 24, KL6: 64, Period: 10 * time.Second, Duration: 10 * time.Second, Est: est,
		}
		mw, _ := NewMiddleware(&MiddlewareConfig{RateLimit: c.build(NewDynamicAllowlist(nil, nil)), Protocols: []dnsserver.Protocol{dnsserver.ProtoDNS}})
		lm := &vc09Limits{Lim: lim, Count: count, Ivl: int64(ivl), Period: int64(c.Period), Duration: int64(c.Duration), HitSpan: int64(c.Period)}
		ks := &vc09KeySet{States: []*vc09KeyState{{}}}

		ip := netip.MustParseAddr("192.0.2.77")
		var lines []string
		hist := func() string {
			return fmt.Sprintf("config %s\n  %s\n", c, strings.Join(lines, "\n  "))
		}

		// serve sends one query through the middleware; the handler sleeps d and
		// answers with a response of size octets.  It returns whether the client
		// got a response and the instants that bound the two limiter calls.
		serve := func(host byte, d time.Duration, size int) (answered bool, treq, tresp vc09T, respLen int) {
			var hstart, hend int64
			called := false
			next := dnsserver.HandlerFunc(func(ctx context.Context, rw dnsserver.ResponseWriter, req *dns.Msg) error {
				called = true
				hstart = time.Now().UnixNano()
				time.Sleep(d)
				resp := vc09Resp(req, size)
				respLen = resp.Len()
				hend = time.Now().UnixNano()

				return rw.WriteMsg(ctx, req, resp)
			})
			src := netip.AddrFrom4([4]byte{192, 0, 2, host})
			rw := &vc09RW{local: &net.UDPAddr{IP: net.IP{127, 0, 0, 1}, Port: 53}, remote: &net.UDPAddr{IP: src.AsSlice(), Port: 5353}}
			b := time.Now()
			ctx := dnsserver.ContextWithServerInfo(context.Background(), &dnsserver.ServerInfo{Name: "c09", Addr: "127.0.0.1:53", Proto: dnsserver.ProtoDNS})
			ctx = dnsserver.ContextWithRequestInfo(ctx, &dnsserver.RequestInfo{StartTime: b})
			err := mw.Wrap(next).ServeDNS(ctx, rw, vc09Req(dns.TypeA))
			a := time.Now().UnixNano()
			if err != nil {
				t.Fatalf("unexpected error %v\n%s", err, hist())
			}

			if called != (len(rw.written) == 1) {
				t.Fatalf("handler called=%t but %d responses written\n%s", called, len(rw.written), hist())
			}

			treq = vc09T{Lo: b.UnixNano(), Hi: a}
			if called {
				treq.Hi = max(hstart, treq.Lo)
				tresp = vc09T{Lo: hend, Hi: max(a, hend)}
			}

			return called, treq, tresp, respLen
		}

		judge := func(what string, treq vc09T, answered bool) {
			drop := !answered
			ok, allowed := ks.Apply(treq, lm, 0, &drop)
			lines = append(lines, fmt.Sprintf("%s at [%d..%d] -> answered=%t", what, treq.Lo, treq.Hi, answered))
			if !ok {
				t.Fatalf("%s from %s/24 (limit %d per %s): the client got answered=%t; with every event counted when the limiter was called the statement allows: %s\n%s",
					what, ip, lim, ivl, answered, allowed, hist())
			}
		}

		answered, t0, tresp, respLen := serve(77, delay, extra*est+5)
		judge(fmt.Sprintf("slow query (handler takes %s, response of %d octets = %d more events)", delay, respLen, respLen/est), t0, answered)
		if !answered {
			t.Fatalf("the first query of a subnet was dropped\n%s", hist())
		}

		for j := 0; j < respLen/est; j++ {
			ks.Apply(tresp, lm, 0, nil)
		}

		lines = append(lines, fmt.Sprintf("  its response was counted at [%d..%d]", tresp.Lo, tresp.Hi))

		// Probes: after the query has certainly left the window, before the
		// response events possibly have.
		zoneLo := t0.Hi + int64(ivl+band)
		zoneHi := tresp.Lo + int64(ivl-band)
		target := zoneLo + (zoneHi-zoneLo)*int64(where)/100
		if delay == 0 {
			target = t0.Hi + int64(ivl+band)
		}

		time.Sleep(time.Until(time.Unix(0, target)))
		decided := delay > 0
		for j := 0; j < lim-respLen/est+1; j++ {
			ans, tp, tpr, _ := serve(byte(78+j), 0, 0)
			judge(fmt.Sprintf("probe #%d", j), tp, ans)
			_ = tpr
			decided = decided && tp.Lo >= zoneLo && tp.Hi <= zoneHi
		}

		var cl []string
		nt := ""
		switch {
		case delay == 0:
			cl = append(cl, "control-no-delay")
		case decided:
			// The probes fell where only the response events were in the window,
			// at least the band away from both boundaries.
			cl = append(cl, "large-response-counted-after-slow-handler-with-boundary-probe")
			nt = fmt.Sprintf("%d/%d/%s/%d/%d", lim, respLen/est, delay, count, where)
		default:
			cl = append(cl, "timing-undecided")
		}

		sort.Strings(cl)
		st.Case(nt, cl...)
		if nt != "" && st.WantSample() {
			st.Sample(strings.Split(hist(), "\n"))
		}
	})
}
