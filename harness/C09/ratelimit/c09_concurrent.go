//go:build verif

package ratelimit

// C09, sampled concurrency (run under the race detector): clients of different
// subnets use one Backoff at the same time.  Each goroutine owns one subnet, so
// its verdicts must be exactly those of the per-subnet counter model whatever
// the other goroutines do; all goroutines also hammer one shared subnet, for
// which only what holds under every interleaving is asserted.

import (
	"context"
	"fmt"
	"net/netip"
	"sort"
	"sync"
	"testing"
	"time"

	"github.com/miekg/dns"
	"pgregory.net/rapid"
	"verif.local/harness/vstat"
)

type vc09ConcQuery struct {
	shared bool
	host   byte
	qt     uint16
	size   int

	drop, allow bool
	err         error
}

func TestVerifC09BackoffConcurrent(t *testing.T) {
	st := vstat.New("C09", "ratelimit.backoff.concurrent",
		"rapid scripts for 3..8 goroutines released together on one Backoff (1h intervals): each owns a subnet (v4 /24 or v6 /64) and also queries one shared subnet; schedules are sampled, not owned; oracle = per-subnet counter model replayed on each goroutine's own verdicts, at least min(limit, n) passes on the shared subnet, race detector; non-trivial = an own-subnet query was dropped while other goroutines were running, distinct by the scripts",
		"own-subnet-dropped", "own-subnet-backoff", "shared-subnet-flooded", "large-response-counted")
	st.Finish(t)

	ctx := context.Background()
	rapid.Check(t, func(t *rapid.T) {
		c := &vc09Conf{
			Count: uint(rapid.IntRange(1, 3).Draw(t, "backoffCount")),
			Lim4:  uint(rapid.IntRange(1, 4).Draw(t, "lim4")),
			Lim6:  uint(rapid.IntRange(1, 4).Draw(t, "lim6")),
			Ivl4:  time.Hour, Ivl6: time.Hour, Period: time.Hour, Duration: time.Hour,
			KL4: 24, KL6: 64, Est: 100,
			RefuseANY: rapid.Bool().Draw(t, "refuseANY"),
		}
		l := c.build(NewDynamicAllowlist(nil, nil))
		n := rapid.IntRange(3, 8).Draw(t, "goroutines")
		scripts := make([][]*vc09ConcQuery, n)
		for g := range scripts {
			k := rapid.IntRange(2, 14).Draw(t, "len")
			for i := 0; i < k; i++ {
				scripts[g] = append(scripts[g], &vc09ConcQuery{
					shared: rapid.IntRange(0, 3).Draw(t, "shared") == 0,
					host:   byte(rapid.IntRange(1, 3).Draw(t, "host")),
					qt:     rapid.SampledFrom([]uint16{dns.TypeA, dns.TypeA, dns.TypeA, dns.TypeANY}).Draw(t, "qtype"),
					size:   rapid.SampledFrom([]int{0, 0, 99, 100, 250}).Draw(t, "respSize"),
				})
			}
		}

		addr := func(g int, q *vc09ConcQuery) netip.Addr {
			switch {
			case q.shared:
				return netip.AddrFrom4([4]byte{172, 16, 0, q.host})
			case g%2 == 0:
				return netip.AddrFrom4([4]byte{10, byte(g), 0, q.host})
			default:
				return netip.AddrFrom16([16]byte{0x20, 0x01, 0x0d, 0xb8, 0, byte(g), 0, 0, 0, 0, 0, 0, 0, 0, 0, q.host})
			}
		}

		start := make(chan struct{})
		var wg sync.WaitGroup
		for g := range scripts {
			wg.Add(1)
			go func() {
				defer wg.Done()
				<-start
				for _, q := range scripts[g] {
					ip := addr(g, q)
					req := vc09Req(q.qt)
					if q.shared {
						// Shared-subnet queries are plain: A, no counted response.
						req = vc09Req(dns.TypeA)
					}

					q.drop, q.allow, q.err = l.IsRateLimited(ctx, req, ip)
					if !q.shared && q.err == nil && !q.drop && !q.allow && q.size > 0 {
						l.CountResponses(ctx, vc09Resp(req, q.size), ip)
					}
				}
			}()
		}

		close(start)
		wg.Wait()

		classSet := map[string]bool{}
		nt := ""
		sharedN, sharedPass := 0, 0
		for g, sc := range scripts {
			m := &vc09FrozenModel{c: c, keys: map[string]*vc09FrozenKey{}}
			for i, q := range sc {
				ip := addr(g, q)
				if q.err != nil {
					t.Fatalf("goroutine %d query %d from %s: unexpected error %v", g, i, ip, q.err)
				}

				if q.shared {
					sharedN++
					if !q.drop {
						sharedPass++
					}

					continue
				}

				wantDrop, wantAllow, why := m.event(ip, q.qt)
				if q.drop != wantDrop || q.allow != wantAllow {
					t.Fatalf("config %s, %d goroutines: goroutine %d (own subnet of %s), its query #%d qtype %d: limiter says drop=%t allowlisted=%t, the subnet's own history says drop=%t (%s); script of the goroutine: %s",
						c, n, g, ip, i, q.qt, q.drop, q.allow, wantDrop, why, vc09ConcScript(sc))
				}

				if !q.drop && !q.allow && q.size > 0 {
					req := vc09Req(q.qt)
					extra := uint64(vc09Resp(req, q.size).Len()) / c.Est
					for j := uint64(0); j < extra; j++ {
						m.event(ip, q.qt)
					}

					if extra > 0 {
						classSet["large-response-counted"] = true
					}
				}

				if q.drop && !(c.RefuseANY && q.qt == dns.TypeANY) {
					classSet["own-subnet-dropped"] = true
					nt = "x"
				}
			}

			for _, k := range m.keys {
				if k.hits >= int(c.Count) {
					classSet["own-subnet-backoff"] = true
				}
			}
		}

		// Shared subnet: concurrent first queries may each see an empty window, so
		// more than limit passes are not judged; fewer than min(limit, n) would
		// mean a query was dropped before the limit was reached.
		if want := min(int(c.Lim4), sharedN); sharedPass < want {
			t.Fatalf("config %s: shared subnet 172.16.0.0/24 got %d queries from %d goroutines, only %d passed, at least %d must", c, sharedN, n, sharedPass, want)
		}

		if sharedN > int(c.Lim4) {
			classSet["shared-subnet-flooded"] = true
			if sharedPass > int(c.Lim4) {
				classSet["shared-subnet-more-than-limit-passed"] = true
			}
		}

		if nt != "" {
			nt = fmt.Sprintf("%s %d", c, n)
			for _, sc := range scripts {
				nt += "|" + vc09ConcScript(sc)
			}
		}

		var classes []string
		for k := range classSet {
			classes = append(classes, k)
		}

		sort.Strings(classes)
		st.Case(nt, classes...)
	})
}

func vc09ConcScript(sc []*vc09ConcQuery) (s string) {
	for _, q := range sc {
		s += fmt.Sprintf("[shared=%t host=%d qtype=%d respsize=%d -> drop=%t]", q.shared, q.host, q.qt, q.size, q.drop)
	}

	return s
}
