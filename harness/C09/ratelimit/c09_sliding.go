//go:build verif

package ratelimit

// C09 (b2, b3): Backoff while time moves.  The harness either owns the clock
// (every stored instant is rewound between events) or, in the thorough tier,
// really sleeps.  In both cases the reference is evaluated over the measured
// wall-clock interval of every call, so a verdict never depends on how fast the
// machine is.

import (
	"context"
	"fmt"
	"net/netip"
	"sort"
	"strings"
	"sync/atomic"
	"testing"
	"time"

	"github.com/miekg/dns"
	"pgregory.net/rapid"
	vc09model "verif.local/harness/C09/model"
	"verif.local/harness/vstat"
)

// The reference itself lives in verif.local/harness/C09/model, shared with the
// configuration-plumbing part in package cmd.
type (
	vc09T        = vc09model.Instant
	vc09KeyState = vc09model.KeyState
	vc09Limits   = vc09model.Limits
	vc09KeySet   = vc09model.KeySet
)

// ---------------------------------------------------------------------------
// clock ownership

// vc09Rewind makes everything the limiter remembers d older: the timestamps in
// every subnet's ring and the expiry instants of both caches.  It returns an
// upper bound of the error it introduced (the two clock readings involved are
// not simultaneous).
func vc09Rewind(l *Backoff, d time.Duration) (slack int64) {
	start := time.Now()
	for k, it := range l.reqCounters.Items() {
		rc := it.Object.(*RequestCounter)
		rc.mu.Lock()
		var vals []int64
		rc.ring.Range(func(v int64) bool { vals = append(vals, v); return true })
		rc.ring.Clear()
		for _, v := range vals {
			rc.ring.Push(v - int64(d))
		}

		rc.mu.Unlock()
		left := time.Duration(it.Expiration-time.Now().UnixNano()) - d
		if left <= 0 {
			l.reqCounters.Delete(k)
		} else {
			l.reqCounters.Set(k, rc, left)
		}
	}

	for k, it := range l.hitCounters.Items() {
		left := time.Duration(it.Expiration-time.Now().UnixNano()) - d
		if left <= 0 {
			l.hitCounters.Delete(k)
		} else {
			l.hitCounters.Set(k, it.Object.(*atomic.Uint64), left)
		}
	}

	return int64(time.Since(start)) + 1
}

// ---------------------------------------------------------------------------
// driver

// vc09KnownHitSpan is the identity of the finding that Backoff counts
// over-limit hits together for backoff_duration after the first hit instead of
// within backoff_period (visible only when duration > period).
const vc09KnownHitSpan = "backoff-hits-counted-over-duration"

type vc09SlideRun struct {
	realtime bool
	unit     time.Duration // scale of all durations
}

func vc09SlidingCase(t *rapid.T, st *vstat.Stats, run vc09SlideRun) {
	ctx := context.Background()
	u := run.unit
	c := vc09DrawConfCommon(t)
	c.Ivl4 = time.Duration(rapid.SampledFrom([]int{10, 20}).Draw(t, "ivl4")) * u
	c.Ivl6 = time.Duration(rapid.SampledFrom([]int{30, 15}).Draw(t, "ivl6")) * u
	pd := []int{50, 100, 100, 20}
	c.Period = time.Duration(rapid.SampledFrom(pd).Draw(t, "period")) * u
	c.Duration = c.Period
	if rapid.IntRange(0, 2).Draw(t, "pdDiffer") == 0 {
		c.Duration = time.Duration(rapid.SampledFrom(pd).Draw(t, "duration")) * u
	}

	persistent := vc09DrawPrefixes(t, c.KL4, c.KL6, "persistent")
	if rapid.Bool().Draw(t, "noAllowlist") {
		persistent = nil
	}

	// A third of the cases start with a constructed flood: one subnet enters
	// backoff and keeps retrying above the limit until backoff has certainly
	// ended.  Short period/duration keep that history short.
	mode := rapid.SampledFrom([]string{"flood", "flood", "spread", "random", "random", "random"}).Draw(t, "mode")
	flood, spread := mode == "flood", mode == "spread"
	p6 := rapid.SampledFrom([]int{0, 0, 30, 100}).Draw(t, "p6")
	if spread {
		// Over-limit hits further apart than backoff_period but within
		// backoff_duration of the first: by the documentation they never add up.
		persistent, p6 = nil, 0
		c.Period, c.Duration = 20*u, 100*u
		c.Count = uint(rapid.IntRange(2, 3).Draw(t, "spreadCount"))
	}

	if flood {
		persistent = nil
		c.Period = time.Duration(rapid.SampledFrom([]int{20, 30}).Draw(t, "floodPeriod")) * u
		c.Duration = c.Period
		if rapid.IntRange(0, 3).Draw(t, "floodPDDiffer") == 0 {
			c.Duration = time.Duration(rapid.SampledFrom([]int{20, 30, 50}).Draw(t, "floodDuration")) * u
		}
	}

	l := c.build(NewDynamicAllowlist(persistent, nil))
	// Per subnet: the allowed states under the documented reading (hits are
	// counted together within backoff_period) and, where that differs, under
	// the reading the code implements (within backoff_duration after the first
	// hit).  The second only serves to recognise the recorded finding
	// vc09KnownHitSpan precisely; a verdict that neither explains is a
	// violation whatever is recorded.
	type keySets struct {
		ks, alt *vc09KeySet
	}

	sets := map[string]*keySets{}
	limits := func(ip netip.Addr) (key string, lm, lmAlt *vc09Limits) {
		key, lim, ivl := c.keyOf(ip)
		lm = &vc09Limits{Lim: lim, Count: int(c.Count), Ivl: int64(ivl), Period: int64(c.Period), Duration: int64(c.Duration), HitSpan: int64(c.Period)}
		if c.Duration > c.Period {
			a := *lm
			a.HitSpan = int64(c.Duration)
			lmAlt = &a
		}

		return key, lm, lmAlt
	}

	var offset, slack int64
	var lines []string
	hist := func() string {
		return fmt.Sprintf("config %s persistent=%v\n  %s\n", c, persistent, strings.Join(lines, "\n  "))
	}

	classes := map[string]bool{}
	dropped := map[string]bool{}
	// backoffDrops: per subnet, the instants of queries that were dropped while
	// every allowed state of the subnet was in backoff.  By the documentation
	// ("requests aren't allowed from client's subnet until backoff_duration
	// ends") they are not countable events.
	backoffDrops := map[string][]vc09T{}
	nontrivial := false
	jit := func(label string) time.Duration {
		return time.Duration(rapid.IntRange(1, 9).Draw(t, label)) * u / 10
	}

	budget := 60 * time.Second // real sleeping allowed per case
	if run.realtime {
		budget = 2500 * time.Millisecond
	}

	advance := func(label string, d time.Duration) {
		if d < 0 {
			d = 0
		}

		if run.realtime {
			if d > budget {
				d = budget
			}

			budget -= d
			time.Sleep(d)
		} else {
			slack += vc09Rewind(l, d)
			offset += int64(d)
		}

		lines = append(lines, fmt.Sprintf("%s +%s", label, d))
		if d > c.Period {
			classes["gap-over-period"] = true
		}
	}

	// query sends one query and judges the verdict; abort means that the case
	// cannot be judged any further.
	query := func(label string, ip netip.Addr, qt uint16, size int) (abort bool) {
		req := vc09Req(qt)
		key, lm, lmAlt := limits(ip)
		kss := sets[key]
		if kss == nil {
			kss = &keySets{ks: &vc09KeySet{States: []*vc09KeyState{{}}}}
			if lmAlt != nil {
				kss.alt = &vc09KeySet{States: []*vc09KeyState{{}}}
			}

			sets[key] = kss
		}

		if kss.alt == nil {
			lmAlt = nil
		}

		ks := kss.ks
		b := time.Now().UnixNano()
		drop, allow, err := l.IsRateLimited(ctx, req, ip)
		a := time.Now().UnixNano()
		T := vc09T{Lo: b + offset, Hi: a + offset}
		lines = append(lines, fmt.Sprintf("%s query %s (subnet %s) qtype=%d respsize=%d at [%d..%d] -> drop=%t allowlisted=%t", label, ip, key, qt, size, T.Lo, T.Hi, drop, allow))
		if err != nil {
			t.Fatalf("unexpected error %v\n%s", err, hist())
		}

		if a < b {
			// The wall clock stepped backwards: nothing can be said.
			st.Class("wall-clock-stepped")

			return true
		}

		switch {
		case c.RefuseANY && qt == dns.TypeANY:
			classes["any-refused"] = true
			if !drop || allow {
				t.Fatalf("ANY query not refused (drop=%t allowlisted=%t)\n%s", drop, allow, hist())
			}

			return false
		case vc09InPrefixes(ip, persistent):
			classes["allowlisted-pass"] = true
			if drop || !allow {
				t.Fatalf("allowlisted client %s: drop=%t allowlisted=%t\n%s", ip, drop, allow, hist())
			}

			return false
		case allow:
			t.Fatalf("client %s outside the allowlist reported as allowlisted\n%s", ip, hist())
		}

		wasInBackoff := !ks.Lost && len(ks.States) > 0
		for _, s := range ks.States {
			wasInBackoff = wasInBackoff && s.InBackoff
		}

		altOK := false
		if lmAlt != nil {
			altOK, _ = kss.alt.Apply(T, lmAlt, slack, &drop)
			altOK = altOK && !kss.alt.Lost
		}

		ok, allowed := ks.Apply(T, lm, slack, &drop)
		if !ok {
			if altOK && st.Known(vc09KnownHitSpan) {
				// Excluded, counted; the subnet is judged by the code's reading
				// from here on.
				classes["known-hits-counted-over-duration"] = true
				kss.ks, kss.alt = kss.alt, nil
				ks, lm = kss.ks, lmAlt
			} else {
				note := ""
				if altOK {
					note = "\n(the verdict is explained if over-limit hits are counted together within backoff_duration after the first hit instead of within backoff_period: finding " + vc09KnownHitSpan + ")"
				}

				t.Fatalf("query from %s (subnet %s, limit %d per %s): limiter says drop=%t; verdicts the statement allows here: %s%s\n%s",
					ip, key, lm.Lim, time.Duration(lm.Ivl), drop, allowed, note, hist())
			}
		} else if lmAlt != nil && !altOK {
			// The code's reading no longer explains the history: stop tracking it.
			kss.alt = nil
		}

		if ks.Lost {
			classes["ambiguity-overflow"] = true
		}

		if len(ks.States) > 1 {
			classes["several-explanations"] = true
		}

		if ks.AllStrictLate() {
			// Reported, not judged: see the package comment of vc09Step.
			classes["window-forgotten-after-period"] = true
			if st.WantSample() {
				st.Sample(map[string]any{"note": "query passed although the subnet had the limit within the interval: the per-subnet window object had outlived backoff_period and was dropped", "history": strings.Split(hist(), "\n")})
			}

			ks.ClearStrictLate()
		}

		if drop {
			dropped[key] = true
			if wasInBackoff {
				classes["dropped-in-backoff"] = true
				backoffDrops[key] = append(backoffDrops[key], T)
			}

			for _, s := range ks.States {
				if s.InBackoff {
					classes["backoff-entered"] = true
				}
			}
		} else {
			if dropped[key] {
				nontrivial = true
				classes["dropped-then-pass-same-subnet"] = true
			}

			// Served although at least limit queries of the subnet were dropped
			// by backoff within the interval before: those do not count.
			n := 0
			for _, bd := range backoffDrops[key] {
				if T.Hi-bd.Lo+slack <= lm.Ivl {
					n++
				}
			}

			if n > 0 {
				classes["served-after-backoff-with-backoff-drops-in-window"] = true
			}

			if n >= lm.Lim {
				classes["served-after-backoff-with-backoff-drops-filling-window"] = true
			}

			for dk := range dropped {
				if dk != key {
					classes["other-subnet-passes-during-flood"] = true
				}
			}
		}

		if ip.Is6() {
			classes["v6"] = true
		}

		if !drop && size > 0 {
			resp := vc09Resp(req, size)
			extra := uint64(resp.Len()) / c.Est
			b = time.Now().UnixNano()
			l.CountResponses(ctx, resp, ip)
			a = time.Now().UnixNano()
			T = vc09T{Lo: b + offset, Hi: a + offset}
			for j := uint64(0); j < extra; j++ {
				ks.Apply(T, lm, slack, nil)
				if kss.alt != nil {
					kss.alt.Apply(T, lmAlt, slack, nil)
				}
			}

			if extra > 0 {
				classes["large-response-counted"] = true
				lines = append(lines, fmt.Sprintf("   response of %d bytes counted as %d more events at [%d..%d]", resp.Len(), extra, T.Lo, T.Hi))
			}
		}

		return false
	}

	if flood {
		classes["constructed-flood"] = true
		ip := vc09DrawAddr(t, c.KL4, c.KL6, p6)
		_, lm, _ := limits(ip)
		ivl := time.Duration(lm.Ivl)
		// Enter backoff: limit queries pass, count more are over-limit hits, one
		// more is dropped by backoff.
		for j := 0; j < lm.Lim+lm.Count+1; j++ {
			if query("f0", ip, dns.TypeA, 0) {
				return
			}
		}

		// Keep retrying above the limit, in bursts less than an interval apart,
		// until period+duration (plus two intervals) have passed since backoff
		// was entered.  Whenever backoff ends, the subnet must be served again
		// although the bursts dropped by backoff lie within the interval.
		var elapsed time.Duration
		for it := 1; elapsed <= c.Period+c.Duration+2*ivl && it < 60; it++ {
			g := ivl/2 + ivl*time.Duration(rapid.IntRange(0, 4).Draw(t, "floodGap"))/10
			advance(fmt.Sprintf("f%d", it), g)
			elapsed += g
			burst := lm.Lim + 1 + rapid.IntRange(0, 1).Draw(t, "floodBurst")
			for j := 0; j < burst; j++ {
				if query(fmt.Sprintf("f%d", it), ip, dns.TypeA, 0) {
					return
				}
			}
		}
	}

	if spread {
		classes["hits-spread-beyond-period"] = true
		ip := vc09DrawAddr(t, c.KL4, c.KL6, 0)
		_, lm, _ := limits(ip)
		ivl := time.Duration(lm.Ivl)
		for h := 0; h < lm.Count; h++ {
			// limit queries pass, one more is an over-limit hit.
			for j := 0; j < lm.Lim+1; j++ {
				if query(fmt.Sprintf("s%d", h), ip, dns.TypeA, 0) {
					return
				}
			}

			if h < lm.Count-1 {
				advance(fmt.Sprintf("s%d", h), max(c.Period, ivl)+jit("spreadJ"))
			}
		}

		// The window is empty again and no two hits lie within one period: the
		// subnet must be served.
		advance("sp", ivl+jit("spreadJ"))
		if query("sp", ip, dns.TypeA, 0) {
			return
		}
	}

	steps := rapid.IntRange(6, 45).Draw(t, "steps")
	if flood || spread {
		steps = rapid.IntRange(0, 10).Draw(t, "stepsAfterScenario")
	}

	for i := 0; i < steps; i++ {
		label := fmt.Sprintf("%2d", i)
		if rapid.IntRange(0, 9).Draw(t, "op") < 3 {
			ivl := c.Ivl4
			if p6 == 100 || (p6 > 0 && rapid.Bool().Draw(t, "gapFam")) {
				ivl = c.Ivl6
			}

			var d time.Duration
			switch rapid.IntRange(0, 9).Draw(t, "gap") {
			case 0:
				d = jit("j")
			case 1:
				d = ivl/2 + jit("j")
			case 2, 3:
				d = ivl - jit("j")
			case 4, 5:
				d = ivl + jit("j")
			case 6:
				d = min(c.Period, c.Duration) - ivl - jit("j")
			case 7:
				d = c.Period + jit("j")
			case 8:
				d = c.Period + c.Duration + ivl + jit("j")
			case 9:
				d = time.Duration(rapid.Int64Range(0, int64(c.Period+c.Duration)).Draw(t, "gapUniform"))
			}

			advance(label, d)

			continue
		}

		if query(label, vc09DrawAddr(t, c.KL4, c.KL6, p6), vc09DrawQType(t), vc09DrawRespSize(t, c.Est)) {
			return
		}
	}

	var cl []string
	for k := range classes {
		cl = append(cl, k)
	}

	sort.Strings(cl)
	nt := ""
	if nontrivial {
		// Identity without the measured instants.
		var b strings.Builder
		b.WriteString(c.String())
		for _, ln := range lines {
			if i := strings.Index(ln, " at ["); i >= 0 {
				j := strings.Index(ln, "] -> ")
				ln = ln[:i] + ln[j+1:]
			}

			b.WriteString(ln)
		}

		nt = b.String()
	}

	st.Case(nt, cl...)
}

func TestVerifC09BackoffSliding(t *testing.T) {
	st := vstat.New("C09", "ratelimit.backoff.sliding",
		"rapid histories (query with optional counted response | clock advance by a gap around interval/period/duration boundaries; a third of the cases start with a constructed flood: one subnet enters backoff and keeps retrying above the limit in bursts less than an interval apart until period+duration have certainly passed; a sixth start with over-limit hits spread further apart than backoff_period but within backoff_duration, after which the subnet must still be served) against Backoff with the harness owning the clock (every stored instant rewound); reference = set of per-subnet states allowed by the statement, evaluated with interval arithmetic on measured call instants; non-trivial = a query of a subnet was dropped and a later query of the same subnet passed (window slid or backoff ended), distinct by (config, history)",
		"dropped-then-pass-same-subnet", "backoff-entered", "dropped-in-backoff", "served-after-backoff-with-backoff-drops-filling-window", "hits-spread-beyond-period", "other-subnet-passes-during-flood", "large-response-counted", "gap-over-period", "v6", "allowlisted-pass", "any-refused")
	st.Finish(t)

	rapid.Check(t, func(t *rapid.T) {
		vc09SlidingCase(t, st, vc09SlideRun{unit: 100 * time.Millisecond})
	})
}

func TestVerifC09BackoffRealtime(t *testing.T) {
	st := vstat.New("C09", "ratelimit.backoff.realtime",
		"as ratelimit.backoff.sliding but with real sleeps (intervals 100-300 ms, period/duration 0.2-1 s, at most 2.5 s of sleep per case); the reference only judges what is unambiguous given the measured instants",
		"dropped-then-pass-same-subnet", "backoff-entered", "served-after-backoff-with-backoff-drops-filling-window")
	st.Finish(t)

	rapid.Check(t, func(t *rapid.T) {
		vc09SlidingCase(t, st, vc09SlideRun{realtime: true, unit: 10 * time.Millisecond})
	})
}
