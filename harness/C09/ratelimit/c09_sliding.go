//go:build verif

package ratelimit

// C09 (b2, b3): Backoff while time moves.  The harness either owns the clock
// (every stored instant is rewound between events) or, in the thorough tier,
// really sleeps.  In both cases the reference is evaluated over the measured
// wall-clock interval of every call, so a verdict never depends on how fast the
// machine is.

import (
	"context"
	"fmt"
	"net/netip"
	"sort"
	"strings"
	"sync/atomic"
	"testing"
	"time"

	"github.com/miekg/dns"
	"pgregory.net/rapid"
	"verif.local/harness/vstat"
)

// vc09T is an instant of the harness clock known up to an interval.
type vc09T struct{ Lo, Hi int64 }

// vc09KeyState is one state of one subnet that the statement allows after the
// history so far.
type vc09KeyState struct {
	HasCtr     bool
	CtrCreated vc09T
	Log        []vc09T // the last limit events that went into the window, oldest first

	HasHit     bool
	HitCreated vc09T
	HitLast    vc09T
	Hits       int

	// StrictLate is set when this explanation needs the subnet's window to have
	// been forgotten (window object older than the backoff period) although
	// events within the interval were in it.
	StrictLate bool
}

func (s *vc09KeyState) clone() *vc09KeyState {
	c := *s
	c.Log = append([]vc09T(nil), s.Log...)

	return &c
}

func (s *vc09KeyState) id() string { return fmt.Sprintf("%+v", *s) }

type vc09Limits struct {
	lim      int
	count    int
	ivl      int64
	period   int64
	duration int64
}

type vc09Succ struct {
	st   *vc09KeyState
	drop bool
	why  string
}

// vc09Cmp compares now-then with d given an extra slack: mayLE reports that
// now-then <= d is possible, mayGT that now-then > d is possible.
func vc09Cmp(now, then vc09T, d, slack int64) (mayLE, mayGT bool) {
	minDiff := now.Lo - then.Hi - slack
	maxDiff := now.Hi - then.Lo + slack

	return minDiff <= d, maxDiff > d
}

// vc09Step returns every (state, verdict) the statement allows for an event at
// T in state s.
//
// What is fixed by the statement and asserted: events count for exactly the
// interval (boundary inclusive); every event that reached the window counts,
// dropped or not; a subnet whose over-limit hits reached the backoff count
// while all of them are at most min(period, duration) old is in backoff; after
// period+duration without a hit it is not; a subnet in backoff is dropped and
// such a query is not a countable event, neither for the window nor for the
// hit count (doc/configuration.md: requests "aren't allowed from client's
// subnet until backoff_duration ends", so once it has ended the subnet is
// served again however hard it retried meanwhile).  What the statement leaves open and is therefore allowed
// either way: whether hits older than that still count / backoff still lasts
// until period+duration after the last hit; whether the subnet's window is
// forgotten once the window object is older than the backoff period (the code
// does forget it; see the StrictLate class).
func vc09Step(s *vc09KeyState, T vc09T, lm *vc09Limits, slack int64) (out []vc09Succ) {
	type hitOpt struct {
		s   *vc09KeyState
		why string
	}

	var hitOpts []hitOpt
	if !s.HasHit {
		hitOpts = []hitOpt{{s, ""}}
	} else {
		_, mayOlder := vc09Cmp(T, s.HitCreated, min(lm.period, lm.duration), slack)
		mayWithin, _ := vc09Cmp(T, s.HitLast, lm.period+lm.duration, slack)
		if mayWithin {
			hitOpts = append(hitOpts, hitOpt{s, "hits kept"})
		}

		if mayOlder {
			c := s.clone()
			c.HasHit, c.Hits, c.HitCreated, c.HitLast = false, 0, vc09T{}, vc09T{}
			hitOpts = append(hitOpts, hitOpt{c, "hits expired"})
		}
	}

	for _, ho := range hitOpts {
		s1 := ho.s
		if s1.HasHit && s1.Hits >= lm.count {
			out = append(out, vc09Succ{s1, true, ho.why + "; in backoff"})

			continue
		}

		type ctrOpt struct {
			s     *vc09KeyState
			reset bool
		}

		ctrOpts := []ctrOpt{{s1, false}}
		if s1.HasCtr {
			if _, mayGT := vc09Cmp(T, s1.CtrCreated, lm.period, slack); mayGT {
				c := s1.clone()
				c.HasCtr, c.Log = false, nil
				ctrOpts = append(ctrOpts, ctrOpt{c, true})
			}
		}

		// keptAbove: what the kept window says, for the StrictLate mark.
		keptDefAbove := false
		for _, co := range ctrOpts {
			s2 := co.s
			var mayAbove, mayBelow bool
			switch {
			case lm.lim == 0:
				mayAbove = true
			case len(s2.Log) < lm.lim:
				mayBelow = true
			default:
				mayAbove, mayBelow = vc09Cmp(T, s2.Log[len(s2.Log)-lm.lim], lm.ivl, slack)
			}

			if !co.reset {
				keptDefAbove = mayAbove && !mayBelow
			}

			for _, above := range []bool{true, false} {
				if (above && !mayAbove) || (!above && !mayBelow) {
					continue
				}

				s3 := s2.clone()
				if !s3.HasCtr {
					s3.HasCtr, s3.CtrCreated = true, T
				}

				s3.Log = append(s3.Log, T)
				if keep := max(lm.lim, 1); len(s3.Log) > keep {
					s3.Log = s3.Log[len(s3.Log)-keep:]
				}

				why := ho.why
				if co.reset {
					why += "; window object expired"
					if !above && keptDefAbove {
						s3.StrictLate = true
					}
				}

				if above {
					if s3.HasHit {
						s3.Hits++
						s3.HitLast = T
					} else {
						s3.HasHit, s3.Hits, s3.HitCreated, s3.HitLast = true, 1, T, T
					}

					out = append(out, vc09Succ{s3, true, why + "; limit reached within the interval"})
				} else {
					out = append(out, vc09Succ{s3, false, why + "; below the limit"})
				}
			}
		}
	}

	return out
}

// vc09KeySet is the set of allowed states of one subnet.
type vc09KeySet struct {
	states []*vc09KeyState
	lost   bool // too many states: the subnet is no longer judged
}

const vc09MaxStates = 96

// apply advances the set by one event.  observed is nil for events whose
// verdict nobody sees (extra events of a large response).
func (ks *vc09KeySet) apply(T vc09T, lm *vc09Limits, slack int64, observed *bool) (ok bool, allowed string) {
	if ks.lost {
		return true, ""
	}

	seen := map[string]bool{}
	var next []*vc09KeyState
	var verdicts []string
	for _, s := range ks.states {
		for _, su := range vc09Step(s, T, lm, slack) {
			verdicts = append(verdicts, fmt.Sprintf("drop=%t (%s)", su.drop, strings.TrimPrefix(su.why, "; ")))
			if observed != nil && su.drop != *observed {
				continue
			}

			id := su.st.id()
			if !seen[id] {
				seen[id] = true
				next = append(next, su.st)
			}
		}
	}

	if len(next) == 0 {
		sort.Strings(verdicts)

		return false, strings.Join(verdicts, " | ")
	}

	if len(next) > vc09MaxStates {
		ks.lost = true
		ks.states = nil

		return true, ""
	}

	ks.states = next

	return true, ""
}

func (ks *vc09KeySet) allStrictLate() bool {
	if ks.lost || len(ks.states) == 0 {
		return false
	}

	for _, s := range ks.states {
		if !s.StrictLate {
			return false
		}
	}

	return true
}

func (ks *vc09KeySet) clearStrictLate() {
	for _, s := range ks.states {
		s.StrictLate = false
	}
}

// ---------------------------------------------------------------------------
// clock ownership

// vc09Rewind makes everything the limiter remembers d older: the timestamps in
// every subnet's ring and the expiry instants of both caches.  It returns an
// upper bound of the error it introduced (the two clock readings involved are
// not simultaneous).
func vc09Rewind(l *Backoff, d time.Duration) (slack int64) {
	start := time.Now()
	for k, it := range l.reqCounters.Items() {
		rc := it.Object.(*RequestCounter)
		rc.mu.Lock()
		var vals []int64
		rc.ring.Range(func(v int64) bool { vals = append(vals, v); return true })
		rc.ring.Clear()
		for _, v := range vals {
			rc.ring.Push(v - int64(d))
		}

		rc.mu.Unlock()
		left := time.Duration(it.Expiration-time.Now().UnixNano()) - d
		if left <= 0 {
			l.reqCounters.Delete(k)
		} else {
			l.reqCounters.Set(k, rc, left)
		}
	}

	for k, it := range l.hitCounters.Items() {
		left := time.Duration(it.Expiration-time.Now().UnixNano()) - d
		if left <= 0 {
			l.hitCounters.Delete(k)
		} else {
			l.hitCounters.Set(k, it.Object.(*atomic.Uint64), left)
		}
	}

	return int64(time.Since(start)) + 1
}

// ---------------------------------------------------------------------------
// driver

type vc09SlideRun struct {
	realtime bool
	unit     time.Duration // scale of all durations
}

func vc09SlidingCase(t *rapid.T, st *vstat.Stats, run vc09SlideRun) {
	ctx := context.Background()
	u := run.unit
	c := vc09DrawConfCommon(t)
	c.Ivl4 = time.Duration(rapid.SampledFrom([]int{10, 20}).Draw(t, "ivl4")) * u
	c.Ivl6 = time.Duration(rapid.SampledFrom([]int{30, 15}).Draw(t, "ivl6")) * u
	pd := []int{50, 100, 100, 20}
	c.Period = time.Duration(rapid.SampledFrom(pd).Draw(t, "period")) * u
	c.Duration = c.Period
	if rapid.IntRange(0, 2).Draw(t, "pdDiffer") == 0 {
		c.Duration = time.Duration(rapid.SampledFrom(pd).Draw(t, "duration")) * u
	}

	persistent := vc09DrawPrefixes(t, c.KL4, c.KL6, "persistent")
	if rapid.Bool().Draw(t, "noAllowlist") {
		persistent = nil
	}

	// A third of the cases start with a constructed flood: one subnet enters
	// backoff and keeps retrying above the limit until backoff has certainly
	// ended.  Short period/duration keep that history short.
	flood := rapid.IntRange(0, 2).Draw(t, "flood") == 0
	if flood {
		persistent = nil
		c.Period = time.Duration(rapid.SampledFrom([]int{20, 30}).Draw(t, "floodPeriod")) * u
		c.Duration = c.Period
		if rapid.IntRange(0, 3).Draw(t, "floodPDDiffer") == 0 {
			c.Duration = time.Duration(rapid.SampledFrom([]int{20, 30, 50}).Draw(t, "floodDuration")) * u
		}
	}

	l := c.build(NewDynamicAllowlist(persistent, nil))
	sets := map[string]*vc09KeySet{}
	limits := func(ip netip.Addr) (key string, lm *vc09Limits) {
		key, lim, ivl := c.keyOf(ip)

		return key, &vc09Limits{lim: lim, count: int(c.Count), ivl: int64(ivl), period: int64(c.Period), duration: int64(c.Duration)}
	}

	var offset, slack int64
	var lines []string
	hist := func() string {
		return fmt.Sprintf("config %s persistent=%v\n  %s\n", c, persistent, strings.Join(lines, "\n  "))
	}

	classes := map[string]bool{}
	dropped := map[string]bool{}
	// backoffDrops: per subnet, the instants of queries that were dropped while
	// every allowed state of the subnet was in backoff.  By the documentation
	// ("requests aren't allowed from client's subnet until backoff_duration
	// ends") they are not countable events.
	backoffDrops := map[string][]vc09T{}
	nontrivial := false
	p6 := rapid.SampledFrom([]int{0, 0, 30, 100}).Draw(t, "p6")
	jit := func(label string) time.Duration {
		return time.Duration(rapid.IntRange(1, 9).Draw(t, label)) * u / 10
	}

	budget := 60 * time.Second // real sleeping allowed per case
	if run.realtime {
		budget = 2500 * time.Millisecond
	}

	advance := func(label string, d time.Duration) {
		if d < 0 {
			d = 0
		}

		if run.realtime {
			if d > budget {
				d = budget
			}

			budget -= d
			time.Sleep(d)
		} else {
			slack += vc09Rewind(l, d)
			offset += int64(d)
		}

		lines = append(lines, fmt.Sprintf("%s +%s", label, d))
		if d > c.Period {
			classes["gap-over-period"] = true
		}
	}

	// query sends one query and judges the verdict; abort means that the case
	// cannot be judged any further.
	query := func(label string, ip netip.Addr, qt uint16, size int) (abort bool) {
		req := vc09Req(qt)
		key, lm := limits(ip)
		ks := sets[key]
		if ks == nil {
			ks = &vc09KeySet{states: []*vc09KeyState{{}}}
			sets[key] = ks
		}

		b := time.Now().UnixNano()
		drop, allow, err := l.IsRateLimited(ctx, req, ip)
		a := time.Now().UnixNano()
		T := vc09T{Lo: b + offset, Hi: a + offset}
		lines = append(lines, fmt.Sprintf("%s query %s (subnet %s) qtype=%d respsize=%d at [%d..%d] -> drop=%t allowlisted=%t", label, ip, key, qt, size, T.Lo, T.Hi, drop, allow))
		if err != nil {
			t.Fatalf("unexpected error %v\n%s", err, hist())
		}

		if a < b {
			// The wall clock stepped backwards: nothing can be said.
			st.Class("wall-clock-stepped")

			return true
		}

		switch {
		case c.RefuseANY && qt == dns.TypeANY:
			classes["any-refused"] = true
			if !drop || allow {
				t.Fatalf("ANY query not refused (drop=%t allowlisted=%t)\n%s", drop, allow, hist())
			}

			return false
		case vc09InPrefixes(ip, persistent):
			classes["allowlisted-pass"] = true
			if drop || !allow {
				t.Fatalf("allowlisted client %s: drop=%t allowlisted=%t\n%s", ip, drop, allow, hist())
			}

			return false
		case allow:
			t.Fatalf("client %s outside the allowlist reported as allowlisted\n%s", ip, hist())
		}

		wasInBackoff := !ks.lost && len(ks.states) > 0
		for _, s := range ks.states {
			wasInBackoff = wasInBackoff && s.HasHit && s.Hits >= lm.count
		}

		ok, allowed := ks.apply(T, lm, slack, &drop)
		if !ok {
			t.Fatalf("query from %s (subnet %s, limit %d per %s): limiter says drop=%t; verdicts the statement allows here: %s\n%s",
				ip, key, lm.lim, time.Duration(lm.ivl), drop, allowed, hist())
		}

		if ks.lost {
			classes["ambiguity-overflow"] = true
		}

		if len(ks.states) > 1 {
			classes["several-explanations"] = true
		}

		if ks.allStrictLate() {
			// Reported, not judged: see the package comment of vc09Step.
			classes["window-forgotten-after-period"] = true
			if st.WantSample() {
				st.Sample(map[string]any{"note": "query passed although the subnet had the limit within the interval: the per-subnet window object had outlived backoff_period and was dropped", "history": strings.Split(hist(), "\n")})
			}

			ks.clearStrictLate()
		}

		if drop {
			dropped[key] = true
			if wasInBackoff {
				classes["dropped-in-backoff"] = true
				backoffDrops[key] = append(backoffDrops[key], T)
			}

			for _, s := range ks.states {
				if s.HasHit && s.Hits >= lm.count {
					classes["backoff-entered"] = true
				}
			}
		} else {
			if dropped[key] {
				nontrivial = true
				classes["dropped-then-pass-same-subnet"] = true
			}

			// Served although at least limit queries of the subnet were dropped
			// by backoff within the interval before: those do not count.
			n := 0
			for _, bd := range backoffDrops[key] {
				if T.Hi-bd.Lo+slack <= lm.ivl {
					n++
				}
			}

			if n > 0 {
				classes["served-after-backoff-with-backoff-drops-in-window"] = true
			}

			if n >= lm.lim {
				classes["served-after-backoff-with-backoff-drops-filling-window"] = true
			}

			for dk := range dropped {
				if dk != key {
					classes["other-subnet-passes-during-flood"] = true
				}
			}
		}

		if ip.Is6() {
			classes["v6"] = true
		}

		if !drop && size > 0 {
			resp := vc09Resp(req, size)
			extra := uint64(resp.Len()) / c.Est
			b = time.Now().UnixNano()
			l.CountResponses(ctx, resp, ip)
			a = time.Now().UnixNano()
			T = vc09T{Lo: b + offset, Hi: a + offset}
			for j := uint64(0); j < extra; j++ {
				ks.apply(T, lm, slack, nil)
			}

			if extra > 0 {
				classes["large-response-counted"] = true
				lines = append(lines, fmt.Sprintf("   response of %d bytes counted as %d more events at [%d..%d]", resp.Len(), extra, T.Lo, T.Hi))
			}
		}

		return false
	}

	if flood {
		classes["constructed-flood"] = true
		ip := vc09DrawAddr(t, c.KL4, c.KL6, p6)
		_, lm := limits(ip)
		ivl := time.Duration(lm.ivl)
		// Enter backoff: limit queries pass, count more are over-limit hits, one
		// more is dropped by backoff.
		for j := 0; j < lm.lim+lm.count+1; j++ {
			if query("f0", ip, dns.TypeA, 0) {
				return
			}
		}

		// Keep retrying above the limit, in bursts less than an interval apart,
		// until period+duration (plus two intervals) have passed since backoff
		// was entered.  Whenever backoff ends, the subnet must be served again
		// although the bursts dropped by backoff lie within the interval.
		var elapsed time.Duration
		for it := 1; elapsed <= c.Period+c.Duration+2*ivl && it < 60; it++ {
			g := ivl/2 + ivl*time.Duration(rapid.IntRange(0, 4).Draw(t, "floodGap"))/10
			advance(fmt.Sprintf("f%d", it), g)
			elapsed += g
			burst := lm.lim + 1 + rapid.IntRange(0, 1).Draw(t, "floodBurst")
			for j := 0; j < burst; j++ {
				if query(fmt.Sprintf("f%d", it), ip, dns.TypeA, 0) {
					return
				}
			}
		}
	}

	steps := rapid.IntRange(6, 45).Draw(t, "steps")
	if flood {
		steps = rapid.IntRange(0, 10).Draw(t, "stepsAfterFlood")
	}

	for i := 0; i < steps; i++ {
		label := fmt.Sprintf("%2d", i)
		if rapid.IntRange(0, 9).Draw(t, "op") < 3 {
			ivl := c.Ivl4
			if p6 == 100 || (p6 > 0 && rapid.Bool().Draw(t, "gapFam")) {
				ivl = c.Ivl6
			}

			var d time.Duration
			switch rapid.IntRange(0, 9).Draw(t, "gap") {
			case 0:
				d = jit("j")
			case 1:
				d = ivl/2 + jit("j")
			case 2, 3:
				d = ivl - jit("j")
			case 4, 5:
				d = ivl + jit("j")
			case 6:
				d = min(c.Period, c.Duration) - ivl - jit("j")
			case 7:
				d = c.Period + jit("j")
			case 8:
				d = c.Period + c.Duration + ivl + jit("j")
			case 9:
				d = time.Duration(rapid.Int64Range(0, int64(c.Period+c.Duration)).Draw(t, "gapUniform"))
			}

			advance(label, d)

			continue
		}

		if query(label, vc09DrawAddr(t, c.KL4, c.KL6, p6), vc09DrawQType(t), vc09DrawRespSize(t, c.Est)) {
			return
		}
	}

	var cl []string
	for k := range classes {
		cl = append(cl, k)
	}

	sort.Strings(cl)
	nt := ""
	if nontrivial {
		// Identity without the measured instants.
		var b strings.Builder
		b.WriteString(c.String())
		for _, ln := range lines {
			if i := strings.Index(ln, " at ["); i >= 0 {
				j := strings.Index(ln, "] -> ")
				ln = ln[:i] + ln[j+1:]
			}

			b.WriteString(ln)
		}

		nt = b.String()
	}

	st.Case(nt, cl...)
}

func TestVerifC09BackoffSliding(t *testing.T) {
	st := vstat.New("C09", "ratelimit.backoff.sliding",
		"rapid histories (query with optional counted response | clock advance by a gap around interval/period/duration boundaries; a third of the cases start with a constructed flood: one subnet enters backoff and keeps retrying above the limit in bursts less than an interval apart until period+duration have certainly passed) against Backoff with the harness owning the clock (every stored instant rewound); reference = set of per-subnet states allowed by the statement, evaluated with interval arithmetic on measured call instants; non-trivial = a query of a subnet was dropped and a later query of the same subnet passed (window slid or backoff ended), distinct by (config, history)",
		"dropped-then-pass-same-subnet", "backoff-entered", "dropped-in-backoff", "served-after-backoff-with-backoff-drops-filling-window", "other-subnet-passes-during-flood", "large-response-counted", "gap-over-period", "v6", "allowlisted-pass", "any-refused")
	st.Finish(t)

	rapid.Check(t, func(t *rapid.T) {
		vc09SlidingCase(t, st, vc09SlideRun{unit: 100 * time.Millisecond})
	})
}

func TestVerifC09BackoffRealtime(t *testing.T) {
	st := vstat.New("C09", "ratelimit.backoff.realtime",
		"as ratelimit.backoff.sliding but with real sleeps (intervals 100-300 ms, period/duration 0.2-1 s, at most 2.5 s of sleep per case); the reference only judges what is unambiguous given the measured instants",
		"dropped-then-pass-same-subnet", "backoff-entered", "served-after-backoff-with-backoff-drops-filling-window")
	st.Finish(t)

	rapid.Check(t, func(t *rapid.T) {
		vc09SlidingCase(t, st, vc09SlideRun{realtime: true, unit: 10 * time.Millisecond})
	})
}
