//go:build verif

package ratelimitmw_test

// C09, sampled concurrency (run under the race detector): clients of different
// kinds (anonymous, own-limit profile, profile deferring to the global limit)
// and different subnets go through one ratelimitmw.Middleware at the same time.
// Every client owns its subnet and its profile, so what it observes must follow
// its own history alone, and the request information seen behind the middleware
// must be its own.

import (
	"context"
	"fmt"
	"net"
	"net/netip"
	"sort"
	"sync"
	"testing"
	"time"

	"github.com/AdguardTeam/AdGuardDNS/internal/agd"
	"github.com/AdguardTeam/AdGuardDNS/internal/agdtest"
	"github.com/AdguardTeam/AdGuardDNS/internal/dnsserver"
	"github.com/AdguardTeam/AdGuardDNS/internal/dnsserver/ratelimit"
	"github.com/c2h5oh/datasize"
	"github.com/miekg/dns"
	"pgregory.net/rapid"
	"verif.local/harness/vstat"
)

type vc09ConcQ struct {
	qt   uint16
	size int
	pad  int

	calls, written int
	err            error
	mismatch       string
}

type vc09ConcClient struct {
	ip   netip.Addr
	kind string // "anon", "own", "global-profile"
	rps  uint32
	res  agd.DeviceResult
	qs   []*vc09ConcQ
}

func TestVerifC09MwConcurrent(t *testing.T) {
	st := vstat.New("C09", "ratelimitmw.concurrent",
		"rapid scripts for 3..8 clients released together on one ratelimitmw.Middleware (real Backoff with 1h intervals, real agd.DefaultRatelimiter profiles; a case longer than 0.8 s is discarded unjudged): each client owns its subnet and is anonymous, or has a profile with its own limit, or a profile deferring to the global limit; schedules are sampled; oracle = per-client counter model on what that client observes, request info behind the middleware belongs to the client, race detector; non-trivial = some client was dropped, distinct by the scripts",
		"anon-dropped", "own-limit-dropped", "kinds-mixed")
	st.Finish(t)

	msgs := agdtest.NewConstructor(t)
	rapid.Check(t, func(t *rapid.T) {
		const est = 100
		lim4 := uint(rapid.IntRange(1, 4).Draw(t, "lim4"))
		lim6 := uint(rapid.IntRange(1, 4).Draw(t, "lim6"))
		count := uint(rapid.IntRange(1, 3).Draw(t, "backoffCount"))
		start := time.Now()
		glob := ratelimit.NewBackoff(&ratelimit.BackoffConfig{
			Allowlist: ratelimit.NewDynamicAllowlist(nil, nil),
			Period:    time.Hour, Duration: time.Hour, Count: count,
			ResponseSizeEstimate: est,
			IPv4Count:            lim4, IPv4Interval: time.Hour, IPv4SubnetKeyLen: 24,
			IPv6Count: lim6, IPv6Interval: time.Hour, IPv6SubnetKeyLen: 64,
		})

		n := rapid.IntRange(3, 8).Draw(t, "clients")
		clients := make([]*vc09ConcClient, n)
		byIP := map[netip.Addr]*vc09ConcClient{}
		kinds := map[string]bool{}
		for g := range clients {
			cl := &vc09ConcClient{kind: rapid.SampledFrom([]string{"anon", "anon", "own", "own", "global-profile"}).Draw(t, "kind")}
			if g%2 == 0 {
				cl.ip = netip.AddrFrom4([4]byte{10, byte(g), 0, 7})
			} else {
				cl.ip = netip.AddrFrom16([16]byte{0x20, 0x01, 0x0d, 0xb8, 0, byte(g), 0, 0, 0, 0, 0, 0, 0, 0, 0, 7})
			}

			switch cl.kind {
			case "own":
				cl.rps = uint32(rapid.IntRange(1, 5).Draw(t, "rps"))
				cl.res = vc09Profile(fmt.Sprint(g), agd.NewDefaultRatelimiter(&agd.RatelimitConfig{RPS: cl.rps, Enabled: true}, datasize.ByteSize(est)))
			case "global-profile":
				cl.res = vc09Profile(fmt.Sprint(g), agd.GlobalRatelimiter{})
			}

			kinds[cl.kind] = true
			k := rapid.IntRange(2, 10).Draw(t, "len")
			for i := 0; i < k; i++ {
				cl.qs = append(cl.qs, &vc09ConcQ{
					qt:   rapid.SampledFrom([]uint16{dns.TypeA, dns.TypeA, dns.TypeTXT}).Draw(t, "qtype"),
					size: rapid.SampledFrom([]int{0, 0, 99, 100, 250}).Draw(t, "respSize"),
					pad:  rapid.SampledFrom([]int{0, 0, 300}).Draw(t, "reqPad"),
				})
			}

			clients[g], byIP[cl.ip] = cl, cl
		}

		// The device finder answers by client address, as a dedicated or linked
		// address would.
		mwc := vc09EnvFinder(msgs, agd.ProtoDNS, glob, func(raddr netip.AddrPort) agd.DeviceResult {
			if cl := byIP[raddr.Addr()]; cl != nil {
				return cl.res
			}

			return nil
		})

		startCh := make(chan struct{})
		var wg sync.WaitGroup
		for _, cl := range clients {
			wg.Add(1)
			go func() {
				defer wg.Done()
				<-startCh
				for _, q := range cl.qs {
					next := dnsserver.HandlerFunc(func(ctx context.Context, rw dnsserver.ResponseWriter, req *dns.Msg) error {
						q.calls++
						ri, ok := agd.RequestInfoFromContext(ctx)
						switch {
						case !ok:
							q.mismatch = "no request info in the context"
						case ri.RemoteIP != cl.ip:
							q.mismatch = fmt.Sprintf("request info says remote ip %s", ri.RemoteIP)
						case ri.DeviceResult != cl.res:
							q.mismatch = fmt.Sprintf("request info carries device result %v, the client's is %v", ri.DeviceResult, cl.res)
						case ri.QType != q.qt:
							q.mismatch = fmt.Sprintf("request info says qtype %d", ri.QType)
						}

						return rw.WriteMsg(ctx, req, vc09Resp(req, q.size))
					})
					rw := &vc09RW{local: &net.UDPAddr{IP: net.IP{127, 0, 0, 1}, Port: 53}, remote: &net.UDPAddr{IP: cl.ip.AsSlice(), Port: 5353}}
					q.err = mwc.Wrap(next).ServeDNS(context.Background(), rw, vc09Req(q.qt, q.pad))
					q.written = len(rw.written)
				}
			}()
		}

		close(startCh)
		wg.Wait()
		if time.Since(start) > 800*time.Millisecond {
			st.Class("discarded-too-slow")

			return
		}

		classSet := map[string]bool{}
		if len(kinds) > 1 {
			classSet["kinds-mixed"] = true
		}

		nt := ""
		for g, cl := range clients {
			events, hits := 0, 0 // the client's own window (global subnet or profile)
			lim := int(lim4)
			if cl.ip.Is6() {
				lim = int(lim6)
			}

			if cl.kind == "own" {
				lim = int(cl.rps)
			}

			for i, q := range cl.qs {
				desc := fmt.Sprintf("client %d (%s, %s, limit %d), its query #%d (qtype %d, response %d): next.calls=%d responses=%d err=%v", g, cl.ip, cl.kind, lim, i, q.qt, q.size, q.calls, q.written, q.err)
				if q.err != nil {
					t.Fatalf("unexpected error: %s", desc)
				}

				if q.mismatch != "" {
					t.Fatalf("behind the middleware: %s: %s", q.mismatch, desc)
				}

				var wantDrop bool
				switch {
				case cl.kind != "own" && hits >= int(count):
					wantDrop = true
				default:
					wantDrop = events >= lim
					events++
					if wantDrop {
						hits++
					}
				}

				if wantDrop {
					if q.calls != 0 || q.written != 0 {
						t.Fatalf("must be dropped without a response (own history: %d events, %d hits): %s", events-1, hits, desc)
					}

					nt = "x"
					if cl.kind == "own" {
						classSet["own-limit-dropped"] = true
					} else {
						classSet["anon-dropped"] = true
					}

					continue
				}

				if q.calls != 1 || q.written != 1 {
					t.Fatalf("must be answered (own history: %d events before): %s", events-1, desc)
				}

				for j := 0; j < vc09Resp(vc09Req(q.qt, q.pad), q.size).Len()/est; j++ {
					if cl.kind != "own" && hits >= int(count) {
						break
					}

					if events >= lim {
						hits++
					}

					events++
				}
			}
		}

		if nt != "" {
			for _, cl := range clients {
				nt += fmt.Sprintf("|%s %s %d", cl.ip, cl.kind, cl.rps)
				for _, q := range cl.qs {
					nt += fmt.Sprintf(",%d/%d/%d", q.qt, q.size, q.pad)
				}
			}
		}

		var classes []string
		for k := range classSet {
			classes = append(classes, k)
		}

		sort.Strings(classes)
		st.Case(nt, classes...)
	})
}
