//go:build verif

package ratelimitmw_test

// C09 (c): the access-and-ratelimit middleware of the DNS service: protocol
// gate, profile limiter versus global limiter, allowlisted pass-through, and
// drop = next handler not called and nothing written.  See /verif/DESIGN.md,
// section 3, C09.

import (
	"context"
	"errors"
	"fmt"
	"net"
	"net/netip"
	"sort"
	"strings"
	"testing"
	"time"

	"github.com/AdguardTeam/AdGuardDNS/internal/access"
	"github.com/AdguardTeam/AdGuardDNS/internal/agd"
	"github.com/AdguardTeam/AdGuardDNS/internal/agdtest"
	"github.com/AdguardTeam/AdGuardDNS/internal/dnsmsg"
	"github.com/AdguardTeam/AdGuardDNS/internal/dnsserver"
	"github.com/AdguardTeam/AdGuardDNS/internal/dnsserver/ratelimit"
	"github.com/AdguardTeam/AdGuardDNS/internal/dnssvc/internal/ratelimitmw"
	"github.com/AdguardTeam/AdGuardDNS/internal/geoip"
	"github.com/AdguardTeam/golibs/logutil/slogutil"
	"github.com/c2h5oh/datasize"
	"github.com/miekg/dns"
	"pgregory.net/rapid"
	"verif.local/harness/vstat"
)

// ---------------------------------------------------------------------------
// fakes

type vc09RW struct {
	local, remote net.Addr
	written       []*dns.Msg
	writeErr      error
	attempts      int
}

func (w *vc09RW) LocalAddr() net.Addr  { return w.local }
func (w *vc09RW) RemoteAddr() net.Addr { return w.remote }
func (w *vc09RW) WriteMsg(_ context.Context, _, resp *dns.Msg) error {
	w.attempts++
	if w.writeErr != nil {
		return w.writeErr
	}

	w.written = append(w.written, resp)

	return nil
}

// vc09Req builds a query; pad > 0 adds an EDNS(0) padding option of that many
// octets, so that the request can be larger than its response.
func vc09Req(qt uint16, pad int) (req *dns.Msg) {
	req = &dns.Msg{
		MsgHdr:   dns.MsgHdr{Id: 9, RecursionDesired: true},
		Question: []dns.Question{{Name: "c09.example.", Qtype: qt, Qclass: dns.ClassINET}},
	}
	if pad > 0 {
		opt := &dns.OPT{Hdr: dns.RR_Header{Name: ".", Rrtype: dns.TypeOPT}}
		opt.SetUDPSize(1232)
		opt.Option = append(opt.Option, &dns.EDNS0_PADDING{Padding: make([]byte, pad)})
		req.Extra = append(req.Extra, opt)
	}

	return req
}

// vc09Resp builds a response to req (question copied, no OPT) whose Msg.Len
// is exactly size whenever size is at least 26 octets above the bare reply.
func vc09Resp(req *dns.Msg, size int) (resp *dns.Msg) {
	resp = (&dns.Msg{}).SetReply(req)
	if resp.Len() >= size {
		return resp
	}

	txt := &dns.TXT{
		Hdr: dns.RR_Header{Name: req.Question[0].Name, Rrtype: dns.TypeTXT, Class: dns.ClassINET, Ttl: 10},
		Txt: []string{""},
	}
	resp.Answer = append(resp.Answer, txt)
	for resp.Len() < size {
		last := len(txt.Txt) - 1
		room := 255 - len(txt.Txt[last])
		if room == 0 {
			txt.Txt = append(txt.Txt, "")

			continue
		}

		txt.Txt[last] += strings.Repeat("x", min(room, size-resp.Len()))
	}

	return resp
}

type vc09Next struct {
	calls    int
	respSize int // <0: write nothing
	err      error
	lastResp *dns.Msg
	sawRI    bool
}

func (h *vc09Next) ServeDNS(ctx context.Context, rw dnsserver.ResponseWriter, req *dns.Msg) error {
	h.calls++
	_, h.sawRI = agd.RequestInfoFromContext(ctx)
	if h.err != nil {
		return h.err
	}

	if h.respSize < 0 {
		return nil
	}

	h.lastResp = vc09Resp(req, h.respSize)

	return rw.WriteMsg(ctx, req, h.lastResp)
}

type vc09Global struct {
	drop, allow bool
	err         error
	asked       []netip.Addr
	counted     []netip.Addr
	countedLen  []int
}

func (s *vc09Global) IsRateLimited(_ context.Context, _ *dns.Msg, ip netip.Addr) (bool, bool, error) {
	s.asked = append(s.asked, ip)

	return s.drop, s.allow, s.err
}

func (s *vc09Global) CountResponses(_ context.Context, resp *dns.Msg, ip netip.Addr) {
	s.counted = append(s.counted, ip)
	s.countedLen = append(s.countedLen, resp.Len())
}

type vc09ProfLimiter struct {
	res        agd.RatelimitResult
	asked      []netip.Addr
	counted    []netip.Addr
	countedLen []int
}

func (p *vc09ProfLimiter) Check(_ context.Context, _ *dns.Msg, ip netip.Addr) agd.RatelimitResult {
	p.asked = append(p.asked, ip)

	return p.res
}

func (p *vc09ProfLimiter) Config() *agd.RatelimitConfig { return &agd.RatelimitConfig{Enabled: true} }

func (p *vc09ProfLimiter) CountResponses(_ context.Context, resp *dns.Msg, ip netip.Addr) {
	p.counted = append(p.counted, ip)
	p.countedLen = append(p.countedLen, resp.Len())
}

func vc09Profile(id string, rl agd.Ratelimiter) *agd.DeviceResultOK {
	return &agd.DeviceResultOK{
		Device: &agd.Device{ID: agd.DeviceID("dev" + id)},
		Profile: &agd.Profile{
			Access:              access.EmptyProfile{},
			BlockingMode:        &dnsmsg.BlockingModeNullIP{},
			Ratelimiter:         rl,
			ID:                  agd.ProfileID("prof" + id),
			FilteredResponseTTL: 10 * time.Second,
		},
	}
}

// vc09Env builds the middleware for server protocol proto; *res is what the
// device finder returns for the next request.
func vc09Env(msgs *dnsmsg.Constructor, proto agd.Protocol, lim ratelimit.Interface, res *agd.DeviceResult) *ratelimitmw.Middleware {
	return vc09EnvFinder(msgs, proto, lim, func(netip.AddrPort) agd.DeviceResult { return *res })
}

// vc09EnvFinder is vc09Env with a device finder that answers by client address.
func vc09EnvFinder(msgs *dnsmsg.Constructor, proto agd.Protocol, lim ratelimit.Interface, find func(raddr netip.AddrPort) agd.DeviceResult) *ratelimitmw.Middleware {
	geo := agdtest.NewGeoIP()
	geo.OnData = func(_ string, _ netip.Addr) (*geoip.Location, error) { return nil, nil }

	return ratelimitmw.New(&ratelimitmw.Config{
		Logger:           slogutil.NewDiscardLogger(),
		Messages:         msgs,
		FilteringGroup:   &agd.FilteringGroup{},
		ServerGroup:      &agd.ServerGroup{},
		Server:           &agd.Server{Name: "c09", Protocol: proto},
		StructuredErrors: agdtest.NewSDEConfig(true),
		AccessManager: &agdtest.AccessManager{
			OnIsBlockedHost: func(string, uint16) bool { return false },
			OnIsBlockedIP:   func(netip.Addr) bool { return false },
		},
		DeviceFinder: &agdtest.DeviceFinder{
			OnFind: func(_ context.Context, _ *dns.Msg, raddr, _ netip.AddrPort) agd.DeviceResult { return find(raddr) },
		},
		ErrColl: agdtest.NewErrorCollector(),
		GeoIP:   geo,
		Metrics: ratelimitmw.EmptyMetrics{},
		Limiter: lim,
		// As in dnssvc.NewHandlers: only plain DNS is rate limited.
		Protocols:  []agd.Protocol{agd.ProtoDNS},
		EDEEnabled: true,
	})
}

var (
	vc09Protos = []agd.Protocol{agd.ProtoDNS, agd.ProtoDNS, agd.ProtoDNS, agd.ProtoDoT, agd.ProtoDoH, agd.ProtoDoQ, agd.ProtoDNSCrypt}
	vc09IPs    = []netip.Addr{
		netip.MustParseAddr("192.0.2.77"), netip.MustParseAddr("192.0.2.78"), netip.MustParseAddr("192.0.3.77"),
		netip.MustParseAddr("198.51.100.1"), netip.MustParseAddr("203.0.113.254"),
		netip.MustParseAddr("2001:db8:0:1::1"), netip.MustParseAddr("2001:db8:0:1::2"), netip.MustParseAddr("2001:db8:0:2::1"),
		// In 192.0.2.0/24 but outside 192.0.2.0/25; one address below 192.0.2.77.
		netip.MustParseAddr("192.0.2.205"), netip.MustParseAddr("192.0.2.76"),
	}
)

func vc09Remote(ip netip.Addr, port int, form int) net.Addr {
	b := ip.AsSlice()
	if ip.Is4() && form&1 == 1 {
		b = net.IP(b).To16()
	}

	if form&2 == 2 {
		return &net.TCPAddr{IP: b, Port: port}
	}

	return &net.UDPAddr{IP: b, Port: port}
}

// ---------------------------------------------------------------------------
// (c1) decision table with scripted limiters

func TestVerifC09MwScripted(t *testing.T) {
	st := vstat.New("C09", "ratelimitmw.scripted",
		"rapid (server protocol x client address/port x profile {none, own limiter scripted pass/drop/use-global, GlobalRatelimiter} x scripted global verdict x scripted next handler) through ratelimitmw.Middleware.Wrap; oracle = decision table of the statement; non-trivial = plain-DNS query for which a limiter was consulted, distinct by the tuple",
		"global-drop-silent", "global-allowlisted", "global-pass-counted", "profile-drop-silent", "profile-pass-counted-by-profile", "profile-use-global", "proto-not-limited", "port0-spoof", "limiter-error", "next-error", "pass-no-response", "write-error", "request-larger-than-response")
	st.Finish(t)

	msgs := agdtest.NewConstructor(t)
	rapid.Check(t, func(t *rapid.T) {
		proto := rapid.SampledFrom(vc09Protos).Draw(t, "proto")
		ip := rapid.SampledFrom(vc09IPs).Draw(t, "ip")
		port := rapid.SampledFrom([]int{0, 53, 5353, 65535, 40000, 1}).Draw(t, "port")
		glob := &vc09Global{}
		switch rapid.IntRange(0, 9).Draw(t, "globalVerdict") {
		case 0, 1, 2:
			glob.drop = true
		case 3, 4:
			glob.allow = true
		case 5:
			glob.err = errors.New("scripted limiter error")
		}

		var res agd.DeviceResult
		var prof *vc09ProfLimiter
		profKind := rapid.SampledFrom([]string{"none", "none", "pass", "drop", "drop", "use-global", "global-ratelimiter"}).Draw(t, "profile")
		switch profKind {
		case "none":
		case "global-ratelimiter":
			res = vc09Profile("g", agd.GlobalRatelimiter{})
		default:
			prof = &vc09ProfLimiter{res: map[string]agd.RatelimitResult{"pass": agd.RatelimitResultPass, "drop": agd.RatelimitResultDrop, "use-global": agd.RatelimitResultUseGlobal}[profKind]}
			res = vc09Profile("p", prof)
		}

		next := &vc09Next{respSize: rapid.SampledFrom([]int{-1, 0, 0, 100, 700}).Draw(t, "respSize")}
		if rapid.IntRange(0, 7).Draw(t, "nextErr") == 0 {
			next.err = errors.New("scripted handler error")
		}

		mw := vc09Env(msgs, proto, glob, &res)
		rw := &vc09RW{local: &net.UDPAddr{IP: net.IP{127, 0, 0, 1}, Port: 53}, remote: vc09Remote(ip, port, rapid.IntRange(0, 3).Draw(t, "form"))}
		if rapid.IntRange(0, 7).Draw(t, "writeErr") == 0 {
			rw.writeErr = errors.New("scripted write error")
		}

		req := vc09Req(rapid.SampledFrom([]uint16{dns.TypeA, dns.TypeAAAA, dns.TypeANY, dns.TypeTXT}).Draw(t, "qtype"),
			rapid.SampledFrom([]int{0, 0, 300, 1500}).Draw(t, "reqPad"))
		gotErr := mw.Wrap(next).ServeDNS(context.Background(), rw, req)

		var pAsked, pCounted []netip.Addr
		if prof != nil {
			pAsked, pCounted = prof.asked, prof.counted
		}

		in := fmt.Sprintf("server=%v remote=%s profile=%s global={drop:%t allow:%t err:%v} next={respSize:%d err:%v} reqLen=%d writeErr=%v",
			proto, rw.remote, profKind, glob.drop, glob.allow, glob.err, next.respSize, next.err, req.Len(), rw.writeErr)
		desc := fmt.Sprintf("%s: got err=%v next.calls=%d written=%d global.asked=%v global.counted=%v profile.asked=%v profile.counted=%v",
			in, gotErr, next.calls, len(rw.written), glob.asked, glob.counted, pAsked, pCounted)
		fail := func(f string, a ...any) { t.Fatalf("%s\n%s", fmt.Sprintf(f, a...), desc) }

		reqLarger := false
		expectNext := func() {
			if next.calls != 1 {
				fail("next handler must be called exactly once")
			}

			if next.err != nil {
				if !errors.Is(gotErr, next.err) || len(rw.written) != 0 {
					fail("handler error must be returned and nothing written")
				}

				return
			}

			want := 0
			if next.respSize >= 0 {
				want = 1
			}

			if want == 1 && rw.writeErr != nil {
				if !errors.Is(gotErr, rw.writeErr) || rw.attempts != 1 {
					fail("the client writer's error must be returned after exactly one attempt")
				}

				return
			}

			if gotErr != nil || len(rw.written) != want || (want == 1 && rw.written[0] != next.lastResp) {
				fail("client must receive exactly the response of the next handler (%d message(s))", want)
			}
		}
		silent := func(what string) {
			if next.calls != 0 || len(rw.written) != 0 || gotErr != nil || len(glob.counted)+len(pCounted) != 0 {
				fail("%s: the query must be dropped: next handler not called, nothing written, nothing counted", what)
			}
		}
		countedOnce := func(who string, ips []netip.Addr, lens []int) {
			if next.err != nil || next.respSize < 0 {
				if len(ips) != 0 {
					fail("no response, nothing to count")
				}

				return
			}

			if len(ips) != 1 || ips[0] != ip || lens[0] != next.lastResp.Len() {
				fail("the response must be counted exactly once by the %s limiter for %s, with the response's own size", who, ip)
			}

			if req.Len() > next.lastResp.Len() {
				reqLarger = true
			}
		}

		var cls []string
		nt := ""
		switch {
		case port == 0:
			cls = append(cls, "port0-spoof")
			silent("source port 0")
			if len(glob.asked)+len(pAsked) != 0 {
				fail("limiters must not be consulted for a spoofed source")
			}
		case proto != agd.ProtoDNS:
			cls = append(cls, "proto-not-limited")
			if len(glob.asked)+len(glob.counted)+len(pAsked)+len(pCounted) != 0 {
				fail("limiters used for a protocol that is not rate limited")
			}

			expectNext()
		default:
			nt = in
			useGlobal := true
			if prof != nil {
				if len(prof.asked) != 1 || prof.asked[0] != ip {
					fail("the profile's limiter must be asked exactly once about %s", ip)
				}

				switch profKind {
				case "drop":
					useGlobal = false
					cls = append(cls, "profile-drop-silent")
					silent("profile limit reached")
					if len(glob.asked) != 0 {
						fail("global limiter consulted although the profile's own limit applies")
					}
				case "pass":
					useGlobal = false
					cls = append(cls, "profile-pass-counted-by-profile")
					expectNext()
					countedOnce("profile", prof.counted, prof.countedLen)
					if len(glob.asked)+len(glob.counted) != 0 {
						fail("global limiter used although the profile's own limit applies")
					}
				default:
					cls = append(cls, "profile-use-global")
				}
			}

			if useGlobal {
				if len(glob.asked) != 1 || glob.asked[0] != ip {
					fail("the global limiter must be asked exactly once about %s", ip)
				}

				if len(pCounted) != 0 {
					fail("profile limiter counted a response although the global limit applies")
				}

				switch {
				case glob.err != nil:
					cls = append(cls, "limiter-error")
					if !errors.Is(gotErr, glob.err) || next.calls != 0 || len(rw.written) != 0 {
						fail("limiter error must be returned, nothing served")
					}
				case glob.drop:
					cls = append(cls, "global-drop-silent")
					silent("global limit reached")
				case glob.allow:
					cls = append(cls, "global-allowlisted")
					expectNext()
					if len(glob.counted) != 0 {
						fail("allowlisted client's response must not be counted")
					}
				default:
					expectNext()
					countedOnce("global", glob.counted, glob.countedLen)
					if next.err == nil && next.respSize >= 0 {
						cls = append(cls, "global-pass-counted")
					}
				}
			}

			if next.calls == 1 && !next.sawRI {
				fail("next handler must see the request info in its context")
			}
		}

		if next.calls > 0 && next.err != nil {
			cls = append(cls, "next-error")
		}

		if next.calls > 0 && next.err == nil && next.respSize < 0 {
			cls = append(cls, "pass-no-response")
		}

		if reqLarger {
			cls = append(cls, "request-larger-than-response")
		}

		if rw.writeErr != nil && rw.attempts > 0 {
			cls = append(cls, "write-error")
		}

		st.Case(nt, cls...)
	})
}

// ---------------------------------------------------------------------------
// (c2) real limiters

type vc09RealConf struct {
	Count, Lim4, Lim6 uint
	KL4, KL6          int
	Est               uint64
	RefuseANY         bool
	Allow             []netip.Prefix
}

func (c *vc09RealConf) String() string {
	return fmt.Sprintf("{global: backoff count=%d v4 limit %d key /%d v6 limit %d key /%d estimate %d refuseANY %t allowlist %v}",
		c.Count, c.Lim4, c.KL4, c.Lim6, c.KL6, c.Est, c.RefuseANY, c.Allow)
}

type vc09GKey struct{ events, hits int }

// vc09GlobalModel is the per-subnet counter model of the global limiter while
// time stands still (1 h intervals).
type vc09GlobalModel struct {
	c    *vc09RealConf
	keys map[netip.Prefix]*vc09GKey
}

func (m *vc09GlobalModel) event(ip netip.Addr, qt uint16) (drop, allow bool, why string) {
	if m.c.RefuseANY && qt == dns.TypeANY {
		return true, false, "ANY refused for everyone"
	}

	for _, p := range m.c.Allow {
		if p.Contains(ip) {
			return false, true, "allowlisted"
		}
	}

	bits, lim := m.c.KL4, int(m.c.Lim4)
	if ip.Is6() {
		bits, lim = m.c.KL6, int(m.c.Lim6)
	}

	key := netip.PrefixFrom(ip, bits).Masked()
	k := m.keys[key]
	if k == nil {
		k = &vc09GKey{}
		m.keys[key] = k
	}

	if k.hits >= int(m.c.Count) {
		return true, false, fmt.Sprintf("subnet %s in backoff", key)
	}

	above := k.events >= lim
	why = fmt.Sprintf("subnet %s had %d events, limit %d", key, k.events, lim)
	k.events++
	if above {
		k.hits++
	}

	return above, false, why
}

// vc09ProfModel is a profile's own limit: one window for the whole profile,
// applied only to its client subnets (to everyone if there are none).
type vc09ProfModel struct {
	name    string
	rps     uint32
	subnets []netip.Prefix
	events  int
	real    agd.Ratelimiter
}

func (p *vc09ProfModel) applies(ip netip.Addr) bool {
	if len(p.subnets) == 0 {
		return true
	}

	for _, s := range p.subnets {
		if s.Contains(ip) {
			return true
		}
	}

	return false
}

func TestVerifC09MwReal(t *testing.T) {
	st := vstat.New("C09", "ratelimitmw.real",
		"rapid histories of queries (client address, qtype, profile {none, own limit with/without client subnets, GlobalRatelimiter}, handler response size) through ratelimitmw.Middleware with a real ratelimit.Backoff (1 h intervals) and real agd.DefaultRatelimiter profiles (1 s window; a case that takes longer than 0.8 s of real time is discarded unjudged); oracle = per-subnet counter model for the global limit, per-profile counter model for own limits, on what the client observes; non-trivial = a query got no response and a later one did, distinct by (config, history)",
		"silence-then-later-response", "global-dropped", "profile-dropped", "profile-limit-while-global-would-drop", "profile-outside-client-subnets-uses-global", "profile-large-response-counted", "global-large-response-counted", "request-weighs-more-than-response", "response-exactly-estimate", "profile-near-miss-outside-client-subnets", "client-ipv4-mapped", "allowlisted-pass", "any-refused")
	st.Finish(t)

	msgs := agdtest.NewConstructor(t)
	rapid.Check(t, func(t *rapid.T) {
		c := &vc09RealConf{
			Count:     uint(rapid.IntRange(1, 3).Draw(t, "backoffCount")),
			Lim4:      uint(rapid.IntRange(1, 4).Draw(t, "lim4")),
			Lim6:      uint(rapid.IntRange(1, 4).Draw(t, "lim6")),
			KL4:       rapid.SampledFrom([]int{24, 24, 32, 16}).Draw(t, "kl4"),
			KL6:       rapid.SampledFrom([]int{64, 64, 128, 48}).Draw(t, "kl6"),
			Est:       uint64(rapid.SampledFrom([]int{60, 100}).Draw(t, "est")),
			RefuseANY: rapid.Bool().Draw(t, "refuseANY"),
		}
		if rapid.IntRange(0, 2).Draw(t, "hasAllow") == 0 {
			c.Allow = []netip.Prefix{netip.PrefixFrom(rapid.SampledFrom(vc09IPs).Draw(t, "allowIP"), rapid.SampledFrom([]int{32, 24}).Draw(t, "allowBits"))}
			if c.Allow[0].Addr().Is6() {
				c.Allow[0] = netip.PrefixFrom(c.Allow[0].Addr(), 64)
			}
		}

		start := time.Now()
		glob := ratelimit.NewBackoff(&ratelimit.BackoffConfig{
			Allowlist:            ratelimit.NewDynamicAllowlist(c.Allow, nil),
			Period:               time.Hour,
			Duration:             time.Hour,
			Count:                c.Count,
			ResponseSizeEstimate: datasize.ByteSize(c.Est),
			IPv4Count:            c.Lim4,
			IPv4Interval:         time.Hour,
			IPv4SubnetKeyLen:     c.KL4,
			IPv6Count:            c.Lim6,
			IPv6Interval:         time.Hour,
			IPv6SubnetKeyLen:     c.KL6,
			RefuseANY:            c.RefuseANY,
		})
		gm := &vc09GlobalModel{c: c, keys: map[netip.Prefix]*vc09GKey{}}

		// Profiles: A limits only its client subnets, B limits everyone, G defers
		// to the global limit.
		subnetsA := rapid.SampledFrom([][]netip.Prefix{
			{netip.MustParsePrefix("192.0.2.0/24"), netip.MustParsePrefix("2001:db8:0:1::/64")},
			{netip.MustParsePrefix("192.0.2.77/32")},
			// Unaligned, not masked, overlapping: .76 and .77 are in 192.0.2.76/31,
			// .78 only in the /25, .205 in neither.
			{netip.MustParsePrefix("192.0.2.77/31"), netip.MustParsePrefix("192.0.2.1/25")},
			{netip.MustParsePrefix("192.0.2.77/31"), netip.MustParsePrefix("2001:db8:0:1::1/128")},
		}).Draw(t, "subnetsA")

		profs := map[string]*vc09ProfModel{
			"A": {name: "A", rps: uint32(rapid.IntRange(0, 4).Draw(t, "rpsA")), subnets: subnetsA},
			"B": {name: "B", rps: uint32(rapid.IntRange(1, 6).Draw(t, "rpsB"))},
		}
		results := map[string]agd.DeviceResult{"none": nil, "G": vc09Profile("G", agd.GlobalRatelimiter{})}
		for n, p := range profs {
			p.real = agd.NewDefaultRatelimiter(&agd.RatelimitConfig{ClientSubnets: p.subnets, RPS: p.rps, Enabled: true}, datasize.ByteSize(c.Est))
			results[n] = vc09Profile(n, p.real)
		}

		var res agd.DeviceResult
		mw := vc09Env(msgs, agd.ProtoDNS, glob, &res)

		var lines []string
		hist := func() string {
			return fmt.Sprintf("config %s profile A {rps %d, client subnets %v} profile B {rps %d, all clients} profile G {global limit}\n  %s\n",
				c, profs["A"].rps, profs["A"].subnets, profs["B"].rps, strings.Join(lines, "\n  "))
		}

		classes := map[string]bool{}
		sawSilence, nontrivial := false, false
		steps := rapid.IntRange(3, 30).Draw(t, "steps")
		for i := 0; i < steps; i++ {
			ip := rapid.SampledFrom(vc09IPs).Draw(t, "ip")
			if rapid.IntRange(0, 2).Draw(t, "hotIP") == 0 {
				ip = vc09IPs[0]
			}

			qt := rapid.SampledFrom([]uint16{dns.TypeA, dns.TypeA, dns.TypeA, dns.TypeTXT, dns.TypeANY}).Draw(t, "qtype")
			who := rapid.SampledFrom([]string{"none", "none", "A", "A", "B", "G"}).Draw(t, "profile")
			e := int(c.Est)
			next := &vc09Next{respSize: rapid.SampledFrom([]int{0, 0, 0, e - 1, e, 2 * e, 3*e + 1}).Draw(t, "respSize")}
			res = results[who]
			form := rapid.IntRange(0, 3).Draw(t, "form")
			rw := &vc09RW{local: &net.UDPAddr{IP: net.IP{127, 0, 0, 1}, Port: 53}, remote: vc09Remote(ip, 5353, form)}
			if form&1 == 1 && ip.Is4() {
				// ::ffff:a.b.c.d as a dual-stack socket reports it: unmapped by
				// the middleware, the same IPv4 client as in plain form.
				classes["client-ipv4-mapped"] = true
			}

			req := vc09Req(qt, rapid.SampledFrom([]int{0, 0, 0, e, 3 * e}).Draw(t, "reqPad"))
			err := mw.Wrap(next).ServeDNS(context.Background(), rw, req)
			lines = append(lines, fmt.Sprintf("%2d query %s qtype=%d reqlen=%d profile=%s handler-respsize=%d -> next.calls=%d responses=%d err=%v", i, ip, qt, req.Len(), who, next.respSize, next.calls, len(rw.written), err))
			if time.Since(start) > 800*time.Millisecond {
				// The profile window is one real second; nothing can be said.
				st.Class("discarded-too-slow")

				return
			}

			if err != nil {
				t.Fatalf("unexpected error\n%s", hist())
			}

			respLen := vc09Resp(req, next.respSize).Len()
			extra := respLen / int(c.Est)
			if req.Len()/int(c.Est) > extra {
				classes["request-weighs-more-than-response"] = true
			}

			if respLen%int(c.Est) == 0 {
				classes["response-exactly-estimate"] = true
			}

			var wantDrop bool
			var why string
			p := profs[who]
			if p != nil && p.applies(ip) {
				wantDrop = p.events >= int(p.rps)
				why = fmt.Sprintf("profile %s had %d events this second, own limit %d", who, p.events, p.rps)
				p.events++
				if wantDrop {
					classes["profile-dropped"] = true
				} else {
					p.events += extra
					if c.RefuseANY && qt == dns.TypeANY {
						// Observed, not judged: the profile's own limit replaces the
						// whole global limiter, including its ANY refusal.
						classes["any-served-under-profile-own-limit"] = true
					}

					if extra > 0 {
						classes["profile-large-response-counted"] = true
					}

					// Would the global limit have dropped it?  Ask a copy of
					// the model's subnet state without changing it.
					bits, lim := c.KL4, int(c.Lim4)
					if ip.Is6() {
						bits, lim = c.KL6, int(c.Lim6)
					}

					if k := gm.keys[netip.PrefixFrom(ip, bits).Masked()]; k != nil && (k.events >= lim || k.hits >= int(c.Count)) && !(c.RefuseANY && qt == dns.TypeANY) {
						classes["profile-limit-while-global-would-drop"] = true
					}
				}
			} else {
				if p != nil {
					classes["profile-outside-client-subnets-uses-global"] = true
					if ip == netip.MustParseAddr("192.0.2.78") || ip == netip.MustParseAddr("192.0.2.205") || ip == netip.MustParseAddr("192.0.2.76") {
						// Same /24 as a client subnet of the profile, but not in it.
						classes["profile-near-miss-outside-client-subnets"] = true
					}
				}

				var allow bool
				wantDrop, allow, why = gm.event(ip, qt)
				switch {
				case c.RefuseANY && qt == dns.TypeANY:
					classes["any-refused"] = true
				case allow:
					classes["allowlisted-pass"] = true
				case wantDrop:
					classes["global-dropped"] = true
				default:
					for j := 0; j < extra; j++ {
						gm.event(ip, qt)
					}

					if extra > 0 {
						classes["global-large-response-counted"] = true
					}
				}
			}

			if wantDrop {
				sawSilence = true
				if next.calls != 0 || len(rw.written) != 0 {
					t.Fatalf("query #%d must be dropped without a response (%s) but next.calls=%d responses=%d\n%s", i, why, next.calls, len(rw.written), hist())
				}
			} else {
				if next.calls != 1 || len(rw.written) != 1 {
					t.Fatalf("query #%d must be answered (%s) but next.calls=%d responses=%d\n%s", i, why, next.calls, len(rw.written), hist())
				}

				if sawSilence {
					nontrivial = true
					classes["silence-then-later-response"] = true
				}
			}
		}

		var cl []string
		for k := range classes {
			cl = append(cl, k)
		}

		sort.Strings(cl)
		nt := ""
		if nontrivial {
			nt = hist()
		}

		st.Case(nt, cl...)
		if nontrivial && classes["profile-limit-while-global-would-drop"] && st.WantSample() {
			st.Sample(strings.Split(hist(), "\n"))
		}
	})
}
