//go:build verif

package cmd

// C09, configuration plumbing: the global limiter is built the way the service
// builds it - a generated `ratelimit:` section is parsed and validated by the
// package's own code and converted by (*rateLimitConfig).toInternal - with
// every setting different from its neighbours, and short real-time event
// sequences are judged by the shared reference parameterised by the values
// written into the YAML text (never by the converted structure).
//
// For every pair of neighbouring settings a shadow reference is run in which
// the pair is swapped (or the setting replaced); when a shadow cannot explain
// an observed verdict, the history has told the two settings apart, which is
// what the required classes measure.

import (
	"context"
	"encoding/json"
	"fmt"
	"net"
	"net/http"
	"net/http/httptest"
	"net/netip"
	"net/url"
	"slices"
	"sort"
	"strings"
	"sync"
	"testing"
	"time"

	"github.com/AdguardTeam/AdGuardDNS/internal/agdtest"
	"github.com/AdguardTeam/AdGuardDNS/internal/backendpb"
	"github.com/AdguardTeam/AdGuardDNS/internal/dnsserver/ratelimit"
	"github.com/AdguardTeam/golibs/logutil/slogutil"
	"github.com/AdguardTeam/golibs/netutil/urlutil"
	"github.com/miekg/dns"
	"github.com/prometheus/client_golang/prometheus"
	"google.golang.org/grpc"
	"google.golang.org/grpc/codes"
	"google.golang.org/grpc/credentials/insecure"
	"google.golang.org/grpc/status"
	"gopkg.in/yaml.v2"
	"pgregory.net/rapid"
	vc09model "verif.local/harness/C09/model"
	"verif.local/harness/vstat"
)

// vc09KnownRefuseKey is the identity of the finding that the documented (and
// distributed) spelling of the ANY-refusal switch, `refuseany`, is ignored:
// the structure is tagged `refuse_any`.
const vc09KnownRefuseKey = "documented-refuseany-key-ignored"

// vc09Settings are the values written into the YAML text.
type vc09Settings struct {
	Lim4, Lim6, Count    int
	Ivl4, Ivl6           time.Duration
	KL4, KL6             int
	Period, Duration     time.Duration
	Est                  int
	Refuse               bool
	Allow                []string // as written: an address or a CIDR, not masked
	alType               string
	allowParsed          []netip.Prefix
	connStop, connResume int
}

func (s *vc09Settings) yaml() string {
	var al strings.Builder
	for _, a := range s.Allow {
		fmt.Fprintf(&al, "\n          - '%s'", a)
	}

	list := " []"
	if len(s.Allow) > 0 {
		list = al.String()
	}

	// The key of the ANY switch is spelled as in doc/configuration.md and
	// config.dist.yaml.
	return fmt.Sprintf(`ratelimit:
    refuseany: %t
    response_size_estimate: %dB
    ipv4:
        count: %d
        interval: %s
        subnet_key_len: %d
    ipv6:
        count: %d
        interval: %s
        subnet_key_len: %d
    backoff_period: %s
    backoff_count: %d
    backoff_duration: %s
    allowlist:
        list:%s
        refresh_interval: 1h
        type: '%s'
    connection_limit:
        enabled: true
        stop: %d
        resume: %d
    quic:
        enabled: true
        max_streams_per_peer: 77
    tcp:
        enabled: true
        max_pipeline_count: 55
`, s.Refuse, s.Est, s.Lim4, s.Ivl4, s.KL4, s.Lim6, s.Ivl6, s.KL6, s.Period, s.Count, s.Duration, list, s.alType, s.connStop, s.connResume)
}

func vc09CMask(ip netip.Addr, bits int) string {
	b := ip.AsSlice()
	for i := range b {
		switch {
		case bits >= 8*(i+1):
		case bits <= 8*i:
			b[i] = 0
		default:
			b[i] &= ^byte(0xff >> (bits - 8*i))
		}
	}

	return fmt.Sprintf("%d:%x/%d", len(b), b, bits)
}

func vc09CFlip(ip netip.Addr, pos int) netip.Addr {
	b := ip.AsSlice()
	if pos >= 0 && pos < 8*len(b) {
		b[pos/8] ^= 0x80 >> (pos % 8)
	}

	out, _ := netip.AddrFromSlice(b)

	return out
}

// vc09World is the reference for one reading of the settings.
type vc09World struct {
	s      vc09Settings
	sets   map[string]*vc09model.KeySet
	failed bool
}

func vc09NewWorld(s vc09Settings) *vc09World {
	return &vc09World{s: s, sets: map[string]*vc09model.KeySet{}}
}

func (w *vc09World) allowed(ip netip.Addr) bool {
	for _, p := range w.s.allowParsed {
		if p.Addr().BitLen() == ip.BitLen() && vc09CMask(p.Addr(), p.Bits()) == vc09CMask(ip, p.Bits()) {
			return true
		}
	}

	return false
}

func (w *vc09World) key(ip netip.Addr) (ks *vc09model.KeySet, lm *vc09model.Limits) {
	bits, lim, ivl := w.s.KL4, w.s.Lim4, w.s.Ivl4
	if ip.Is6() {
		bits, lim, ivl = w.s.KL6, w.s.Lim6, w.s.Ivl6
	}

	bits = min(bits, ip.BitLen())
	key := vc09CMask(ip, bits)
	ks = w.sets[key]
	if ks == nil {
		ks = &vc09model.KeySet{States: []*vc09model.KeyState{{}}}
		w.sets[key] = ks
	}

	return ks, &vc09model.Limits{Lim: lim, Count: w.s.Count, Ivl: int64(ivl), Period: int64(w.s.Period), Duration: int64(w.s.Duration), HitSpan: int64(w.s.Period)}
}

// query judges one observed verdict; why lists what this reading allows.
func (w *vc09World) query(ip netip.Addr, qt uint16, T vc09model.Instant, drop, allow bool) (ok bool, why string) {
	switch {
	case w.s.Refuse && qt == dns.TypeANY:
		return drop && !allow, "ANY is refused for everyone: drop=true allowlisted=false"
	case w.allowed(ip):
		return !drop && allow, "allowlisted: drop=false allowlisted=true"
	case allow:
		return false, "not in the allowlist"
	}

	ks, lm := w.key(ip)

	return ks.Apply(T, lm, 0, &drop)
}

// count records the extra events of a counted response.
func (w *vc09World) count(ip netip.Addr, qt uint16, respLen int, T vc09model.Instant) {
	if (w.s.Refuse && qt == dns.TypeANY) || w.allowed(ip) {
		return
	}

	ks, lm := w.key(ip)
	for j := 0; j < respLen/w.s.Est; j++ {
		ks.Apply(T, lm, 0, nil)
	}
}

type vc09Shadow struct {
	class string
	w     *vc09World
}

func vc09CReq(qt uint16) *dns.Msg {
	return &dns.Msg{
		MsgHdr:   dns.MsgHdr{Id: 11, RecursionDesired: true},
		Question: []dns.Question{{Name: "c09.example.", Qtype: qt, Qclass: dns.ClassINET}},
	}
}

// vc09CResp builds a response whose Msg.Len is exactly size (if size is at
// least 26 octets above the bare reply).
func vc09CResp(req *dns.Msg, size int) (resp *dns.Msg) {
	resp = (&dns.Msg{}).SetReply(req)
	if resp.Len() >= size {
		return resp
	}

	txt := &dns.TXT{
		Hdr: dns.RR_Header{Name: req.Question[0].Name, Rrtype: dns.TypeTXT, Class: dns.ClassINET, Ttl: 10},
		Txt: []string{""},
	}
	resp.Answer = append(resp.Answer, txt)
	for resp.Len() < size {
		last := len(txt.Txt) - 1
		room := 255 - len(txt.Txt[last])
		if room == 0 {
			txt.Txt = append(txt.Txt, "")

			continue
		}

		txt.Txt[last] += strings.Repeat("x", min(room, size-resp.Len()))
	}

	return resp
}

// vc09Elem is one record of a scripted Consul answer.
type vc09Elem struct {
	Shape string
	Addr  netip.Addr
}

func (e vc09Elem) hasAddr() bool {
	return e.Shape == "addr" || e.Shape == "addr-extra" || e.Shape == "addr-mapped"
}

// listed is the address the record puts into the allowlist: for the
// IPv4-mapped shape the mapped form itself (a /128 that no plain IPv4 client
// matches), as the unchanged code does.
func (e vc09Elem) listed() netip.Addr {
	if e.Shape == "addr-mapped" {
		return netip.AddrFrom16(e.Addr.As16())
	}

	return e.Addr
}

func (e vc09Elem) json() string {
	switch e.Shape {
	case "addr":
		return fmt.Sprintf(`{"Address":%q}`, e.Addr)
	case "addr-mapped":
		return fmt.Sprintf(`{"Address":"::ffff:%s"}`, e.Addr)
	case "addr-extra":
		return fmt.Sprintf(`{"Node":"n1","ServiceID":7,"Meta":{"a":[1,2]},"Address":%q}`, e.Addr)
	case "missing":
		return `{"Node":"n2","ServiceID":8}`
	case "empty-object":
		return `{}`
	case "null":
		return `{"Address":null}`
	case "empty-string":
		return `{"Address":""}`
	case "bad-cidr":
		return fmt.Sprintf(`{"Address":"%s/24"}`, e.Addr)
	case "bad-number":
		return `{"Address":12345}`
	default:
		return `{"Address":"not-an-address"}`
	}
}

func vc09ElemsJSON(es []vc09Elem) string {
	parts := make([]string, len(es))
	for i, e := range es {
		parts[i] = e.json()
	}

	return "[" + strings.Join(parts, ",") + "]"
}

// vc09ElemsAddrs is the reference reading of an answer: every record on its
// own; one without an address (key missing, null, empty string) contributes
// nothing.
func vc09ElemsAddrs(es []vc09Elem) (addrs []netip.Addr) {
	for _, e := range es {
		if e.hasAddr() && !slices.Contains(addrs, e.listed()) {
			addrs = append(addrs, e.listed())
		}
	}

	return addrs
}

// vc09BackendSrv is a loopback stand-in for the backend's rate-limit service.
type vc09BackendSrv struct {
	backendpb.UnimplementedRateLimitServiceServer

	mu    sync.Mutex
	fail  bool
	cidrs []*backendpb.CidrRange
}

func (s *vc09BackendSrv) GetRateLimitSettings(context.Context, *backendpb.RateLimitSettingsRequest) (*backendpb.RateLimitSettingsResponse, error) {
	s.mu.Lock()
	defer s.mu.Unlock()

	if s.fail {
		return nil, status.Error(codes.Unavailable, "scripted backend failure")
	}

	return &backendpb.RateLimitSettingsResponse{AllowedSubnets: s.cidrs}, nil
}

func vc09DrawDistinct[V comparable](t *rapid.T, label string, from []V, not ...V) V {
	var pool []V
	for _, v := range from {
		bad := false
		for _, n := range not {
			bad = bad || n == v
		}

		if !bad {
			pool = append(pool, v)
		}
	}

	return rapid.SampledFrom(pool).Draw(t, label)
}

func TestVerifC09ConfigPlumbing(t *testing.T) {
	st := vstat.New("C09", "cmd.plumbing",
		"rapid: a `ratelimit:` YAML section with every setting different from its neighbours (ipv4 vs ipv6 count / interval / subnet_key_len, backoff period vs duration vs intervals, backoff count vs counts, size estimate, refuseany, v4 and v6 allowlist entries; the dynamic allowlist comes from the real consul.AllowlistUpdater or the real backendpb.RateLimiter fed by loopback stand-ins, sometimes followed by a failing refresh) is parsed and validated by package cmd's own code and built into the global Backoff by the real builder.initRateLimiter (initial refresh included; one more successful refresh with another answer and/or a failing one follow through the refresher it registered); constructed real-time scenarios (queries straddling the two intervals, hits spread over a time between period and duration, a query between period and duration after backoff was entered, two hosts told apart by one key length only, a response just above the estimate) and random queries are judged by the shared reference parameterised by the YAML values; a shadow reference with one pair swapped measures that the history told the pair apart; non-trivial = some shadow was refuted, distinct by (settings, history)",
		"v4-and-v6-intervals-differ", "v6-verdict-depends-on-v6-interval", "v4-verdict-depends-on-v4-interval",
		"v6-verdict-depends-on-v6-count", "v4-verdict-depends-on-v4-count", "v6-verdict-depends-on-v6-key-len", "v4-verdict-depends-on-v4-key-len",
		"verdict-depends-on-period-vs-duration", "verdict-depends-on-backoff-count-vs-ipv4-count", "verdict-depends-on-response-size-estimate",
		"verdict-depends-on-allowlist", "verdict-depends-on-dynamic-allowlist", "static-allowlist-after-successful-refresh", "static-allowlist-after-two-refreshes", "verdict-depends-on-static-allowlist", "verdict-depends-on-last-refresh-replacing-the-previous", "dynamic-allowlist-kept-after-failed-refresh", "missing-address-at-index-that-held-one-before", "list-shrunk", "refresh-failed-keeps-previous", "ipv4-mapped-record-in-later-response-with-membership-change", "dynamic-allowlist-from-consul", "dynamic-allowlist-from-backend", "any-refusal-configured-and-any-query", "allowlisted-v4", "allowlisted-v6")
	st.Finish(t)

	// A loopback stand-in for the Consul service that feeds the dynamic part of
	// the allowlist through the real consul.AllowlistUpdater.
	var consulMu sync.Mutex
	consulStatus, consulBody := http.StatusOK, "[]"
	srv := httptest.NewServer(http.HandlerFunc(func(w http.ResponseWriter, _ *http.Request) {
		consulMu.Lock()
		defer consulMu.Unlock()

		w.WriteHeader(consulStatus)
		_, _ = w.Write([]byte(consulBody))
	}))
	t.Cleanup(srv.Close)
	consulURL, _ := url.Parse(srv.URL)
	errColl := agdtest.NewErrorCollector()
	errColl.OnCollect = func(context.Context, error) {}

	// The same for the backend gRPC service (allowlist type "backend").
	backend := &vc09BackendSrv{}
	ln, err := net.Listen("tcp", "127.0.0.1:0")
	if err != nil {
		t.Fatalf("listening on loopback: %v", err)
	}

	grpcSrv := grpc.NewServer(grpc.Creds(insecure.NewCredentials()))
	backendpb.RegisterRateLimitServiceServer(grpcSrv, backend)
	go func() { _ = grpcSrv.Serve(ln) }()
	t.Cleanup(grpcSrv.Stop)
	backendURL := &url.URL{Scheme: "grpc", Host: ln.Addr().String()}

	ctx := context.Background()
	rapid.Check(t, func(t *rapid.T) {
		const u = 10 * time.Millisecond
		ivls := []time.Duration{4 * u, 8 * u, 14 * u}
		pds := []time.Duration{20 * u, 30 * u, 44 * u}
		s := vc09Settings{Refuse: rapid.Bool().Draw(t, "refuse"), connStop: 1000, connResume: 800}
		s.Lim4 = rapid.IntRange(1, 4).Draw(t, "lim4")
		s.Lim6 = vc09DrawDistinct(t, "lim6", []int{1, 2, 3, 4, 5}, s.Lim4)
		s.Count = vc09DrawDistinct(t, "backoffCount", []int{2, 3, 4, 5, 6}, s.Lim4, s.Lim6)
		s.Ivl4 = rapid.SampledFrom(ivls).Draw(t, "ivl4")
		s.Ivl6 = vc09DrawDistinct(t, "ivl6", ivls, s.Ivl4)
		s.Period = rapid.SampledFrom(pds).Draw(t, "period")
		s.Duration = vc09DrawDistinct(t, "duration", pds, s.Period)
		s.KL4 = rapid.SampledFrom([]int{24, 20, 31, 16}).Draw(t, "kl4")
		s.KL6 = rapid.SampledFrom([]int{64, 48, 56, 28, 120}).Draw(t, "kl6")
		s.Est = rapid.SampledFrom([]int{90, 130, 200}).Draw(t, "est")
		s.alType = rapid.SampledFrom([]string{rlAllowlistTypeConsul, rlAllowlistTypeBackend}).Draw(t, "allowlistType")

		base4 := netip.MustParseAddr("192.0.2.77")
		base6 := netip.MustParseAddr("2001:db8:0:1::1")
		al4 := netip.MustParseAddr("198.51.100.77")
		al6 := netip.MustParseAddr("2001:db8:ffff::9")
		s.Allow = []string{
			rapid.SampledFrom([]string{al4.String(), al4.String() + "/25", al4.String() + "/31"}).Draw(t, "allow4"),
			rapid.SampledFrom([]string{al6.String(), al6.String() + "/64", al6.String() + "/127"}).Draw(t, "allow6"),
		}
		for _, a := range s.Allow {
			p, err := netip.ParsePrefix(a)
			if err != nil {
				ip := netip.MustParseAddr(a)
				p = netip.PrefixFrom(ip, ip.BitLen())
			}

			s.allowParsed = append(s.allowParsed, p)
		}

		// Parse, validate and convert with the package's own code, then build
		// the limiter exactly as builder.initRateLimiter does.
		text := s.yaml()
		var doc struct {
			RateLimit *rateLimitConfig `yaml:"ratelimit"`
		}
		if err := yaml.Unmarshal([]byte(text), &doc); err != nil {
			t.Fatalf("generated configuration does not parse: %v\n%s", err, text)
		}

		rc := doc.RateLimit
		if err := rc.validate(); err != nil {
			t.Fatalf("generated configuration rejected: %v\n%s", err, text)
		}

		// Build the limiter with the builder's own method, against loopback
		// stand-ins for the allowlist source of the configured type.  The
		// method performs the initial refresh itself; further refreshes go
		// through the refresher it registered.
		dyn4, dyn6 := netip.MustParseAddr("203.0.113.40"), netip.MustParseAddr("2001:db8:d::40")
		dynB4, dynB6 := netip.MustParseAddr("203.0.113.140"), netip.MustParseAddr("2001:db8:e::40")
		// Unaligned, not masked (the Consul source only knows single addresses).
		bits4, bits6 := 32, 128
		if s.alType == rlAllowlistTypeBackend {
			bits4 = rapid.SampledFrom([]int{32, 25, 29}).Draw(t, "dynBits4")
			bits6 = rapid.SampledFrom([]int{128, 64, 121}).Draw(t, "dynBits6")
		}

		setSource := func(fail bool, addrs ...netip.Addr) {
			var recs []map[string]string
			var cidrs []*backendpb.CidrRange
			for _, a := range addrs {
				recs = append(recs, map[string]string{"Address": a.String()})
				bits := bits4
				if a.Is6() {
					bits = bits6
				}

				cidrs = append(cidrs, &backendpb.CidrRange{Address: a.AsSlice(), Prefix: uint32(bits)})
			}

			body, _ := json.Marshal(recs)
			if recs == nil {
				body = []byte("[]")
			}

			consulMu.Lock()
			consulStatus, consulBody = http.StatusOK, string(body)
			if fail {
				consulStatus, consulBody = rapid.SampledFrom([]int{http.StatusInternalServerError, http.StatusOK}).Draw(t, "failStatus"), "{not json"
			}
			consulMu.Unlock()

			backend.mu.Lock()
			backend.fail, backend.cidrs = fail, cidrs
			backend.mu.Unlock()
		}
		dynPrefixes := func(addrs ...netip.Addr) (ps []netip.Prefix) {
			for _, a := range addrs {
				if a.Is4() {
					ps = append(ps, netip.PrefixFrom(a, bits4))
				} else {
					ps = append(ps, netip.PrefixFrom(a, bits6))
				}
			}

			return ps
		}

		bld := newBuilder(&builderConfig{
			envs: &environment{
				ConsulAllowlistURL:  &urlutil.URL{URL: *consulURL},
				BackendRateLimitURL: &urlutil.URL{URL: *backendURL},
			},
			conf:       &configuration{RateLimit: rc, Check: &checkConfig{RemoteKV: &remoteKVConfig{Type: kvModeCache}}},
			baseLogger: slogutil.NewDiscardLogger(),
			errColl:    errColl,
		})
		bld.promRegisterer = prometheus.NewRegistry()
		ictx, cancel := context.WithTimeout(ctx, 20*time.Second)
		defer cancel()
		if err := bld.initGRPCMetrics(ictx); err != nil {
			t.Fatalf("initGRPCMetrics: %v", err)
		}

		var dynNow, stale, plainOfMapped []netip.Addr
		var refreshes []string
		nSuccess, failedKept := 0, false
		refreshClasses := map[string]bool{}
		var l ratelimit.Interface
		var refresher interface {
			Refresh(ctx context.Context) (err error)
		}
		build := func() {
			if err := bld.initRateLimiter(ictx); err != nil {
				t.Fatalf("initRateLimiter: %v\n%s", err, text)
			}

			l, refresher = bld.rateLimit, bld.debugRefrs[debugIDAllowlist]
		}
		retire := func(old, cur []netip.Addr) {
			for _, o := range old {
				if !slices.Contains(cur, o) && !slices.Contains(stale, o) {
					stale = append(stale, o)
				}
			}
		}

		if s.alType == rlAllowlistTypeConsul {
			// One updater, 2..5 refreshes; every answer is derived from the
			// last successful one index by index, so that records keep, change
			// or lose their address in place, and the list shrinks and grows.
			cands := []netip.Addr{dyn4, dyn6, dynB4, dynB6, vc09CFlip(dyn4, 31), vc09CFlip(dyn6, 127)}
			// Records in IPv4-mapped form appear from the second answer on, both
			// for addresses that also occur in plain form and for one that never
			// does.
			mappedOK := false
			mappedCands := []netip.Addr{dyn4, dynB4, netip.MustParseAddr("203.0.113.99")}
			drawAddr := func() vc09Elem {
				if mappedOK && rapid.IntRange(0, 2).Draw(t, "mappedRecord") == 0 {
					e := vc09Elem{Shape: "addr-mapped", Addr: rapid.SampledFrom(mappedCands).Draw(t, "mappedCand")}
					plainOfMapped = append(plainOfMapped, e.Addr)

					return e
				}

				return vc09Elem{Shape: rapid.SampledFrom([]string{"addr", "addr", "addr-extra"}).Draw(t, "shape"), Addr: rapid.SampledFrom(cands).Draw(t, "cand")}
			}
			drawNoAddr := func() vc09Elem {
				return vc09Elem{Shape: rapid.SampledFrom([]string{"missing", "null", "empty-string", "empty-object"}).Draw(t, "noAddrShape")}
			}

			var last []vc09Elem
			for i, n := 0, rapid.IntRange(1, 4).Draw(t, "firstLen"); i < n; i++ {
				if rapid.IntRange(0, 5).Draw(t, "firstNoAddr") == 0 {
					last = append(last, drawNoAddr())
				} else {
					last = append(last, drawAddr())
				}
			}

			if rapid.IntRange(0, 5).Draw(t, "firstEmpty") == 0 {
				last = nil
			}

			setConsul := func(status int, body string) {
				consulMu.Lock()
				consulStatus, consulBody = status, body
				consulMu.Unlock()
			}
			setConsul(http.StatusOK, vc09ElemsJSON(last))
			build()
			dynNow, nSuccess = vc09ElemsAddrs(last), 1
			refreshes = append(refreshes, fmt.Sprintf("initial refresh: %s -> dynamic allowlist %v", vc09ElemsJSON(last), dynNow))

			mappedOK = true
			for r, n := 1, rapid.IntRange(2, 5).Draw(t, "refreshes"); r < n; r++ {
				next := make([]vc09Elem, 0, len(last)+2)
				for _, e := range last {
					switch rapid.IntRange(0, 5).Draw(t, "mutate") {
					case 0, 1:
						next = append(next, e)
					case 2:
						next = append(next, drawAddr())
					default:
						next = append(next, drawNoAddr())
					}
				}

				switch rapid.IntRange(0, 3).Draw(t, "resize") {
				case 0:
					next = next[:max(0, len(next)-rapid.IntRange(1, 2).Draw(t, "shrinkBy"))]
				case 1:
					for j, g := 0, rapid.IntRange(1, 2).Draw(t, "growBy"); j < g; j++ {
						next = append(next, drawAddr())
					}
				}

				status, body, why := http.StatusOK, vc09ElemsJSON(next), ""
				switch rapid.IntRange(0, 11).Draw(t, "fault") {
				case 0:
					status, why = http.StatusInternalServerError, "status 500"
				case 1:
					body, why = body[:len(body)/2]+"{not json", "truncated body"
				case 2:
					bad := vc09Elem{Shape: rapid.SampledFrom([]string{"bad-cidr", "bad-number", "bad-text"}).Draw(t, "badShape"), Addr: dyn4}
					pos := rapid.IntRange(0, len(next)).Draw(t, "badPos")
					withBad := append(append(append([]vc09Elem(nil), next[:pos]...), bad), next[pos:]...)
					body, why = vc09ElemsJSON(withBad), "a record whose Address does not parse"
				}

				setConsul(status, body)
				err := refresher.Refresh(ictx)
				if why != "" {
					if err == nil {
						t.Fatalf("refresh #%d (%s: %s) reported no error", r, why, body)
					}

					refreshes = append(refreshes, fmt.Sprintf("refresh #%d fails (%s): %s -> dynamic allowlist stays %v", r, why, body, dynNow))
					if len(dynNow) > 0 {
						failedKept = true
						refreshClasses["refresh-failed-keeps-previous"] = true
					}

					continue
				}

				if err != nil {
					t.Fatalf("refresh #%d (%s): %v", r, body, err)
				}

				cur := vc09ElemsAddrs(next)
				for i, e := range next {
					if !e.hasAddr() && i < len(last) && last[i].hasAddr() && !slices.Contains(cur, last[i].Addr) {
						refreshClasses["missing-address-at-index-that-held-one-before"] = true
					}
				}

				if len(next) < len(last) {
					refreshClasses["list-shrunk"] = true
				}

				plain := func(as []netip.Addr) (out []string) {
					for _, a := range as {
						if !a.Is4In6() {
							out = append(out, a.String())
						}
					}

					sort.Strings(out)

					return out
				}
				if slices.ContainsFunc(next, func(e vc09Elem) bool { return e.Shape == "addr-mapped" }) {
					refreshClasses["ipv4-mapped-record-in-later-response"] = true
					if !slices.Equal(plain(cur), plain(dynNow)) {
						// The same answer adds or removes an ordinary client.
						refreshClasses["ipv4-mapped-record-in-later-response-with-membership-change"] = true
					}
				}

				if len(next) > len(last) {
					refreshClasses["list-grown"] = true
				}

				retire(dynNow, cur)
				dynNow, last = cur, next
				nSuccess++
				refreshes = append(refreshes, fmt.Sprintf("refresh #%d: %s -> dynamic allowlist %v", r, body, dynNow))
			}
		} else {
			dynNow = []netip.Addr{dyn4, dyn6}
			if rapid.IntRange(0, 3).Draw(t, "firstRefreshEmpty") == 0 {
				dynNow = nil
			}

			setSource(false, dynNow...)
			build()
			nSuccess = 1
			refreshes = append(refreshes, fmt.Sprintf("initial refresh -> %v", dynNow))
			dynMode := rapid.SampledFrom([]string{"one-refresh", "two-refreshes", "two-refreshes", "then-failed", "two-then-failed"}).Draw(t, "dynamic")
			if strings.HasPrefix(dynMode, "two") {
				// The second answer replaces the first: its entries are gone.
				cur := []netip.Addr{dynB4, dynB6}
				setSource(false, cur...)
				if err := refresher.Refresh(ictx); err != nil {
					t.Fatalf("second refresh: %v", err)
				}

				retire(dynNow, cur)
				dynNow = cur
				nSuccess++
				refreshes = append(refreshes, fmt.Sprintf("second refresh -> %v", dynNow))
			}

			if strings.HasSuffix(dynMode, "failed") {
				setSource(true)
				if err := refresher.Refresh(ictx); err == nil {
					t.Fatalf("a failing allowlist refresh reported no error")
				}

				failedKept = true
				refreshes = append(refreshes, "failed refresh")
			}
		}

		static := s.allowParsed
		s.allowParsed = append(append([]netip.Prefix(nil), static...), dynPrefixes(dynNow...)...)

		main := vc09NewWorld(s)
		swap := func(f func(m *vc09Settings)) *vc09World {
			m := s
			f(&m)

			return vc09NewWorld(m)
		}
		shadows := []*vc09Shadow{
			{"v6-verdict-depends-on-v6-interval", swap(func(m *vc09Settings) { m.Ivl6 = s.Ivl4 })},
			{"v4-verdict-depends-on-v4-interval", swap(func(m *vc09Settings) { m.Ivl4 = s.Ivl6 })},
			{"v6-verdict-depends-on-v6-count", swap(func(m *vc09Settings) { m.Lim6 = s.Lim4 })},
			{"v4-verdict-depends-on-v4-count", swap(func(m *vc09Settings) { m.Lim4 = s.Lim6 })},
			{"v6-verdict-depends-on-v6-key-len", swap(func(m *vc09Settings) { m.KL6 = s.KL4 })},
			{"v4-verdict-depends-on-v4-key-len", swap(func(m *vc09Settings) { m.KL4 = min(s.KL6, 32) })},
			{"verdict-depends-on-period-vs-duration", swap(func(m *vc09Settings) { m.Period, m.Duration = s.Duration, s.Period })},
			{"verdict-depends-on-backoff-count-vs-ipv4-count", swap(func(m *vc09Settings) { m.Count, m.Lim4 = s.Lim4, s.Count })},
			{"verdict-depends-on-response-size-estimate", swap(func(m *vc09Settings) { m.Est = 2 * s.Est })},
			{"verdict-depends-on-allowlist", swap(func(m *vc09Settings) { m.allowParsed = nil })},
			{"verdict-depends-on-dynamic-allowlist", swap(func(m *vc09Settings) { m.allowParsed = static })},
			{"verdict-depends-on-static-allowlist", swap(func(m *vc09Settings) { m.allowParsed = dynPrefixes(dynNow...) })},
			{"verdict-depends-on-last-refresh-replacing-the-previous", swap(func(m *vc09Settings) {
				m.allowParsed = append(append([]netip.Prefix(nil), s.allowParsed...), dynPrefixes(stale...)...)
			})},
			{"verdict-depends-on-refuseany", swap(func(m *vc09Settings) { m.Refuse = !s.Refuse })},
		}

		classes := map[string]bool{"v4-and-v6-intervals-differ": true}
		var lines []string
		hist := func() string {
			return fmt.Sprintf("settings %+v\n%s  %s\n", s, text, strings.Join(lines, "\n  "))
		}

		budget := 1200 * time.Millisecond
		sleep := func(d time.Duration) {
			d = min(max(d, 0), budget)
			budget -= d
			time.Sleep(d)
			lines = append(lines, fmt.Sprintf("sleep %s", d))
		}

		query := func(ip netip.Addr, qt uint16, size int) {
			req := vc09CReq(qt)
			b := time.Now().UnixNano()
			drop, allow, err := l.IsRateLimited(ctx, req, ip)
			a := time.Now().UnixNano()
			T := vc09model.Instant{Lo: b, Hi: max(a, b)}
			lines = append(lines, fmt.Sprintf("query %s qtype=%d respsize=%d at [%d..%d] -> drop=%t allowlisted=%t", ip, qt, size, T.Lo, T.Hi, drop, allow))
			if err != nil {
				t.Fatalf("unexpected error %v\n%s", err, hist())
			}

			if main.s.Refuse && qt == dns.TypeANY {
				classes["any-refusal-configured-and-any-query"] = true
				if !drop && st.Known(vc09KnownRefuseKey) {
					// Excluded, counted: the case goes on with what the code
					// really configured.
					classes["known-refuseany-ignored"] = true
					main.s.Refuse = false
					for _, sh := range shadows {
						sh.w.s.Refuse = false
					}
				}
			}

			if !(main.s.Refuse && qt == dns.TypeANY) && (&vc09World{s: vc09Settings{allowParsed: static}}).allowed(ip) &&
				!(&vc09World{s: vc09Settings{allowParsed: dynPrefixes(dynNow...)}}).allowed(ip) {
				// In the configuration file only; at least one successful refresh
				// has replaced the dynamic list since.
				classes["static-allowlist-after-successful-refresh"] = true
				if nSuccess >= 2 {
					classes["static-allowlist-after-two-refreshes"] = true
				}
			}

			if main.allowed(ip) && !(main.s.Refuse && qt == dns.TypeANY) {
				if ip.Is4() {
					classes["allowlisted-v4"] = true
				} else {
					classes["allowlisted-v6"] = true
				}
			}

			if ok, why := main.query(ip, qt, T, drop, allow); !ok {
				note := ""
				if qt == dns.TypeANY && s.Refuse && !drop {
					note = "\n(`refuseany: true`, spelled as in doc/configuration.md and config.dist.yaml, has no effect: finding " + vc09KnownRefuseKey + ")"
				}

				t.Fatalf("limiter built from the configuration says drop=%t allowlisted=%t for %s qtype %d; the configured values allow: %s%s\n%s", drop, allow, ip, qt, why, note, hist())
			}

			for _, sh := range shadows {
				if sh.w.failed {
					continue
				}

				if ok, _ := sh.w.query(ip, qt, T, drop, allow); !ok {
					sh.w.failed = true
					classes[sh.class] = true
				}
			}

			if !drop && !allow && size > 0 {
				resp := vc09CResp(req, size)
				b = time.Now().UnixNano()
				l.CountResponses(ctx, resp, ip)
				a = time.Now().UnixNano()
				T = vc09model.Instant{Lo: b, Hi: max(a, b)}
				lines = append(lines, fmt.Sprintf("  response of %d octets counted at [%d..%d]", resp.Len(), T.Lo, T.Hi))
				main.count(ip, qt, resp.Len(), T)
				for _, sh := range shadows {
					if !sh.w.failed {
						sh.w.count(ip, qt, resp.Len(), T)
					}
				}
			}
		}

		famOf := func(six bool) (ip netip.Addr, lim int, ivl, other time.Duration, kl, klOther int) {
			if six {
				return base6, s.Lim6, s.Ivl6, s.Ivl4, s.KL6, s.KL4
			}

			return base4, s.Lim4, s.Ivl4, s.Ivl6, s.KL4, min(s.KL6, 32)
		}

		mode := rapid.SampledFrom([]string{"straddle", "straddle", "spread-hits", "backoff-end", "two-hosts", "two-hosts", "size", "random"}).Draw(t, "mode")
		six := rapid.Bool().Draw(t, "v6")
		lines = append(lines, fmt.Sprintf("scenario %s v6=%t", mode, six))
		switch mode {
		case "straddle":
			// limit queries, a pause between the two configured intervals, one
			// more query: which interval applies decides its fate.
			ip, lim, ivl, other, _, _ := famOf(six)
			for j := 0; j < lim; j++ {
				query(ip, dns.TypeA, 0)
			}

			sleep((ivl + other) / 2)
			query(ip, dns.TypeA, 0)
		case "spread-hits":
			// count over-limit hits spread over a time between period and
			// duration, then a query once the window is empty again.
			ip, lim, ivl, _, _, _ := famOf(six)
			for j := 0; j < lim+s.Count-1; j++ {
				query(ip, dns.TypeA, 0)
			}

			sleep((s.Period + s.Duration) / 2)
			for j := 0; j < lim+1; j++ {
				query(ip, dns.TypeA, 0)
			}

			sleep(ivl + 2*u)
			query(ip, dns.TypeA, 0)
		case "backoff-end":
			// Enough over-limit hits at once to enter backoff, a pause between
			// period and duration, one query: backoff lasts for the duration.
			ip, lim, _, _, _, _ := famOf(six)
			for j := 0; j < lim+s.Count; j++ {
				query(ip, dns.TypeA, 0)
			}

			sleep((s.Period + s.Duration) / 2)
			query(ip, dns.TypeA, 0)
		case "two-hosts":
			// Two hosts that share a subnet under one of the two key lengths
			// only.
			ip, lim, _, _, kl, klOther := famOf(six)
			other := vc09CFlip(ip, min(kl, klOther))
			for j := 0; j < lim+1; j++ {
				if j%2 == 0 {
					query(ip, dns.TypeA, 0)
				} else {
					query(other, dns.TypeA, 0)
				}
			}
		case "size":
			// A response just above the estimate weighs two events.
			ip, lim, _, _, _, _ := famOf(six)
			query(ip, dns.TypeA, s.Est+5)
			for j := 0; j < lim; j++ {
				query(ip, dns.TypeA, 0)
			}
		}

		if failedKept {
			classes["dynamic-allowlist-kept-after-failed-refresh"] = true
		}

		for k := range refreshClasses {
			classes[k] = true
		}

		// Every address that was ever delivered, or could have been, is probed:
		// it is exempt exactly if the last successful answer lists it.
		// The plain form of an address that was delivered in IPv4-mapped form is
		// a different client.
		for _, a := range append(append(append([]netip.Addr(nil), stale...), dynNow...), plainOfMapped...) {
			query(a, dns.TypeA, 0)
		}

		// A client allowlisted in the configuration file only floods: it is
		// never dropped, whatever the refreshes brought.
		flooder := al4
		if rapid.Bool().Draw(t, "staticFlooder6") {
			flooder = al6
		}

		for j := 0; j < max(s.Lim4, s.Lim6)+2; j++ {
			query(flooder, dns.TypeA, 0)
		}

		classes["dynamic-allowlist-from-"+s.alType] = true
		lines = append(lines, refreshes...)

		pool := []netip.Addr{dyn4, dyn6, dynB4, dynB6, vc09CFlip(dyn4, 31), vc09CFlip(dyn4, 24), vc09CFlip(dynB4, 31), vc09CFlip(dyn6, 120), vc09CFlip(dyn6, 127), base4, vc09CFlip(base4, s.KL4), vc09CFlip(base4, s.KL4-1), base6, vc09CFlip(base6, s.KL6-1), al4, vc09CFlip(al4, 31), vc09CFlip(al4, 24), al6, vc09CFlip(al6, 127), vc09CFlip(al6, 63)}
		for j, n := 0, rapid.IntRange(2, 8).Draw(t, "tail"); j < n; j++ {
			if rapid.IntRange(0, 5).Draw(t, "pause") == 0 {
				sleep(rapid.SampledFrom([]time.Duration{u, s.Ivl4 + u, s.Ivl6 + u}).Draw(t, "pauseLen"))
			}

			query(rapid.SampledFrom(pool).Draw(t, "ip"),
				rapid.SampledFrom([]uint16{dns.TypeA, dns.TypeA, dns.TypeANY, dns.TypeTXT}).Draw(t, "qtype"),
				rapid.SampledFrom([]int{0, 0, s.Est - 1, s.Est, 2*s.Est + 5}).Draw(t, "respSize"))
		}

		var cl []string
		refuted := 0
		for k := range classes {
			cl = append(cl, k)
			if strings.Contains(k, "depends-on") {
				refuted++
			}
		}

		sort.Strings(cl)
		nt := ""
		if refuted > 0 {
			var b strings.Builder
			fmt.Fprintf(&b, "%+v", s)
			for _, ln := range lines {
				if i := strings.Index(ln, " at ["); i >= 0 {
					if j := strings.Index(ln, "]"); j > i {
						ln = ln[:i] + ln[j+1:]
					}
				}

				b.WriteString("|" + ln)
			}

			nt = b.String()
		}

		st.Case(nt, cl...)
		if refuted > 2 && st.WantSample() {
			st.Sample(map[string]any{"yaml": strings.Split(text, "\n"), "history": lines, "told_apart": cl})
		}
	})
}
