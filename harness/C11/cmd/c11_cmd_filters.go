//go:build verif

package cmd

// C11, configuration plumbing: which hash-prefix list answers for which
// category and with what.  Generated `safe_browsing:`, `adult_blocking:` and
// `filters:` sections and the filter environment -- block hosts (domain names
// and addresses), URLs and switches all different -- are parsed and validated
// by the package's own code and taken through the builder's own steps
// (initHashPrefixFilters, initFilterStorage, initMsgConstructor).
//
// (a) Fidelity: each of the three lists exists exactly when its variable says
// so, was constructed with its own URL and with the block host of its section
// (the newly-registered list shares the safe_browsing section), and the storage
// holds each list in the slot of its category.
//
// (b) Behaviour: each list is given one listed name of its own; the filters
// the storage composes for a group with exactly one category switched on
// answer that category's name -- and only that one -- with the block host of
// the right section (a rewritten question for a domain name, an address record
// with filters.response_ttl for an address), and a blocked response of the
// built message constructor carries filters.response_ttl and the EDE / SDE
// options exactly when ede_enabled / sde_enabled say so.

import (
	"context"
	"fmt"
	"net"
	"net/netip"
	"net/url"
	"os"
	"path/filepath"
	"reflect"
	"sort"
	"strings"
	"testing"
	"time"

	"github.com/AdguardTeam/AdGuardDNS/internal/agdcache"
	"github.com/AdguardTeam/AdGuardDNS/internal/agdtest"
	"github.com/AdguardTeam/AdGuardDNS/internal/debugsvc"
	"github.com/AdguardTeam/AdGuardDNS/internal/dnsmsg"
	"github.com/AdguardTeam/AdGuardDNS/internal/filter"
	"github.com/AdguardTeam/AdGuardDNS/internal/filter/hashprefix"
	"github.com/AdguardTeam/AdGuardDNS/internal/metrics"
	"github.com/AdguardTeam/golibs/logutil/slogutil"
	"github.com/miekg/dns"
	"github.com/prometheus/client_golang/prometheus"
	"pgregory.net/rapid"
	"verif.local/harness/vpeek"
	"verif.local/harness/vstat"
)

// vc11cmdSettings are the values written into the YAML text and the environment.
// Every duration differs from every other duration, every count from every
// other count.
type vc11cmdSettings struct {
	// filters
	RespTTL, RefreshIvl, RefreshTimeout, IndexTimeout, RuleListTimeout time.Duration
	CustomCache, SafeSearchCache, RuleListCache                        int
	RuleListCacheEnabled, EDE, SDE                                     bool
	MaxSize                                                            string
	maxSizeBytes                                                       uint64

	// safe_browsing and adult_blocking
	SB, AB vc11cmdHashPrefix

	// environment
	CacheDir                                                         string
	AdultURL, SBURL, NewRegURL, IndexURL, ServicesURL, GenURL, YTURL string
	AdultOn, SBOn, NewRegOn, ServicesOn, GenOn, YTOn                 bool
}

// vc11cmdHashPrefix is one of the two hash-prefix sections.
type vc11cmdHashPrefix struct {
	BlockHost                            string
	CacheSize                            int
	CacheTTL, RefreshIvl, RefreshTimeout time.Duration
}

func (h *vc11cmdHashPrefix) yaml(name string) string {
	return fmt.Sprintf(`%s:
    block_host: '%s'
    cache_size: %d
    cache_ttl: %s
    refresh_interval: %s
    refresh_timeout: %s
`, name, h.BlockHost, h.CacheSize, h.CacheTTL, h.RefreshIvl, h.RefreshTimeout)
}

func (s *vc11cmdSettings) yaml() string {
	return s.SB.yaml("safe_browsing") + s.AB.yaml("adult_blocking") + fmt.Sprintf(`filters:
    response_ttl: %s
    custom_filter_cache_size: %d
    safe_search_cache_size: %d
    refresh_interval: %s
    refresh_timeout: %s
    index_refresh_timeout: %s
    rule_list_refresh_timeout: %s
    max_size: %s
    rule_list_cache:
        enabled: %t
        size: %d
    ede_enabled: %t
    sde_enabled: %t
`, s.RespTTL, s.CustomCache, s.SafeSearchCache, s.RefreshIvl, s.RefreshTimeout, s.IndexTimeout, s.RuleListTimeout, s.MaxSize,
		s.RuleListCacheEnabled, s.RuleListCache, s.EDE, s.SDE)
}

func vc11cmdFlag(v bool) string {
	if v {
		return "1"
	}

	return "0"
}

// env is the environment as doc/environment.md names it.
func (s *vc11cmdSettings) env() map[string]string {
	return map[string]string{
		"ADULT_BLOCKING_URL":          s.AdultURL,
		"SAFE_BROWSING_URL":           s.SBURL,
		"NEW_REG_DOMAINS_URL":         s.NewRegURL,
		"FILTER_INDEX_URL":            s.IndexURL,
		"BLOCKED_SERVICE_INDEX_URL":   s.ServicesURL,
		"GENERAL_SAFE_SEARCH_URL":     s.GenURL,
		"YOUTUBE_SAFE_SEARCH_URL":     s.YTURL,
		"FILTER_CACHE_PATH":           s.CacheDir,
		"ADULT_BLOCKING_ENABLED":      vc11cmdFlag(s.AdultOn),
		"SAFE_BROWSING_ENABLED":       vc11cmdFlag(s.SBOn),
		"NEW_REG_DOMAINS_ENABLED":     vc11cmdFlag(s.NewRegOn),
		"BLOCKED_SERVICE_ENABLED":     vc11cmdFlag(s.ServicesOn),
		"GENERAL_SAFE_SEARCH_ENABLED": vc11cmdFlag(s.GenOn),
		"YOUTUBE_SAFE_SEARCH_ENABLED": vc11cmdFlag(s.YTOn),
	}
}

// vc11cmdEnvNames are all variables the package reads; those not set by a case are
// removed for its duration so that the surroundings of the test process do not
// leak in.
var vc11cmdEnvNames = []string{
	"ADULT_BLOCKING_URL", "BACKEND_RATELIMIT_URL", "BILLSTAT_URL", "BLOCKED_SERVICE_INDEX_URL", "CONSUL_ALLOWLIST_URL", "CONSUL_DNSCHECK_KV_URL",
	"CONSUL_DNSCHECK_SESSION_URL", "DNSCHECK_REMOTEKV_URL", "FILTER_INDEX_URL", "GENERAL_SAFE_SEARCH_URL", "LINKED_IP_TARGET_URL", "NEW_REG_DOMAINS_URL",
	"PROFILES_URL", "RULESTAT_URL", "SAFE_BROWSING_URL", "YOUTUBE_SAFE_SEARCH_URL", "BACKEND_RATELIMIT_API_KEY", "BILLSTAT_API_KEY", "CONFIG_PATH",
	"DNSCHECK_REMOTEKV_API_KEY", "FILTER_CACHE_PATH", "GEOIP_ASN_PATH", "GEOIP_COUNTRY_PATH", "PROFILES_API_KEY", "PROFILES_CACHE_PATH", "REDIS_ADDR",
	"REDIS_KEY_PREFIX", "QUERYLOG_PATH", "SSL_KEY_LOG_FILE", "SENTRY_DSN", "WEB_STATIC_DIR", "LISTEN_ADDR", "PROFILES_MAX_RESP_SIZE", "REDIS_IDLE_TIMEOUT",
	"DNSCHECK_CACHE_KV_SIZE", "REDIS_MAX_ACTIVE", "REDIS_MAX_IDLE", "LISTEN_PORT", "REDIS_PORT", "VERBOSE", "ADULT_BLOCKING_ENABLED", "LOG_TIMESTAMP",
	"NEW_REG_DOMAINS_ENABLED", "SAFE_BROWSING_ENABLED", "BLOCKED_SERVICE_ENABLED", "GENERAL_SAFE_SEARCH_ENABLED", "YOUTUBE_SAFE_SEARCH_ENABLED",
	"WEB_STATIC_DIR_ENABLED",
}

// vc11cmdWithEnv runs f with exactly the variables of set in the process
// environment and restores the environment afterwards.
func vc11cmdWithEnv(set map[string]string, f func()) {
	old := map[string]*string{}
	for _, n := range vc11cmdEnvNames {
		if v, ok := os.LookupEnv(n); ok {
			old[n] = &v
		} else {
			old[n] = nil
		}

		if v, ok := set[n]; ok {
			_ = os.Setenv(n, v)
		} else {
			_ = os.Unsetenv(n)
		}
	}

	defer func() {
		for n, v := range old {
			if v == nil {
				_ = os.Unsetenv(n)
			} else {
				_ = os.Setenv(n, *v)
			}
		}
	}()

	f()
}

var (
	vc11cmdDurations = []time.Duration{
		61 * time.Second, 2*time.Minute + 3*time.Second, 3*time.Minute + 7*time.Second, 4 * time.Minute, 5*time.Minute + 11*time.Second, 7 * time.Minute,
		11 * time.Minute, 13 * time.Minute, 17 * time.Minute, 19 * time.Minute, 23 * time.Minute, 29 * time.Minute, 31 * time.Minute, 37 * time.Second, 3 * time.Minute,
	}
	vc11cmdCounts = []int{101, 203, 307, 409, 503, 601, 11, 1024}
	vc11cmdSizes  = map[string]uint64{"256KB": 256 << 10, "1MB": 1 << 20, "3MB": 3 << 20, "77MB": 77 << 20, "4097B": 4097}
)

// vc11cmdDraw draws the settings of one case.  closed is a loopback address
// nothing listens on.
func vc11cmdDraw(rt *rapid.T, closed, cacheDir string) (s *vc11cmdSettings) {
	d := rapid.Permutation(vc11cmdDurations).Draw(rt, "durations")
	c := rapid.Permutation(vc11cmdCounts).Draw(rt, "counts")
	sizes := []string{"256KB", "1MB", "3MB", "77MB", "4097B"}
	s = &vc11cmdSettings{
		RespTTL: d[0], RefreshIvl: d[1], RefreshTimeout: d[2], IndexTimeout: d[3], RuleListTimeout: d[4],
		CustomCache: c[0], SafeSearchCache: c[1], RuleListCache: c[2],
		RuleListCacheEnabled: rapid.Bool().Draw(rt, "ruleListCacheEnabled"),
		MaxSize:              rapid.SampledFrom(sizes).Draw(rt, "maxSize"),
		SB:                   vc11cmdHashPrefix{CacheSize: c[3], CacheTTL: d[5], RefreshIvl: d[6], RefreshTimeout: d[7]},
		AB:                   vc11cmdHashPrefix{CacheSize: c[4], CacheTTL: d[8], RefreshIvl: d[9], RefreshTimeout: d[10]},
		CacheDir:             cacheDir,
	}
	s.maxSizeBytes = vc11cmdSizes[s.MaxSize]
	switch rapid.IntRange(0, 3).Draw(rt, "ede") {
	case 0:
	case 1:
		s.EDE = true
	default:
		s.EDE, s.SDE = true, true
	}

	hosts := rapid.Permutation([]string{"standard-block.dns.example.com", "family-block.dns.example.com", "192.0.2.10", "192.0.2.20", "block.example.net"}).Draw(rt, "blockHosts")
	s.SB.BlockHost, s.AB.BlockHost = hosts[0], hosts[1]

	u := func(name string) string { return "http://" + closed + "/" + name }
	s.AdultURL, s.SBURL, s.NewRegURL = u("adult.txt"), u("dangerous.txt"), u("newreg.txt")
	s.IndexURL, s.ServicesURL, s.GenURL, s.YTURL = u("filters.json"), u("services.json"), u("general_ss.txt"), u("youtube_ss.txt")

	// The switches: the hash-prefix ones, and the general / YouTube / services
	// ones, are never all equal.
	on := func(label string) bool { return rapid.IntRange(0, 3).Draw(rt, label) != 0 }
	s.AdultOn, s.SBOn, s.NewRegOn = on("adultOn"), on("sbOn"), on("newRegOn")
	s.ServicesOn, s.GenOn, s.YTOn = on("servicesOn"), on("genOn"), on("ytOn")

	return s
}

// vc11cmdBuilt is what the builder's own steps made of one case.
type vc11cmdBuilt struct {
	conf *configuration
	envs *environment
	b    *builder
}

// vc11cmdPeek reads unexported fields; the first failure is kept.
type vc11cmdPeek struct{ err error }

func (p *vc11cmdPeek) get(root any, path ...string) (v reflect.Value, ok bool) {
	v, err := vpeek.Get(root, path...)
	if err != nil {
		if p.err == nil {
			p.err = err
		}

		return v, false
	}

	return v, true
}

func (p *vc11cmdPeek) dur(root any, path ...string) time.Duration {
	if v, ok := p.get(root, path...); ok && v.CanInt() {
		return time.Duration(v.Int())
	}

	return -1
}

func (p *vc11cmdPeek) num(root any, path ...string) int64 {
	v, ok := p.get(root, path...)
	switch {
	case !ok:
		return -1
	case v.CanInt():
		return v.Int()
	case v.CanUint():
		return int64(v.Uint())
	}

	if p.err == nil {
		p.err = fmt.Errorf("vpeek: %v is not a number", path)
	}

	return -1
}

func (p *vc11cmdPeek) str(root any, path ...string) string {
	if v, ok := p.get(root, path...); ok && v.Kind() == reflect.String {
		return v.String()
	}

	return "<unreadable>"
}

func (p *vc11cmdPeek) flag(root any, path ...string) bool {
	if v, ok := p.get(root, path...); ok && v.Kind() == reflect.Bool {
		return v.Bool()
	}

	if p.err == nil {
		p.err = fmt.Errorf("vpeek: %v is not a bool", path)
	}

	return false
}

func (p *vc11cmdPeek) url(root any, path ...string) string {
	v, ok := p.get(root, path...)
	if !ok {
		return "<unreadable>"
	}

	if u, isURL := v.Interface().(*url.URL); isURL && u != nil {
		return u.String()
	}

	return "<nil>"
}

// lruSize is the capacity of an agdcache.LRU behind an interface field.
func (p *vc11cmdPeek) lruSize(root any, path ...string) int64 {
	return p.num(root, append(path, "cache", "size")...)
}

// vc11cmdRefr describes a refreshable as it was constructed.
type vc11cmdRefr struct {
	URL, CachePath, ID string
	Staleness, Timeout time.Duration
	MaxSize            uint64
}

func (p *vc11cmdPeek) refr(root any, path ...string) (r vc11cmdRefr) {
	at := func(more ...string) []string { return append(append([]string{}, path...), more...) }

	return vc11cmdRefr{
		URL:       p.url(root, at("url")...),
		CachePath: p.str(root, at("cachePath")...),
		ID:        p.str(root, at("id")...),
		Staleness: p.dur(root, at("staleness")...),
		Timeout:   p.dur(root, at("http", "http", "Timeout")...),
		MaxSize:   uint64(p.num(root, at("maxSize")...)),
	}
}

// vc11cmdBuild parses the environment and the configuration with the package's own
// code and runs the builder's own filter steps.  The downloads all fail (the
// URLs point at a closed loopback port, the cache directory is empty), so every
// step stops after its constructor has run with the converted values.
func vc11cmdBuild(rt *rapid.T, s *vc11cmdSettings, path string) (bt *vc11cmdBuilt, text string) {
	text = s.yaml()
	if err := os.WriteFile(path, []byte(text), 0o600); err != nil {
		rt.Fatalf("harness: %v", err)
	}

	conf, err := parseConfig(path)
	if err != nil {
		rt.Fatalf("the generated configuration was not parsed: %v\n%s", err, text)
	}

	for name, v := range map[string]validator{"safe_browsing": conf.SafeBrowsing, "adult_blocking": conf.AdultBlocking, "filters": conf.Filters} {
		if verr := v.validate(); verr != nil {
			rt.Fatalf("a valid %s section was rejected: %v\n%s", name, verr, text)
		}
	}

	var envs *environment
	vc11cmdWithEnv(s.env(), func() { envs, err = parseEnvironment() })
	if err != nil {
		rt.Fatalf("a valid environment was rejected: %v\n%v", err, s.env())
	}

	if err = envs.validate(); err != nil {
		rt.Fatalf("a valid environment was rejected: %v\n%v", err, s.env())
	}

	logger := slogutil.NewDiscardLogger()
	errColl := agdtest.NewErrorCollector()
	errColl.OnCollect = func(context.Context, error) {}
	b := &builder{
		baseLogger:     logger,
		cacheManager:   agdcache.NewDefaultManager(),
		cloner:         dnsmsg.NewCloner(metrics.ClonerStat{}),
		conf:           conf,
		env:            envs,
		errColl:        errColl,
		logger:         logger,
		mtrcNamespace:  metrics.Namespace(),
		promRegisterer: prometheus.NewRegistry(),
		debugRefrs:     debugsvc.Refreshers{},
	}

	ctx := context.Background()
	step := func(name string, wantErr bool, f func() error) {
		defer func() {
			if v := recover(); v != nil {
				rt.Fatalf("%s panicked on a valid configuration: %v\n%s%v", name, v, text, s.env())
			}
		}()

		serr := f()
		if wantErr && serr == nil {
			rt.Fatalf("harness: %s succeeded although nothing can be downloaded\n%s", name, text)
		} else if !wantErr && serr != nil {
			rt.Fatalf("%s failed on a valid configuration: %v\n%s%v", name, serr, text, s.env())
		}
	}

	// One hash-prefix filter at a time, as the first failing download ends
	// builder.initHashPrefixFilters.
	for _, which := range []string{"adult", "newreg", "dangerous"} {
		e := *envs
		e.AdultBlockingEnabled = envs.AdultBlockingEnabled && which == "adult"
		e.NewRegDomainsEnabled = envs.NewRegDomainsEnabled && which == "newreg"
		e.SafeBrowsingEnabled = envs.SafeBrowsingEnabled && which == "dangerous"
		b.env = &e
		b.promRegisterer = prometheus.NewRegistry()
		enabled := bool(e.AdultBlockingEnabled || e.NewRegDomainsEnabled || e.SafeBrowsingEnabled)
		step("builder.initHashPrefixFilters("+which+")", enabled, func() error { return b.initHashPrefixFilters(ctx) })
	}

	b.env = envs
	b.promRegisterer = prometheus.NewRegistry()
	step("builder.initFilterStorage", true, func() error { return b.initFilterStorage(ctx) })
	if b.filterStorage == nil {
		rt.Fatalf("builder.initFilterStorage left no storage behind\n%s", text)
	}

	step("builder.initMsgConstructor", false, func() error { return b.initMsgConstructor(ctx) })

	return &vc11cmdBuilt{conf: conf, envs: envs, b: b}, text
}

// vc11cmdClosed returns a loopback address nothing listens on.
func vc11cmdClosed(tb testing.TB) string {
	l, err := net.Listen("tcp", "127.0.0.1:0")
	if err != nil {
		tb.Fatalf("fixture: %v", err)
	}

	addr := l.Addr().String()
	_ = l.Close()

	return addr
}

func vc11cmdInconclusive(t *testing.T, format string, args ...any) {
	msg := fmt.Sprintf(format, args...)
	fmt.Printf("VERIF-INCONCLUSIVE: %s\n", msg)
	t.Logf("VERIF-INCONCLUSIVE: %s", msg)
	t.FailNow()
}

func TestVerifC11CmdFilters(t *testing.T) {
	st := vstat.New("C11", "cmd.hashprefix-config",
		"rapid: `safe_browsing:`, `adult_blocking:`, `filters:` YAML sections (two different block hosts drawn from domain names and IPv4 addresses, response_ttl different from every other duration, ede/sde switches) and the filter environment (three different list URLs, three switches) -> parseConfig, parseEnvironment, validate, builder.initHashPrefixFilters, initFilterStorage, initMsgConstructor; fidelity of existence, URL, id and block host of each list and of the storage's three slots; behaviour: one listed name per list, group filters with exactly one category on, A queries for the three names; blocked response of the constructor vs response_ttl / ede_enabled / sde_enabled; non-trivial = a listed name answered with its section's block host, distinct by settings and category",
		"adult-name-answered-with-adult-block-host", "dangerous-name-answered-with-safe-browsing-block-host", "newly-registered-name-answered-with-safe-browsing-block-host",
		"block-host-is-domain-name", "block-host-is-address", "category-off-name-not-filtered", "list-switched-off-name-not-filtered", "ede-on-sde-off", "ede-and-sde-on", "ede-off")
	st.Finish(t)

	closed := vc11cmdClosed(t)
	dir := t.TempDir()
	caseNo := 0
	ctx := context.Background()

	rapid.Check(t, func(rt *rapid.T) {
		caseNo++
		cacheDir := filepath.Join(dir, fmt.Sprintf("filters%d", caseNo))
		if err := os.MkdirAll(cacheDir, 0o700); err != nil {
			rt.Fatalf("harness: %v", err)
		}
		defer func() { _ = os.RemoveAll(cacheDir) }()

		s := vc11cmdDraw(rt, closed, cacheDir)
		path := filepath.Join(dir, fmt.Sprintf("c%d.yaml", caseNo))
		defer func() { _ = os.Remove(path) }()

		bt, text := vc11cmdBuild(rt, s, path)
		b := bt.b
		pk := &vc11cmdPeek{}
		classes := map[string]bool{}
		var bad []string
		expect := func(what string, got, want any) {
			if got != want {
				bad = append(bad, fmt.Sprintf("%s: the configuration says %v, built with %v", what, want, got))
			}
		}

		type list struct {
			name, section, url, id, slot, listed, class string
			f                                           *hashprefix.Filter
			hashes                                      *hashprefix.Storage
			on                                          bool
			sec                                         *vc11cmdHashPrefix
		}
		lists := []*list{
			{"adult-blocking list", "adult_blocking", s.AdultURL, "adult_blocking", "adult", "adult-listed.example", "adult-name-answered-with-adult-block-host", b.adultBlocking, b.adultBlockingHashes, s.AdultOn, &s.AB},
			{"dangerous-domains list", "safe_browsing", s.SBURL, "safe_browsing", "dangerous", "dangerous-listed.example", "dangerous-name-answered-with-safe-browsing-block-host", b.safeBrowsing, b.safeBrowsingHashes, s.SBOn, &s.SB},
			{"newly-registered-domains list", "safe_browsing", s.NewRegURL, "newly_registered_domains", "newlyRegistered", "newreg-listed.example", "newly-registered-name-answered-with-safe-browsing-block-host", b.newRegDomains, b.newRegDomainsHashes, s.NewRegOn, &s.SB},
		}

		fs := b.filterStorage
		for _, l := range lists {
			slot, ok := pk.get(fs, l.slot)
			if !ok {
				break
			}

			inSlot, _ := slot.Interface().(*hashprefix.Filter)
			if inSlot != l.f {
				bad = append(bad, fmt.Sprintf("%s: the storage's %q slot holds another list", l.name, l.slot))
			}

			if !l.on {
				if l.f != nil {
					bad = append(bad, l.name+": built although its *_ENABLED variable is 0")
				}

				continue
			} else if l.f == nil || l.hashes == nil {
				bad = append(bad, l.name+": not built although its *_ENABLED variable is 1")

				continue
			}

			expect(l.name+": source URL (its *_URL variable)", pk.url(l.f, "refr", "url"), l.url)
			expect(l.name+": id", pk.str(l.f, "id"), l.id)
			host := pk.str(l.f, "repFQDN")
			if ipv, ipOK := pk.get(l.f, "repIP"); ipOK {
				if ip, isIP := ipv.Interface().(netip.Addr); isIP && ip.IsValid() {
					host = ip.String()
				}
			}

			expect(l.name+": replacement host ("+l.section+".block_host)", strings.TrimSuffix(host, "."), l.sec.BlockHost)

			if _, err := l.hashes.Reset(l.listed + "\n"); err != nil {
				rt.Fatalf("harness: %v", err)
			}
		}

		if pk.err != nil {
			vc11cmdInconclusive(t, "the built filter objects cannot be read: %v", pk.err)
		}

		if len(bad) > 0 {
			rt.Fatalf("conversion of the hash-prefix settings:\n  %s\n%s%v", strings.Join(bad, "\n  "), text, s.env())
		}

		// (b) Behaviour through the storage.
		msgs := b.messages
		respTTL := uint32(s.RespTTL / time.Second)
		var ntKeys []string
		for ci, cat := range lists {
			conf := &filter.ConfigGroup{
				Parental:     &filter.ConfigParental{Enabled: ci == 0, AdultBlockingEnabled: ci == 0},
				RuleList:     &filter.ConfigRuleList{},
				SafeBrowsing: &filter.ConfigSafeBrowsing{Enabled: ci > 0, DangerousDomainsEnabled: ci == 1, NewlyRegisteredDomainsEnabled: ci == 2},
			}
			flt := fs.ForConfig(ctx, conf)
			for _, l := range lists {
				req := (&dns.Msg{}).SetQuestion(l.listed+".", dns.TypeA)
				req.Id = 0xC11
				res, err := flt.FilterRequest(ctx, &filter.Request{
					DNS:      req,
					Messages: msgs,
					RemoteIP: netip.MustParseAddr("192.0.2.7"),
					Host:     l.listed,
					QType:    dns.TypeA,
					QClass:   dns.ClassINET,
				})
				if err != nil {
					rt.Fatalf("filtering %s with only the %s category on: %v\n%s", l.listed, cat.slot, err, text)
				}

				describe := func() string {
					return fmt.Sprintf("group filter with only the %s category on, A %s (listed in the %s): result %#v", cat.slot, l.listed, l.name, res)
				}

				if l != cat || !l.on {
					if res != nil {
						rt.Fatalf("%s; nothing may filter this name\n%s%v", describe(), text, s.env())
					}

					if l == cat {
						classes["list-switched-off-name-not-filtered"] = true
					} else {
						classes["category-off-name-not-filtered"] = true
					}

					continue
				}

				want := l.sec.BlockHost
				if ip, perr := netip.ParseAddr(want); perr == nil {
					classes["block-host-is-address"] = true
					mr, ok := res.(*filter.ResultModifiedResponse)
					if !ok || mr.Msg == nil || len(mr.Msg.Answer) != 1 {
						rt.Fatalf("%s; want one address record %s (%s.block_host)\n%s%v", describe(), want, l.section, text, s.env())
					}

					a, isA := mr.Msg.Answer[0].(*dns.A)
					if !isA || a.A.String() != ip.String() || string(mr.List) != l.id {
						rt.Fatalf("%s answers %v from list %q; want %s (%s.block_host) from %q\n%s%v", describe(), mr.Msg.Answer[0], mr.List, want, l.section, l.id, text, s.env())
					}

					// "The default TTL to set for responses to queries for
					// blocked or modified domains"
					if a.Hdr.Ttl != respTTL {
						rt.Fatalf("%s has TTL %d; filters.response_ttl is %s\n%s", describe(), a.Hdr.Ttl, s.RespTTL, text)
					}
				} else {
					classes["block-host-is-domain-name"] = true
					mq, ok := res.(*filter.ResultModifiedRequest)
					if !ok || mq.Msg == nil || len(mq.Msg.Question) != 1 {
						rt.Fatalf("%s; want the question rewritten to %s (%s.block_host)\n%s%v", describe(), want, l.section, text, s.env())
					}

					if got := strings.TrimSuffix(mq.Msg.Question[0].Name, "."); got != want || string(mq.List) != l.id {
						rt.Fatalf("%s rewrites the question to %q from list %q; want %s (%s.block_host) from %q\n%s%v", describe(), got, mq.List, want, l.section, l.id, text, s.env())
					}
				}

				classes[l.class] = true
				ntKeys = append(ntKeys, l.slot+"="+want)
			}
		}

		// The message constructor.
		if msgs == nil {
			rt.Fatalf("builder.initMsgConstructor left no constructor behind\n%s", text)
		}

		req := (&dns.Msg{}).SetQuestion("blocked.example.", dns.TypeA)
		req.SetEdns0(1232, false)
		opt := req.IsEdns0()
		// An empty EDE option asks for structured errors.
		opt.Option = append(opt.Option, &dns.EDNS0_EDE{})
		resp, err := msgs.NewBlockedResp(req)
		if err != nil || resp == nil || len(resp.Answer) != 1 {
			rt.Fatalf("blocked response of the built constructor: %v, %v\n%s", resp, err, text)
		}

		if ttl := resp.Answer[0].Header().Ttl; ttl != respTTL {
			rt.Fatalf("a blocked response has TTL %d; filters.response_ttl is %s\n%s", ttl, s.RespTTL, text)
		}

		var ede *dns.EDNS0_EDE
		if ro := resp.IsEdns0(); ro != nil {
			for _, o := range ro.Option {
				if e, ok := o.(*dns.EDNS0_EDE); ok {
					ede = e
				}
			}
		}

		switch {
		case !s.EDE:
			classes["ede-off"] = true
			if ede != nil {
				rt.Fatalf("filters.ede_enabled is false but a blocked response carries an EDE option %v\n%s", ede, text)
			}
		case ede == nil:
			rt.Fatalf("filters.ede_enabled is true but a blocked response to an EDNS query carries no EDE option\n%s", text)
		case s.SDE:
			classes["ede-and-sde-on"] = true
			if ede.ExtraText == "" {
				rt.Fatalf("filters.sde_enabled is true but the EDE option of a blocked response has no structured text\n%s", text)
			}
		default:
			classes["ede-on-sde-off"] = true
			if ede.ExtraText != "" {
				rt.Fatalf("filters.sde_enabled is false but the EDE option of a blocked response has the text %q\n%s", ede.ExtraText, text)
			}
		}

		var cl []string
		for c := range classes {
			cl = append(cl, c)
		}

		sort.Strings(cl)
		nt := ""
		if len(ntKeys) > 0 {
			nt = text + fmt.Sprint(s.env()) + strings.Join(ntKeys, ",")
		}

		st.Case(nt, cl...)
		if nt != "" && st.WantSample() {
			st.Sample(map[string]any{"yaml": strings.Split(text, "\n"), "answered": ntKeys, "classes": cl})
		}
	})
}
