//go:build verif

package preservice_test

// C11 (TXT hash-prefix queries through the preservice middleware, real
// hashprefix.Matcher and storages): a TXT query under a safe-browsing suffix
// is answered with exactly the full hashes of the listed names that start
// with a requested prefix; a malformed prefix is REFUSED and not forwarded;
// anything else is passed to the next handler.

import (
	"context"
	"crypto/sha256"
	"encoding/hex"
	"fmt"
	"net"
	"sort"
	"strings"
	"sync"
	"testing"
	"time"

	"github.com/AdguardTeam/AdGuardDNS/internal/agd"
	"github.com/AdguardTeam/AdGuardDNS/internal/agdtest"
	"github.com/AdguardTeam/AdGuardDNS/internal/dnsmsg"
	"github.com/AdguardTeam/AdGuardDNS/internal/dnsserver"
	"github.com/AdguardTeam/AdGuardDNS/internal/dnssvc/internal/preservice"
	"github.com/AdguardTeam/AdGuardDNS/internal/filter"
	"github.com/AdguardTeam/AdGuardDNS/internal/filter/hashprefix"
	"github.com/AdguardTeam/golibs/logutil/slogutil"
	"github.com/miekg/dns"
	"pgregory.net/rapid"
	"verif.local/harness/vstat"
)

func vc11pSum(name string) string {
	sum := sha256.Sum256([]byte(name))

	return hex.EncodeToString(sum[:])
}

// vc11pPool is a fixed pool of names in which the first two share their
// four-character hash prefix.
var (
	vc11pPoolOnce sync.Once
	vc11pPoolVal  []string

	// vc11pZero and vc11pOnes are names whose digests start with 00 00 and
	// ff ff: what a prefix that is never filled in would select.
	vc11pZero, vc11pOnes string
)

func vc11pPool() []string {
	vc11pPoolOnce.Do(func() {
		want := vc11pSum("bad.example.com")[:4]
		twin := ""
		for i := 0; twin == ""; i++ {
			if c := fmt.Sprintf("t%d.example.com", i); vc11pSum(c)[:4] == want {
				twin = c
			}
		}

		for i := 0; vc11pZero == "" || vc11pOnes == ""; i++ {
			switch c := fmt.Sprintf("z%d.com", i); vc11pSum(c)[:4] {
			case "0000":
				if vc11pZero == "" {
					vc11pZero = c
				}
			case "ffff":
				if vc11pOnes == "" {
					vc11pOnes = c
				}
			}
		}

		vc11pPoolVal = []string{
			vc11pZero, vc11pOnes,
			"bad.example.com", twin, "adult.example.net", "scam.example.org", "phish.co.uk", "new.example.io",
			"a.bad.example.com", "x.test",

			// Legal DNS names that are not strict host names, a digits-only
			// and a 63-octet label: the unchanged Reset lists them all.
			"_dmarc.bad.example.com", "secure_login.example.net", "cdn-.example.org", "-x.example.io",
			"123.example.com", strings.Repeat("l", 63) + ".example.com",
		}
	})

	return vc11pPoolVal
}

// vc11pOdd reports whether name is a legal DNS name that is not a strict host
// name: an underscore, or a label starting or ending with a hyphen.
func vc11pOdd(name string) bool {
	return strings.Contains(name, "_") || strings.Contains(name, "-.") || strings.Contains(name, ".-") ||
		strings.HasPrefix(name, "-")
}

// vc11pGenList draws the listed subset of the pool and a list text for it
// (with comments, blank lines, duplicates, CRLF and sometimes a long comment
// line first); long is the length of that line or 0.
func vc11pGenList(t *rapid.T, label string) (text string, listed map[string]bool, long int) {
	listed = map[string]bool{}
	var lines []string
	for _, name := range vc11pPool() {
		k := rapid.IntRange(0, 7).Draw(t, label)
		if (name == vc11pZero || name == vc11pOnes) && k >= 5 {
			// The magic names are listed more often than the others.
			k = 0
		}

		switch k {
		case 0, 1, 2:
			lines = append(lines, name)
			listed[name] = true
		case 3:
			lines = append(lines, name, "", name)
			listed[name] = true
		case 4:
			lines = append(lines, "#"+name)
		}
	}

	// Sometimes a long comment line in front of the names (lengths around 255
	// and below the scanner's 64 KiB token limit, terminator included).
	long = 0
	if rapid.IntRange(0, 3).Draw(t, label+".long") == 0 {
		long = rapid.SampledFrom([]int{200, 254, 255, 255, 256, 256, 1000, 4096, 65534}).Draw(t, label+".longLen")
		lines = append([]string{"#" + strings.Repeat("-", long-1)}, lines...)
	}

	eol := rapid.SampledFrom([]string{"\n", "\r\n"}).Draw(t, label+".eol")

	return strings.Join(lines, eol) + eol, listed, long
}

// vc11pShow quotes a list text, abbreviating a long comment line.
func vc11pShow(text string) string {
	if i := strings.Index(text, strings.Repeat("-", 40)); i >= 0 {
		j := i
		for j < len(text) && text[j] == '-' {
			j++
		}

		text = fmt.Sprintf("%s-{%d}%s", text[:i], j-i, text[j:])
	}

	return fmt.Sprintf("%q", text)
}

// vc11pLabel is one label of a generated prefix query.
type vc11pLabel struct {
	text, kind, pref string
	malformed, free  bool
}

func vc11pGenLabel(t *rapid.T, allowLong bool) vc11pLabel {
	sum := vc11pSum(rapid.SampledFrom(vc11pPool()).Draw(t, "prefName"))
	bad := func(lo, hi int) string {
		b := []byte(sum[:hi])
		b[rapid.IntRange(lo, hi-1).Draw(t, "badAt")] = rapid.SampledFrom([]byte("gz-_x")).Draw(t, "badCh")

		return string(b)
	}

	switch k := rapid.IntRange(0, 15).Draw(t, "prefKind"); {
	case k <= 6:
		return vc11pLabel{text: sum[:4], kind: "pref-pool4", pref: sum[:4]}
	case k <= 9:
		return vc11pLabel{text: sum[:8], kind: "pref-legacy8", pref: sum[:4]}
	case k == 10:
		p := sum[:2] + vc11pSum(sum)[:2]

		return vc11pLabel{text: p, kind: "pref-other4", pref: p}
	case k == 11:
		n := rapid.SampledFrom([]int{1, 2, 3, 5, 6, 7, 9, 12, 16, 63}).Draw(t, "badLen")
		if n == 63 && !allowLong {
			// Keep the whole name within 253 octets.
			n = 32
		}

		return vc11pLabel{text: sum[:n], kind: "malformed-length", malformed: true}
	case k == 12:
		return vc11pLabel{text: bad(0, 4), kind: "malformed-nonhex4", malformed: true}
	case k == 13:
		return vc11pLabel{text: bad(0, 4) + sum[4:8], kind: "malformed-nonhex8-head", malformed: true}
	case k == 14:
		return vc11pLabel{text: sum[:4] + bad(4, 8)[4:], kind: "free-nonhex8-tail", pref: sum[:4], free: true}
	default:
		return vc11pLabel{text: "www", kind: "malformed-word", malformed: true}
	}
}

// vc11pWriter records every message written.
type vc11pWriter struct {
	msgs []*dns.Msg
}

func (w *vc11pWriter) LocalAddr() net.Addr { return &net.TCPAddr{IP: net.IP{192, 0, 2, 1}, Port: 53} }
func (w *vc11pWriter) RemoteAddr() net.Addr {
	return &net.TCPAddr{IP: net.IP{192, 0, 2, 99}, Port: 12345}
}

func (w *vc11pWriter) WriteMsg(_ context.Context, _, resp *dns.Msg) error {
	w.msgs = append(w.msgs, resp)

	return nil
}

const vc11pNextMarker = "answered-by-next-handler"

func vc11pMixCase(t *rapid.T, s string) string {
	if !rapid.Bool().Draw(t, "mixCase") {
		return s
	}

	b := []byte(s)
	for i := range b {
		if b[i] >= 'a' && b[i] <= 'z' && rapid.Bool().Draw(t, "upper") {
			b[i] -= 'a' - 'A'
		}
	}

	return string(b)
}

func vc11pKeys(m map[string]bool) (keys []string) {
	for k := range m {
		keys = append(keys, k)
	}

	sort.Strings(keys)

	return keys
}

func TestVerifC11Preservice(t *testing.T) {
	st := vstat.New("C11", "preservice.txt",
		"rapid histories through preservice.Middleware (one shared production cloner and constructor, every response disposed of after judging) over a real hashprefix.Matcher with two storages (general and adult "+
			"suffix): lists over a 16-name pool (incl. underscore, edge-hyphen, digits-only and 63-octet labels) containing a prefix twin and names whose digests start with 0000 and ffff, questions (TXT and other types; 1-5 prefix labels "+
			"pool/legacy/other/malformed; hosts under and outside the suffixes; mixed-case question names), storage resets; "+
			"non-trivial = TXT query under a suffix with a non-empty expected answer; distinct by (suffix, prefixes, expected)",
		"txt-answer-nonempty", "txt-answer-empty", "txt-answer-two-names-one-prefix", "txt-legacy8", "txt-refused",
		"txt-outside-suffix-forwarded", "non-txt-forwarded", "txt-answer-after-reset",
		"txt-repeated-prefix-with-zero-hash-listed", "txt-no-match-after-disposed-match",
		"txt-no-match-after-disposed-other-txt", "list-has-line-of-255-or-more",
		"listed-name-not-a-strict-hostname-queried")
	st.Finish(t)

	// One production cloner and constructor for the whole stack, as in cmd;
	// every written response is disposed of after it has been judged, as the
	// plain-DNS and DoT servers do, so records are recycled between queries.
	cloner := agdtest.NewCloner()
	msgs, err := dnsmsg.NewConstructor(&dnsmsg.ConstructorConfig{
		Cloner:              cloner,
		BlockingMode:        &dnsmsg.BlockingModeNullIP{},
		StructuredErrors:    agdtest.NewSDEConfig(true),
		FilteredResponseTTL: agdtest.FilteredResponseTTL,
		EDEEnabled:          true,
	})
	if err != nil {
		t.Fatalf("harness: %v", err)
	}

	// pooled describes the TXT strings of the response disposed of last.
	pooled := ""
	suffixes := []string{filter.GeneralTXTSuffix, filter.AdultBlockingTXTSuffix}
	baseCtx := dnsserver.ContextWithRequestInfo(context.Background(), &dnsserver.RequestInfo{StartTime: time.Now()})
	baseCtx = dnsserver.ContextWithServerInfo(baseCtx, &dnsserver.ServerInfo{})

	rapid.Check(t, func(t *rapid.T) {
		var history []string
		listed := make([]map[string]bool, 2)
		strgs := make([]*hashprefix.Storage, 2)
		storages := map[string]*hashprefix.Storage{}
		resets := 0
		for i := range strgs {
			var text string
			var long int
			text, listed[i], long = vc11pGenList(t, fmt.Sprintf("list%d", i))
			history = append(history, fmt.Sprintf("storage %s list=%s", suffixes[i], vc11pShow(text)))

			var err error
			strgs[i], err = hashprefix.NewStorage(text)
			if err != nil && long >= 254 {
				// A loud refusal of a list with an overlong line: no list.
				history = append(history, fmt.Sprintf("list refused: %v", err))
				listed[i] = map[string]bool{}
				strgs[i], err = hashprefix.NewStorage("")
			} else if long >= 255 && len(listed[i]) > 0 {
				st.Class("list-has-line-of-255-or-more")
			}

			if err != nil {
				t.Fatalf("NewStorage: %v", err)
			}

			storages[suffixes[i]] = strgs[i]
		}

		nextCalls := 0
		var nextResp *dns.Msg
		next := dnsserver.HandlerFunc(func(ctx context.Context, rw dnsserver.ResponseWriter, req *dns.Msg) error {
			nextCalls++

			// Other response kinds from the same constructor: a TXT record
			// with a marker for TXT questions, NXDOMAIN with a SOA otherwise.
			var resp *dns.Msg
			if req.Question[0].Qtype == dns.TypeTXT {
				var nerr error
				resp, nerr = msgs.NewRespTXT(req, vc11pNextMarker)
				if nerr != nil {
					return nerr
				}
			} else {
				resp = msgs.NewRespRCode(req, dns.RcodeNameError)
			}

			nextResp = resp

			return rw.WriteMsg(ctx, req, resp)
		})

		mw := preservice.New(&preservice.Config{
			Logger:      slogutil.NewDiscardLogger(),
			Messages:    msgs,
			HashMatcher: hashprefix.NewMatcher(storages),
			Checker: &agdtest.DNSCheck{
				OnCheck: func(_ context.Context, _ *dns.Msg, _ *agd.RequestInfo) (*dns.Msg, error) { return nil, nil },
			},
		})
		h := mw.Wrap(next)

		nOps := rapid.IntRange(1, 8).Draw(t, "nOps")
		for op := 0; op < nOps; op++ {
			if op > 0 && rapid.IntRange(0, 7).Draw(t, "op") == 0 {
				i := rapid.IntRange(0, 1).Draw(t, "resetWhich")
				var text string
				var long int
				var next map[string]bool
				text, next, long = vc11pGenList(t, fmt.Sprintf("relist%d", i))
				history = append(history, fmt.Sprintf("reset %s list=%s", suffixes[i], vc11pShow(text)))
				switch _, err := strgs[i].Reset(text); {
				case err != nil && long >= 254:
					// A loud refusal leaves the previous list in effect.
					history = append(history, fmt.Sprintf("reset refused: %v", err))
				case err != nil:
					t.Fatalf("Reset: %v", err)
				default:
					listed[i] = next
					if long >= 255 && len(next) > 0 {
						st.Class("list-has-line-of-255-or-more")
					}
				}

				resets++

				continue
			}

			// The question.
			nLabels := rapid.SampledFrom([]int{1, 1, 1, 2, 2, 3, 5}).Draw(t, "nPrefs")
			var labels []vc11pLabel
			var texts, kinds []string
			prefs := map[string]bool{}
			malformed, free := false, false
			for i := 0; i < nLabels; i++ {
				l := vc11pGenLabel(t, nLabels <= 2)
				if i > 0 && rapid.IntRange(0, 2).Draw(t, "repeat") == 0 {
					// Request an earlier prefix again, in one of its forms.
					if e := labels[rapid.IntRange(0, i-1).Draw(t, "repeatOf")]; e.pref != "" && !e.free {
						l = e
						switch rapid.IntRange(0, 2).Draw(t, "repeatForm") {
						case 1:
							l = vc11pLabel{text: e.pref, kind: "pref-pool4", pref: e.pref}
						case 2:
							l = vc11pLabel{text: e.pref + vc11pSum(e.text + "tail")[:4], kind: "pref-legacy8-other-tail", pref: e.pref}
						}
					}
				}

				labels = append(labels, l)
				texts = append(texts, l.text)
				kinds = append(kinds, l.kind)
				malformed = malformed || l.malformed
				free = free || l.free
				if l.pref != "" {
					prefs[l.pref] = true
				}
			}

			which := rapid.IntRange(0, 1).Draw(t, "which")
			place := rapid.SampledFrom([]string{"under", "under", "under", "under", "under", "outside"}).Draw(t, "place")
			host := strings.Join(texts, ".") + suffixes[which]
			if place == "outside" {
				host = rapid.SampledFrom([]string{
					strings.Join(texts, ".") + ".example.com",
					strings.Join(texts, ".") + suffixes[which] + ".test",
					texts[0] + suffixes[which][1:],
					suffixes[which][1:],
					strings.Join(texts, ".") + ".dns.adguard.com",
					texts[0],
				}).Draw(t, "outsideHost")
			}

			qt := rapid.SampledFrom([]uint16{
				dns.TypeTXT, dns.TypeTXT, dns.TypeTXT, dns.TypeTXT, dns.TypeTXT, dns.TypeTXT,
				dns.TypeA, dns.TypeAAAA, dns.TypeHTTPS, dns.TypeANY, dns.TypeSPF,
			}).Draw(t, "qt")

			req := &dns.Msg{
				MsgHdr: dns.MsgHdr{Id: uint16(1000 + op), RecursionDesired: true},
				Question: []dns.Question{{
					Name:   vc11pMixCase(t, dns.Fqdn(host)),
					Qtype:  qt,
					Qclass: dns.ClassINET,
				}},
			}
			ri := &agd.RequestInfo{Host: host, QType: qt, QClass: dns.ClassINET}
			ctx := agd.ContextWithRequestInfo(baseCtx, ri)

			rw := &vc11pWriter{}
			nextCalls = 0
			err := h.ServeDNS(ctx, rw, req)

			desc := fmt.Sprintf("%s %q", dns.TypeToString[qt], req.Question[0].Name)
			if len(rw.msgs) == 1 {
				history = append(history, fmt.Sprintf("%s -> next=%d rcode=%s answer=%v", desc, nextCalls,
					dns.RcodeToString[rw.msgs[0].Rcode], rw.msgs[0].Answer))
			} else {
				history = append(history, fmt.Sprintf("%s -> next=%d %d messages written", desc, nextCalls, len(rw.msgs)))
			}

			fail := func(format string, args ...any) {
				t.Fatalf("%s: %s\nhistory:\n%s", desc, fmt.Sprintf(format, args...), strings.Join(history, "\n"))
			}

			if err != nil {
				fail("ServeDNS returned %v", err)
			}

			if len(rw.msgs) != 1 || rw.msgs[0] == nil {
				fail("%d responses written, want exactly one", len(rw.msgs))
			}

			resp := rw.msgs[0]
			fromNext := resp == nextResp

			switch {
			case qt != dns.TypeTXT:
				st.Case("", "non-txt-forwarded")
				if nextCalls != 1 || !fromNext {
					fail("a question that is not TXT was not passed to the next handler exactly once (calls %d)", nextCalls)
				}
			case place == "outside":
				st.Case("", "txt-outside-suffix-forwarded")
				if nextCalls != 1 || !fromNext {
					fail("a TXT question outside the suffixes was not passed to the next handler exactly once (calls %d)", nextCalls)
				}
			case malformed:
				st.Case("", append(kinds, "txt-refused")...)
				if nextCalls != 0 {
					fail("a malformed prefix query was forwarded to the next handler")
				}

				if resp.Rcode != dns.RcodeRefused || len(resp.Answer) != 0 {
					fail("a malformed prefix query was answered with %s and %d records, want REFUSED and none",
						dns.RcodeToString[resp.Rcode], len(resp.Answer))
				}

				if !resp.Response || resp.Id != req.Id {
					fail("the refusal is not a reply to the request: %v", resp)
				}
			case free && resp.Rcode == dns.RcodeRefused && nextCalls == 0 && len(resp.Answer) == 0:
				st.Case("", append(kinds, "txt-free-refused")...)
			default:
				want := map[string]bool{}
				byPref := map[string]int{}
				classes := append([]string{}, kinds...)
				for name := range listed[which] {
					if sum := vc11pSum(name); prefs[sum[:4]] {
						want[sum] = true
						byPref[sum[:4]]++
					}
				}

				for name := range listed[which] {
					if vc11pOdd(name) && prefs[vc11pSum(name)[:4]] {
						classes = append(classes, "listed-name-not-a-strict-hostname-queried")

						break
					}
				}

				nt := ""
				if len(want) > 0 {
					nt = fmt.Sprintf("%s|%v|%v", suffixes[which], vc11pKeys(prefs), vc11pKeys(want))
					classes = append(classes, "txt-answer-nonempty")
					if resets > 0 {
						classes = append(classes, "txt-answer-after-reset")
					}

					for _, l := range labels {
						if l.kind == "pref-legacy8" && byPref[l.pref] > 0 {
							classes = append(classes, "txt-legacy8")
						}
					}
				} else {
					classes = append(classes, "txt-answer-empty")
					switch pooled {
					case "hashes":
						classes = append(classes, "txt-no-match-after-disposed-match")
					case "marker":
						classes = append(classes, "txt-no-match-after-disposed-other-txt")
					}
				}

				if len(labels) > len(prefs) {
					if listed[which][vc11pZero] && !prefs["0000"] {
						classes = append(classes, "txt-repeated-prefix-with-zero-hash-listed")
					}

					if listed[which][vc11pOnes] && !prefs["ffff"] {
						classes = append(classes, "txt-repeated-prefix-with-ones-hash-listed")
					}
				}

				for _, n := range byPref {
					if n >= 2 {
						classes = append(classes, "txt-answer-two-names-one-prefix")
					}
				}

				st.Case(nt, classes...)
				if st.WantSample() && len(want) > 1 {
					st.Sample(map[string]any{"history": append([]string{}, history...), "expected": vc11pKeys(want)})
				}

				if nextCalls != 0 {
					fail("a hash-prefix query was forwarded to the next handler")
				}

				if resp.Rcode != dns.RcodeSuccess {
					fail("a well-formed hash-prefix query was answered with %s, want NOERROR", dns.RcodeToString[resp.Rcode])
				}

				if !resp.Response || resp.Id != req.Id {
					fail("the answer is not a reply to the request: %v", resp)
				}

				got := map[string]bool{}
				for _, rr := range resp.Answer {
					txt, ok := rr.(*dns.TXT)
					if !ok {
						fail("answer record %v is not TXT", rr)
					}

					if !strings.EqualFold(txt.Hdr.Name, req.Question[0].Name) {
						fail("answer record is for %q", txt.Hdr.Name)
					}

					for _, s := range txt.Txt {
						if !want[s] {
							fail("returned string %q is not the full hash of a listed name with a requested prefix; want %v", s, vc11pKeys(want))
						}

						got[s] = true
					}
				}

				for s := range want {
					if !got[s] {
						fail("hash %s of a listed name with a requested prefix is missing; got %v", s, vc11pKeys(got))
					}
				}
			}

			// The server returns the written response to the pools.
			pooled = ""
			for _, rr := range resp.Answer {
				if txt, ok := rr.(*dns.TXT); ok && len(txt.Txt) > 0 {
					pooled = "hashes"
					if txt.Txt[0] == vc11pNextMarker {
						pooled = "marker"
					}
				}
			}

			nextResp = nil
			cloner.Dispose(resp)
		}
	})
}
