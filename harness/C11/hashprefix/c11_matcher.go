//go:build verif

package hashprefix_test

// C11 (hash prefixes): Matcher.MatchByPrefix returns exactly the full hashes
// of the listed names that start with a requested prefix, per suffix, across
// resets; malformed prefix strings are errors; Storage.Matches is membership.

import (
	"context"
	"encoding/hex"
	"fmt"
	"sort"
	"strings"
	"testing"

	"github.com/AdguardTeam/AdGuardDNS/internal/filter"
	"github.com/AdguardTeam/AdGuardDNS/internal/filter/hashprefix"
	"pgregory.net/rapid"
	"verif.local/harness/vstat"
)

// vc11Pool is the fixed pool of names of the matcher check: under every
// suffix "bad", its prefix twin, and a few relatives.
func vc11Pool() (pool []string) {
	for _, sfx := range vc11Suffixes {
		twin := vc11Twins()[sfx.name]
		pool = append(pool,
			vc11BaseLabel+"."+sfx.name,
			twin+"."+sfx.name,
			"a."+vc11BaseLabel+"."+sfx.name,
			"www."+sfx.name,
		)
	}

	zero, ones := vc11Magic()
	pool = append(pool, zero, ones, vc11Twin2())
	pool = append(pool, vc11OddNames()...)
	sort.Strings(pool)

	return pool
}

// vc11OddNames are legal DNS names that are not strict host names, plus a
// digits-only and a 63-octet label.
func vc11OddNames() []string {
	return []string{
		"_dmarc.bad.com", "a_b.com", "x-.co.uk", "-y.test", "_a-1.www.github.io", "secure_login.bad.co.uk",
		"123.com", vc11Label63 + ".com",
	}
}

const vc11Hex = "0123456789abcdef"

func vc11HexStr(t *rapid.T, n int, label string) string {
	b := make([]byte, n)
	for i := range b {
		b[i] = vc11Hex[rapid.IntRange(0, 15).Draw(t, label)]
	}

	return string(b)
}

// vc11PrefixLabel is one generated label of a prefix query.
type vc11PrefixLabel struct {
	text string

	// kind is the histogram label.
	kind string

	// pref is the four-character prefix requested by a well-formed label.
	pref string

	// malformed and free: a malformed label must make the query an error; a
	// free one (legacy length, hexadecimal head, other characters in the
	// ignored tail) may be either an error or a request for pref.
	malformed, free bool
}

func vc11GenPrefixLabel(t *rapid.T, pool []string) (l vc11PrefixLabel) {
	name := rapid.SampledFrom(pool).Draw(t, "prefName")
	sum := vc11Sum(name)

	switch k := rapid.IntRange(0, 19).Draw(t, "prefKind"); {
	case k <= 6:
		return vc11PrefixLabel{text: sum[:4], kind: "pref-pool4", pref: sum[:4]}
	case k <= 9:
		return vc11PrefixLabel{text: sum[:8], kind: "pref-legacy8", pref: sum[:4]}
	case k == 10:
		return vc11PrefixLabel{text: sum[:4] + vc11HexStr(t, 4, "tail"), kind: "pref-legacy8-other-tail", pref: sum[:4]}
	case k <= 12:
		p := vc11HexStr(t, 4, "rnd")

		return vc11PrefixLabel{text: p, kind: "pref-random4", pref: p}
	case k == 13:
		n := rapid.SampledFrom([]int{1, 2, 3, 5, 6, 7, 9, 12, 16, 63, 64}).Draw(t, "badLen")

		return vc11PrefixLabel{text: sum[:n], kind: "malformed-length", malformed: true}
	case k == 14:
		return vc11PrefixLabel{text: "", kind: "malformed-empty-label", malformed: true}
	case k == 15:
		b := []byte(sum[:4])
		b[rapid.IntRange(0, 3).Draw(t, "badAt")] = rapid.SampledFrom([]byte("gz-_x")).Draw(t, "badCh")

		return vc11PrefixLabel{text: string(b), kind: "malformed-nonhex4", malformed: true}
	case k == 16:
		b := []byte(sum[:8])
		b[rapid.IntRange(0, 3).Draw(t, "badAt")] = rapid.SampledFrom([]byte("gz-_x")).Draw(t, "badCh")

		return vc11PrefixLabel{text: string(b), kind: "malformed-nonhex8-head", malformed: true}
	case k == 17:
		b := []byte(sum[:8])
		b[rapid.IntRange(4, 7).Draw(t, "badAt")] = rapid.SampledFrom([]byte("gz-_x")).Draw(t, "badCh")

		return vc11PrefixLabel{text: string(b), kind: "free-nonhex8-tail", pref: sum[:4], free: true}
	case k == 18:
		return vc11PrefixLabel{text: "www", kind: "malformed-word", malformed: true}
	case k == 19:
		// A near miss: the prefix of a pool name with its last digit moved
		// by one.
		b := []byte(sum[:4])
		b[3] = vc11Hex[(strings.IndexByte(vc11Hex, b[3])+rapid.SampledFrom([]int{1, 15}).Draw(t, "adjacent"))%16]

		return vc11PrefixLabel{text: string(b), kind: "pref-adjacent4", pref: string(b)}
	default:
		return vc11PrefixLabel{text: sum[:4], kind: "pref-pool4", pref: sum[:4]}
	}
}

// vc11PrefixQuery is a generated prefix query and its meaning.
type vc11PrefixQuery struct {
	labels    []vc11PrefixLabel
	prefs     map[string]bool
	kinds     []string
	malformed bool
	free      bool
}

func vc11GenPrefixQuery(t *rapid.T, pool []string) (q vc11PrefixQuery) {
	q.prefs = map[string]bool{}
	n := rapid.SampledFrom([]int{1, 1, 1, 2, 2, 3, 4, 6}).Draw(t, "nPrefs")
	for i := 0; i < n; i++ {
		var l vc11PrefixLabel
		if i > 0 && rapid.IntRange(0, 2).Draw(t, "repeat") == 0 {
			// Request an earlier prefix again: verbatim, as the four
			// characters, or as a legacy label with another tail.
			l = q.labels[rapid.IntRange(0, i-1).Draw(t, "repeatOf")]
			if l.pref != "" && !l.free {
				switch rapid.IntRange(0, 2).Draw(t, "repeatForm") {
				case 1:
					l = vc11PrefixLabel{text: l.pref, kind: "pref-pool4", pref: l.pref}
				case 2:
					l = vc11PrefixLabel{text: l.pref + vc11HexStr(t, 4, "tail"), kind: "pref-legacy8-other-tail", pref: l.pref}
				}
			}

			q.kinds = append(q.kinds, "pref-repeated")
		} else {
			l = vc11GenPrefixLabel(t, pool)
		}

		q.labels = append(q.labels, l)
		q.kinds = append(q.kinds, l.kind)
		q.malformed = q.malformed || l.malformed
		q.free = q.free || l.free
		if l.pref != "" {
			q.prefs[l.pref] = true
		}
	}

	if len(q.labels) == 1 && q.labels[0].text == "" {
		// A lone empty label would make the host equal to the suffix, which
		// is not a host name a DNS question can carry.
		l := vc11PrefixLabel{text: vc11Sum(pool[0])[:4], kind: "pref-pool4", pref: vc11Sum(pool[0])[:4]}
		q.labels = append(q.labels, l)
		q.kinds = append(q.kinds, l.kind)
		q.prefs[l.pref] = true
	}

	return q
}

func (q vc11PrefixQuery) String() string {
	texts := make([]string, len(q.labels))
	for i, l := range q.labels {
		texts[i] = l.text
	}

	return strings.Join(texts, ".")
}

// vc11ExpectedHashes returns the hashes of the listed names that start with
// one of prefs.
func vc11ExpectedHashes(listed, prefs map[string]bool) (want map[string]bool) {
	want = map[string]bool{}
	for name, ok := range listed {
		if sum := vc11Sum(name); ok && prefs[sum[:4]] {
			want[sum] = true
		}
	}

	return want
}

func vc11IsHash(s string) bool {
	if len(s) != 64 {
		return false
	}

	for i := 0; i < len(s); i++ {
		if !strings.ContainsRune(vc11Hex, rune(s[i])) {
			return false
		}
	}

	return true
}

// vc11CompareHashes compares the returned hashes with want as sets (the code
// documents that duplicates are not collapsed).
func vc11CompareHashes(got []string, want map[string]bool) (problem string) {
	gotSet := map[string]bool{}
	for _, h := range got {
		if !vc11IsHash(h) {
			return fmt.Sprintf("returned string %q is not a 64-character lowercase hexadecimal hash", h)
		}

		if !want[h] {
			return fmt.Sprintf("returned hash %s is not the hash of a listed name with a requested prefix", h)
		}

		gotSet[h] = true
	}

	for h := range want {
		if !gotSet[h] {
			return fmt.Sprintf("hash %s of a listed name with a requested prefix is missing", h)
		}
	}

	return ""
}

func TestVerifC11Matcher(t *testing.T) {
	st := vstat.New("C11", "hashprefix.matcher",
		"rapid histories over two storages behind one Matcher (general and adult suffix): list versions over a 31-name pool (incl. underscore, edge-hyphen, digits-only and 63-octet labels) "+
			"with a prefix twin per suffix and names whose digests start with 0000 and ffff (comments, blanks, duplicates, CRLF), prefix queries of 1-6 labels (pool/legacy/"+
			"random/repeated/malformed), hosts outside the suffixes, resets; after every reset Storage.Matches is compared "+
			"with membership for the whole pool; non-trivial = a well-formed query whose expected answer is non-empty; "+
			"distinct by (suffix, requested prefixes, expected hashes)",
		"answer-two-names-one-prefix", "answer-legacy8", "answer-excludes-other-storage", "answer-empty",
		"answer-after-reset-removed", "malformed-length", "malformed-nonhex4", "malformed-nonhex8-head", "malformed-empty-label",
		"not-under-suffix", "matches-prefix-twin-not-listed", "text-crlf", "text-duplicate", "text-comment-only",
		"repeated-prefix-with-zero-hash-listed", "repeated-prefix-with-ones-hash-listed", "answer-three-names-one-prefix",
		"adjacent-prefix-of-listed-name", "storage-used-before-first-list", "list-has-line-of-255-or-more",
		"listed-name-not-a-strict-hostname-queried")
	st.Finish(t)

	pool := vc11Pool()
	zero, ones := vc11Magic()
	suffixes := []string{filter.GeneralTXTSuffix, filter.AdultBlockingTXTSuffix}
	ctx := context.Background()

	rapid.Check(t, func(t *rapid.T) {
		var history []string
		lists := make([]vc11List, 2)
		prev := make([]map[string]bool, 2)
		strgs := make([]*hashprefix.Storage, 2)
		storages := map[string]*hashprefix.Storage{}

		checkStorage := func(i int) {
			for _, name := range pool {
				got := strgs[i].Matches(name)
				if got != lists[i].listed[name] {
					t.Fatalf("Storage.Matches(%q) = %t, listed = %t\nhistory:\n%s", name, got, lists[i].listed[name], strings.Join(history, "\n"))
				}

				if !got {
					for other := range lists[i].listed {
						if vc11Sum(other)[:4] == vc11Sum(name)[:4] {
							st.Class("matches-prefix-twin-not-listed")
						}
					}
				}
			}

			// Upper-case, dotted and extended forms of listed names are
			// different names.
			for name := range lists[i].listed {
				for _, v := range []string{name + ".", "x" + name, strings.ToUpper(name), "#" + name} {
					if !lists[i].listed[v] && strgs[i].Matches(v) {
						t.Fatalf("Storage.Matches(%q) = true, not listed\nhistory:\n%s", v, strings.Join(history, "\n"))
					}
				}
			}
		}

		for i := range strgs {
			lists[i] = vc11GenList(t, fmt.Sprintf("s%d.v0", i), pool, zero, ones, "_dmarc.bad.com", "x-.co.uk")
			history = append(history, fmt.Sprintf("storage %d (%s) new list=%s", i, suffixes[i], vc11ShowText(lists[i].text)))
			st.Class(lists[i].forms...)

			var err error
			if rapid.Bool().Draw(t, "viaNew") {
				strgs[i], err = hashprefix.NewStorage(lists[i].text)
				if err != nil && vc11HasLongLine(lists[i].text) {
					// A loud refusal of a list with an overlong line: no list.
					st.Class("reset-refused-long-line")
					lists[i] = vc11List{listed: map[string]bool{}}
					strgs[i], err = hashprefix.NewStorage("")
				}

				if err != nil {
					t.Fatalf("NewStorage: %v\nhistory:\n%s", err, strings.Join(history, "\n"))
				}
			} else {
				strgs[i], err = hashprefix.NewStorage("")
				if err != nil {
					t.Fatalf("NewStorage(\"\"): %v", err)
				}

				// A storage that has not been given a list yet is empty.
				probe := rapid.SampledFrom(pool).Draw(t, "emptyProbe")
				var pref hashprefix.Prefix
				_, _ = hex.Decode(pref[:], []byte(vc11Sum(probe)[:4]))
				if got := strgs[i].Hashes([]hashprefix.Prefix{pref, {}}); len(got) != 0 || strgs[i].Matches(probe) || strgs[i].Matches("") {
					t.Fatalf("a storage without a list answers %v for %q (Matches %t)", got, probe, strgs[i].Matches(probe))
				}

				st.Class("storage-used-before-first-list")

				n, rerr := strgs[i].Reset(lists[i].text)
				if rerr != nil && vc11HasLongLine(lists[i].text) {
					st.Class("reset-refused-long-line")
					lists[i] = vc11List{listed: map[string]bool{}}
				} else if rerr != nil || n != lists[i].count {
					t.Fatalf("Reset = %d, %v; want %d, nil\nhistory:\n%s", n, rerr, lists[i].count, strings.Join(history, "\n"))
				}
			}

			storages[suffixes[i]] = strgs[i]
			checkStorage(i)
		}

		m := hashprefix.NewMatcher(storages)

		nOps := rapid.IntRange(1, 10).Draw(t, "nOps")
		for op := 0; op < nOps; op++ {
			kind := rapid.IntRange(0, 11).Draw(t, "op")
			switch {
			case kind == 0:
				i := rapid.IntRange(0, 1).Draw(t, "resetWhich")
				prev[i] = lists[i].listed
				before := lists[i]
				lists[i] = vc11GenList(t, fmt.Sprintf("s%d.op%d", i, op), pool, zero, ones, "_dmarc.bad.com", "x-.co.uk")
				history = append(history, fmt.Sprintf("storage %d (%s) reset list=%s", i, suffixes[i], vc11ShowText(lists[i].text)))
				st.Class(lists[i].forms...)

				n, err := strgs[i].Reset(lists[i].text)
				if err != nil && vc11HasLongLine(lists[i].text) {
					// A loud refusal leaves the previous list in effect.
					st.Class("reset-refused-long-line")
					history = append(history, fmt.Sprintf("reset refused: %v", err))
					lists[i] = before
				} else if err != nil || n != lists[i].count {
					t.Fatalf("Reset = %d, %v; want %d, nil\nhistory:\n%s", n, err, lists[i].count, strings.Join(history, "\n"))
				}

				checkStorage(i)
			case kind == 1:
				// A host outside both suffixes.
				p := vc11Sum(rapid.SampledFrom(pool).Draw(t, "outsideName"))[:4]
				host := rapid.SampledFrom([]string{
					p + ".example.com",
					p + suffixes[0] + ".test",
					p + suffixes[1] + "x",
					p + suffixes[0][1:],
					suffixes[0][1:],
					suffixes[1][1:],
					p + ".dns.adguard.com",
					p,
					p + "." + p,
				}).Draw(t, "outside")

				hashes, matched, err := m.MatchByPrefix(ctx, host)
				history = append(history, fmt.Sprintf("match %q -> %v, %t, %v", host, hashes, matched, err))
				st.Case("", "not-under-suffix")
				if err != nil || matched || len(hashes) != 0 {
					t.Fatalf("host outside the suffixes: got %v, %t, %v; want nil, false, nil\nhistory:\n%s",
						hashes, matched, err, strings.Join(history, "\n"))
				}
			default:
				i := rapid.IntRange(0, 1).Draw(t, "which")
				q := vc11GenPrefixQuery(t, pool)
				host := q.String() + suffixes[i]

				hashes, matched, err := m.MatchByPrefix(ctx, host)
				history = append(history, fmt.Sprintf("match %q -> %v, %t, %v", host, hashes, matched, err))

				want := vc11ExpectedHashes(lists[i].listed, q.prefs)
				classes := append([]string{}, q.kinds...)
				nt := ""

				switch {
				case q.malformed:
					st.Case("", classes...)
					if err == nil {
						t.Fatalf("malformed prefix string %q is not an error: got %v, %t\nhistory:\n%s",
							q.String(), hashes, matched, strings.Join(history, "\n"))
					}

					continue
				case q.free && err != nil:
					st.Case("", append(classes, "free-rejected")...)

					continue
				}

				for _, l := range q.labels {
					if l.kind == "pref-adjacent4" && len(vc11ExpectedHashes(lists[i].listed, map[string]bool{l.pref: true})) == 0 {
						for name := range lists[i].listed {
							if sum := vc11Sum(name); sum[:3] == l.pref[:3] {
								classes = append(classes, "adjacent-prefix-of-listed-name")
							}
						}
					}
				}

				if len(want) == 0 {
					classes = append(classes, "answer-empty")
				} else {
					nt = fmt.Sprintf("%s|%v|%v", suffixes[i], vc11SortedKeys(q.prefs), vc11SortedKeys(want))
					for name := range lists[i].listed {
						if !vc11StrictHostname(name) && q.prefs[vc11Sum(name)[:4]] {
							classes = append(classes, "listed-name-not-a-strict-hostname-queried")

							break
						}
					}
					byPref := map[string]int{}
					for h := range want {
						byPref[h[:4]]++
						switch byPref[h[:4]] {
						case 2:
							classes = append(classes, "answer-two-names-one-prefix")
						case 3:
							classes = append(classes, "answer-three-names-one-prefix")
						}
					}

					for _, l := range q.labels {
						if l.kind == "pref-legacy8" || l.kind == "pref-legacy8-other-tail" {
							if len(vc11ExpectedHashes(lists[i].listed, map[string]bool{l.pref: true})) > 0 {
								classes = append(classes, "answer-legacy8")
							}
						}
					}
				}

				if len(q.labels) > len(q.prefs) {
					// A prefix is requested more than once.  An entry of the
					// decoded prefix list that is never filled in is 00 00
					// (or, less likely, ff ff).
					if lists[i].listed[zero] && !q.prefs["0000"] {
						classes = append(classes, "repeated-prefix-with-zero-hash-listed")
					}

					if lists[i].listed[ones] && !q.prefs["ffff"] {
						classes = append(classes, "repeated-prefix-with-ones-hash-listed")
					}
				}

				if len(vc11ExpectedHashes(lists[1-i].listed, q.prefs)) > len(vc11ExpectedHashesBoth(lists[i].listed, lists[1-i].listed, q.prefs)) {
					classes = append(classes, "answer-excludes-other-storage")
				}

				if prev[i] != nil {
					for h := range vc11ExpectedHashes(prev[i], q.prefs) {
						if !want[h] {
							classes = append(classes, "answer-after-reset-removed")

							break
						}
					}
				}

				st.Case(nt, classes...)
				if st.WantSample() && nt != "" && len(want) > 1 {
					st.Sample(map[string]any{"history": append([]string{}, history...), "expected": vc11SortedKeys(want)})
				}

				if err != nil || !matched {
					t.Fatalf("well-formed prefix query %q: got matched=%t err=%v; want true, nil\nhistory:\n%s",
						host, matched, err, strings.Join(history, "\n"))
				}

				if p := vc11CompareHashes(hashes, want); p != "" {
					t.Fatalf("prefix query %q on storage %d: %s\nwant %v\ngot  %v\nhistory:\n%s",
						host, i, p, vc11SortedKeys(want), hashes, strings.Join(history, "\n"))
				}
			}
		}
	})
}

// vc11ExpectedHashesBoth returns the expected hashes that are listed in both a
// and b.
func vc11ExpectedHashesBoth(a, b, prefs map[string]bool) (both map[string]bool) {
	both = map[string]bool{}
	wb := vc11ExpectedHashes(b, prefs)
	for h := range vc11ExpectedHashes(a, prefs) {
		if wb[h] {
			both[h] = true
		}
	}

	return both
}
