//go:build verif

package hashprefix_test

// C11: model shared by the hash-prefix checks.  See /verif/DESIGN.md, C11.
//
// The oracle is a Go set of the listed names (membership of SHA-256 digests is
// the same as membership of names, barring SHA-256 collisions) plus a
// harness-owned public-suffix table.  Nothing of the code under test is used
// to compute an expectation.

import (
	"crypto/sha256"
	"encoding/hex"
	"fmt"
	"regexp"
	"sort"
	"strings"
	"sync"

	"golang.org/x/net/publicsuffix"
	"pgregory.net/rapid"
)

// vc11Suffix is one entry of the harness-owned public-suffix table.
type vc11Suffix struct {
	// name is the public suffix according to the complete public-suffix
	// algorithm (ICANN and private sections, and the default rule "*").
	name string

	// class is the histogram label.
	class string

	// ps is the number of labels of name.
	ps int

	// icann is the number of trailing labels of name that form the
	// ICANN-managed public suffix; 0 if the TLD is not on the list at all.
	icann int

	// outer is the number of labels of the private zone that name is itself
	// registered under (go.dyndns.org under dyndns.org); 0 if there is none.
	outer int
}

// vc11Suffixes is the table.  Every truncation of every entry is verified
// against the x/net table the repository is built with by vc11SelfCheck; a
// mismatch makes the run inconclusive, not failed.
var vc11Suffixes = []vc11Suffix{
	{name: "com", class: "sfx-icann1", ps: 1, icann: 1},
	{name: "co.uk", class: "sfx-icann2", ps: 2, icann: 2},
	{name: "pvt.k12.ma.us", class: "sfx-icann4", ps: 4, icann: 4},
	{name: "github.io", class: "sfx-private", ps: 2, icann: 1},
	{name: "test", class: "sfx-unlisted", ps: 1, icann: 0},

	// Private suffixes registered under another private suffix: the zone
	// between the inner suffix and the ICANN one is part of "the full private
	// domain space" as well.
	{name: "go.dyndns.org", class: "sfx-nested-private", ps: 3, icann: 1, outer: 2},
	{name: "jp.eu.org", class: "sfx-nested-private", ps: 3, icann: 1, outer: 2},
}

// vc11Labels is the alphabet of the labels above the registrable one.
//
// Besides plain letter-digit-hyphen labels it has labels that are legal in a
// DNS name but not in a strict RFC 952/1123 host name (underscores, a leading
// or trailing hyphen), a digits-only label and a label of 63 octets.  The
// unchanged Storage.Reset takes every line that is not blank or a comment, so
// all of them are listed names like any other.
var vc11Labels = []string{
	"a", "b", "c", "www", "a", "b", "c", "www",
	"_s", "a_b", "x-", "-y", "_a-1", "123", vc11Label63,
}

// vc11Label63 is a label of the maximum length.
var vc11Label63 = strings.Repeat("l", 63)

// vc11StrictHostname reports whether every label of name is a strict host-name
// label: letters and digits, hyphens only inside.
func vc11StrictHostname(name string) bool {
	for _, l := range strings.Split(name, ".") {
		if l == "" || l[0] == '-' || l[len(l)-1] == '-' {
			return false
		}

		for i := 0; i < len(l); i++ {
			if c := l[i]; !(c >= 'a' && c <= 'z' || c >= '0' && c <= '9' || c == '-') {
				return false
			}
		}
	}

	return true
}

// vc11BaseLabel is the registrable label that has a twin under every suffix.
const vc11BaseLabel = "bad"

// vc11Name is a host name together with what the harness knows about its
// public suffix.
type vc11Name struct {
	labels []string
	ps     int
	icann  int
}

func (n vc11Name) String() string { return strings.Join(n.labels, ".") }

// vc11NewName makes a name of the labels extra (possibly none) above suffix
// sfx.
func vc11NewName(sfx vc11Suffix, extra ...string) vc11Name {
	labels := append(append([]string{}, extra...), strings.Split(sfx.name, ".")...)

	return vc11Name{labels: labels, ps: sfx.ps, icann: sfx.icann}
}

// vc11Tail returns the name made of the last k labels of n.  A tail that is
// not longer than the public suffix is a public suffix itself, and the table
// is chosen so that its ICANN part is the corresponding truncation.
func (n vc11Name) vc11Tail(k int) vc11Name {
	l := len(n.labels)

	return vc11Name{labels: n.labels[l-k:], ps: min(n.ps, k), icann: min(n.icann, k)}
}

// Candidate kinds.
const (
	vc11MustNot = iota
	vc11Free
	vc11Must
)

// vc11Candidate is one name that decides the verdict for a host.
type vc11Candidate struct {
	name string
	kind int
}

// vc11Candidates classifies the names that may decide the verdict for host n.
//
// The statement: the host itself or one of its parent domains, up to four
// labels, excluding the public suffix.  Following DESIGN.md the names are the
// suffixes of the last four labels that are longer than the public suffix.
// Which public suffix is decided by the doc comment in hashableSubdomains:
// "Check the full private domain space, but still exclude the ICANN suffix
// under the private one, if any."  So:
//
//   - longer than the ICANN public suffix (this includes a private suffix such
//     as github.io itself, and a TLD that is not on the list, which has no
//     ICANN suffix under it): must be consulted (vc11Must);
//   - not longer than the ICANN public suffix: must not be consulted
//     (vc11MustNot), and so is everything that is not returned here.
//
// vc11Free is kept for readings the documentation does not decide; no
// candidate is classified so at present.
func vc11Candidates(n vc11Name) (cands []vc11Candidate) {
	for k := min(4, len(n.labels)); k >= 1; k-- {
		kind := vc11MustNot
		if k > n.icann {
			kind = vc11Must
		}

		cands = append(cands, vc11Candidate{name: n.vc11Tail(k).String(), kind: kind})
	}

	return cands
}

// vc11Expect is the expected verdict for a filterable question type.
type vc11Expect struct {
	// must is true if the host has to be matched, mustNot if it has to be
	// left alone; if both are false either is accepted.
	must, mustNot bool

	// rules are the listed names that may be reported as the matched rule.
	rules map[string]bool

	// mustListed are the listed must-candidates, freeListed the listed free
	// ones, and excluded the listed names that are tails of the host but must
	// not be consulted (public suffix or beyond the four-label cut).
	mustListed, freeListed, excluded []string
}

func vc11ExpectFor(n vc11Name, listed map[string]bool) (e vc11Expect) {
	e.rules = map[string]bool{}
	consulted := map[string]bool{}
	for _, c := range vc11Candidates(n) {
		if !listed[c.name] {
			continue
		}

		switch c.kind {
		case vc11Must:
			e.mustListed = append(e.mustListed, c.name)
			e.rules[c.name] = true
			consulted[c.name] = true
		case vc11Free:
			e.freeListed = append(e.freeListed, c.name)
			e.rules[c.name] = true
			consulted[c.name] = true
		}
	}

	for k := len(n.labels); k >= 1; k-- {
		s := n.vc11Tail(k).String()
		if listed[s] && !consulted[s] {
			e.excluded = append(e.excluded, s)
		}
	}

	e.must = len(e.mustListed) > 0
	e.mustNot = len(e.mustListed) == 0 && len(e.freeListed) == 0

	return e
}

// vc11Sum returns the hex SHA-256 of name.
func vc11Sum(name string) string {
	sum := sha256.Sum256([]byte(name))

	return hex.EncodeToString(sum[:])
}

// Twins: for every suffix, a label whose name under the suffix has the same
// first two digest bytes as "bad.<suffix>", so that one four-character prefix
// selects two different listed names and a name that is not listed shares its
// prefix with one that is.
var (
	vc11TwinOnce  sync.Once
	vc11TwinLabel = map[string]string{}
)

// vc11Twin2 is a second name under "com" with the prefix of "bad.com", so
// that one prefix has three suffixes.
var (
	vc11Twin2Once sync.Once
	vc11Twin2Name string
)

func vc11Twin2() string {
	vc11Twin2Once.Do(func() {
		want := vc11Sum(vc11BaseLabel + ".com")[:4]
		for i := 0; vc11Twin2Name == ""; i++ {
			if name := fmt.Sprintf("u%d.com", i); vc11Sum(name)[:4] == want {
				vc11Twin2Name = name
			}
		}
	})

	return vc11Twin2Name
}

func vc11Twins() map[string]string {
	vc11TwinOnce.Do(func() {
		for _, sfx := range vc11Suffixes {
			want := vc11Sum(vc11BaseLabel + "." + sfx.name)[:4]
			for i := 0; ; i++ {
				l := fmt.Sprintf("t%d", i)
				if vc11Sum(l + "." + sfx.name)[:4] == want {
					vc11TwinLabel[sfx.name] = l

					break
				}
			}
		}
	})

	return vc11TwinLabel
}

// Magic names: a name under "com" whose digest starts with the bytes 00 00 and
// one whose digest starts with ff ff.  A zero-valued (never filled in) or an
// all-ones prefix in the code under test selects exactly these.
var (
	vc11MagicOnce sync.Once
	vc11ZeroName  string
	vc11OnesName  string
)

func vc11Magic() (zero, ones string) {
	vc11MagicOnce.Do(func() {
		for i := 0; vc11ZeroName == "" || vc11OnesName == ""; i++ {
			name := fmt.Sprintf("z%d.com", i)
			switch vc11Sum(name)[:4] {
			case "0000":
				if vc11ZeroName == "" {
					vc11ZeroName = name
				}
			case "ffff":
				if vc11OnesName == "" {
					vc11OnesName = name
				}
			}
		}
	})

	return vc11ZeroName, vc11OnesName
}

// vc11SelfCheck compares the harness-owned table with the table the
// repository is built with.  It returns a description of the first
// disagreement, or "".
func vc11SelfCheck() (problem string) {
	for _, sfx := range vc11Suffixes {
		for _, extra := range [][]string{nil, {"bad"}, {"a", "bad"}, {"c", "b", "a", vc11Twins()[sfx.name]}} {
			n := vc11NewName(sfx, extra...)
			for k := 1; k <= len(n.labels); k++ {
				tail := n.vc11Tail(k)
				got, icann := publicsuffix.PublicSuffix(tail.String())
				want := tail.vc11Tail(tail.ps).String()
				wantICANN := tail.ps == tail.icann
				if got != want || icann != wantICANN {
					return fmt.Sprintf("publicsuffix.PublicSuffix(%q) = %q, %t; harness table says %q, %t",
						tail, got, icann, want, wantICANN)
				}

				// A child of a tail inside the suffix has that tail as its
				// public suffix.
				if k < n.ps {
					got, icann = publicsuffix.PublicSuffix("www." + tail.String())
					if got != tail.String() || icann != wantICANN {
						return fmt.Sprintf("publicsuffix.PublicSuffix(%q) = %q, %t; harness table says %q, %t",
							"www."+tail.String(), got, icann, tail, wantICANN)
					}
				}
			}
		}
	}

	return ""
}

// vc11GenName draws a host: a suffix, a registrable label that is "bad", its
// twin or an ordinary label, and up to five more labels, biased so that the
// total is around the four-label cut.
func vc11GenName(t *rapid.T, label string) vc11Name {
	sfx := rapid.SampledFrom(vc11Suffixes).Draw(t, label+".sfx")
	extra := rapid.OneOf(
		rapid.IntRange(0, 6),
		rapid.IntRange(max(0, 3-sfx.ps), 6-sfx.ps+1),
	).Draw(t, label+".extra")

	labels := make([]string, extra)
	for i := range labels {
		if i == extra-1 {
			labels[i] = rapid.SampledFrom([]string{
				vc11BaseLabel, vc11BaseLabel, vc11BaseLabel, vc11Twins()[sfx.name], vc11Twins()[sfx.name], "a", "a_b", "x-",
			}).Draw(t, label+".reg")
		} else {
			labels[i] = rapid.SampledFrom(vc11Labels).Draw(t, label+".l")
		}
	}

	// At most one label of the maximum length, to stay within 253 octets.
	long := false
	for i, l := range labels {
		if l == vc11Label63 {
			if long {
				labels[i] = "a"
			}

			long = true
		}
	}

	return vc11NewName(sfx, labels...)
}

// vc11Universe returns the names related to the focus hosts: every tail of
// each (down to the TLD), a child of every tail, and the same with "bad" and
// its twin exchanged in the registrable position.  The result is sorted by
// name and has no duplicates.
func vc11Universe(focus []vc11Name) (u []vc11Name) {
	seen := map[string]bool{}
	add := func(n vc11Name) {
		if s := n.String(); !seen[s] {
			seen[s] = true
			u = append(u, n)
		}
	}

	for _, f := range focus {
		variants := []vc11Name{f}
		if reg := len(f.labels) - f.ps - 1; reg >= 0 {
			sfx := strings.Join(f.labels[len(f.labels)-f.ps:], ".")
			twin := vc11Twins()[sfx]
			other := ""
			switch f.labels[reg] {
			case vc11BaseLabel:
				other = twin
			case twin:
				other = vc11BaseLabel
			}

			if other != "" {
				v := vc11Name{labels: append([]string{}, f.labels...), ps: f.ps, icann: f.icann}
				v.labels[reg] = other
				variants = append(variants, v)
			}
		}

		for _, v := range variants {
			for k := 1; k <= len(v.labels); k++ {
				tail := v.vc11Tail(k)
				add(tail)

				// A child of a tail that is a public suffix has that
				// suffix as its own, otherwise it inherits the host's.
				child := vc11Name{labels: append([]string{"www"}, tail.labels...), ps: tail.ps, icann: tail.icann}
				if k >= v.ps {
					child.ps, child.icann = v.ps, v.icann
				}

				add(child)
			}
		}
	}

	// The root name: the question "." arrives as the empty host.
	add(vc11Name{})

	sort.Slice(u, func(i, j int) bool { return u[i].String() < u[j].String() })

	return u
}

// vc11List is one version of a list: the text given to the code and the model
// of it.
type vc11List struct {
	text   string
	listed map[string]bool

	// count is the number of lines that are names, duplicates included.
	count int

	// forms are histogram labels of the text forms used.
	forms []string
}

// vc11GenList draws a list text over the names: each name is absent, listed,
// listed twice, only present in a comment, or listed and also present in a
// comment; blank lines are inserted; lines end in LF or CRLF and the last
// line may lack its terminator.
func vc11GenList(t *rapid.T, label string, names []string, favoured ...string) (l vc11List) {
	l.listed = map[string]bool{}
	forms := map[string]bool{}

	// density: in tenths; low densities keep non-matches frequent.
	density := rapid.SampledFrom([]int{0, 1, 1, 2, 2, 4, 7}).Draw(t, label+".density")

	var lines []string
	for _, name := range names {
		d := density
		for _, f := range favoured {
			if f == name {
				// Favoured names are listed at least half of the time.
				d = max(d, 5)
			}
		}

		if rapid.IntRange(0, 9).Draw(t, label+".in") >= d {
			if rapid.IntRange(0, 9).Draw(t, label+".cmt") == 0 {
				lines = append(lines, "#"+name)
				forms["comment-only"] = true
			}

			continue
		}

		switch rapid.IntRange(0, 5).Draw(t, label+".kind") {
		case 0:
			lines = append(lines, name, name)
			l.count += 2
			forms["duplicate"] = true
		case 1:
			lines = append(lines, name, "# "+name)
			l.count++
			forms["listed-and-comment"] = true
		default:
			lines = append(lines, name)
			l.count++
		}

		l.listed[name] = true
	}

	if len(lines) > 1 {
		lines = rapid.Permutation(lines).Draw(t, label+".order")
	}

	nBlank := rapid.IntRange(0, 3).Draw(t, label+".blank")
	for i := 0; i < nBlank; i++ {
		at := rapid.IntRange(0, len(lines)).Draw(t, label+".blankAt")
		filler := rapid.SampledFrom([]string{"", "", "#", "# comment"}).Draw(t, label+".filler")
		lines = append(lines[:at], append([]string{filler}, lines[at:]...)...)
		if filler == "" {
			forms["blank"] = true
		} else {
			forms["bare-comment"] = true
		}
	}

	// A long comment line, often in front of listed names.  The lengths are
	// around 255 and below the scanner's 64 KiB token limit, terminator
	// included.
	if rapid.IntRange(0, 3).Draw(t, label+".long") == 0 {
		n := rapid.SampledFrom([]int{200, 254, 255, 255, 256, 256, 1000, 4096, 65534}).Draw(t, label+".longLen")
		at := rapid.SampledFrom([]int{0, 0, rapid.IntRange(0, len(lines)).Draw(t, label+".longAt")}).Draw(t, label+".longAt0")
		lines = append(lines[:at], append([]string{"#" + strings.Repeat("-", n-1)}, lines[at:]...)...)
		forms[fmt.Sprintf("long-line-%d", n)] = true
		if n >= 255 {
			for _, after := range lines[at+1:] {
				if after != "" && after[0] != '#' {
					forms["list-has-line-of-255-or-more"] = true
				}
			}
		}
	}

	crlf := rapid.SampledFrom([]string{"lf", "lf", "crlf", "mixed"}).Draw(t, label+".eol")
	noFinal := rapid.Bool().Draw(t, label+".noFinalEOL")
	b := &strings.Builder{}
	for i, line := range lines {
		b.WriteString(line)
		if i == len(lines)-1 && noFinal {
			forms["no-final-eol"] = true

			break
		}

		switch {
		case crlf == "crlf", crlf == "mixed" && rapid.Bool().Draw(t, label+".eolMixed"):
			b.WriteString("\r\n")
			forms["crlf"] = true
		default:
			b.WriteString("\n")
		}
	}

	l.text = b.String()
	if len(l.listed) == 0 {
		forms["empty-list"] = true
	}

	for f := range forms {
		if strings.HasPrefix(f, "list-") {
			l.forms = append(l.forms, f)
		} else {
			l.forms = append(l.forms, "text-"+f)
		}
	}

	sort.Strings(l.forms)

	return l
}

// vc11ShowText quotes a list text for a history, abbreviating the padding of
// long comment lines.
func vc11ShowText(text string) string {
	return vc11DashRe.ReplaceAllStringFunc(fmt.Sprintf("%q", text), func(m string) string {
		return fmt.Sprintf("-{%d}", len(m))
	})
}

var vc11DashRe = regexp.MustCompile(`-{40,}`)

// vc11HasLongLine reports whether the list text has a line of 255 bytes or
// more, which an implementation may refuse loudly.
func vc11HasLongLine(text string) bool {
	for _, line := range strings.Split(text, "\n") {
		if len(line) >= 254 {
			return true
		}
	}

	return false
}

// vc11Names returns the strings of ns.
func vc11Names(ns []vc11Name) (names []string) {
	for _, n := range ns {
		names = append(names, n.String())
	}

	return names
}

// vc11SortedKeys returns the sorted keys of m.
func vc11SortedKeys(m map[string]bool) (keys []string) {
	for k, v := range m {
		if v {
			keys = append(keys, k)
		}
	}

	sort.Strings(keys)

	return keys
}
