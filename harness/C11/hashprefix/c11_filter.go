//go:build verif

package hashprefix_test

// C11 (hosts): a host is matched by a hash-prefix filter exactly when the
// host or one of its parents within the last four labels, public suffix
// excluded, is listed, for A, AAAA and HTTPS only, across refreshes.

import (
	"context"
	"fmt"
	"net/url"
	"os"
	"path/filepath"
	"strings"
	"testing"

	"github.com/AdguardTeam/AdGuardDNS/internal/agdcache"
	"github.com/AdguardTeam/AdGuardDNS/internal/agdtest"
	"github.com/AdguardTeam/AdGuardDNS/internal/filter/hashprefix"
	"github.com/AdguardTeam/AdGuardDNS/internal/filter/internal"
	"github.com/AdguardTeam/AdGuardDNS/internal/filter/internal/filtertest"
	"github.com/AdguardTeam/golibs/logutil/slogutil"
	"github.com/c2h5oh/datasize"
	"github.com/miekg/dns"
	"golang.org/x/net/publicsuffix"
	"pgregory.net/rapid"
	"verif.local/harness/vstat"
)

// vc11KnownPrivateTLD is the identity of the finding that, for a host under a
// private or unlisted public suffix, the ICANN public suffix below it (for
// example "io" for "x.github.io") is consulted as well.
const vc11KnownPrivateTLD = "hashprefix-private-suffix-consults-icann-suffix"

// vc11QTypes are the question types drawn; the first three are filterable.
var vc11QTypes = []uint16{
	dns.TypeA, dns.TypeAAAA, dns.TypeHTTPS,
	dns.TypeA, dns.TypeAAAA, dns.TypeHTTPS,
	dns.TypeTXT, dns.TypeCNAME, dns.TypeMX, dns.TypeSVCB, dns.TypeANY, dns.TypePTR, dns.TypeNS,
	dns.TypeNone, dns.TypeReserved,
}

func vc11TypeString(qt uint16) string { return dns.Type(qt).String() }

// vc11NearHosts returns the names of the universe that differ from n in
// exactly one label: the parent, the children, and the names of the same
// length with one label exchanged.
func vc11NearHosts(n vc11Name, universe []vc11Name) (near []vc11Name) {
	for _, u := range universe {
		switch d := len(u.labels) - len(n.labels); d {
		case 1, -1:
			long, short := u.labels, n.labels
			if d < 0 {
				long, short = n.labels, u.labels
			}

			if strings.Join(long[1:], ".") == strings.Join(short, ".") {
				near = append(near, u)
			}
		case 0:
			diff := 0
			for i := range u.labels {
				if u.labels[i] != n.labels[i] {
					diff++
				}
			}

			if diff == 1 {
				near = append(near, u)
			}
		}
	}

	return near
}

// vc11MixCase returns s with some letters in upper case.
func vc11MixCase(t *rapid.T, s string) string {
	b := []byte(s)
	for i := range b {
		if b[i] >= 'a' && b[i] <= 'z' && rapid.Bool().Draw(t, "upper") {
			b[i] -= 'a' - 'A'
		}
	}

	return string(b)
}

func vc11Filterable(qt uint16) bool {
	return qt == dns.TypeA || qt == dns.TypeAAAA || qt == dns.TypeHTTPS
}

// vc11TableAgrees reports whether the harness table and the table the
// repository is built with give the same public suffix for n.
func vc11TableAgrees(n vc11Name) bool {
	if len(n.labels) == 0 {
		// The root name has no public suffix.
		return true
	}

	got, icann := publicsuffix.PublicSuffix(n.String())

	return got == n.vc11Tail(n.ps).String() && icann == (n.ps == n.icann)
}

func vc11Inconclusive(t interface {
	Logf(string, ...any)
	FailNow()
}, format string, args ...any) {
	fmt.Printf("VERIF-INCONCLUSIVE: "+format+"\n", args...)
	t.Logf("VERIF-INCONCLUSIVE: "+format, args...)
	t.FailNow()
}

type vc11Lookup struct {
	host string
	qt   uint16
}

func TestVerifC11Filter(t *testing.T) {
	st := vstat.New("C11", "hashprefix.filter",
		"rapid histories: 1-3 focus hosts (7 suffix entries incl. two private suffixes nested in a private zone, 1-10 labels, 'bad'/prefix-twin registrable label), list versions "+
			"over every tail/child/twin of them (comments, blanks, duplicates, CRLF), lookups (13 qtypes) and refreshes through "+
			"Filter.FilterRequest/Refresh with the result cache on; non-trivial = filterable qtype, host of >=3 labels, a proper "+
			"ancestor among the must-candidates listed; distinct by (host, qtype, listed set)",
		"match-ancestor", "match-self", "nomatch-only-public-suffix-listed", "nomatch-only-beyond-cut-listed",
		"nomatch-prefix-twin-listed", "unfilterable-qtype-listed", "refresh-removed", "refresh-added", "relookup-same-version",
		"sfx-private", "sfx-unlisted", "sfx-icann4", "near-miss-host", "near-miss-qtype", "near-miss-qtype-filterability",
		"root-name", "match-private-suffix-itself", "match-unlisted-tld", "sfx-nested-private",
		"host-under-nested-private-suffix", "listed-outer-private-zone", "list-has-line-of-255-or-more",
		"list-file-larger-than-max-size", "list-file-size-equal-max", "list-file-size-max-plus-1", "list-file-size-max-minus-1",
		"list-from-cache-file", "list-from-file-url", "listed-name-not-a-strict-hostname-queried")
	st.Finish(t)

	if p := vc11SelfCheck(); p != "" {
		vc11Inconclusive(t, "%s", p)
	}

	dir := t.TempDir()
	msgs := agdtest.NewConstructor(t)
	ctx := context.Background()
	caseNo := 0

	rapid.Check(t, func(t *rapid.T) {
		caseNo++
		listPath := filepath.Join(dir, fmt.Sprintf("list-%d.txt", caseNo%4))

		nFocus := rapid.IntRange(1, 3).Draw(t, "nFocus")
		focus := make([]vc11Name, nFocus)
		for i := range focus {
			focus[i] = vc11GenName(t, fmt.Sprintf("focus%d", i))
		}

		universe := vc11Universe(focus)
		names := vc11Names(universe)

		id := rapid.SampledFrom([]internal.ID{
			internal.IDSafeBrowsing, internal.IDAdultBlocking, internal.IDNewRegDomains,
		}).Draw(t, "id")
		repl := rapid.SampledFrom([]string{"repl.example", "192.0.2.7", "2001:db8::7"}).Draw(t, "repl")

		// The list is read from a file either way: through a file URL, or as
		// the cache file of an HTTP URL that is never contacted (the cache file
		// is always fresh; nothing listens on the port).  The size limit is
		// small so that list files around and above it are frequent.
		maxSize := rapid.SampledFrom([]int{256, 700, 3000, 640_000}).Draw(t, "maxSize")
		viaCache := rapid.IntRange(0, 2).Draw(t, "viaCache") == 0
		listURL := &url.URL{Scheme: "file", Path: listPath}
		cachePath := filepath.Join(dir, "unused-cache")
		if viaCache {
			listURL = &url.URL{Scheme: "http", Host: "127.0.0.1:1", Path: "/list.txt"}
			cachePath = listPath
		}

		list := vc11GenList(t, "v0", names)
		sizeClasses := vc11PadList(t, "v0", &list, maxSize, viaCache)
		if err := os.WriteFile(listPath, []byte(list.text), 0o644); err != nil {
			t.Fatalf("harness: %v", err)
		}

		strg, err := hashprefix.NewStorage("")
		if err != nil {
			t.Fatalf("NewStorage(\"\"): %v", err)
		}

		f, err := hashprefix.NewFilter(&hashprefix.FilterConfig{
			Logger:          slogutil.NewDiscardLogger(),
			Cloner:          agdtest.NewCloner(),
			CacheManager:    agdcache.EmptyManager{},
			Hashes:          strg,
			URL:             listURL,
			ErrColl:         &agdtest.ErrorCollector{OnCollect: func(_ context.Context, _ error) {}},
			Metrics:         internal.EmptyMetrics{},
			ID:              id,
			CachePath:       cachePath,
			ReplacementHost: repl,
			Staleness:       filtertest.Staleness,
			CacheTTL:        filtertest.CacheTTL,
			CacheCount:      rapid.SampledFrom([]int{1, 4, 100}).Draw(t, "cacheCount"),
			MaxSize:         datasize.ByteSize(maxSize),
			RefreshTimeout:  filtertest.Timeout,
		})
		if err != nil {
			t.Fatalf("NewFilter: %v", err)
		}

		version := 0
		var history []string
		history = append(history, fmt.Sprintf("v0 max_size=%d via_cache_file=%t size=%d list=%s",
			maxSize, viaCache, len(list.text), vc11ShowText(list.text)))

		// The oracle: the list that a refresh reported as applied is matched
		// completely and soundly; a refresh that failed leaves the previous
		// one.  A failure is only accepted for a file above the size limit or
		// with an overlong line; the unchanged code loads both.
		mayRefuse := func(l vc11List) bool { return len(l.text) > maxSize || vc11HasLongLine(l.text) }
		if err = f.RefreshInitial(ctx); err != nil {
			if !mayRefuse(list) {
				t.Fatalf("RefreshInitial: %v\nhistory:\n%s", err, strings.Join(history, "\n"))
			}

			history = append(history, fmt.Sprintf("initial refresh failed: %v", err))
			st.Class("refresh-refused")
			list = vc11List{listed: map[string]bool{}}
		} else {
			st.Class(list.forms...)
			st.Class(sizeClasses...)
		}

		if viaCache {
			st.Class("list-from-cache-file")
		} else {
			st.Class("list-from-file-url")
		}

		// prevMatched is the expected-must state of the lookups made in
		// earlier versions; seen are the lookups made in this version.
		prevMust := map[vc11Lookup]bool{}
		prevMustNot := map[vc11Lookup]bool{}
		seen := map[vc11Lookup]bool{}
		var lookups []vc11Lookup

		byName := map[string]vc11Name{}
		for _, u := range universe {
			byName[u.String()] = u
		}

		pooled := &internal.Request{}

		nOps := rapid.IntRange(1, 14).Draw(t, "nOps")
		for op := 0; op < nOps; op++ {
			kind := rapid.IntRange(0, 9).Draw(t, "op")
			if kind <= 1 && op > 0 {
				// Refresh with a new version.
				version++
				next := vc11GenList(t, fmt.Sprintf("v%d", version), names)
				sizeClasses = vc11PadList(t, fmt.Sprintf("v%d", version), &next, maxSize, viaCache)
				if err = os.WriteFile(listPath, []byte(next.text), 0o644); err != nil {
					t.Fatalf("harness: %v", err)
				}

				history = append(history, fmt.Sprintf("refresh v%d size=%d list=%s", version, len(next.text), vc11ShowText(next.text)))
				if err = f.Refresh(ctx); err != nil {
					if !mayRefuse(next) {
						t.Fatalf("Refresh: %v\nhistory:\n%s", err, strings.Join(history, "\n"))
					}

					history = append(history, fmt.Sprintf("refresh failed, previous list stays: %v", err))
					st.Class("refresh-refused")
				} else {
					list = next
					st.Class(list.forms...)
					st.Class(sizeClasses...)
				}

				seen = map[vc11Lookup]bool{}

				continue
			}

			var n vc11Name
			var qt uint16
			nearMiss := ""
			switch {
			case kind <= 3 && len(lookups) > 0:
				// Repeat an earlier lookup (result cache, refresh effects).
				lu := rapid.SampledFrom(lookups).Draw(t, "again")
				n, qt = byName[lu.host], lu.qt
			case kind <= 6 && len(lookups) > 0:
				// A near miss of an earlier lookup: exactly one component
				// changed, the question type or one label of the host.
				lu := rapid.SampledFrom(lookups).Draw(t, "nearOf")
				n, qt = byName[lu.host], lu.qt
				near := vc11NearHosts(n, universe)
				if len(near) > 0 && rapid.Bool().Draw(t, "nearHost") {
					n = rapid.SampledFrom(near).Draw(t, "nearHostTo")
					nearMiss = "near-miss-host"
				} else {
					var others []uint16
					for _, o := range vc11QTypes {
						if o != qt {
							others = append(others, o)
						}
					}

					qt = rapid.SampledFrom(others).Draw(t, "nearQType")
					nearMiss = "near-miss-qtype"
					if vc11Filterable(qt) != vc11Filterable(lu.qt) {
						nearMiss = "near-miss-qtype-filterability"
					}
				}
			default:
				n = rapid.SampledFrom(universe).Draw(t, "host")
				qt = rapid.SampledFrom(vc11QTypes).Draw(t, "qt")
			}

			host := n.String()
			if !vc11TableAgrees(n) {
				vc11Inconclusive(t, "harness suffix table disagrees with publicsuffix for %q", host)
			}

			// As in the main middleware the request object is reused, the
			// host is normalised and the message keeps the client's case.
			lu := vc11Lookup{host: host, qt: qt}
			qname := dns.Fqdn(host)
			mixed := rapid.IntRange(0, 2).Draw(t, "mixCase") == 0
			if mixed {
				qname = vc11MixCase(t, qname)
			}

			req := pooled
			*req = internal.Request{
				DNS: &dns.Msg{
					MsgHdr:   dns.MsgHdr{Id: uint16(op + 1), RecursionDesired: true},
					Question: []dns.Question{{Name: qname, Qtype: qt, Qclass: dns.ClassINET}},
				},
				Messages: msgs,
				RemoteIP: filtertest.IPv4Client,
				Host:     host,
				QType:    qt,
				QClass:   dns.ClassINET,
			}
			dnsReq := req.DNS

			r, err := f.FilterRequest(ctx, req)
			history = append(history, fmt.Sprintf("lookup %s %s -> %s", vc11TypeString(qt), host, vc11ResultString(r, err)))
			if err != nil {
				t.Fatalf("FilterRequest returned an error: %v\nhistory:\n%s", err, strings.Join(history, "\n"))
			}

			if q := dnsReq.Question; len(q) != 1 || q[0].Name != qname || q[0].Qtype != qt || req.Host != host || req.QType != qt {
				t.Fatalf("FilterRequest changed the caller's request: question %v host %q\nhistory:\n%s",
					dnsReq.Question, req.Host, strings.Join(history, "\n"))
			}

			req.DNS = nil

			exp := vc11ExpectFor(n, list.listed)
			filterable := vc11Filterable(qt)
			wantMust := filterable && exp.must
			wantMustNot := !filterable || exp.mustNot

			// Classes.
			classes := []string{
				fmt.Sprintf("labels-%d", min(len(n.labels), 8)),
				fmt.Sprintf("qtype-%s", vc11TypeString(qt)),
			}
			for _, s := range vc11Suffixes {
				if len(n.labels) >= s.ps && n.vc11Tail(min(len(n.labels), s.ps)).String() == s.name {
					classes = append(classes, s.class)
					if s.outer > 0 && len(n.labels) > s.ps {
						classes = append(classes, "host-under-nested-private-suffix")
						outer := n.vc11Tail(s.outer).String()
						if filterable && len(exp.mustListed) == 1 && exp.mustListed[0] == outer {
							classes = append(classes, "listed-outer-private-zone")
						}
					}
				}
			}

			nt := ""
			switch {
			case wantMust:
				self := false
				ancestor := false
				for _, m := range exp.mustListed {
					if m == host {
						self = true
					} else {
						ancestor = true
					}
				}

				if self {
					classes = append(classes, "match-self")
				}

				// Every listed name that decides is a legal DNS name but not
				// a strict host name.
				odd := true
				for _, m := range exp.mustListed {
					odd = odd && !vc11StrictHostname(m)
				}

				if odd {
					classes = append(classes, "listed-name-not-a-strict-hostname-queried")
				}

				// Only names inside the complete public suffix but above the
				// ICANN one are listed: the documented reading decides.
				inside := true
				for _, m := range exp.mustListed {
					inside = inside && strings.Count(m, ".")+1 <= n.ps
				}

				if inside && n.icann > 0 {
					classes = append(classes, "match-private-suffix-itself")
				} else if inside {
					classes = append(classes, "match-unlisted-tld")
				}

				if ancestor {
					classes = append(classes, "match-ancestor")
					if len(n.labels) >= 3 {
						nt = fmt.Sprintf("%s|%d|%v", host, qt, vc11SortedKeys(list.listed))
					}
				}
			case !filterable && (exp.must || len(exp.freeListed) > 0):
				classes = append(classes, "unfilterable-qtype-listed")
			case filterable && exp.mustNot:
				beyond, suffix := false, false
				for _, x := range exp.excluded {
					if strings.Count(x, ".")+1 > 4 {
						beyond = true
					} else {
						suffix = true
					}
				}

				if beyond {
					classes = append(classes, "nomatch-only-beyond-cut-listed")
				}

				if suffix {
					classes = append(classes, "nomatch-only-public-suffix-listed")
				}

				if vc11TwinListed(n, list.listed) {
					classes = append(classes, "nomatch-prefix-twin-listed")
				}

				if len(exp.excluded) == 0 {
					classes = append(classes, "nomatch-nothing-related-listed")
				}
			case filterable:
				classes = append(classes, "free-private-or-unlisted-suffix-listed")
			}

			if seen[lu] {
				classes = append(classes, "relookup-same-version")
			}

			if nearMiss != "" {
				classes = append(classes, nearMiss)
			}

			if mixed {
				classes = append(classes, "dns-name-mixed-case")
			}

			if host == "" {
				classes = append(classes, "root-name")
			}

			if prevMust[lu] && wantMustNot && filterable {
				classes = append(classes, "refresh-removed")
			}

			if prevMustNot[lu] && wantMust {
				classes = append(classes, "refresh-added")
			}

			seen[lu] = true
			if filterable {
				prevMust[lu], prevMustNot[lu] = wantMust, wantMustNot
			}

			lookups = append(lookups, lu)
			st.Case(nt, classes...)
			if st.WantSample() && nt != "" {
				st.Sample(map[string]any{"history": append([]string{}, history...), "expected": "match", "must_listed": exp.mustListed})
			}

			// Verdict.
			matched := r != nil
			switch {
			case wantMust && !matched:
				t.Fatalf("COMPLETENESS: %s %s is not matched although %v listed (list %s)\nhistory:\n%s",
					vc11TypeString(qt), host, exp.mustListed, id, strings.Join(history, "\n"))
			case wantMustNot && matched:
				if filterable && vc11IsKnownPrivateTLD(n, r, list.listed) && st.Known(vc11KnownPrivateTLD) {
					continue
				}

				t.Fatalf("SOUNDNESS: %s %s is matched (%s) although no name that may be consulted is listed "+
					"(filterable=%t, listed tails that must not be consulted: %v)\nhistory:\n%s",
					vc11TypeString(qt), host, vc11ResultString(r, nil), filterable, exp.excluded, strings.Join(history, "\n"))
			}

			if !matched {
				continue
			}

			// The reported list and rule.
			gotID, gotRule := r.MatchedRule()
			if gotID != id {
				t.Fatalf("matched result names list %q, want %q\nhistory:\n%s", gotID, id, strings.Join(history, "\n"))
			}

			if !exp.rules[string(gotRule)] {
				t.Fatalf("matched result names rule %q, which is not a listed name that may be consulted for %q (allowed: %v)\nhistory:\n%s",
					gotRule, host, vc11SortedKeys(exp.rules), strings.Join(history, "\n"))
			}
		}
	})
}

// vc11PadList brings the text of l to a size chosen relative to maxSize
// (one below, equal, one above, several times) by putting blank and comment
// lines in front of it, if the text is not larger than that already, and
// returns the histogram labels of the result.  If nonEmpty is set, an empty
// text becomes one blank line.
func vc11PadList(t *rapid.T, label string, l *vc11List, maxSize int, nonEmpty bool) (classes []string) {
	if nonEmpty && l.text == "" {
		// An empty cache file means "no cache file" to the refresher.
		l.text = "\n"
	}

	target := 0
	switch rapid.SampledFrom([]string{"as-is", "as-is", "max-1", "max", "max+1", "2max+3", "5max"}).Draw(t, label+".size") {
	case "max-1":
		target = maxSize - 1
	case "max":
		target = maxSize
	case "max+1":
		target = maxSize + 1
	case "2max+3":
		target = 2*maxSize + 3
	case "5max":
		target = 5 * maxSize
	}

	// Keep the files of the biggest limit small.
	if target > 20_000 {
		target = 0
	}

	if pad := target - len(l.text); target > 0 && pad > 0 {
		b := &strings.Builder{}
		for pad > 0 {
			switch c := min(pad, 100); {
			case pad == 1:
				b.WriteString("\n")
				pad = 0
			default:
				b.WriteString("#" + strings.Repeat("p", c-2) + "\n")
				pad -= c
			}
		}

		l.text = b.String() + l.text
	}

	switch size := len(l.text); {
	case size == maxSize-1:
		classes = append(classes, "list-file-size-max-minus-1")
	case size == maxSize:
		classes = append(classes, "list-file-size-equal-max")
	case size == maxSize+1:
		classes = append(classes, "list-file-size-max-plus-1")
	}

	if len(l.text) > maxSize {
		// Only counts if a listed name lies beyond the limit.
		for name := range l.listed {
			if rest := l.text[maxSize:]; strings.Contains(rest, "\n"+name+"\n") || strings.Contains(rest, "\n"+name+"\r\n") ||
				strings.HasSuffix(rest, "\n"+name) {
				classes = append(classes, "list-file-larger-than-max-size")

				break
			}
		}
	}

	return classes
}

// vc11IsKnownPrivateTLD reports whether the match of n is the recorded
// finding: n is under a private or unlisted suffix, nothing that may be
// consulted is listed, and the reported rule is the ICANN public suffix (or
// a parent of it) within the last four labels.
func vc11IsKnownPrivateTLD(n vc11Name, r internal.Result, listed map[string]bool) bool {
	if n.ps == n.icann || n.icann == 0 {
		return false
	}

	_, rule := r.MatchedRule()
	for k := 1; k <= min(n.icann, len(n.labels), 4); k++ {
		if s := n.vc11Tail(k).String(); s == string(rule) && listed[s] {
			return true
		}
	}

	return false
}

// vc11TwinListed reports whether the prefix twin of one of the candidates of n
// is listed.
func vc11TwinListed(n vc11Name, listed map[string]bool) bool {
	reg := len(n.labels) - n.ps - 1
	if reg < 0 {
		return false
	}

	sfx := n.vc11Tail(n.ps).String()
	twin := vc11Twins()[sfx]
	other := ""
	switch n.labels[reg] {
	case vc11BaseLabel:
		other = twin
	case twin:
		other = vc11BaseLabel
	default:
		return false
	}

	// Only the registrable name has a twin with an equal prefix; it is a
	// candidate if it is within the last four labels.
	if n.ps+1 > 4 {
		return false
	}

	return listed[other+"."+sfx]
}

func vc11ResultString(r internal.Result, err error) string {
	if err != nil {
		return "error: " + err.Error()
	}

	switch r := r.(type) {
	case nil:
		return "nil"
	case *internal.ResultModifiedRequest:
		return fmt.Sprintf("ModifiedRequest{list=%s rule=%q}", r.List, r.Rule)
	case *internal.ResultModifiedResponse:
		return fmt.Sprintf("ModifiedResponse{list=%s rule=%q rcode=%d answers=%d}", r.List, r.Rule, r.Msg.Rcode, len(r.Msg.Answer))
	default:
		return fmt.Sprintf("%T", r)
	}
}
